"""Statement and expression grammar of BASIC09 as far as the translator's output needs it (the
Spec side of C01/C02/C05/C07, written from the BASIC09 reference).

Expressions: precedence, high to low — NOT and unary minus; ^ (**); * /; + -; relational;
AND; OR XOR — all binary operators left-associative.  `parse_expr` returns a tree
  ("num", text) ("str", text) ("id", name) ("call", name, [args]) ("un", op, e) ("bin", op, l, r)
or raises ParseFail.  `check_program` checks a whole emitted program: every statement complete,
every block opener closed in the right order.
"""
import b09text as T


class ParseFail(Exception):
    pass


BIN_LEVELS = [
    ({"OR", "XOR"}, 1),
    ({"AND"}, 2),
    ({"=", "<>", "<", ">", "<=", ">=", "=<", "=>"}, 3),
    ({"+", "-"}, 4),
    ({"*", "/"}, 5),
    ({"^", "**"}, 6),
]


def _binop(tok):
    k, t = tok
    u = t.upper()
    for ops, lvl in BIN_LEVELS:
        if (k == "op" and t in ops) or (k == "id" and u in ops):
            return u, lvl
    return None


class ExprParser:
    def __init__(self, toks):
        self.toks = toks
        self.i = 0

    def peek(self):
        return self.toks[self.i] if self.i < len(self.toks) else (None, None)

    def next(self):
        t = self.peek()
        self.i += 1
        return t

    def parse(self, min_lvl=1):
        left = self.unary()
        while True:
            op = _binop(self.peek()) if self.peek()[0] else None
            if not op or op[1] < min_lvl:
                return left
            self.next()
            right = self.parse(op[1] + 1)          # left-associative
            left = ("bin", op[0], left, right)

    def unary(self):
        k, t = self.peek()
        if k == "op" and t in "+-":
            self.next()
            return ("un", t, self.unary())          # binds tighter than ^
        if k == "id" and t.upper() == "NOT":
            self.next()
            return ("un", "NOT", self.unary())
        return self.primary()

    def primary(self):
        k, t = self.next()
        if k in ("num", "hex"):
            return ("num", t)
        if k == "str":
            if len(t) < 2 or not t.endswith('"'):
                raise ParseFail("unterminated string literal")
            return ("str", t[1:-1])
        if (k, t) == ("op", "("):
            e = self.parse()
            if self.next() != ("op", ")"):
                raise ParseFail("missing )")
            return e
        if k == "id":
            if t.upper() in ("THEN", "TO", "STEP", "GOTO", "GOSUB", "ELSE", "RUN", "AND", "OR", "XOR"):
                raise ParseFail(f"operand missing before {t}")
            if self.peek() == ("op", "("):
                self.next()
                args = []
                if self.peek() == ("op", ")"):
                    raise ParseFail(f"empty argument list of {t}")
                while True:
                    args.append(self.parse())
                    nk, nt = self.next()
                    if (nk, nt) == ("op", ")"):
                        break
                    if (nk, nt) != ("op", ","):
                        raise ParseFail(f"bad argument list of {t}")
                return ("call", t, args)
            return ("id", t)
        if k is None:
            raise ParseFail("operand missing at end of expression")
        raise ParseFail(f"operand missing before {t!r}")


def parse_expr(toks):
    if not toks:
        raise ParseFail("empty expression")
    p = ExprParser(toks)
    e = p.parse()
    if p.i != len(toks):
        raise ParseFail(f"unexpected {toks[p.i][1]!r} in expression")
    return e


def _find_kw(toks, word, start=0):
    depth = 0
    for i in range(start, len(toks)):
        k, t = toks[i]
        if k == "op" and t == "(":
            depth += 1
        elif k == "op" and t == ")":
            depth -= 1
        elif depth == 0 and k == "id" and t.upper() == word:
            return i
    return -1


def check_args(toks):
    """comma-separated expressions"""
    args = T.split_args(toks)
    if not args:
        raise ParseFail("empty argument list")
    return [parse_expr(a) for a in args]


def parse_statement(toks):
    """('kind', payload…) for one statement, or raises ParseFail.  Block keywords return
    ('open', X) / ('close', X) / ('mid', X)."""
    if not toks:
        raise ParseFail("empty statement")
    k0, t0 = toks[0]
    u = t0.upper() if k0 == "id" else None
    if k0 == "comment":
        if not t0.endswith("*)"):
            raise ParseFail("comment not closed")
        if len(toks) > 1:
            raise ParseFail("text after the end of a comment")
        return ("comment",)
    if any(k == "comment" for k, _ in toks):
        raise ParseFail("comment inside a statement")
    if any(k == "other" for k, _ in toks):
        raise ParseFail(f"stray character {[t for k, t in toks if k == 'other'][0]!r}")
    if u == "IF":
        th = _find_kw(toks, "THEN")
        if th < 0:
            raise ParseFail("IF without THEN")
        cond = parse_expr(toks[1:th])
        rest = toks[th + 1:]
        if not rest:
            return ("open", "IF", cond)
        if len(rest) == 1 and rest[0][0] == "num":
            return ("ifgoto", cond, int(float(rest[0][1])))
        raise ParseFail("text after THEN")
    if u == "EXITIF":
        th = _find_kw(toks, "THEN")
        if th < 0 or th != len(toks) - 1:
            raise ParseFail("EXITIF without THEN")
        return ("open", "EXITIF", parse_expr(toks[1:th]))
    if u in ("ELSE", "ENDIF", "LOOP", "ENDLOOP", "ENDEXIT") and len(toks) == 1:
        return {"ELSE": ("mid", "ELSE"), "ENDIF": ("close", "IF"), "LOOP": ("open", "LOOP"),
                "ENDLOOP": ("close", "LOOP"), "ENDEXIT": ("close", "EXITIF")}[u]
    if u == "FOR":
        if len(toks) < 6 or toks[1][0] != "id" or toks[2] != ("op", "="):
            raise ParseFail("malformed FOR")
        to = _find_kw(toks, "TO")
        if to < 0:
            raise ParseFail("FOR without TO")
        st = _find_kw(toks, "STEP", to)
        a = parse_expr(toks[3:to])
        b = parse_expr(toks[to + 1:st if st >= 0 else len(toks)])
        s = parse_expr(toks[st + 1:]) if st >= 0 else None
        return ("for", toks[1][1], a, b, s)
    if u == "NEXT":
        if len(toks) != 2 or toks[1][0] != "id":
            raise ParseFail("NEXT without a variable")
        return ("next", toks[1][1])
    if u in ("GOTO", "GOSUB"):
        if len(toks) != 2 or toks[1][0] != "num":
            raise ParseFail(f"{u} without a line number")
        return (u.lower(), int(float(toks[1][1])))
    if u == "ON":
        if len(toks) >= 4 and toks[1][0] == "id" and toks[1][1].upper() == "ERROR":
            if toks[2][1].upper() != "GOTO" or toks[3][0] != "num" or len(toks) != 4:
                raise ParseFail("malformed ON ERROR GOTO")
            return ("onerror", int(float(toks[3][1])))
        g = max(_find_kw(toks, "GOTO"), _find_kw(toks, "GOSUB"))
        if g < 0:
            raise ParseFail("ON without GOTO/GOSUB")
        sel = parse_expr(toks[1:g])
        nums = T.split_args(toks[g + 1:])
        if not nums or any(len(n) != 1 or n[0][0] != "num" for n in nums):
            raise ParseFail("malformed line list")
        return ("ongo", toks[g][1].upper(), sel, [int(float(n[0][1])) for n in nums])
    if u == "RUN":
        if len(toks) < 2 or toks[1][0] != "id":
            raise ParseFail("RUN without a name")
        if len(toks) == 2:
            return ("run", toks[1][1], [])
        if toks[2] != ("op", "(") or toks[-1] != ("op", ")"):
            raise ParseFail("malformed RUN")
        return ("run", toks[1][1], check_args(toks[3:-1]))
    if u == "PRINT":
        items = []
        cur = []
        depth = 0
        for tk in toks[1:]:
            if tk[0] == "op" and tk[1] == "(":
                depth += 1
            elif tk[0] == "op" and tk[1] == ")":
                depth -= 1
            if depth == 0 and tk in (("op", ";"), ("op", ",")):
                if not cur:
                    raise ParseFail("PRINT separator without an item before it")
                items.append(parse_expr(cur))
                items.append(tk[1])
                cur = []
            else:
                cur.append(tk)
        if cur:
            items.append(parse_expr(cur))
        return ("print", items)
    if u in ("INPUT", "READ"):
        body = toks[1:]
        prompt = None
        if u == "INPUT":
            if len(body) < 3 or body[0][0] != "str" or body[1] != ("op", ","):
                raise ParseFail("INPUT without prompt")
            prompt = parse_expr(body[:1])
            body = body[2:]
        return (u.lower(), prompt, check_args(body))
    if u == "DATA":
        return ("data", check_args(toks[1:]))
    if u in ("DIM", "TYPE", "BASE", "PARAM"):
        return ("decl", u, toks)
    if u == "POKE":
        a = check_args(toks[1:])
        if len(a) != 2:
            raise ParseFail("POKE needs two operands")
        return ("poke", a)
    if u in ("END", "STOP", "RETURN", "RESTORE", "TRON", "TROFF") and len(toks) == 1:
        return ("kw", u)
    # assignment
    start = 1 if u == "LET" else 0
    asg = next((i for i, tk in enumerate(toks) if tk == ("op", ":=")), -1)
    if asg < 0:
        raise ParseFail(f"unknown statement starting with {t0!r}")
    lhs = parse_expr(toks[start:asg])
    if lhs[0] not in ("id", "call"):
        raise ParseFail("bad assignment target")
    return ("assign", lhs, parse_expr(toks[asg + 1:]))


def check_program(lines):
    """None when every statement parses and blocks are balanced, else (line index, reason)"""
    stack = []
    for k, line in enumerate(lines):
        if line.strip() == "":
            continue
        lab, rest = T.line_label(line)
        toks = T.tokens(rest)
        if lab is not None and not toks:
            continue                      # a line that holds only its label (the source line had no statement)
        for st in T.split_statements(toks):
            if not st:
                return k, "empty statement (nothing between two separators)"
            try:
                node = parse_statement(st)
            except ParseFail as e:
                return k, str(e)
            if node[0] == "open":
                stack.append(node[1])
            elif node[0] == "mid":
                if not stack or stack[-1] != "IF":
                    return k, "ELSE outside IF"
            elif node[0] == "close":
                if not stack or stack[-1] != node[1]:
                    return k, f"{ {'IF': 'ENDIF', 'LOOP': 'ENDLOOP', 'EXITIF': 'ENDEXIT'}[node[1]] } without its opener"
                stack.pop()
    if stack:
        return len(lines) - 1, f"{stack[-1]} block is not closed"
    return None
