"""The real front end (grammar + BasicVisitor) on a text: the dump of the object graph it builds, or
how it fails; plus the table of Python float() / repr() results for the numeric literals of the
text, which the model takes as a parameter."""
from parsimonious.exceptions import IncompleteParseError, ParseError, VisitationError

import dump_ast


def float_table(tree):
    """'text\\trepr' lines for every num_literal node of the real parse tree (`!` = ValueError)"""
    seen, out = set(), []
    stack = [tree]
    while stack:
        t = stack.pop()
        if t.expr_name == "num_literal":
            txt = t.text.replace(" ", "")
            if txt not in seen:
                seen.add(txt)
                try:
                    out.append(f"{txt}\t{float(txt)!r}")
                except ValueError:
                    out.append(f"{txt}\t!")
        stack.extend(t.children)
    return "\n".join(out)


def front(text):
    """(outcome, float table): outcome = 'ok <sexp>' | 'nomatch' | 'incomplete <pos>' | 'raise <ExceptionName>'"""
    from coco.b09.grammar import grammar
    from coco.b09.parser import BasicVisitor
    try:
        tree = grammar.parse(text)
    except IncompleteParseError as e:
        return f"incomplete {e.pos}", ""
    except ParseError:
        return "nomatch", ""
    except RecursionError:
        return "raise RecursionError", ""
    table = float_table(tree)
    try:
        return "ok " + dump_ast.prog(BasicVisitor().visit(tree)), table
    except VisitationError as e:
        return "raise " + (str(e).split(":")[0].split("\n")[0].strip() or "VisitationError"), table
    except RecursionError:
        return "raise RecursionError", table
    except Exception as e:  # noqa: BLE001
        return "raise " + type(e).__name__, table
