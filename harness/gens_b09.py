"""Seeded, typed, grammar-directed generator of Color BASIC programs (mostly valid), plus the
malformed stream (token deletion / duplication / swap, extreme literals) and option sets."""
import glob
import os
import re

from common import REPO

NUM_VARS = ["A", "B", "C", "X", "Y", "I", "J", "N", "AB", "X1", "Z9", "SC", "COUNT", "SUM", "LL", "A2", "XYZZY"]
STR_VARS = ["A$", "B$", "N$", "NM$", "X1$", "LONGNAME$", "K$", "AB$"]
NUM_ARRS = ["A", "M", "TB", "Q1", "GRID"]
STR_ARRS = ["A$", "W$", "NM$"]
NUM_FUNCS1 = ["ABS", "ATN", "COS", "EXP", "FIX", "LOG", "PEEK", "RND", "SGN", "SIN", "SQR", "TAN"]


class Gen:
    def __init__(self, r, max_depth=3, spaces=True):
        self.r = r
        self.max_depth = max_depth
        self.spaces = spaces
        self.lines = []

    # ------------------------------------------------------------ tokens
    def sp(self):
        return self.r.choice(["", "", " "]) if self.spaces else ""

    def numlit(self):
        r = self.r
        k = r.randrange(12)
        if k < 4:
            return str(r.choice([0, 1, 2, 3, 5, 10, 15, 31, 32, 100, 255, 256, 1000, 32767, 65496, 65497, 65535]))
        if k == 4:
            return r.choice(["1.5", ".5", "0.25", "3.14159", "10.0", "2.", "100.125"])
        if k == 5:
            return r.choice(["1E3", "2.5E-2", "1E+2", "6.02E23", "1E-5", "12E0"])
        if k == 6:
            return "&H" + r.choice(["0", "F", "FF", "1F", "7FFF", "8000", "FFFF", "FF9A", "10000"])
        if k == 7:
            return str(r.randrange(0, 100000))
        if k == 8:
            return r.choice(["-1", "-2.5", "+3"])
        return str(r.randrange(0, 50))

    def strlit(self):
        return '"' + self.r.choice(["", "A", "HELLO", "HI THERE", "X=1:Y", "RUN ecb_cls", "IT'S", "a,b", ": STRING<<>>",
                                    "PROCEDURE x", "REM", "  ", "1+2", "(*", "*)", "THEN"]) + '"'

    def numvar(self):
        return self.r.choice(NUM_VARS)

    def strvar(self):
        return self.r.choice(STR_VARS)

    def explist(self, d, n=None):
        n = n or self.r.choice([1, 1, 1, 2, 3])
        return "(" + ",".join(self.num(d) for _ in range(n)) + ")"

    def numarr(self, d):
        return self.r.choice(NUM_ARRS) + self.explist(d)

    def strarr(self, d):
        return self.r.choice(STR_ARRS) + self.explist(d)

    # ------------------------------------------------------------ expressions
    # follows the grammar's ladder: exp = NOT? or ; or = and (OR and)* ; and = gtle (AND gtle)* ;
    # gtle = sum (rel sum)? ; sum = prod ((+|-) prod)* ; prod = pow ((*|/) pow)* ; pow = val (^ val)*
    def num(self, d=None):
        r = self.r
        d = self.max_depth if d is None else d
        pre = "NOT " if d > 0 and r.randrange(12) == 0 else ""
        return pre + self.or_exp(d)

    def chain(self, d, sub, ops, p):
        r = self.r
        out = sub(d)
        n = 0
        while d > 0 and r.randrange(100) < p and n < 3:
            sp = self.sp()
            out += f"{sp}{r.choice(ops)}{sp}{sub(d - 1)}"
            n += 1
        return out

    def or_exp(self, d):
        return self.chain(d, self.and_exp, [" OR "], 8)

    def and_exp(self, d):
        return self.chain(d, self.gtle, [" AND "], 8)

    def gtle(self, d):
        r = self.r
        out = self.sum_exp(d)
        if d > 0 and r.randrange(14) == 0:
            out += r.choice(["=", "<>", "<", ">", "<=", ">=", "=<", "=>"]) + self.sum_exp(d - 1)
        return out

    def sum_exp(self, d):
        return self.chain(d, self.prod_exp, ["+", "-"], 30)

    def prod_exp(self, d):
        return self.chain(d, self.pow_exp, ["*", "/"], 22)

    def pow_exp(self, d):
        return self.chain(d, self.val, ["^"], 12)

    def val(self, d):
        r = self.r
        if d <= 0:
            return r.choice([self.numlit, self.numvar, self.numvar])()
        k = r.randrange(22)
        s = self.sp
        if k == 0:
            return f"({s()}{self.num(d - 1)}{s()})"
        if k == 1:
            return r.choice(["-", "+", "-"]) + s() + self.num(d - 1)
        if k == 2:
            return f"{r.choice(NUM_FUNCS1)}({self.num(d - 1)})"
        if k == 3:
            return f"INT({self.num(d - 1)})"
        if k == 4:
            return f"{r.choice(['LEN', 'ASC', 'VAL'])}({self.str(d - 1)})"
        if k == 5:
            return f"INSTR({self.num(d - 1)},{self.str(d - 1)},{self.str(d - 1)})"
        if k == 6:
            return r.choice([f"POINT({self.num(d - 1)},{self.num(d - 1)})", f"BUTTON({self.num(d - 1)})",
                             f"JOYSTK({self.num(d - 1)})"])
        if k == 7:
            return self.numarr(d - 1)
        if k == 8:
            return r.choice([f"VARPTR({self.numvar()})", f"VARPTR({self.strvar()})", "ERNO",
                             f"VARPTR({self.numarr(d - 2)})"])
        if k < 12:
            return self.numlit()
        return self.numvar()

    def str(self, d=None):
        r = self.r
        d = self.max_depth if d is None else d
        if d <= 0:
            return r.choice([self.strlit, self.strvar, self.strvar])()
        k = r.randrange(14)
        if k < 2:
            return f"{self.str(d - 1)}+{self.str(d - 1)}"
        if k == 2:
            return f"{r.choice(['LEFT$', 'RIGHT$'])}({self.str(d - 1)},{self.num(d - 1)})"
        if k == 3:
            return f"MID$({self.str(d - 1)},{self.num(d - 1)},{self.num(d - 1)})"
        if k == 4:
            return f"{r.choice(['CHR$', 'STR$', 'HEX$'])}({self.num(d - 1)})"
        if k == 5:
            return f"STRING$({self.num(d - 1)},{self.str(d - 1)})"
        if k == 6:
            return "INKEY$"
        if k == 7:
            return self.strarr(d - 1)
        if k == 8:
            return self.strlit()
        return self.strvar()

    def cond(self, d=None):
        r = self.r
        d = self.max_depth if d is None else d
        if r.randrange(8) == 0:
            return self.num(d)            # bare numeric condition (if_exp = bool_exp / num_exp)
        pre = "NOT " if r.randrange(8) == 0 else ""
        return pre + self.chain(d, lambda dd: self.chain(dd, self.bool_val, [" AND "], 25), [" OR "], 20)

    def bool_val(self, d):
        r = self.r
        rel = r.choice(["=", "<>", "<", ">", "<=", ">=", "=<", "=>"])
        k = r.randrange(8)
        if d > 0 and k == 0:
            return f"({self.cond(d - 1)})"
        if k == 1:
            return f"{self.str(max(0, d - 1))}{rel}{self.str(max(0, d - 1))}"
        return f"{self.sum_exp(max(0, d - 1))}{self.sp()}{rel}{self.sp()}{self.sum_exp(max(0, d - 1))}"

    # ------------------------------------------------------------ statements
    def target(self):
        return str(self.r.choice(self.lines)) if self.lines and self.r.randrange(12) else str(self.r.choice([5, 99999, 70000]))

    def coords(self, d):
        return f"({self.num(d)},{self.num(d)})"

    def simple_stmt(self, d=2, allow_if=True):
        r = self.r
        k = r.randrange(64)
        s = self.sp
        let = r.choice(["", "", "", "LET "])
        if k < 6:
            return f"{let}{self.numvar()}{s()}={s()}{self.num(d)}"
        if k < 9:
            return f"{let}{self.strvar()}={self.str(d)}"
        if k == 9:
            return f"{let}{self.numarr(d - 1)}={self.num(d)}"
        if k == 10:
            return f"{let}{self.strarr(d - 1)}={self.str(d)}"
        if k < 15:
            return self.print_stmt(d)
        if k == 15:
            return f"GOTO {self.target()}"
        if k == 16:
            return f"GOSUB {self.target()}"
        if k == 17:
            return f"ON {self.num(d)} {r.choice(['GOTO', 'GOSUB'])} " + ",".join(self.target() for _ in range(r.choice([1, 2, 3])))
        if k == 18:
            return r.choice(["END", "STOP", "RETURN", "RESTORE", "TRON", "TROFF"])
        if k == 19:
            return "DATA " + ",".join(self.data_item() for _ in range(r.choice([1, 2, 3, 5])))
        if k == 20:
            return "READ " + ",".join(self.rhs(d) for _ in range(r.choice([1, 2, 3])))
        if k == 21:
            return "DIM " + ",".join(self.dim_var() for _ in range(r.choice([1, 1, 2, 3])))
        if k == 22:
            prompt = r.choice(["", "", self.strlit() + ";"])
            return r.choice(["INPUT ", "INPUT", "LINE INPUT "]) + prompt + ",".join(self.rhs(d) for _ in range(r.choice([1, 1, 2])))
        if k == 23:
            return r.choice(["CLS", f"CLS {self.num(d)}", "CLS0"])
        if k == 24:
            return f"SOUND {self.num(d)},{self.num(d)}"
        if k == 25:
            return f"POKE {r.choice([self.num(d), '65496', '65497', '&HFFD8', '&HFFD9', '65496.0'])},{self.num(d)}"
        if k == 26:
            return f"PLAY {self.str(d)}"
        if k == 27:
            return r.choice(["REM", "'"]) + r.choice([" hello", "", " IF X THEN", " *) x", ' a "quote', " RUN foo", "A:B", " RUN ecb_hex", " see RUN ecb_point(x)"])
        if k == 28:
            return f"WIDTH {self.num(d)}"
        if k == 29:
            return f"LOCATE {self.num(d)},{self.num(d)}"
        if k == 30:
            return f"ATTR {self.num(d)},{self.num(d)}" + r.choice(["", ",B", ",U", ",B,U", ",U,B,U"])
        if k == 31:
            return r.choice(["RGB", "CMP", "PALETTE RGB", "PALETTE CMP", f"PALETTE {self.num(d)},{self.num(d)}"])
        if k == 32:
            return r.choice(["HSCREEN", f"HSCREEN {self.num(d)}", "HCLS", f"HCLS {self.num(d)}"])
        if k == 33:
            base = f"HCIRCLE{self.coords(d)},{self.num(d)}"
            return base + r.choice(["", f",{self.num(d)}", f",{self.num(d)},{self.num(d)}", f",,{self.num(d)}",
                                    f",{self.num(d)},{self.num(d)},{self.num(d)},{self.num(d)}",
                                    f",,{self.num(d)},{self.num(d)},{self.num(d)}"])
        if k == 34:
            return f"HPRINT({self.num(d)},{self.num(d)}),{r.choice([self.str(d), self.num(d)])}"
        if k == 35:
            return r.choice([f"HCOLOR {self.num(d)}", f"HCOLOR {self.num(d)},{self.num(d)}"])
        if k == 36:
            src = r.choice(["", self.coords(d)])
            return f"HLINE{src}-{self.coords(d)},{r.choice(['PSET', 'PRESET'])}{r.choice(['', ',B', ',BF'])}"
        if k == 37:
            return r.choice([f"HSET{self.coords(d)}", f"HRESET{self.coords(d)}",
                             f"HSET({self.num(d)},{self.num(d)},{self.num(d)})"])
        if k == 38:
            return f"HDRAW {self.str(d)}"
        if k == 39:
            return f"HBUFF {self.num(d)},{self.num(d)}"
        if k == 40:
            return f"HGET{self.coords(d)}-{self.coords(d)},{self.num(d)}"
        if k == 41:
            return f"HPUT{self.coords(d)}-{self.coords(d)},{self.num(d)},{r.choice(['AND', 'NOT', 'OR', 'PRESET', 'PSET', 'XOR'])}"
        if k == 42:
            return f"HPAINT{self.coords(d)}" + r.choice(["", f",{self.num(d)}", f",{self.num(d)},{self.num(d)}"])
        if k == 43:
            return r.choice([f"SET({self.num(d)},{self.num(d)},{self.num(d)})", f"RESET({self.num(d)},{self.num(d)})"])
        if k == 44:
            return r.choice(["CLEAR", f"CLEAR {self.num(0)}", "CLEAR 200"])
        if k == 45:
            return f"ON {r.choice(['ERR', 'BRK'])} GOTO {self.target()}"
        if k == 46:
            return f"PRINT@{self.num(d)}" + r.choice(["", "," + self.print_args(d)])
        if k < 52 and allow_if:
            return self.if_stmt(d)
        if k < 56:
            v = self.numvar()
            step = r.choice(["", "", f" STEP {self.num(d)}"])
            return f"FOR {v}={self.num(d)} TO {self.num(d)}{step}"
        if k < 60:
            return "NEXT" + r.choice(["", " " + self.numvar(), f" {self.numvar()},{self.numvar()}"])
        return f"{self.numvar()}={self.num(d)}"

    def data_item(self):
        r = self.r
        return r.choice([self.numlit(), self.strlit(), "HELLO", "", "", " X Y ", "&HFF", "1E2", "-5", "A B"])

    def rhs(self, d):
        r = self.r
        return r.choice([self.numvar, self.strvar, lambda: self.numarr(d - 1), lambda: self.strarr(d - 1)])()

    def dim_var(self):
        r = self.r
        k = r.randrange(6)
        b = lambda: r.choice(["5", "10", "2", "&HF", "0", "100"])  # noqa: E731
        name = r.choice(NUM_ARRS + STR_ARRS + ["ZZ", "ZZ$", "D1", "D2$"])
        if k == 0:
            return r.choice(NUM_VARS + STR_VARS)
        if k == 1:
            return f"{name}({b()},{b()})"
        if k == 2:
            return f"{name}({b()},{b()},{b()})"
        return f"{name}({b()})"

    def print_args(self, d):
        r = self.r
        items = []
        for _ in range(r.choice([0, 1, 1, 2, 3, 4])):
            items.append(r.choice([lambda: self.num(d), lambda: self.str(d), lambda: ";", lambda: ",",
                                   lambda: self.strlit(), lambda: f"TAB({self.num(d - 1)})"])())
        return r.choice(["", " "]).join(items)

    def print_stmt(self, d):
        return self.r.choice(["PRINT", "PRINT ", "?"]) + self.print_args(d)

    def branch(self, d):
        r = self.r
        if r.randrange(3) == 0:
            return self.target()
        return ":".join(self.simple_stmt(d - 1, allow_if=r.randrange(4) == 0) for _ in range(r.choice([1, 1, 2])))

    def if_stmt(self, d):
        r = self.r
        s = f"IF {self.cond(d)} THEN {self.branch(d)}"
        k = r.randrange(6)
        if k == 0:
            s += f" ELSE {self.branch(d)}"
        elif k == 1:
            for _ in range(r.choice([1, 2])):
                s += f" ELSE IF {self.cond(d)} THEN {self.branch(d)}"
            if r.randrange(2):
                s += f" ELSE {self.branch(d)}"
        return s

    def program(self, nlines=None):
        r = self.r
        nlines = nlines or r.choice([1, 2, 3, 5, 8, 12])
        nums, n = [], r.choice([0, 1, 10, 100])
        for _ in range(nlines):
            nums.append(n)
            n += r.choice([1, 5, 10, 10, 10, 100])
        if r.randrange(20) == 0:
            nums[-1] = r.choice([32699, 32700, 40000])
        self.lines = nums
        out = []
        for num in nums:
            stmts = [self.simple_stmt(self.max_depth) for _ in range(r.choice([1, 1, 1, 2, 3]))]
            sep = r.choice([":", ":", " : ", ": "]) if self.spaces else ":"
            out.append(f"{num} " + sep.join(stmts))
        return "\n".join(out)


def example_programs():
    out = []
    for f in sorted(glob.glob(os.path.join(REPO, "examples", "**", "*.bas"), recursive=True)
                    + glob.glob(os.path.join(REPO, "playground", "**", "*.bas"), recursive=True)):
        with open(f) as fh:
            out.append(fh.read())
    return out


def test_suite_programs():
    """the program texts of tests/coco_tests/b09/test_b09.py, extracted as a corpus"""
    path = os.path.join(REPO, "tests", "coco_tests", "b09", "test_b09.py")
    try:
        src = open(path).read()
    except OSError:
        return []
    out = []
    for m in re.finditer(r'"((?:\d+ [^"\\]|\\.)(?:[^"\\]|\\.)*)"', src):
        s = m.group(1)
        try:
            s = bytes(s, "utf-8").decode("unicode_escape")
        except Exception:  # noqa: BLE001
            continue
        if re.match(r"\d+ ", s) and len(s) < 400:
            out.append(s)
    return sorted(set(out))


FLAG_SETS_QUICK = ["1100000", "1101110", "0000100", "1111011", "1110100", "0101000"]


def option_sets(r, n, all_flags=False):
    out = []
    for _ in range(n):
        flags = "".join(r.choice("01") for _ in range(7)) if all_flags else r.choice(FLAG_SETS_QUICK)
        sizes = []
        if r.randrange(3) == 0:
            sizes = r.sample([("A$", 10), ("B$", 200), ("NM$", 5), ("A$()", 40), ("W$()", 12), ("ZZ$()", 7), ("K$", 33)],
                             r.choice([1, 2, 3]))
        out.append({"flags": flags, "storage": r.choice([32, 32, 80, 255, 1]),
                    "procname": r.choice(["prog", "", "my_prog", "ecb_cls", "9x", "a-b", "game\n", "x ", " x", "a.b", "ok_1", "\nq", "n\r"]),
                    "sizes": sizes})
    return out


def mutate(r, text):
    """the malformed stream: token deletion / duplication / swap, extreme literals"""
    toks = re.findall(r"[A-Z]+\$?|\d+|\"[^\"]*\"?|.|\n", text)
    if len(toks) < 2:
        return text
    k = r.randrange(6)
    i = r.randrange(len(toks))
    if k == 0:
        del toks[i]
    elif k == 1:
        toks.insert(i, toks[i])
    elif k == 2:
        j = r.randrange(len(toks))
        toks[i], toks[j] = toks[j], toks[i]
    elif k == 3:
        toks[i] = r.choice(["1E", ".", "+-1", "1E999", "&H", "&HGG", "1E-999", "99999999999999999999", "((((", "\"", ":", ",",
                            "THEN", "ELSE", "$", "%", "\x00", "é"])
    elif k == 4:
        toks.insert(i, r.choice(["(", ")", ",", ";", " ", "-", "NOT", "="]))
    else:
        toks[i] = toks[i].lower()
    return "".join(toks)
