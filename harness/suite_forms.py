"""Device-statement forms suite (C04): every form of `Spec.Device.forms` (listed by the driver)
is instantiated with sentinel operands and with a set of operand expressions, converted by the
real `convert`, and the RUN call found in the output is compared with `Spec.Device.expected`."""
import re

import b09text as T
from common import hexs, rng, run_driver, unhex

NUM_OPERANDS = ["S{k}", "S{k}+1", "(S{k})", "-S{k}", "{k}", "&HF{k}", "S{k}*2-1", "QQ(S{k})", "ABS(S{k})", "S{k} AND 3", "NOT S{k}",
                "INT(S{k})", "BUTTON(S{k})", "INT(S{k}/2)"]
WRAPPED = {"INT": "ecb_int", "BUTTON": "ecb_button"}
STR_OPERANDS = ["T{k}$", "\"lit{k}\"", "T{k}$+\"x\"", "LEFT$(T{k}$,2)", "CHR$(6{k})"]


def operand_text(src):
    """BASIC09 text of a numeric / string operand expression, as the real converter writes it"""
    from coco.b09.compiler import convert
    is_str = src.startswith(("T", "\"", "LEFT$", "CHR$"))
    out = convert(f"10 {'ZQ$' if is_str else 'ZQ'}={src}", add_standard_prefix=False, add_suffix=False)
    line = [l for l in out.split("\n") if l.startswith("10 ")][0]
    return line.split(" := ", 1)[1]


def forms():
    ans = run_driver(["devforms"])[0]
    rows = [r.split("\t") for r in unhex(ans[3:]).decode().split("\n")]
    return [{"name": n, "template": t, "proc": p} for n, t, p in rows]


def instantiate(template, nums, strs):
    def rn(m):
        return nums[int(m.group(1)) - 1]

    def rs(m):
        return strs[int(m.group(1)) - 1]
    return re.sub(r"\$(\d)", rs, re.sub(r"#(\d)", rn, template))


def cases(tier):
    r = rng("forms-suite")
    out = []
    for f in forms():
        nnum = len(set(re.findall(r"#(\d)", f["template"])))
        nstr = len(set(re.findall(r"\$(\d)", f["template"])))
        variants = [0] if tier != "thorough" else range(len(NUM_OPERANDS))
        picks = [(0, 0)] + [(r.randrange(len(NUM_OPERANDS)), r.randrange(len(STR_OPERANDS))) for _ in range(3 if tier != "thorough" else 12)]
        combos = []
        for a, b in picks:
            nums = [NUM_OPERANDS[(a + k) % len(NUM_OPERANDS) if a else 0].format(k=k + 1) for k in range(nnum)]
            strs = [STR_OPERANDS[(b + k) % len(STR_OPERANDS) if b else 0].format(k=k + 1) for k in range(nstr)]
            combos.append((a, b, nums, strs))
        for p in range(nnum):        # every numeric operand position once with an operand that needs a temporary
            nums = [("INT(S{k})" if k == p else "S{k}").format(k=k + 1) for k in range(nnum)]
            combos.append((1, 1, nums, [STR_OPERANDS[0].format(k=k + 1) for k in range(nstr)]))
        if nnum >= 2:                # every numeric operand a function nested in a function: 2·nnum temporaries alive at once
            combos.append((1, 1, ["INT(INT(S{k}))".format(k=k + 1) for k in range(nnum)],
                           [STR_OPERANDS[0].format(k=k + 1) for k in range(nstr)]))
            combos.append((1, 1, [("INT(INT(S{k}))" if k % 2 == 0 else "INT(S{k})").format(k=k + 1) for k in range(nnum)],
                           [STR_OPERANDS[0].format(k=k + 1) for k in range(nstr)]))
        for special in ("-S{k}+8", "NOT S{k}", "+S{k}"):   # ... and once with an operand that starts with a sign / NOT
            for p in range(nnum):
                nums = [(special if k == p else "S{k}").format(k=k + 1) for k in range(nnum)]
                combos.append((1, 1, nums, [STR_OPERANDS[0].format(k=k + 1) for k in range(nstr)]))
        # the same form twice in one program, with different operands and a different result variable: each statement
        # must get its own call with its own operands (no node, destination or temporary shared between the two)
        n1, s1 = ["S{k}".format(k=k + 1) for k in range(nnum)], ["T{k}$".format(k=k + 1) for k in range(nstr)]
        n2, s2 = ["S{k}".format(k=k + 6) for k in range(nnum)], ["T{k}$".format(k=k + 6) for k in range(nstr)]
        b1, b2 = instantiate(f["template"], n1, s1), instantiate(f["template"], n2, s2).replace("ZZ", "YY")
        for src in (f"10 {b1}\n20 {b2}", f"10 {b1}:{b2}"):
            out.append({"fmt": "forms", "kind": f["name"], "form": f, "text": src, "nums": n1, "strs": s1, "twice": (n2, s2),
                        "req": f"form {f['name']} {hexs(src.encode())}"})
        # literal operands that are also spelled in a DATA statement with an empty item (whose numbers become strings)
        if nnum:
            nl = [str(k + 1) for k in range(nnum)]
            sl = [STR_OPERANDS[0].format(k=k + 1) for k in range(nstr)]
            src = "10 " + instantiate(f["template"], nl, sl) + "\n20 DATA 1,,2,3,4,5,6,7,8,9\n30 READ P,Q"
            out.append({"fmt": "forms", "kind": f["name"], "form": f, "text": src, "nums": nl, "strs": sl,
                        "req": f"form {f['name']} {hexs(src.encode())}"})
        for a, b, nums, strs in combos:
            body = instantiate(f["template"], nums, strs)
            # layouts: as written; blanks after commas and a blank + another statement behind it; trailing blank
            layouts = [body, body.replace(",", ", ") + " : STOP", body + " "]
            for src in (["10 " + layouts[0]] if (a, b) != (0, 0) else ["10 " + l for l in layouts]):
                out.append({"fmt": "forms", "kind": f["name"], "form": f, "text": src, "nums": nums, "strs": strs,
                            "req": f"form {f['name']} {hexs(src.encode())}"})
    return out


def find_call(out, proc, nth=0):
    seen = 0
    for line in out.split("\n"):
        for callee, args, idx in T.run_calls(T.code_tokens(T.line_label(line)[1])):
            if callee == proc:
                seen += 1
                if seen <= nth:
                    continue
                ms = list(re.finditer(r"(?i)\brun\s+" + re.escape(proc) + r"\b", line))
                same_line_before = sum(1 for c2, _, i2 in T.run_calls(T.code_tokens(T.line_label(line)[1])) if c2 == proc and i2 < idx)
                m = ms[min(same_line_before, len(ms) - 1)]
                # text of the call: from RUN to its closing parenthesis
                s = line[m.start():]
                depth, k = 0, s.find("(")
                if k < 0:
                    return s.strip()
                j = k
                while j < len(s):
                    if s[j] == "(":
                        depth += 1
                    elif s[j] == ")":
                        depth -= 1
                        if depth == 0:
                            break
                    j += 1
                return s[:j + 1]
    return None


def operand_texts(srcs):
    """expected BASIC09 text of each operand; an operand that is a convertible function is a
    numeric temporary (numbered in operand order) filled by its wrapper call beforehand"""
    ops, wrappers, n = [], [], 0
    for x in srcs:
        m2 = re.match(r"^INT\(INT\((.*)\)\)$", x)
        if m2:                      # innermost first: the inner call fills tmp_n, the outer one reads it and fills tmp_n+1
            n += 2
            ops.append(f"tmp_{n}")
            wrappers.append(f"RUN ecb_int({operand_text(m2.group(1))}, tmp_{n - 1})")
            wrappers.append(f"RUN ecb_int(tmp_{n - 1}, tmp_{n})")
            continue
        m = re.match(r"^(INT|BUTTON)\((.*)\)$", x)
        if m:
            n += 1
            ops.append(f"tmp_{n}")
            wrappers.append(f"RUN {WRAPPED[m.group(1)]}({operand_text(m.group(2))}, tmp_{n})")
        else:
            ops.append(operand_text(x))
    return ops, wrappers


def run(tier):
    from coco.b09.compiler import convert
    cs = cases(tier)
    reqs, impl = [], []
    for c in cs:
        c["wrappers"] = []
        try:
            ops, c["wrappers"] = operand_texts(c["nums"] + c["strs"])
            out = convert(c["text"], add_standard_prefix=False, add_suffix=False)
            c["out"] = out
            call = find_call(out, c["form"]["proc"])
            if c.get("twice") and call:
                call2 = find_call(out, c["form"]["proc"], 1)
                call = call + " || " + (call2 or "<no second call> " + out)
            impl.append("ok " + hexs((call or "<no call> " + out).encode()))
        except Exception as e:  # noqa: BLE001
            ops = []
            impl.append("fail " + type(e).__name__)
        reqs.append(f"devexpect {hexs(c['form']['name'].encode())} {hexs(chr(9).join(ops).encode())}")
    twice = [c for c in cs if c.get("twice")]
    for c in twice:
        try:
            ops2, _ = operand_texts(c["twice"][0] + c["twice"][1])
        except Exception:  # noqa: BLE001
            ops2 = []
        reqs.append(f"devexpect {hexs(c['form']['name'].encode())} {hexs(chr(9).join(ops2).encode())}")
    spec = run_driver(reqs)
    for c, sp in zip(cs, spec):
        c["expect"] = unhex(sp[3:]).decode() if sp.startswith("ok ") else sp
    for c, sp in zip(twice, spec[len(cs):]):
        second = unhex(sp[3:]).decode() if sp.startswith("ok ") else sp
        c["expect"] = c["expect"] + " || " + second.replace("ZZ", "YY")
    # the spec table is both the pinned description of the device visitors and the specification:
    # a difference is judged by the oracle (there is no second model to disagree with)
    return {"cases": cs, "model": list(impl), "impl": impl, "disagreements": []}


def oracle(case, impl):
    if not impl.startswith("ok "):
        return f"{case['text']!r} was not converted: {impl}"
    got = unhex(impl[3:]).decode()
    if got != case["expect"]:
        return f"{case['text']!r}: runtime call is `{got[:150]}`, the statement's operands and defaults require `{case['expect'][:150]}`"
    out = case.get("out", "")
    pos = out.lower().find(got.lower())
    for w in case.get("wrappers", []):
        k = out.lower().find(w.lower())
        if k < 0 or (pos >= 0 and k > pos):
            return f"{case['text']!r}: the operand's wrapper call `{w}` does not precede `{got[:100]}` | {out.strip()[:200]}"
    return None


def classify(case, impl, why):
    if case["kind"] == "joystk":
        return "joystk-arity"
    if re.search(r"(?i)run ecb_h(circle|arc)\(.*RUN ecb_\w+\(.*\\ ", why):
        return "hoisted-call-captured-by-default-colour"
    if case["kind"] in ("hscreen-n", "hcls-n", "cls-n") and re.match(r"^10 (HSCREEN|HCLS|CLS) (-|\+|NOT )", case["text"]):
        return "signed-operand-replaced-by-default"
    return None


if __name__ == "__main__":
    import sys
    res = run(sys.argv[1] if len(sys.argv) > 1 else "quick")
    bad = [(c, oracle(c, i)) for c, i in zip(res["cases"], res["impl"]) if oracle(c, i)]
    print(len(res["cases"]), "cases", len(bad), "oracle failures")
    for c, w in bad[:12]:
        print(classify(c, "", w), w)
