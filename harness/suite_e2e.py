"""End-to-end tie: the whole tool in the model - source text -> parse tree (`Model.Peg` on the
regenerated grammar) -> object graph (`Model.Front`) -> passes -> emission -> bundle - against the
real `convert()` on the same text and options.  Compared: the complete output text, or the
documented refusal / internal error class.  Python's float()/repr() table for the numeric literals
is sent with each request (a parameter of the model)."""
import multiprocessing as mp

import gens_b09 as G
import suite_parse
from common import hexs, rng, run_driver


def cases(tier):
    r = rng("e2e-suite")
    base = suite_parse.cases(tier)
    if tier != "thorough":
        keep = [c for c in base if c["kind"] in ("probe", "generated", "malformed", "example", "test-program", "prop-probe")]
        keep += r.sample([c for c in base if c["kind"].startswith("layout")], 60)
    else:
        keep = [c for c in base if not c["kind"].startswith("layout")] + r.sample([c for c in base if c["kind"].startswith("layout")], 1500)
    out = []
    for c in keep:
        o = G.option_sets(r, 1)[0]
        out.append({"fmt": "e2e", "kind": c["kind"], "text": c["text"], "opts": o,
                    "req": "e2e " + o["flags"] + " " + hexs(c["text"].encode("utf-8", "surrogatepass"))})
    return out


def _work(item):
    import impl_b09
    import impl_front
    text, o = item
    _, table = impl_front.front(text)
    return impl_b09.convert(text, o), table


def run(tier):
    import impl_b09
    cs = cases(tier)
    with mp.Pool(16) as pool:
        res = pool.map(_work, [(c["text"], c["opts"]) for c in cs], chunksize=8)
    reqs = ["setlib " + hexs(impl_b09.lib_text().encode())]
    for c, (_, table) in zip(cs, res):
        o = c["opts"]
        sizes = ",".join(f"{k}={v}" for k, v in o.get("sizes", []))
        reqs.append(f"convert {o['flags']} {o['storage']} {hexs(o['procname'].encode())} {hexs(sizes.encode())} "
                    f"{hexs(c['text'].encode('utf-8', 'surrogatepass'))} {hexs(table.encode())}")
    model = run_driver(reqs)[1:]
    impl = [i for i, _ in res]
    dis = [{"req": cs[k]["text"][:200], "kind": cs[k]["kind"], "model": model[k][:160], "impl": impl[k][:160]}
           for k in range(len(cs)) if model[k] != impl[k]]
    return {"cases": cs, "model": model, "impl": impl, "disagreements": dis}


if __name__ == "__main__":
    import sys
    import time
    from collections import Counter
    t0 = time.time()
    res = run(sys.argv[1] if len(sys.argv) > 1 else "quick")
    print(len(res["cases"]), "cases", len(res["disagreements"]), "disagreements", "%.1fs" % (time.time() - t0))
    for d in res["disagreements"][:10]:
        print(d)
    print(Counter(" ".join(i.split(" ")[:2]) if not i.startswith("ok") else "ok" for i in res["impl"]))
