"""C20 sweep: the three string helpers *as translated from /repo's ecb.b09 on this run*
(`Gen.EcbHelpers`, interpreted by `Model.B09Lib.exec` in the driver) against what Color BASIC
defines, written independently here.  There is no BASIC09 to run offline, so there is no
implementation side: `impl` carries the interpreter's answer and the oracle judges it."""
import itertools

from common import hexs, rng, run_driver


def spec_instr(start, s, p):
    if start < 1:
        return "err"          # Color BASIC: ?FC ERROR; BASIC09's MID$ refuses too
    if len(p) == 0:
        return f"ok n {start if start <= len(s) + 1 else 0}"
    k = s.find(p, start - 1)
    return f"ok n {k + 1 if k >= 0 else 0}"


def spec_string(count, s):
    if count < 0 or len(s) == 0:
        return "err 52"
    return "ok s " + hexs((s[0] * count).encode())


def spec_readfilter(item):
    if item == "":
        return "ok n 0"
    import re
    m = re.match(r"\s*([+-]?\d+)", item)
    return f"ok n {int(m.group(1)) if m else 0}"


def cases(tier):
    r = rng("lib-suite")
    quick = tier != "thorough"
    out = []
    alpha = "AB"
    maxs, maxp = (4, 3) if quick else (6, 4)
    subjects = ["".join(t) for n in range(maxs + 1) for t in itertools.product(alpha, repeat=n)]
    patterns = ["".join(t) for n in range(maxp + 1) for t in itertools.product(alpha, repeat=n)]
    for s in subjects:
        for p in patterns:
            for start in range(1, maxs + 3):
                out.append({"fmt": "lib", "kind": "instr", "req": f"lib instr {start} {hexs(s.encode())} {hexs(p.encode())}",
                            "expect": spec_instr(start, s, p), "args": (start, s, p)})
    for s, p in (("MISSISSIPPI", "SIP"), ("MISSISSIPPI", "SSI"), ("AAAAAB", "AAB"), ("HELLO WORLD", "O W"), ("ABCABCABD", "ABCABD")):
        for start in (1, 2, 5, 9):
            out.append({"fmt": "lib", "kind": "instr", "req": f"lib instr {start} {hexs(s.encode())} {hexs(p.encode())}",
                        "expect": spec_instr(start, s, p), "args": (start, s, p)})
    counts = list(range(0, 256)) if not quick else [0, 1, 2, 3, 7, 31, 32, 33, 100, 254, 255]
    for c in counts + [-1, -5]:
        for s in ("", "A", "AB", "xyz", " "):
            out.append({"fmt": "lib", "kind": "string", "req": f"lib string {c} {hexs(s.encode())}",
                        "expect": spec_string(c, s), "args": (c, s)})
    for item in ["", "0", "1", "42", "-5", "+7", "007", "65535", " 12", "300000"]:
        out.append({"fmt": "lib", "kind": "readfilter", "req": f"lib readfilter {hexs(item.encode())}",
                    "expect": spec_readfilter(item), "args": (item,)})
    return out


def run(tier):
    cs = cases(tier)
    model = run_driver([c["req"] for c in cs])
    return {"cases": cs, "model": model, "impl": list(model), "disagreements": []}


def oracle(case, impl):
    exp = case["expect"]
    if exp == "err":
        return None if impl.startswith("err") else f"{case['kind']}{case['args']}: {impl} where an error is due"
    if impl != exp:
        return f"{case['kind']}{case['args']} = {impl}, Color BASIC defines {exp}"
    return None


if __name__ == "__main__":
    res = run("quick")
    bad = [(c, i) for c, i in zip(res["cases"], res["impl"]) if oracle(c, i)]
    print(len(res["cases"]), "cases", len(bad), "failures")
    for c, i in bad[:10]:
        print(oracle(c, i))
