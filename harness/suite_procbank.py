"""Correspondence suite for `coco/b09/procbank.py`: synthetic libraries with hostile lines
(RUN inside literals and comments, odd header spellings, placeholders inside quotes) and the
three regular expressions on single lines.  Implementation: the real ProcedureBank in-process."""
from common import hexs, rng, run_driver

WORDS = ["alpha", "beta", "Gamma", "delta_1", "_eps", "z9", "gfx2", "RUNNER", "run", "procedure", "x"]


def rand_line(r, names):
    k = r.randrange(16)
    n = r.choice(names + WORDS)
    if k == 0:
        return f"run {n}(a, b)"
    if k == 1:
        return f"  RUN   {n}"
    if k == 2:
        return f'print "RUN {n}"'
    if k == 3:
        return f'print "x" \\ run {n}("y", 1) \\ print "RUN {r.choice(names)}"'
    if k == 4:
        return f'(* RUN {n} *)'
    if k == 5:
        return f'a$ = "odd quote \\ run {n}'
    if k == 6:
        return f"param s: STRING<<>>"
    if k == 7:
        return f'dim t :   string<<>> \\ print ": STRING<<>>"'
    if k == 8:
        return f'print ": STRING<<>>"; "x"'
    if k == 9:
        return f"xRUN {n}"
    if k == 10:
        return f"run\t{n}\\run {r.choice(names)}"
    if k == 11:
        return f'(* 5" disk *) : STRING<<>>'
    if k == 12:
        return f"RUN{n}"
    if k == 13:
        return "if a then \\ RUN " + n + " \\ endif"
    if k == 14:
        return f":\n STRING<<>>"
    return f"a = a + 1"


def rand_header(r, name):
    return r.choice([f"procedure {name}", f"PROCEDURE {name}", f"Procedure  {name}  ", f"procedure\t{name}"])


def rand_library(r):
    n = r.choice([1, 2, 3, 5, 8])
    names = r.sample(["p1", "p2", "Zed", "_aux", "lib_a", "lib_b", "m9", "ecb_x", "A", "b"], n)
    lines = []
    if r.randrange(10) == 0:
        lines.append("rem stray line before any header")
    for nm in names:
        lines.append(rand_header(r, nm))
        for _ in range(r.choice([0, 1, 2, 4, 6])):
            lines.append(rand_line(r, names))
        if r.randrange(3) == 0:
            lines.append("")
    if r.randrange(8) == 0:
        lines.append(rand_header(r, names[0]))        # redefinition
        lines.append("run " + r.choice(names))
    nl = r.choice(["\n", "\n", "\r", "\r\n"])
    return nl.join(lines), names


def impl_bundle(text, name, storage):
    from coco.b09.procbank import ProcedureBank
    try:
        b = ProcedureBank(default_str_storage=storage)
        b.add_from_str(text)
        return "ok " + hexs(b.get_procedure_and_dependencies(name).encode())
    except Exception as e:  # noqa: BLE001
        return f"internal {type(e).__name__}"


def impl_line(op, arg, storage=32):
    import re
    from coco import b09
    from coco.b09 import procbank as P
    if op == "invoked":
        return "ok " + hexs("\n".join(P.INVOKED_PROCEDURE_NAMES.findall(arg)).encode())
    if op == "header":
        m = P.PROCEDURE_START_PREFIX.match(arg)
        return "ok " + hexs((m[1] if m else "").encode())
    repl = ": STRING" + ("" if storage == b09.DEFAULT_STR_STORAGE else f"[{storage}]")
    return "ok " + hexs(re.sub(P.STR_STORAGE_TAG, repl, arg).encode())


def cases(tier):
    r = rng("procbank-suite")
    n = 300 if tier != "thorough" else 3000
    out = []
    for _ in range(n):
        text, names = rand_library(r)
        root = r.choice(names + ["missing"])
        st = r.choice([32, 80, 1])
        out.append({"kind": "bundle", "fmt": "procbank", "text": text, "root": root, "storage": st,
                    "req": f"procbank bundle {st} {hexs(root.encode())} {hexs(text.encode())}"})
    for _ in range(n):
        line = rand_line(r, ["p1", "p2", "Zed"]).replace("\n", " ")
        op = r.choice(["invoked", "header", "subst"])
        if op == "header":
            line = r.choice([rand_header(r, r.choice(WORDS)), line, "procedure", "procedure a b", " procedure x",
                             "procedurex y", "procedure a-b"])
        if op == "subst":
            st = r.choice([32, 80])
            multi = line + "\n" + rand_line(r, ["p1"]) + "\n" + rand_line(r, ["p2"])
            out.append({"kind": "subst", "fmt": "procbank", "req": f"procbank subst {st} {hexs(multi.encode())}",
                        "arg": multi, "storage": st})
        else:
            out.append({"kind": op, "fmt": "procbank", "req": f"procbank {op} {hexs(line.encode())}", "arg": line})
    return out


def run(tier):
    cs = cases(tier)
    model = run_driver([c["req"] for c in cs])
    impl = []
    for c in cs:
        if c["kind"] == "bundle":
            impl.append(impl_bundle(c["text"], c["root"], c["storage"]))
        else:
            impl.append(impl_line(c["kind"], c["arg"], c.get("storage", 32)))
    dis = [{"req": c["req"][:200], "kind": c["kind"], "model": m[:160], "impl": i[:160]}
           for c, m, i in zip(cs, model, impl) if m != i]
    return {"cases": cs, "model": model, "impl": impl, "disagreements": dis}


if __name__ == "__main__":
    import sys
    from common import unhex
    res = run(sys.argv[1] if len(sys.argv) > 1 else "quick")
    print(len(res["cases"]), "cases", len(res["disagreements"]), "disagreements")
    for c, m, i in zip(res["cases"], res["model"], res["impl"]):
        if m != i:
            print("----", c["kind"], repr(c.get("arg", c.get("text"))[:200]), c.get("root"))
            print("  impl :", repr(unhex(i[3:]).decode()[:200]) if i.startswith("ok") else i)
            print("  model:", repr(unhex(m[3:]).decode()[:200]) if m.startswith("ok") else m)
