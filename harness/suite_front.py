"""Front-end tie, second stage (C03, C08, C09, C15, ...): text -> parse tree -> object graph by the
model (`Model.Peg` on the regenerated grammar, then `Model.Front`, the model of parser.py's
BasicVisitor and of the constructors it calls) against the real grammar + visitor.  The answers
compared are the complete S-expression dump of the object graph, or the way the front end fails
(no match / incomplete at p / the exception class raised inside a visitor method).  Python's
float() and repr() for numeric literals are a parameter of the model: the harness sends the table
of the real values with each request.  Same texts as the parse suite."""
import multiprocessing as mp

import suite_parse
from common import hexs, run_driver, unhex


def cases(tier):
    out = []
    for c in suite_parse.cases(tier):
        out.append({"fmt": "front", "kind": c["kind"], "text": c["text"], "req": "front " + c["req"].split(" ", 1)[1]})
    return out


def _work(text):
    import impl_front
    return impl_front.front(text)


def run(tier):
    cs = cases(tier)
    with mp.Pool(16) as pool:
        res = pool.map(_work, [c["text"] for c in cs], chunksize=8)
    impl = [o for o, _ in res]
    outs = run_driver([c["req"] + " " + hexs(ft.encode()) for c, (_, ft) in zip(cs, res)])
    model = []
    for m in outs:
        model.append("ok " + unhex(m[3:]).decode() if m.startswith("ok ") else m)
    dis = []
    for k in range(len(cs)):
        if model[k] != impl[k]:
            a, b = impl[k], model[k]
            p = next((i for i in range(min(len(a), len(b))) if a[i] != b[i]), min(len(a), len(b)))
            dis.append({"req": cs[k]["text"][:200], "kind": cs[k]["kind"], "impl": a[max(0, p - 60):p + 100], "model": b[max(0, p - 60):p + 100]})
    return {"cases": cs, "model": model, "impl": impl, "disagreements": dis}


if __name__ == "__main__":
    import sys
    import time
    from collections import Counter
    t0 = time.time()
    res = run(sys.argv[1] if len(sys.argv) > 1 else "quick")
    print(len(res["cases"]), "cases", len(res["disagreements"]), "disagreements", "%.1fs" % (time.time() - t0))
    for d in res["disagreements"][:10]:
        print(d)
    print(Counter(c["kind"] for c in res["cases"]))
    print(Counter(" ".join(i.split(" ")[:2]) if not i.startswith("ok") else "ok" for i in res["impl"]))
