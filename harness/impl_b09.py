"""Run the real transpiler of /repo in-process: AST dump at the model boundary + final outcome."""
import importlib.resources as pkg_resources

from common import hexs

import dump_ast
from coco import resources
from coco.b09 import compiler
from coco.b09.configs import CompilerConfigs, StringConfigs

FLAG_NAMES = ["add_standard_prefix", "add_suffix", "default_width32", "filter_unused_linenum",
              "initialize_vars", "output_dependencies", "skip_procedure_headers"]

DOCUMENTED_REFUSALS = {"ParseError", "IncompleteParseError", "LineNumberTooLargeException", "ValidationError"}


def lib_text() -> str:
    with (pkg_resources.files(resources) / "ecb.b09").open("r") as f:
        return f.read()


def opts_to_kwargs(o):
    kw = {n: bool(o["flags"][i] == "1") for i, n in enumerate(FLAG_NAMES)}
    kw["default_str_storage"] = o["storage"]
    kw["procname"] = o["procname"]
    if o.get("sizes"):
        kw["compiler_configs"] = CompilerConfigs(string_configs=StringConfigs(strname_to_size=dict(o["sizes"])))
    return kw


def outcome(fn):
    """canonical outcome of a conversion: ok <hex> / refused <kind> / internal <kind>"""
    try:
        return "ok " + hexs(fn().encode("utf-8"))
    except RecursionError:
        return "internal RecursionError"
    except Exception as e:  # noqa: BLE001
        k = type(e).__name__
        if k == "VisitationError":
            # parsimonious wraps exceptions raised inside visitor methods
            inner = str(e).split(":")[0].split("\n")[0].strip()
            return f"internal {inner or k}"
        return (f"refused {k}" if k in DOCUMENTED_REFUSALS else f"internal {k}")


def convert(text, o):
    return outcome(lambda: compiler.convert(text, **opts_to_kwargs(o)))


def sexp(text):
    """S-expression of the AST built by grammar + visitor, or None when parsing/visiting fails"""
    try:
        return dump_ast.parse_to_sexp(text)
    except Exception:  # noqa: BLE001
        return None


def convast_request(sx, o):
    sizes = ",".join(f"{k}={v}" for k, v in o.get("sizes", []))
    return (f"convast {o['flags']} {o['storage']} {hexs(o['procname'].encode())} {hexs(sizes.encode())} "
            f"{hexs(sx.encode())}")
