"""./check <Cnn> [--tier quick|thorough]   |   ./check --setup   |   ./check replay <file>

One run = translator (Gen/*.lean from /repo) -> lake build of the property's Tie and Props
modules and the driver -> axiom audit -> correspondence suites (model vs. real code) ->
property oracle on the real code's outputs -> known-finding classification -> evidence.

Exit 0: the property held on everything explored (KNOWN-FINDING lines for listed findings).
Exit 1: a line `VIOLATION property=<id> replay=<path>` (with ` no-failing-input-found` appended
when a proof obligation or the correspondence broke but no failing input was found).
Exit 2: the machinery itself could not run (timeout, missing tool).
"""
import fcntl
import hashlib
import json
import os
import pickle
import re
import subprocess
import sys
import time

HERE = os.path.dirname(os.path.abspath(__file__))
sys.path.insert(0, HERE)

import common  # noqa: E402
from common import LEAN, REPO, VERIF, Timer, repo_digest, seed  # noqa: E402

TRUSTED = [
    "Lean 4.33.0 kernel (all theorems re-checked by `lake build`; thorough tier re-checks the .olean files with leanchecker)",
    "axioms: propext, Classical.choice, Quot.sound only (audited per theorem on every run; no sorry, no native_decide, no bv_decide, no user axioms)",
    "harness/gen_lean.py (translator /repo -> CocoVerif/Gen) prints what it reads",
    "the correspondence harness and its generators (a behaviour the generators never reach is not tied)",
    "Spec/* (image formats, BASIC09 / Color BASIC readings) are the specification and are trusted by definition",
]


def sh(cmd, cwd=None, timeout=None, env=None):
    p = subprocess.run(cmd, cwd=cwd, capture_output=True, text=True, timeout=timeout, env=env)
    return p.returncode, p.stdout + p.stderr


class Lock:
    def __enter__(self):
        self.f = open(os.path.join(VERIF, ".lock"), "w")
        fcntl.flock(self.f, fcntl.LOCK_EX)
        return self

    def __exit__(self, *a):
        fcntl.flock(self.f, fcntl.LOCK_UN)
        self.f.close()


# --------------------------------------------------------------------------- build + audit

FORBIDDEN = re.compile(r"\b(sorry|admit|native_decide|bv_decide|implemented_by|unsafe\s|maxHeartbeats\s+0)\b|^axiom\s", re.M)


def strip_comments(src):
    src = re.sub(r"/-.*?-/", "", src, flags=re.S)
    return re.sub(r"--.*", "", src)


def grep_forbidden(modules):
    hits = []
    for m in modules:
        path = os.path.join(LEAN, *m.split(".")) + ".lean"
        if not os.path.exists(path):
            continue
        for mm in FORBIDDEN.finditer(strip_comments(open(path).read())):
            hits.append(f"{m}: {mm.group(0).strip()}")
    return hits


def lean_sources_digest():
    h = hashlib.sha256()
    for root, dirs, files in sorted(os.walk(LEAN)):
        dirs[:] = sorted(d for d in dirs if d != ".lake")
        for f in sorted(files):
            if f.endswith((".lean", ".toml")):
                p = os.path.join(root, f)
                h.update(p.encode())
                h.update(open(p, "rb").read())
    return h.hexdigest()


def run_gen():
    """translator; returns (ok, message)"""
    import gen_lean
    try:
        gen_lean.main()
        return True, ""
    except Exception as e:  # noqa: BLE001
        return False, f"translator failed: {type(e).__name__}: {e}"


def build(modules):
    """lake build of the given modules + driver.  Returns (failed_modules: dict name->log, log)."""
    targets = list(modules) + ["driver"]
    rc, out = sh(["lake", "build"] + targets, cwd=LEAN, timeout=3000)
    failed = {}
    if rc != 0:
        for m in modules + ["Driver"]:
            mm = re.search(r"✖ \[\d+/\d+\] (?:Building|Built) " + re.escape(m) + r"\b.*?(?=\n[✔✖ℹ⚠] \[|\Z)", out, re.S)
            if mm:
                failed[m] = mm.group(0)[-3000:]
        if not failed:
            failed["<build>"] = out[-3000:]
    return failed, out


def audit(modules):
    """{module: [(theorem, [axioms])]}, using the cached result when sources are unchanged"""
    key = hashlib.sha256((lean_sources_digest() + " ".join(modules)).encode()).hexdigest()[:24]
    cdir = os.path.join(VERIF, ".cache")
    os.makedirs(cdir, exist_ok=True)
    cpath = os.path.join(cdir, f"audit-{key}.json")
    if os.path.exists(cpath):
        return json.load(open(cpath))
    rc, out = sh(["lake", "env", "lean", "--run", "Audit.lean"] + modules, cwd=LEAN, timeout=1200)
    res = {m: [] for m in modules}
    for line in out.split("\n"):
        if line.startswith("thm "):
            head, _, ax = line.partition(" | ")
            _, m, name = head.split(" ")
            res[m].append([name, ax.split()])
        elif line.startswith("missing "):
            res[line.split(" ")[1]] = None
    if rc == 0:
        json.dump(res, open(cpath, "w"))
    return res


ALLOWED_AXIOMS = {"propext", "Classical.choice", "Quot.sound"}


# --------------------------------------------------------------------------- suites (cached)

def suite_result(name, tier):
    """Run a correspondence suite once per (repo digest, harness+lean digest, seed, tier)."""
    import importlib
    h = hashlib.sha256()
    h.update(repo_digest().encode())
    h.update(lean_sources_digest().encode())
    for f in sorted(os.listdir(HERE)):
        if f.endswith(".py"):
            h.update(open(os.path.join(HERE, f), "rb").read())
    key = f"{name}-{tier}-{seed()}-{h.hexdigest()[:24]}"
    cdir = os.path.join(VERIF, ".cache")
    os.makedirs(cdir, exist_ok=True)
    cpath = os.path.join(cdir, key + ".pkl")
    if os.path.exists(cpath):
        try:
            return pickle.load(open(cpath, "rb"))
        except Exception:  # noqa: BLE001
            pass
    mod = importlib.import_module("suite_" + name)
    t = Timer()
    res = mod.run(tier)
    res["wall_s"] = t.s()
    tmp = cpath + f".{os.getpid()}"
    pickle.dump(res, open(tmp, "wb"))
    os.replace(tmp, cpath)
    # keep the cache small: one entry per (suite, tier, seed) - older digests of the same key go -
    # and at most ~1.5 GB in total (oldest first)
    prefix = f"{name}-{tier}-{seed()}-"
    entries = []
    for f in os.listdir(cdir):
        p = os.path.join(cdir, f)
        try:
            if f.startswith(prefix) and p != cpath and f.endswith(".pkl"):
                os.remove(p)
            else:
                entries.append((os.path.getmtime(p), os.path.getsize(p), p))
        except OSError:
            pass
    total = sum(e[1] for e in entries)
    for _, size, p in sorted(entries):
        if total <= 1_500_000_000:
            break
        if p != cpath:
            try:
                os.remove(p)
                total -= size
            except OSError:
                pass
    return res


# --------------------------------------------------------------------------- findings

def load_findings():
    with open(os.path.join(VERIF, "known_findings.json")) as f:
        return json.load(f)["findings"]


def write_replay(pid, obj):
    d = os.path.join(VERIF, "replays", pid)
    os.makedirs(d, exist_ok=True)
    blob = json.dumps(obj, sort_keys=True, indent=1)
    name = hashlib.sha256(blob.encode()).hexdigest()[:16] + ".json"
    path = os.path.join(d, name)
    with open(path, "w") as f:
        f.write(blob)
    return os.path.relpath(path, VERIF)


# --------------------------------------------------------------------------- main flow

def run_check(pid, tier):
    import props
    t = Timer()
    P = props.PROPS[pid]
    modules = P["lean"]
    obligations_broken = []   # (what, detail)
    with Lock():
        ok, msg = run_gen()
        if not ok:
            obligations_broken.append(("translator", msg))
        failed, log = build(modules)
        for m, l in failed.items():
            obligations_broken.append((f"lake build {m}", l))
        hits = grep_forbidden(modules + P.get("lean_extra", []))
        for h in hits:
            obligations_broken.append(("forbidden construct", h))
        au = audit([m for m in modules if m not in failed]) if "<build>" not in failed else {}
        rechecked = []
        if tier == "thorough" and "<build>" not in failed:
            # independent re-check of the compiled proofs (and of everything they import)
            good = [m for m in modules if m not in failed]
            r = subprocess.run(["lake", "env", "leanchecker"] + good, cwd=LEAN, capture_output=True, text=True)
            if r.returncode != 0:
                obligations_broken.append(("leanchecker", (r.stdout + r.stderr)[-1500:]))
            else:
                rechecked = good
    theorems = []
    for m in modules:
        lst = au.get(m)
        if lst is None:
            if m not in failed:
                obligations_broken.append((f"module {m}", "not found by the audit"))
            continue
        for name, ax in lst:
            bad = [a for a in ax if a not in ALLOWED_AXIOMS]
            theorems.append({"theorem": name, "axioms": ax})
            if bad:
                obligations_broken.append((f"axioms of {name}", " ".join(bad)))
    driver_ok = os.path.exists(os.path.join(LEAN, ".lake", "build", "bin", "driver")) and "Driver" not in failed \
        and "<build>" not in failed

    # correspondence + oracle
    stats = {"evaluations": 0, "distinct": set(), "samples": [], "distribution": {}, "outcomes": {}}
    common.ORACLE_NOTES.clear()
    disagreements, oracle_fail_new, known_hits = [], [], {}
    findings = [f for f in load_findings() if f["property"] == pid]
    if driver_ok:
        for spec in P["suites"]:
            sname = spec["name"]
            res = suite_result(sname, tier)
            rel = spec["relevant"]
            orc = spec.get("oracle")
            cls = spec.get("classify", lambda c, i, w: None)
            for k, c in enumerate(res["cases"]):
                if not rel(c):
                    continue
                m, i = res["model"][k], res["impl"][k]
                stats["evaluations"] += 1
                if props.nontrivial(c, i):
                    stats["distinct"].add(hashlib.sha256(c["req"].encode()).digest()[:8])
                key = f"{c.get('fmt', sname)}/{c['kind']}"
                stats["distribution"][key] = stats["distribution"].get(key, 0) + 1
                okey = f"{c.get('fmt', sname)}: {props.outcome_kind(i)}"
                stats["outcomes"][okey] = stats["outcomes"].get(okey, 0) + 1
                if len(stats["samples"]) < 8 and k % 97 == 0:
                    stats["samples"].append({"request": props.show_case(c)[:240], "kind": c["kind"], "impl": i[:80]})
                if m != i:
                    disagreements.append({"request": c["req"], "kind": c["kind"], "model": m[:200], "impl": i[:200],
                                          "suite": sname})
                elif spec.get("tie"):
                    tw = spec["tie"](c, i)
                    if tw:
                        disagreements.append({"request": c["req"], "kind": c["kind"], "model": "pinned data", "impl": tw[:200],
                                              "suite": sname + "/tie"})
                why = orc(c, i) if orc else None
                if why:
                    klass = cls(c, i, why)
                    # a class may name several known differences at once (`a+b`): all must be listed
                    parts = klass.split("+") if klass else [None]
                    listed = [next((f for f in findings if f["status"] == "known" and f["class"] == p), None) for p in parts]
                    if all(listed) and m == i:
                        for l_ in listed:
                            known_hits[l_["id"]] = known_hits.get(l_["id"], 0) + 1
                    else:
                        oracle_fail_new.append({"request": c["req"], "kind": c["kind"], "impl": i[:300],
                                                "model": m[:300], "why": why, "class": klass, "suite": sname,
                                                "readable": props.show_case(c)[:600]})
    else:
        obligations_broken.append(("driver", "the Lean driver could not be built; no correspondence was run"))

    # stored witnesses of known / fixed findings, against the real code
    known_lines = []
    for f in findings:
        verdict = props.replay_witness(f)   # reason string when the property fails on the witness, else None
        if f["status"] == "known":
            if verdict:
                known_lines.append(f"KNOWN-FINDING: property={pid} {f['id']} {f['what']}")
            # a known finding that no longer reproduces is simply not reported
        else:  # fixed: must not come back
            if verdict:
                oracle_fail_new.append({"request": f["witness"], "kind": "fixed-finding-witness", "why": verdict,
                                        "finding": f["id"], "impl": "", "model": "", "class": None})

    # when something broke, search harder for a failing input (real code, property oracle only)
    searched = 0
    if (obligations_broken or disagreements) and not oracle_fail_new and driver_ok and P.get("search"):
        found, searched = P["search"](pid, tier, findings)
        oracle_fail_new += found

    violations = 0
    lines = []
    if oracle_fail_new:
        violations = len(oracle_fail_new)
        # prefer an input outside every known-finding class, then the shortest
        first = min(oracle_fail_new, key=lambda x: (x.get("class") is not None, len(x["request"])))
        path = write_replay(pid, {"property": pid, "type": "failing-input", "input": first["request"],
                                  "readable": first.get("readable", ""),
                                  "why": first["why"], "impl": first["impl"], "model": first.get("model", ""),
                                  "kind": first["kind"], "others": len(oracle_fail_new) - 1,
                                  "suite": first.get("suite"), "tier": tier, "seed": seed(),
                                  "broken_obligations": [o[0] for o in obligations_broken],
                                  "correspondence_disagreements": len(disagreements)})
        lines.append(f"VIOLATION property={pid} replay={path}")
    elif obligations_broken or disagreements:
        violations = 1
        path = write_replay(pid, {"property": pid, "type": "broken-obligation",
                                  "obligations": [{"what": a, "detail": b[-1500:]} for a, b in obligations_broken],
                                  "correspondence": disagreements[:5],
                                  "correspondence_disagreements": len(disagreements),
                                  "search": f"{searched} extra cases searched with the property oracle, none failed"})
        lines.append(f"VIOLATION property={pid} replay={path} no-failing-input-found")

    n_ob = len(theorems) + len([o for o in obligations_broken if o[0].startswith(("lake build", "translator"))])
    ev = {
        "property_id": pid, "tier": tier, "seed": seed(), "level": "proof",
        "coverage": {
            "obligations": max(1, n_ob),
            "discharged": len([th for th in theorems if all(a in ALLOWED_AXIOMS for a in th["axioms"])]),
            "checker_cmd": "cd lean && lake build " + " ".join(modules) + " && lake env lean --run Audit.lean " + " ".join(modules),
            "trusted_base": TRUSTED + P.get("trusted", []),
            "theorems": theorems,
            "rechecked_with_leanchecker": rechecked,
            "evaluations": stats["evaluations"],
            "distinct_nontrivial": len(stats["distinct"]),
            "rule": P["rule"],
            "samples": stats["samples"] or [{"note": "no correspondence case was run"}],
            "input_distribution": stats["distribution"],
            "impl_outcomes": stats["outcomes"],
            "oracle_verdicts": dict(common.ORACLE_NOTES),
            "correspondence_disagreements": len(disagreements),
            "known_findings_hit": known_hits,
            "known_findings_reconfirmed": known_lines,
            "broken_obligations": [o[0] for o in obligations_broken],
            "failing_input_search_cases": searched,
        },
        "assumptions": P.get("assumptions", []),
        "wall_s": t.s(),
        "violations": violations,
    }
    os.makedirs(os.path.join(VERIF, "evidence"), exist_ok=True)
    with open(os.path.join(VERIF, "evidence", f"{pid}.json"), "w") as f:
        json.dump(ev, f, indent=1, sort_keys=True)
    for l in known_lines:
        print(l)
    for l in lines:
        print(l)
    print(f"{pid} tier={tier} seed={seed()} theorems={len(theorems)} cases={stats['evaluations']} "
          f"disagreements={len(disagreements)} new_failures={len(oracle_fail_new)} wall={t.s()}s")
    return 1 if violations else 0


def setup():
    with Lock():
        ok, msg = run_gen()
        if not ok:
            print(msg)
        rc, out = sh(["lake", "build", "CocoVerif", "driver"], cwd=LEAN, timeout=6000)
        print(out[-3000:])
        if rc != 0:
            return 2
        import props
        mods = sorted({m for P in props.PROPS.values() for m in P["lean"]})
        audit(mods)
    return 0


def replay(path):
    """Judge the stored failing input again on the current tree.  The input is looked up in its
    suite (same tier and seed, so the same case list), the suite runs it through the real code and
    the model, and the property's oracle gives the verdict; requests the older replay files carry
    without a suite name go through props.replay_request."""
    import props
    obj = json.load(open(path if os.path.isabs(path) else os.path.join(VERIF, path)))
    print(json.dumps({k: (v if not isinstance(v, str) else v[:400]) for k, v in obj.items()}, indent=1))
    if obj.get("kind") == "hang":
        # the conversion is started in a child process and given the same time as in the run that reported it
        code = ("import sys; sys.path.insert(0, %r); from coco.b09.compiler import convert; import json; "
                "convert(json.load(sys.stdin))" % common.REPO)
        try:
            subprocess.run([common.PY, "-c", code], input=json.dumps(obj["input"]), capture_output=True, text=True, timeout=60)
            print("replay verdict on the current tree: the conversion returns (property holds on this input)")
            return 0
        except subprocess.TimeoutExpired:
            print("replay verdict on the current tree: convert(<input>) has not returned after 60 s")
            return 1
    if obj.get("type") != "failing-input":
        return 0
    pid = obj["property"]
    P = props.PROPS[pid]
    verdict = None
    spec = next((s for s in P["suites"] if s["name"] == obj.get("suite")), None)
    if spec is not None and spec.get("oracle") and obj.get("kind") != "fixed-finding-witness":
        os.environ["VERIF_SEED"] = str(obj.get("seed", 0))
        with Lock():
            run_gen()
            build(P["lean"])
        res = suite_result(spec["name"], obj.get("tier", "quick"))
        hit = [k for k, c_ in enumerate(res["cases"]) if c_["req"] == obj["input"]]
        if not hit:
            print("the stored input is not among the suite's cases for this seed and tier any more")
            return 2
        k = hit[0]
        verdict = spec["oracle"](res["cases"][k], res["impl"][k])
        if res["model"][k] != res["impl"][k]:
            print("model and implementation disagree on this input:", res["model"][k][:120], "/", res["impl"][k][:120])
    else:
        verdict = props.replay_request(pid, obj["input"])
    print("replay verdict on the current tree:", verdict or "property holds on this input")
    return 1 if verdict else 0


def main(argv):
    if not argv or argv[0] in ("-h", "--help"):
        print(__doc__)
        return 2
    if argv[0] == "--setup":
        return setup()
    if argv[0] == "replay":
        return replay(argv[1])
    pid = argv[0]
    tier = os.environ.get("VERIF_TIER", "quick")
    if "--tier" in argv:
        tier = argv[argv.index("--tier") + 1]
    return run_check(pid, tier)


if __name__ == "__main__":
    sys.exit(main(sys.argv[1:]))
