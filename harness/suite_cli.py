"""Correspondence suite for the command line (`coco/decb_to_b09.py` + `convert_file`): flag
mapping, procedure name from the file name, text-mode newline translation, OS-9 line ends.
The real `start(argv)` runs in-process on files in a scratch directory; the model side is
`Model.Cli` in the driver (fed, like the transpiler suite, with the dump of the parsed program)."""
import contextlib
import io
import os
import shutil
import tempfile

import gens_b09 as G
from common import hexs, rng, run_driver

NAMES = ["prog.bas", "my_prog.bas", "my-prog.bas", "a b.bas", "9x.bas", "ecb_cls.bas", "x.y.bas", ".bas", "noext",
         "UPPER.BAS", "é.bas", "a.b.c", "_u.bas", "-.bas", "tab\tname.bas", "game\n.bas", "x .bas", "nl\n", "q\r.bas"]


def run_cli(d, name, data: bytes, flags, storage, sizes):
    import coco.decb_to_b09 as M
    src = os.path.join(d, name)
    out = os.path.join(d, "out.b09")
    with open(src, "wb") as f:
        f.write(data)
    argv = [src, out]
    if flags[0] == "1":
        argv.append("-l")
    if flags[1] == "1":
        argv.append("-z")
    if flags[2] == "1":
        argv.append("-D")
    if flags[3] == "1":
        argv.append("-w")
    if storage != 32:
        argv += ["-s", str(storage)]
    if sizes:
        cfg = os.path.join(d, "cfg.yaml")
        with open(cfg, "w") as f:
            f.write("string_configs:\n  strname_to_size:\n" + "".join(f"    \"{k}\": {v}\n" for k, v in sizes))
        argv += ["-c", cfg]
    import impl_b09
    try:
        with contextlib.redirect_stderr(io.StringIO()), contextlib.redirect_stdout(io.StringIO()):
            M.start(argv)
        with open(out, "rb") as f:
            return "ok " + hexs(f.read())
    except SystemExit:
        return "internal SystemExit"
    except Exception as e:  # noqa: BLE001
        k = type(e).__name__
        if k == "VisitationError":
            k = str(e).split(":")[0].split("\n")[0].strip() or k
            return f"internal {k}"
        return f"refused {k}" if k in impl_b09.DOCUMENTED_REFUSALS else f"internal {k}"
    finally:
        for f in (src, out):
            with contextlib.suppress(OSError):
                os.remove(f)


def cases(tier):
    r = rng("cli-suite")
    n = 60 if tier != "thorough" else 600
    out = []
    progs = G.example_programs()[:4] + G.test_suite_programs()[:10]
    for k in range(n):
        text = r.choice(progs) if r.randrange(4) == 0 else G.Gen(r, max_depth=2).program(r.choice([1, 2, 4]))
        nl = r.choice(["\n", "\n", "\r\n", "\r"])
        data = text.replace("\n", nl).encode("latin-1", "replace")
        if r.randrange(5) == 0:
            data += nl.encode()
        flags = "".join(r.choice("01") for _ in range(4))
        sizes = r.sample([("A$", 10), ("B$", 200), ("NM$", 5), ("A$()", 40)], r.choice([0, 0, 1, 2]))
        out.append({"fmt": "cli", "kind": "cli", "name": r.choice(NAMES), "data": data, "flags": flags,
                    "storage": r.choice([32, 32, 80, 255]), "sizes": sizes})
    # characters that Python's str.splitlines() treats as line boundaries but that are ordinary content
    # of a string literal, a comment or a DATA item: only LF may become CR in the output
    for k, ch in enumerate(["\x0b", "\x0c", "\x1c", "\x1d", "\x1e"]):
        text = f'10 PRINT "A{ch}B"\n20 REM X{ch}Y\n30 DATA P{ch}Q,2\n40 A$="{ch}"\n'
        out.append({"fmt": "cli", "kind": "cli-control-char", "name": "prog.bas", "data": text.encode(), "flags": "0000",
                    "storage": 32, "sizes": []})
    # file contents at the edge: nothing at all, only line ends / blanks / NUL / ^Z padding, a program followed or
    # preceded by such padding, a lone line number - under several flag sets (C15: converted or refused, never a crash)
    small = "10 PRINT \"HI\"\n20 A=1\n"
    for k, data in enumerate([b"", b"\n", b"\r", b"\r\n", b"\n\n\n", b" ", b"\x00", b"\x1a", b"\x00\x00\x00", b"\x1a\x1a", b"\x00\x1a",
                              b"10", b"10 ", b"0", small.encode() + b"\x00", small.encode() + b"\x1a", small.encode() + b"\x00\x00\x00",
                              small.encode() + b"\x1a\x00", b"\x00" + small.encode(), small.encode()[:-1], b"\xff\xfe", b"\xe9"]):
        for flags in (["0000", "1111", "0010"] if len(data) < 4 else ["0000"]):
            out.append({"fmt": "cli", "kind": "cli-content", "name": ["prog.bas", "x.bas", "a_1.bas"][k % 3], "data": data, "flags": flags,
                        "storage": [32, 80][k % 2], "sizes": []})
    # the same program with LF, CR LF and CR line ends: lines that end in text running to the end of the line (REM, ', an
    # unquoted DATA item, an open string literal) - through the command line the three spellings give the same bytes (C08)
    eol_progs = ['10 REM TAIL COMMENT\n20 PRINT "A"\n30 \' ANOTHER\n40 END\n', '10 DATA 1,TWO WORDS\n20 READ A,B$\n30 DATA LAST ITEM\n',
                 '10 A$="OPEN LITERAL\n20 PRINT A$\n', '10 PRINT "X":REM R1\n20 GOTO 10\n', '10 CLS\n20 REM LAST LINE WITHOUT END',
                 '10 IF A=1 THEN 20 ELSE 30 \' C\n20 DATA A B ,C\n30 READ X$,Y$\n']
    for g, text in enumerate(eol_progs):
        for tag, nl in (("lf", "\n"), ("crlf", "\r\n"), ("cr", "\r")):
            for flags in ("0000", "0110"):
                out.append({"fmt": "cli", "kind": "cli-eol", "name": "prog.bas", "data": text.replace("\n", nl).encode(), "flags": flags,
                            "storage": 32, "sizes": [], "group": (g, flags), "eol": tag})
    # the configuration file: entries at the edge of what the validator documents, and entries beyond it
    prog = '10 DIM A$, AB$(3), A1$, ZZ$\n20 A$="X":AB$(1)=A$:A1$="Y":ZZ$="Z":B$="W"\n'
    for sizes, valid in CONFIG_PROBES:
        out.append({"fmt": "cli", "kind": "cli-config-valid" if valid else "cli-config-invalid", "name": "prog.bas",
                    "data": prog.encode(), "flags": r.choice(["0000", "1000", "0010"]), "storage": r.choice([32, 80]), "sizes": sizes})
    for c in out:
        c["req"] = f"clicase {c['flags']} {c['storage']} {hexs(c['name'].encode())} {hexs(c['data'])}"
    return out


CONFIG_PROBES = [
    ([("A$", 1)], True), ([("A$", 32766)], True), ([("AB$()", 5)], True), ([("A1$", 7)], True), ([("A_$()", 7)], True),
    ([("A$", 10), ("AB$()", 200), ("A1$", 33)], True), ([("B$", 64)], True), ([("ZZ$", 12)], True),
    ([("a$", 5)], False), ([("A", 5)], False), ([("ABC$", 5)], False), ([("1A$", 5)], False), ([("A$", 0)], False),
    ([("A$", 32767)], False), ([("A$", -1)], False), ([("$", 5)], False), ([("A$()x", 5)], False), ([("Ab$", 5)], False),
    ([("A$", 10), ("B", 20)], False), ([("A$", 70000)], False),
]


def config_oracle(case, impl):
    """C10 / C15: a configuration file is either used (valid entries: key = 1-2 character upper-case BASIC name + `$`
    or `$()`, 0 < size < 32767) or refused with the documented validation error - never ignored, never a crash"""
    if case["kind"] == "cli-config-invalid":
        if impl != "refused ValidationError":
            return f"configuration {case['sizes']} is outside the documented rule but the tool answers {impl[:40]}"
        return None
    if case["kind"] == "cli-config-valid":
        if not impl.startswith("ok "):
            return f"valid configuration {case['sizes']} is not accepted: {impl[:60]}"
        from common import unhex
        text = unhex(impl[3:]).decode("latin-1").replace("\r", "\n")
        for key, size in case["sizes"]:
            if key not in ("A$", "AB$()", "A1$", "ZZ$"):
                continue          # only names the source DIMensions take their size from the file (C10)
            ident = ("arr_" if key.endswith("()") else "") + key.replace("()", "")
            dims = [l for l in text.split("\n") if l.lstrip("0123456789 ").startswith("DIM ") and
                    __import__("re").search(r"(?<![A-Za-z0-9_])" + __import__("re").escape(ident) + r"(?![A-Za-z0-9_$])", l)]
            if dims and size != 32 and not any(f"STRING[{size}]" in l for l in dims):
                return f"{key} is configured with {size} bytes but is declared as {dims[0].strip()[:60]!r}"
    return None


def eol_oracle(case, impl):
    """C08 through the command line: the CR LF and CR spellings of a file give the bytes its LF spelling gives"""
    lf = case.get("aux", {}).get("lf")
    if case["kind"] == "cli-eol" and lf is not None and impl != lf:
        return (f"start(argv) on the {case['eol'].upper()} spelling of {case['data'][:40]!r}… gives other bytes than on its LF spelling "
                f"({impl[:50]} / {lf[:50]})")
    return None


def crash_oracle(case, impl):
    """C15 through the command line: start(argv) on any input file returns, or raises one of the documented refusals
    (a file that is not text in the locale's encoding is outside the property: UnicodeDecodeError is Python's answer)"""
    if impl.startswith("internal ") and impl != "internal UnicodeDecodeError":
        return f"start(argv) on a file holding {case['data'][:40]!r} failed with an internal exception: {impl[9:]}"
    return None


def crash_classify(case, impl, why):
    import oracles_b09 as OB
    try:
        text = io.TextIOWrapper(io.BytesIO(case["data"]), encoding=None).read()
    except UnicodeDecodeError:
        return None
    o = {"flags": "1" + "1" + ("0" if case["flags"][3] == "1" else "1") + case["flags"][0] + ("0" if case["flags"][1] == "1" else "1")
                  + ("0" if case["flags"][2] == "1" else "1") + "0", "storage": case["storage"], "procname": "prog", "sizes": []}
    return OB.c15_classify({"text": text, "opts": o}, impl, why)


def _fresh(job):
    """the same command line in a process of its own (nothing can have been left behind by an earlier call)"""
    import json
    import subprocess
    from common import PY, REPO
    here = os.path.dirname(os.path.abspath(__file__))
    code = ("import sys, json, tempfile, shutil; sys.path.insert(0, %r); import suite_cli; j = json.load(sys.stdin); "
            "d = tempfile.mkdtemp(prefix='verif-cli-'); "
            "print(suite_cli.run_cli(d, j['name'], bytes.fromhex(j['data']), j['flags'], j['storage'], [tuple(x) for x in j['sizes']])); "
            "shutil.rmtree(d, ignore_errors=True)" % here)
    try:
        r = subprocess.run([PY, "-c", code], input=json.dumps(job), capture_output=True, text=True, timeout=120,
                           env=dict(os.environ, PYTHONPATH=REPO))
        lines = [l for l in r.stdout.split("\n") if l.strip()]
        return lines[-1] if lines else "internal ChildProcessError"
    except subprocess.TimeoutExpired:
        return "internal Timeout"


def fresh_oracle(case, impl):
    """C12 through the command line: a call of start(argv) gives what the same command line gives in a fresh process,
    whatever was converted before in this one"""
    f = case.get("aux", {}).get("fresh")
    if f is not None and f != impl:
        return (f"start({case['flags']!r} -s {case['storage']} …) after {case['aux'].get('position', 0)} earlier calls in the "
                f"same process differs from the same command line in a fresh process")
    return None


def run(tier):
    import impl_b09
    import multiprocessing as mp
    cs = cases(tier)
    d = tempfile.mkdtemp(prefix="verif-cli-")
    try:
        impl = [run_cli(d, c["name"], c["data"], c["flags"], c["storage"], c["sizes"]) for c in cs]
    finally:
        shutil.rmtree(d, ignore_errors=True)
    lf_of = {c["group"]: impl[k] for k, c in enumerate(cs) if c["kind"] == "cli-eol" and c["eol"] == "lf"}
    for c in cs:
        if c["kind"] == "cli-eol":
            c.setdefault("aux", {})["lf"] = lf_of.get(c["group"])
    picks = [k for k in range(len(cs)) if k % 3 == 1 or cs[k]["kind"].startswith("cli-config")]
    with mp.Pool(16) as pool:
        fresh = pool.map(_fresh, [{"name": cs[k]["name"], "data": cs[k]["data"].hex(), "flags": cs[k]["flags"],
                                   "storage": cs[k]["storage"], "sizes": [list(x) for x in cs[k]["sizes"]]} for k in picks])
    for k, f in zip(picks, fresh):
        cs[k].setdefault("aux", {})["fresh"] = f
        cs[k]["aux"]["position"] = k
    # model: newline translation, then (real front end) dump, then Model.Cli from there
    nl = run_driver(["cli nl " + hexs(c["data"].decode("latin-1").encode("utf-8")) for c in cs])
    reqs, idx = ["setlib " + hexs(impl_b09.lib_text().encode())], []
    py_text = []
    for k, c in enumerate(cs):
        # what Python's text-mode read hands to convert(): the file is decoded with the locale encoding (utf-8 here)
        try:
            t = io.TextIOWrapper(io.BytesIO(c["data"]), encoding=None).read()
        except UnicodeDecodeError:
            t = None
        py_text.append(t)
        sx = impl_b09.sexp(t) if t is not None else None
        if c["kind"] == "cli-config-invalid":
            sx = None            # the YAML / pydantic layer is not modelled: no model side for a configuration it refuses
        if sx is not None:
            sizes = ",".join(f"{a}={b}" for a, b in c["sizes"])
            reqs.append(f"cli {c['flags']} {c['storage']} {hexs(('/scratch/' + c['name']).encode())} "
                        f"{hexs(sizes.encode())} {hexs(sx.encode())}")
            idx.append(k)
    outs = run_driver(reqs)[1:]
    model = list(impl)
    for k, o in zip(idx, outs):
        model[k] = o
    dis = []
    for k, c in enumerate(cs):
        t = py_text[k]
        if t is not None and all(ord(ch) < 128 for ch in t):
            want = "ok " + hexs(t.encode())
            if nl[k] != want:
                dis.append({"req": c["req"][:200], "kind": "newline", "model": nl[k][:100], "impl": want[:100]})
                model[k] = "newline-model-differs"
        if model[k] != impl[k]:
            dis.append({"req": c["req"][:200], "kind": "cli", "model": model[k][:160], "impl": impl[k][:160]})
    return {"cases": cs, "model": model, "impl": impl, "disagreements": dis}


if __name__ == "__main__":
    import sys
    from common import unhex
    res = run(sys.argv[1] if len(sys.argv) > 1 else "quick")
    print(len(res["cases"]), "cases", len(res["disagreements"]), "disagreements")
    from collections import Counter
    print(Counter(i.split(" ")[0] + (" " + i.split(" ")[1] if not i.startswith("ok") else "") for i in res["impl"]))
    for d in res["disagreements"][:8]:
        print(d["kind"], d["model"][:120], "|", d["impl"][:120])
