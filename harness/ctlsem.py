"""Reference interpreters for the control-flow oracle (C02, also used by C03):

* `DecbMachine` runs a Color BASIC source program (control-flow fragment + assignments, PRINT,
  DATA/READ/RESTORE, DIM, device statements as opaque events) the way Color BASIC does: an IF owns
  the rest of its line, ELSE binds to the nearest IF, FOR runs its body at least once, a bare NEXT
  closes the innermost open FOR, NEXT A,B is NEXT A:NEXT B.
* `B09Machine` runs the emitted BASIC09 text: labels, backslash statements, IF/ELSE/ENDIF,
  LOOP/EXITIF/ENDEXIT/ENDLOOP, FOR (tested before the first pass) / NEXT, GOTO/GOSUB/RETURN,
  ON … GOTO/GOSUB, RUN of the runtime wrappers.

Both produce a trace of observable events, bounded by a step budget (the bound is used only to
*find* a difference)."""
import re

import b09parse as BP
import b09text as T
import exprsem as S


class Stop(Exception):
    pass


def fmt_num(v):
    """canonical text of a printed value (so a number and its formatted string compare equal)"""
    if isinstance(v, bool):
        return "TRUE" if v else "FALSE"
    if isinstance(v, str):
        return v
    return S.fn("STR$", [v], {})


# Known differences of the runtime / the tool, each switchable: the C03 classifier re-runs a failing
# case with one or two of them switched on; when that makes the case pass, the failure is exactly
# that known finding and nothing else.
LENIENT = set()
SOURCE_DATA = []        # the source's DATA items in textual order (set by the classifier)
UNDIMMED = set()        # names of the arrays the source never DIMensions (set by the classifier)


def digits(v):
    a = abs(v)
    return str(int(a)) if a == int(a) and a < 1e9 else repr(float(a))


def decb_print_num(v):
    """Color BASIC PRINT of a number: sign or blank, digits, one trailing blank"""
    if "negative-number-leading-blank" in LENIENT:
        return ecb_str_text(v)
    return ("-" if v < 0 else " ") + digits(v) + " "


def ecb_str_text(v):
    """the runtime's ecb_str: blank, BASIC09's STR$ without a trailing point, blank"""
    return " " + ("-" if v < 0 else "") + digits(v) + " "


def norm_print(items):
    """a PRINT event: values as ("v", text), separators as `;` / `,`; an empty string prints
    nothing, so it is dropped (the tool writes "" in front of a leading or doubled separator)"""
    return tuple(x for x in items if x != ("v", ""))


# ----------------------------------------------------------------------------- Color BASIC

def split_colon(s):
    """split at colons outside string literals"""
    out, cur, inq = [], [], False
    for ch in s:
        if ch == '"':
            inq = not inq
        if ch == ":" and not inq:
            out.append("".join(cur))
            cur = []
        else:
            cur.append(ch)
    out.append("".join(cur))
    return out


def find_kw(s, word, start=0):
    """position of keyword `word` outside strings and parentheses, or -1"""
    depth, inq, i = 0, False, start
    while i < len(s):
        ch = s[i]
        if ch == '"':
            inq = not inq
        elif not inq:
            if ch == "(":
                depth += 1
            elif ch == ")":
                depth -= 1
            elif depth == 0 and s.startswith(word, i):
                return i
        i += 1
    return -1


NUM_RE = re.compile(r"[+-]?(\d+\.?\d*|\.\d+)(E[+-]?\d+)?$")


class DecbEnv(dict):
    """variable store of the strict Color BASIC machine (C03): arrays have bounds — those of their
    DIM, or 10 per dimension from the first use — every element starts as 0 / the empty string"""

    def __init__(self, *a):
        super().__init__(*a)
        self.dims = {}

    def arr_check(self, name, idx):
        if name not in self.dims:
            self.dims[name] = (10,) * len(idx)
        b = self.dims[name]
        if len(b) != len(idx) or any(i < 0 or i > n for i, n in zip(idx, b)):
            raise S.EvalError("BS")

    def arr_get(self, name, idx):
        self.arr_check(name, idx)
        return self.get(("arr", name) + idx, "" if name.endswith("$") else 0.0)


class DecbMachine:
    def __init__(self, text, env, script, budget=4000, strict=False, inputs=()):
        self.strict = strict
        self.inputs = list(inputs)
        self.lines = []
        for raw in re.split(r"[\r\n]+", text):
            m = re.match(r"\s*(\d+)\s*(.*)$", raw)
            if m:
                self.lines.append((int(m.group(1)), m.group(2)))
        self.env = DecbEnv(env) if strict else dict(env)
        self.script = dict(script, __str_blank__="str-trailing-blank" in LENIENT,
                           __neg_blank__="negative-number-leading-blank" in LENIENT) if strict else script
        self.trace = []
        self.budget = budget
        self.for_stack = []
        self.gosub_stack = []
        self.data = []
        self.quoted = []
        for _, body in self.lines:
            self._collect_data(body)
        self.dptr = 0

    def _collect_data(self, body):
        for st in split_colon(body):
            st = st.lstrip()          # blanks that end an unquoted DATA item are content (Color BASIC keeps them)
            if st.startswith("DATA"):
                items, cur, inq = [], [], False
                for ch in st[4:]:
                    if ch == '"':
                        inq = not inq
                    if ch == "," and not inq:
                        items.append("".join(cur))
                        cur = []
                    else:
                        cur.append(ch)
                items.append("".join(cur))
                for it in items:
                    t = it.strip()
                    quoted = len(t) >= 2 and t.startswith('"') and t.endswith('"')
                    if not quoted:
                        t = it.lstrip() if it.strip() else ""
                    self.data.append(t[1:-1] if quoted else t)
                    self.quoted.append(quoted)

    def ev(self, e):
        return S.decb_eval(S.decb_parse(e), self.env, self.script)

    def truth(self, c):
        v = self.ev(c)
        return S.num(v) != 0

    def run(self):
        try:
            self.exec_from(0, None)
        except Stop:
            pass
        except S.EvalError as e:
            self.trace.append(("error", str(e)))
        return self.trace

    def line_index(self, n):
        for k, (num, _) in enumerate(self.lines):
            if num == n:
                return k
        raise S.EvalError(f"UL {n}")

    def exec_from(self, k, rest):
        """run from line index k (or, when rest is not None, from the statement text `rest` of line k)"""
        while k < len(self.lines):
            body = self.lines[k][1] if rest is None else rest
            rest = None
            jump = self.exec_line(k, body)
            if jump is None:
                k += 1
            else:
                k, rest = jump
        self.trace.append(("end",))
        raise Stop()

    def tick(self):
        self.budget -= 1
        if self.budget <= 0:
            self.trace.append(("budget",))
            raise Stop()

    def exec_line(self, k, body):
        """execute the statements of one line; returns None (fall to next line) or (line index, rest text)"""
        while True:
            body = body.lstrip()
            if body == "":
                return None
            self.tick()
            if body.startswith("REM") or body.startswith("'"):
                return None
            if body.startswith("IF"):
                th = find_kw(body, "THEN")
                cond, after = body[2:th], body[th + 4:]
                # the matching ELSE of this IF: skip one ELSE per nested IF in the THEN part
                pos, nested = 0, 0
                else_at = -1
                scan = 0
                while True:
                    i_if = find_kw(after, "IF", scan)
                    i_el = find_kw(after, "ELSE", scan)
                    if i_el < 0:
                        break
                    if 0 <= i_if < i_el:
                        nested += 1
                        scan = i_if + 2
                        continue
                    if nested == 0:
                        else_at = i_el
                        break
                    nested -= 1
                    scan = i_el + 4
                then_part = after if else_at < 0 else after[:else_at]
                else_part = None if else_at < 0 else after[else_at + 4:]
                branch = then_part if self.truth(cond) else else_part
                if branch is None:
                    return None                       # false, no ELSE: continue with the NEXT LINE
                b = branch.strip()
                if re.fullmatch(r"\d+", b):
                    return (self.line_index(int(b)), None)
                m = re.match(r"(\d+)\s*:(.*)$", b)
                if m:                                 # THEN 10:stmt — the statement is never reached
                    return (self.line_index(int(m.group(1))), None)
                body = branch
                continue
            # one ordinary statement up to the next colon
            parts = split_colon(body)
            st, body = parts[0].strip(), ":".join(parts[1:])
            r = self.exec_stmt(k, st, body)
            if r is not None:
                return r

    def exec_stmt(self, k, st, rest):
        env = self.env
        if st == "":
            return None
        m = re.match(r"(GOTO|GOSUB)\s*(\d+)$", st)
        if m:
            if m.group(1) == "GOSUB":
                self.gosub_stack.append((k, rest))
            return (self.line_index(int(m.group(2))), None)
        if st == "RETURN":
            if not self.gosub_stack:
                raise S.EvalError("RG")
            kk, rr = self.gosub_stack.pop()
            return (kk, rr)
        if st in ("END", "STOP"):
            self.trace.append(("end",))
            raise Stop()
        m = re.match(r"ON\s*(.*?)\s*(GOTO|GOSUB)\s*([\d,\s]+)$", st)
        if m and not st.startswith(("ON ERR", "ON BRK", "ONERR", "ONBRK")):
            sel = S.to_i16(self.ev(m.group(1)))
            targets = [int(x) for x in re.findall(r"\d+", m.group(3))]
            if 1 <= sel <= len(targets):
                if m.group(2) == "GOSUB":
                    self.gosub_stack.append((k, rest))
                return (self.line_index(targets[sel - 1]), None)
            return None
        m = re.match(r"FOR\s*([A-Z][A-Z0-9]*)\s*=(.*)$", st)
        if m:
            var = S.var_key(m.group(1))
            spec = m.group(2)
            to = find_kw(spec, "TO")
            stp = find_kw(spec, "STEP", to)
            a = self.ev(spec[:to])
            b = self.ev(spec[to + 2:stp if stp >= 0 else len(spec)])
            s_ = self.ev(spec[stp + 4:]) if stp >= 0 else 1.0
            env[var] = S.num(a)
            self.for_stack = [f for f in self.for_stack if f[0] != var]
            self.for_stack.append((var, S.num(b), S.num(s_), k, rest))
            return None
        m = re.match(r"NEXT\s*(.*)$", st)
        if m:
            names = [S.var_key(x.strip()) for x in m.group(1).split(",") if x.strip()] or [None]
            for nm in names:
                if not self.for_stack:
                    raise S.EvalError("NF")
                if nm is not None:
                    while self.for_stack and self.for_stack[-1][0] != nm:
                        self.for_stack.pop()
                    if not self.for_stack:
                        raise S.EvalError("NF")
                var, lim, step, kk, rr = self.for_stack[-1]
                env[var] = S.num(env.get(var, 0.0)) + step
                if (step >= 0 and env[var] <= lim) or (step < 0 and env[var] >= lim):
                    return (kk, rr)
                self.for_stack.pop()
            return None
        if st.startswith(("PRINT", "?")):
            body = st[5:] if st.startswith("PRINT") else st[1:]
            if body.lstrip().startswith("@"):
                return self.event_stmt(st)
            self.trace.append(("print",) + norm_print(self.print_items(body)))
            return None
        if st.startswith("DATA"):
            return None
        if st == "RESTORE":
            self.dptr = 0
            self.trace.append(("restore",))
            return None
        m = re.match(r"READ\s*(.*)$", st)
        if m:
            for tgt in self.split_args(m.group(1)):
                if self.dptr >= len(self.data):
                    raise S.EvalError("OD")
                item = self.data[self.dptr]
                was_quoted = self.quoted[self.dptr]
                self.dptr += 1
                isstr = tgt.strip().split("(")[0].strip().endswith("$")
                if self.strict and not isstr and item.strip():
                    t = item.replace(" ", "")
                    if re.fullmatch(r"&H[0-9A-F]+", t):
                        self.assign(tgt.strip(), float(int(t[2:], 16)))
                        continue
                    if not NUM_RE.match(t) or was_quoted:
                        raise S.EvalError("SN")        # a string datum for a numeric target
                if self.strict and isstr and not was_quoted and "numeric-datum-read-as-string" in LENIENT \
                        and NUM_RE.match(item.replace(" ", "")) and any(d == "" and not q for d, q in zip(self.data, self.quoted)):
                    item = repr(float(item.replace(" ", "")))     # known: typed by its look, then made a string
                self.assign(tgt.strip(), item if isstr else
                            (S.fn("VAL", [item], {}) if item.strip() else 0.0))
            return None
        if st.startswith("DIM") and self.strict:
            for d in self.split_args(st[3:]):
                m = re.match(r"\s*([A-Z][A-Z0-9]*\$?)\s*\((.*)\)\s*$", d)
                if m:
                    name = S.var_key(m.group(1))
                    if name in self.env.dims:
                        raise S.EvalError("DD")
                    self.env.dims[name] = tuple(S.to_i16(self.ev(b)) for b in self.split_args(m.group(2)))
            return None
        if st.startswith("DIM") or st.startswith("CLEAR"):
            return None
        m = re.match(r"(LINE\s*)?INPUT\s*(.*)$", st)
        if m:
            body = m.group(2).strip()
            prompt = ""
            pm = re.match(r'"([^"]*)"\s*;(.*)$', body)
            if pm:
                prompt, body = pm.group(1), pm.group(2)
            if not m.group(1):
                prompt += "? "
            targets = [t.strip() for t in self.split_args(body)]
            self.trace.append(("input", prompt, len(targets)))
            for tgt in targets:
                if not self.inputs:
                    self.trace.append(("end-of-input",))
                    raise Stop()
                item = self.inputs.pop(0)
                isstr = tgt.split("(")[0].strip().endswith("$")
                self.assign(tgt, item if isstr else S.fn("VAL", [item], {}))
            return None
        m = re.match(r"(?:LET\s*)?([A-Z][A-Z0-9]*\$?(?:\(.*?\))?)\s*=(.*)$", st)
        if m and not st.startswith(("IF", "ON", "FOR")):
            self.assign(m.group(1), self.ev(m.group(2)))
            return None
        return self.event_stmt(st)

    def event_stmt(self, st):
        self.trace.append(("stmt", re.sub(r"\s+", "", st)[:12]))
        return None

    def split_args(self, s):
        out, cur, depth, inq = [], [], 0, False
        for ch in s:
            if ch == '"':
                inq = not inq
            if not inq:
                if ch == "(":
                    depth += 1
                elif ch == ")":
                    depth -= 1
            if ch == "," and depth == 0 and not inq:
                out.append("".join(cur))
                cur = []
            else:
                cur.append(ch)
        out.append("".join(cur))
        return out

    def assign(self, target, value):
        m = re.match(r"([A-Z][A-Z0-9]*\$?)\((.*)\)$", target)
        if m:
            idx = tuple(S.to_i16(self.ev(a)) for a in self.split_args(m.group(2)))
            if self.strict:
                self.env.arr_check(S.var_key(m.group(1)), idx)
            self.env[("arr", S.var_key(m.group(1))) + idx] = value
        else:
            self.env[S.var_key(target)] = value

    def print_items(self, body):
        """values and separators of a PRINT list, juxtaposition = `;`"""
        items, i, s = [], 0, body
        toks = S.dtokens(s)
        # split the token list into expressions at ; , and at juxtaposition boundaries
        cur, depth, prev_operand, prev_id = [], 0, False, False
        def flush():
            if cur:
                src = " ".join(t for _, t in cur)
                v = S.decb_eval(S.DecbParser(list(cur)).expr(1), self.env, self.script)
                items.append(("v", decb_print_num(v) if self.strict and not isinstance(v, str) else fmt_num(v)))
                cur.clear()
        for k, t in toks:
            if depth == 0 and k == "op" and t in (";", ","):
                flush()
                items.append(t)
                prev_operand = False
                continue
            is_operand_start = k in ("num", "hex", "str", "id") or (k == "kw" and t not in ("AND", "OR", "NOT")) or (k, t) == ("op", "(")
            if depth == 0 and prev_operand and is_operand_start and not (prev_id and (k, t) == ("op", "(")):
                flush()
                items.append(";")                    # juxtaposed items print like `;`
            cur.append((k, t))
            if (k, t) == ("op", "("):
                depth += 1
            elif (k, t) == ("op", ")"):
                depth -= 1
            prev_operand = depth == 0 and (k in ("num", "hex", "str", "id") or (k, t) == ("op", ")") or (k == "kw" and t == "INKEY$"))
            prev_id = k == "id"
        flush()
        return items


# ----------------------------------------------------------------------------- BASIC09

WRAPPERS = {"ecb_int": "INT", "ecb_val": "VAL", "ecb_str": "STR$", "ecb_hex": "HEX$", "ecb_instr": "INSTR",
            "ecb_string": "STRING$", "inkey": "INKEY$", "ecb_button": "BUTTON", "ecb_joystk": "JOYSTK", "ecb_point": "POINT"}


def b09_num_text(v):
    """how BASIC09's PRINT writes a REAL: no leading blank, a trailing point on whole numbers"""
    if v == int(v) and abs(v) < 1e9:
        return f"{int(v)}."
    t = repr(float(v))
    return t[1:] if t.startswith("0.") else ("-" + t[2:] if t.startswith("-0.") else t)


class B09Env(dict):
    """variable store of the strict BASIC09 machine (C03): arrays exist only when DIMensioned, with
    indices base..base+n-1; with `strict_init` a read of something never assigned is an error
    (BASIC09 does not clear data memory), otherwise it reads as 0 / the empty string"""

    def __init__(self, *a):
        super().__init__(*a)
        self.dims = {}
        self.base = 1
        self.strict_init = False
        self.strsize = {}
        self.assumed_filled = set()

    def unset(self, n):
        if self.strict_init and not n.startswith("tmp_") and "." not in n:
            raise S.EvalError(f"reads {n} before any assignment")
        return "" if n.endswith("$") else 0.0

    def arr_check(self, name, idx):
        if name not in self.dims:
            raise S.EvalError(f"arr_{name} is used without a DIM")
        b = self.dims[name]
        if len(b) != len(idx):
            if "implicit-array-multi-dim" in LENIENT and b == (11,) and name in UNDIMMED:
                b = self.dims[name] = (11,) * len(idx)
                self.assumed_filled.add(name)     # the one-dimensional fill loop stands for the intended one
            else:
                raise S.EvalError(f"arr_{name} has {len(b)} dimensions, used with {len(idx)}")
        if any(i < self.base or i > self.base + n - 1 for i, n in zip(idx, b)):
            raise S.EvalError("BS")

    def arr_get(self, name, idx):
        if name == "ST$" and len(idx) == 2 and "string-func-numeric-code" in LENIENT:
            return chr(idx[1] % 256) * idx[0]      # known: STRING$(n, code) is read as the array ST$
        self.arr_check(name, idx)
        key = ("arr", name) + idx
        if key not in self:
            if self.strict_init and name not in self.assumed_filled:
                raise S.EvalError(f"reads arr_{name}{idx} before any assignment")
            return "" if name.endswith("$") else 0.0
        return self[key]


class B09Machine:
    def __init__(self, lines, env, script, budget=4000, strict=False, strict_init=False, inputs=()):
        self.strict = strict
        if strict:
            budget = 400000        # the fill loops of a three-dimensional array are thousands of steps
        self.inputs = list(inputs)
        self.stmts = []          # (label or None, parsed node)
        self.labels = {}
        for line in lines:
            if not line.strip():
                continue
            lab, rest = T.line_label(line)
            first = True
            for st in T.split_statements(T.tokens(rest)):
                if not st:
                    continue
                node = BP.parse_statement(st)
                if lab is not None and first:
                    self.labels[lab] = len(self.stmts)
                first = False
                self.stmts.append(node)
            if lab is not None and first:
                self.labels[lab] = len(self.stmts)
        self.env = B09Env(env) if strict else dict(env)
        if strict:
            self.env.strict_init = strict_init
        self.script = script
        self.trace = []
        self.budget = budget
        self.match_blocks()
        if strict:      # BASE is declarative: it holds for the whole procedure wherever it stands
            for n in self.stmts:
                if n[0] == "decl" and n[1] == "BASE":
                    self.env.base = int(float(n[2][1][1]))
        self.data = [self.const(v) for n in self.stmts if n[0] == "data" for v in n[1]]
        self.dptr = 0

    def const(self, e):
        return S.b09_eval(e, {}, {})

    def match_blocks(self):
        """for every block keyword the index of its partner(s)"""
        self.jump = {}
        self.bad_next = None
        stack = []
        for i, n in enumerate(self.stmts):
            if n[0] == "open":
                stack.append((n[1], i, []))
            elif n[0] == "mid":
                stack[-1][2].append(i)
            elif n[0] == "close":
                kind, start, mids = stack.pop()
                self.jump[start] = (mids[0] if mids else i, i)
                for m in mids:
                    self.jump[m] = i
                self.jump[i] = start
        # FOR / NEXT: lexical pairing, as BASIC09 compiles it
        fstack = []
        for i, n in enumerate(self.stmts):
            if n[0] == "for":
                fstack.append(i)
            elif n[0] == "next":
                j = fstack.pop() if fstack else None
                if j is not None and self.stmts[j][1] != n[1]:
                    # BASIC09 compiles FOR/NEXT as a block: the NEXT must name the variable of the FOR it closes
                    self.bad_next = f"NEXT {n[1]} closes FOR {self.stmts[j][1]}"
                self.jump[i] = j
                if j is not None:
                    self.jump[("for", j)] = i
        # the ENDLOOP of every EXITIF (leave the loop after the ENDEXIT body)
        lstack = []
        for i, n in enumerate(self.stmts):
            if n[0] == "open" and n[1] == "LOOP":
                lstack.append(i)
            elif n[0] == "close" and n[1] == "LOOP":
                lstack.pop()
            elif n[0] == "close" and n[1] == "EXITIF":
                self.jump[("endexit", i)] = self.jump[lstack[-1]][1] if lstack else None

    def ev(self, e):
        return S.b09_eval(e, self.env, self.script)

    def run(self):
        pc, gosub, forlim = 0, [], {}
        if self.bad_next:
            self.trace.append(("error", "BASIC09: unmatched control structure: " + self.bad_next))
            return self.trace
        try:
            while pc < len(self.stmts):
                self.budget -= 1
                if self.budget <= 0:
                    self.trace.append(("budget",))
                    return self.trace
                n = self.stmts[pc]
                k = n[0]
                if k == "open" and n[1] == "IF":
                    c = self.ev(n[2])
                    if not isinstance(c, bool):
                        raise S.EvalError("BASIC09: IF needs a BOOLEAN")
                    if not c:
                        pc = self.jump[pc][0]      # to ELSE (then continue after it) or ENDIF
                        pc += 1
                        continue
                elif k == "mid":                    # reached ELSE after the THEN part: skip to ENDIF
                    pc = self.jump[pc]
                elif k == "open" and n[1] == "EXITIF":
                    c = self.ev(n[2])
                    if not isinstance(c, bool):
                        raise S.EvalError("BASIC09: EXITIF needs a BOOLEAN")
                    if not c:
                        pc = self.jump[pc][1]      # to ENDEXIT, continue after it
                        pc += 1
                        continue
                elif k == "close" and n[1] == "EXITIF":
                    tgt = self.jump.get(("endexit", pc))
                    pc = tgt if tgt is not None else pc
                elif k == "close" and n[1] == "LOOP":
                    pc = self.jump[pc]             # back to LOOP
                elif k == "ifgoto":
                    c = self.ev(n[1])
                    if not isinstance(c, bool):
                        raise S.EvalError("BASIC09: IF needs a BOOLEAN")
                    if c:
                        pc = self.goto(n[2])
                        continue
                elif k == "goto":
                    pc = self.goto(n[1])
                    continue
                elif k == "gosub":
                    gosub.append(pc + 1)
                    pc = self.goto(n[1])
                    continue
                elif k == "kw":
                    if n[1] == "RETURN":
                        if not gosub:
                            raise S.EvalError("RG")
                        pc = gosub.pop()
                        continue
                    if n[1] in ("END", "STOP"):
                        self.trace.append(("end",))
                        return self.trace
                    if n[1] == "RESTORE":
                        self.dptr = 0
                        self.trace.append(("restore",))
                elif k == "ongo":
                    sel = S.to_i16(self.ev(n[2]))
                    if 1 <= sel <= len(n[3]):
                        if n[1] == "GOSUB":
                            gosub.append(pc + 1)
                        pc = self.goto(n[3][sel - 1])
                        continue
                elif k == "for":
                    a, b = S.num(self.ev(n[2])), S.num(self.ev(n[3]))
                    s_ = S.num(self.ev(n[4])) if n[4] is not None else 1.0
                    self.env[n[1]] = a
                    forlim[pc] = (b, s_)
                    if ((s_ >= 0 and a > b) or (s_ < 0 and a < b)) and "for-zero-trip" not in LENIENT:   # BASIC09 tests before the first pass
                        # (counterfactual mode `for-zero-trip`: the body runs once, as in Color BASIC - used only to classify)
                        nx = self.jump.get(("for", pc))
                        if nx is None:
                            raise S.EvalError("FOR without NEXT")
                        pc = nx + 1
                        continue
                elif k == "next":
                    j = self.jump.get(pc)
                    if j is None or j not in forlim:
                        raise S.EvalError("NEXT without FOR")
                    var = self.stmts[j][1]
                    b, s_ = forlim[j]
                    self.env[var] = S.num(self.env.get(var, 0.0)) + s_
                    if (s_ >= 0 and self.env[var] <= b) or (s_ < 0 and self.env[var] >= b):
                        pc = j + 1
                        continue
                elif k == "assign":
                    v = self.ev(n[2])
                    self.store(n[1], v)
                elif k == "run":
                    self.do_run(n[1], n[2])
                elif k == "print":
                    self.trace.append(("print",) + norm_print(x if x in (";", ",") else ("v", self.print_text(self.ev(x), x)) for x in n[1]))
                elif k == "read":
                    for tgt in n[2]:
                        if self.dptr >= len(self.data):
                            raise S.EvalError("OD")
                        v = self.data[self.dptr]
                        if self.strict and not isinstance(v, str) and self.is_str_target(tgt) \
                                and "numeric-datum-read-as-string" in LENIENT:
                            v = SOURCE_DATA[self.dptr] if self.dptr < len(SOURCE_DATA) else digits(v)
                        if self.strict and isinstance(v, str) != self.is_str_target(tgt):
                            raise S.EvalError("BASIC09: READ of a " + ("string" if isinstance(v, str) else "number")
                                              + " into a " + ("string" if self.is_str_target(tgt) else "numeric") + " variable")
                        self.store(tgt, v, by_read=True)
                        self.dptr += 1
                elif k == "input":
                    self.trace.append(("input", self.const(n[1]) if n[1] else "", len(n[2])))
                    for tgt in n[2]:
                        if not self.inputs:
                            self.trace.append(("end-of-input",))
                            return self.trace
                        item = self.inputs.pop(0)
                        self.store(tgt, item if self.is_str_target(tgt) else S.fn("VAL", [item], {}), by_read=True)
                elif k == "decl" and self.strict:
                    self.declare(n[1], n[2])
                pc += 1
            self.trace.append(("end",))
        except S.EvalError as e:
            self.trace.append(("error", str(e)))
        return self.trace

    def print_text(self, v, node=None):
        if self.strict and not isinstance(v, (str, bool)):
            if "print-raw-number" in LENIENT and node is not None and node[0] in ("bin", "un"):
                return ecb_str_text(v)        # known: an operator expression is not sent through ecb_str
            return b09_num_text(v)
        return fmt_num(v)

    def is_str_target(self, tgt):
        return tgt[1].endswith("$")

    def declare(self, kw, toks):
        if kw == "BASE":
            self.env.base = int(float(toks[1][1]))
            return
        if kw != "DIM":
            return
        # DIM a, b(3, 4), c$ : STRING[80]  (`;` separates groups with their own type)
        body = toks[1:]
        size = None
        for i, tk in enumerate(body):
            if tk[0] == "id" and tk[1].upper() == "STRING" and i + 2 < len(body) and body[i + 1] == ("op", "["):
                size = int(float(body[i + 2][1]))
        colon = next((i for i, tk in enumerate(body) if tk == ("op", ":")), len(body))
        for item in T.split_args(body[:colon]):
            if not item or item[0][0] != "id":
                continue
            name = item[0][1]
            if name.endswith("$"):
                self.env.strsize[name] = size or 32
            if len(item) > 1 and item[1] == ("op", "("):
                dims = tuple(int(float(self.const(BP.parse_expr(a)))) for a in T.split_args(item[2:-1]))
                key = name[4:] if name.startswith("arr_") else name
                if key in self.env.dims:
                    raise S.EvalError(f"{name} is declared twice")
                self.env.dims[key] = dims

    def goto(self, n):
        if n not in self.labels:
            raise S.EvalError(f"UL {n}")
        return self.labels[n]

    def store(self, lhs, v, by_read=False):
        # BASIC09 is typed: a string variable takes a string, a REAL variable a number (not a BOOLEAN)
        want_str = lhs[1].endswith("$")
        if isinstance(v, bool) or isinstance(v, str) != want_str:
            kind = "BOOLEAN" if isinstance(v, bool) else ("string" if isinstance(v, str) else "number")
            raise S.EvalError(f"BASIC09: a {kind} is assigned to the {'string' if want_str else 'numeric'} variable {lhs[1]}")
        if self.strict and isinstance(v, str):
            v = v[:self.env.strsize.get(lhs[1], 32)]
        if lhs[0] == "id":
            self.env[lhs[1]] = v
        else:
            idx = tuple(S.to_i16(self.ev(a)) for a in lhs[2])
            name = lhs[1][4:] if lhs[1].startswith("arr_") else lhs[1]
            if self.strict:
                if by_read and name not in self.env.dims and "array-only-read-or-input-target" in LENIENT:
                    self.env.dims[name] = (11,) * len(idx)     # known: READ / INPUT targets are never visited
                self.env.arr_check(name, idx)
            self.env[("arr", name) + idx] = v

    def do_run(self, name, args):
        if name == "ecb_str" and self.strict:
            self.store(args[-1], ecb_str_text(S.num(self.ev(args[0]))))
            return
        if name in WRAPPERS:
            vals = [self.ev(a) for a in args[:-1]]
            self.store(args[-1], S.fn(WRAPPERS[name], vals, self.script))
            return
        if name == "ecb_read_filter":
            s_ = self.ev(args[0])
            self.store(args[1], 0.0 if s_ == "" else S.fn("VAL", [s_], {}))
            return
        if name in ("_ecb_input_prefix", "_ecb_input_suffix", "_ecb_start", "_ecb_init_hbuff"):
            return
        short = {"ecb_at": "PRINT@", "ecb_cls": "CLS", "ecb_sound": "SOUND"}.get(name, name)
        self.trace.append(("stmt", short[:12]))
