"""Property oracles for the decoder properties C16–C19, judged on the REAL code's output
(never on the model).  Each oracle returns None (holds / not applicable to this case) or a
short reason string (the property fails on this input)."""
from common import unhex

from gens_img import rgb6

C2R_REF = [0, 21, 2, 20, 6, 49, 35, 4, 33, 5, 14, 1, 12, 10, 3, 28, 7, 17, 16, 22, 48, 34, 37, 32,
           44, 40, 42, 13, 8, 11, 24, 26, 56, 19, 18, 50, 54, 52, 38, 36, 46, 45, 41, 15, 9, 25, 27,
           30, 63, 58, 23, 51, 55, 53, 39, 60, 47, 61, 43, 57, 29, 31, 59, 62]


def expected(case):
    """The image file the property demands for a builder ('valid') case, or None."""
    if "expect" in case:
        return case["expect"]
    fmt = case["fmt"]
    if fmt in ("mge", "rat", "cm3") and "pixels" in case:
        pal = case["pal"]
        if fmt == "mge" and not case["rgb"]:
            pal = [C2R_REF[p] for p in pal]
        dims = {"mge": b"320 200", "rat": b"320 199", "cm3": b"320 %d" % (192 * case.get("pages", 1))}[fmt]
        return b"P6\n" + dims + b"\n255\n" + b"".join(rgb6(pal[p]) for p in case["pixels"])
    return None


def is_compressed(case):
    fmt = case["fmt"]
    if fmt == "mge":
        return case.get("compressed", False)
    if fmt == "rat":
        return True
    if fmt == "cm3":
        return case.get("mode_used", 1) != 0
    if fmt == "vef":
        return case.get("squashed", False)
    return False


def _same_image(case, impl):
    if case["fmt"] == "vef":
        if not impl.startswith("ok "):
            return f"valid file not decoded: {impl[:60]}"
        _, w, h, hx = impl.split(" ")
        bm = unhex(hx)
        if int(w) != case["width"] or int(h) != 200:
            return f"size {w}x{h}, expected {case['width']}x200"
        exp = case["expect_bitmap"][: case["width"] * 200]
        if bm[: len(exp)] != exp:
            i = next(k for k in range(min(len(bm), len(exp))) if bm[k] != exp[k]) if len(bm) >= len(exp) or bm != exp[:len(bm)] else len(bm)
            return f"pixel {i} differs"
        return None
    exp = expected(case)
    if exp is None:
        return None
    if not impl.startswith("ok "):
        return f"valid file not decoded: {impl[:60]}"
    out = unhex(impl[3:])
    if out != exp:
        n = min(len(out), len(exp))
        i = next((k for k in range(n) if out[k] != exp[k]), n)
        return f"output differs from the image at byte {i} (len {len(out)} vs {len(exp)})"
    return None


def c16(case, impl):
    if case["kind"] == "option" and case["fmt"] in ("max", "hrs") and "expect" in case:
        return _same_image(case, impl)      # options that select where the picture starts: the same pixels whatever their combination
    if case["kind"] != "valid" or is_compressed(case):
        return None
    return _same_image(case, impl)


def c17(case, impl):
    if case["kind"] != "valid" or not is_compressed(case):
        return None
    return _same_image(case, impl)


def parse_pnm(out):
    """(magic, w, h, payload) or None when the header is not a complete P5/P6 header."""
    try:
        parts = out.split(b"\n", 3)
        magic, dims, maxv, payload = parts
        w, h = dims.split(b" ")
        if magic not in (b"P5", b"P6") or maxv != b"255":
            return None
        return magic, int(w), int(h), payload
    except Exception:  # noqa: BLE001
        return None


def complete(case, impl):
    """None when `impl` is a failure report or a complete image file; else the reason."""
    if not impl.startswith("ok "):
        return None
    if case["fmt"] == "vef":
        _, w, h, hx = impl.split(" ")
        bm = unhex(hx)
        if len(bm) != int(w) * int(h):
            return f"bitmap has {len(bm)} entries for {w}x{h}"
        if any(b >= 64 for b in bm):
            return "pixel outside the 64-entry palette"
        return None
    p = parse_pnm(unhex(impl[3:]))
    if p is None:
        return "no valid PNM header"
    magic, w, h, payload = p
    if w < 0 or h < 0:
        return f"negative size {w}x{h}"
    need = w * h * (3 if magic == b"P6" else 1)
    if len(payload) != need:
        return f"{len(payload)} samples for {w}x{h} ({need} announced)"
    return None


def c18(case, impl):
    """well-formed input -> a complete file of the advertised size"""
    if case["kind"] not in ("valid", "fixture", "option") or case.get("malformed"):
        return None
    if not impl.startswith("ok "):
        return f"well-formed file not decoded: {impl[:60]}"
    why = complete(case, impl)
    if why:
        return why
    if case["kind"] in ("valid", "option") and case["fmt"] != "vef":
        exp = expected(case)
        if exp is not None:
            eh = parse_pnm(exp)
            gh = parse_pnm(unhex(impl[3:]))
            if eh[:3] != gh[:3]:
                return f"header {gh[:3]} instead of {eh[:3]}"
    return None


def c19(case, impl):
    """any byte string -> failure reported, or a complete image"""
    return complete(case, impl)


ORACLES = {"C16": c16, "C17": c17, "C18": c18, "C19": c19}
