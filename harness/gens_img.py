"""Seeded generators of decoder inputs: structure-aware builders (mostly valid files with
known pixel content), damaged variants (prefixes, single-byte corruption, appended junk),
random strings, and the repository's fixtures.

Each case is a dict: {"req": driver request line, "fmt", "kind", and for builder cases
"pixels"/"pal"/… so that the property oracles can judge the real decoder's output
without the model}.
"""
import os

from common import REPO, hexs

FIX = os.path.join(REPO, "tests", "coco_tests", "fixtures")


def fixture(name):
    with open(os.path.join(FIX, name), "rb") as f:
        return f.read()


def rgb6(c):
    b = lambda i: 1 if c & (1 << i) else 0  # noqa: E731
    return bytes([(b(5) * 2 + b(2)) * 85, (b(4) * 2 + b(1)) * 85, (b(3) * 2 + b(0)) * 85])


def pack_nib(px):
    return bytes(px[i] * 16 + px[i + 1] for i in range(0, len(px) - 1, 2))


def rand_pixels(r, n, depth=16):
    style = r.randrange(6)
    if style == 0:
        v = r.randrange(depth)
        return [v] * n
    if style == 1:
        a, b = r.randrange(depth), r.randrange(depth)
        return [a if i % 2 == 0 else b for i in range(n)]
    if style == 2:  # long runs
        out = []
        while len(out) < n:
            out += [r.randrange(depth)] * r.choice([1, 2, 3, 7, 16, 255, 256, 257, 600])
        return out[:n]
    if style == 3:
        return [(i * 7 + i // 5) % depth for i in range(n)]
    return [r.randrange(depth) for _ in range(n)]


def rand_pal(r, hi=64):
    style = r.randrange(4)
    if style == 0:
        return [r.randrange(hi) for _ in range(16)]
    if style == 1:
        base = r.randrange(hi)
        return [(base + i) % hi for i in range(16)]
    if style == 2:
        return [r.choice([0, 63, 7, 56, 36, 9]) for _ in range(16)]
    return r.sample(range(hi), 16)


# ---------------------------------------------------------------- requests

def req_hrs(data, w, h, skip=0):
    return f"img hrs {w} {h} {skip} {hexs(data)}"


def req_max(data, arte=0, newsroom=False, cols=256, rows=None, skip=0, ignore=False):
    return (f"img max {arte} {1 if newsroom else 0} {cols} {'-' if rows is None else rows} "
            f"{skip} {1 if ignore else 0} {hexs(data)}")


def req_simple(fmt, data):
    return f"img {fmt} {hexs(data)}"


# ---------------------------------------------------------------- builders (valid files)

def build_hrs(r, w=None, h=None):
    w = w if w is not None else r.choice([2, 4, 6, 8, 10, 16, 320])
    h = h if h is not None else (r.choice([1, 2, 3, 5]) if w < 320 else r.choice([1, 2, 192]))
    pal = rand_pal(r)
    px = rand_pixels(r, w * h)
    data = bytes(pal) + pack_nib(px)
    exp = b"P6\n%d %d\n255\n" % (w, h) + b"".join(rgb6(pal[p]) for p in px)
    return {"fmt": "hrs", "kind": "valid", "req": req_hrs(data, w, h), "data": data,
            "w": w, "h": h, "expect": exp}


def build_pix(r, side=None):
    side = side if side is not None else r.choice([2, 4, 6, 8, 16, 128])
    px = rand_pixels(r, side * side)  # px[col][row] column-major: file order is y-major over x pairs
    # file byte k = y * (side/2) + x holds columns (2x, 2x+1) of row... see decoder: s[(2x)*side+y]
    data = bytearray()
    img = [0] * (side * side)
    for y in range(side):
        for x in range(side // 2):
            a, b = px[(2 * x) * side + y], px[(2 * x + 1) * side + y]
            data.append(a * 16 + b)
            img[(2 * x) * side + y] = a
            img[(2 * x + 1) * side + y] = b
    exp = b"P5\n%d %d\n255\n" % (side, side) + bytes(255 - v * 17 for v in img)
    return {"fmt": "pix", "kind": "valid", "req": req_simple("pix", bytes(data)), "data": bytes(data),
            "expect": exp}


BR2 = [(0, 0, 0), (255, 85, 0), (0, 170, 255), (255, 255, 255)]
BR3 = [(0, 0, 0), (255, 0, 0), (0, 0, 255), (255, 255, 255)]
SEMIG = [(0, 0, 0), (0, 255, 0), (255, 255, 0), (0, 0, 255), (255, 0, 0), (255, 255, 255),
         (0, 211, 170), (204, 0, 255), (255, 128, 0)]


def max_mode_colour(arte, a, b):
    """Spec: the colour a two-bit pixel (a = left bit, b = right bit) has in each table mode."""
    if arte == 3:
        return BR2[a * 2 + b]
    if arte == 4:
        return BR2[a + b * 2]
    if arte == 5:
        return BR3[a * 2 + b]
    if arte == 6:
        return BR3[a + b * 2]
    if arte == 7:
        return SEMIG[1 + a + b * 2]
    if arte == 8:
        return SEMIG[5 + a + b * 2]
    raise ValueError(arte)


def build_max(r, arte=None, newsroom=None, cols=None, rows=None):
    arte = arte if arte is not None else r.choice([0, 3, 4, 5, 6, 7, 8])
    newsroom = newsroom if newsroom is not None else (r.randrange(4) == 0)
    cols = cols if cols is not None else r.choice([8, 16, 32, 64, 256])
    rows = rows if rows is not None else (r.choice([1, 2, 3, 8, 24]) if cols < 256 else r.choice([1, 2, 192]))
    nbytes = cols // 8 * rows
    bits = rand_pixels(r, cols * rows, depth=2)
    body = bytes(sum(bits[k * 8 + j] << (7 - j) for j in range(8)) for k in range(nbytes))
    if newsroom:
        data = bytes([cols // 8, rows]) + body
        req = req_max(data, arte=arte, newsroom=True)
    else:
        data = bytes([0, nbytes >> 8, nbytes & 255, r.randrange(256), r.randrange(256)]) + body
        req = req_max(data, arte=arte, cols=cols)
    out = bytearray(b"P6\n%d %d\n255\n" % (cols, rows))
    if arte == 0:
        for bit in bits:
            out += bytes([255, 255, 255] if bit else [0, 0, 0])
    else:
        for k in range(0, len(bits), 2):
            c = bytes(max_mode_colour(arte, bits[k], bits[k + 1]))
            out += c + c
    return {"fmt": "max", "kind": "valid", "req": req, "data": data, "expect": bytes(out),
            "arte": arte, "newsroom": newsroom, "cols": cols, "rows": rows}


C2R = None  # filled lazily from the implementation's own table for the CMP oracle (see oracle)


def mge_header(r, pal, rgb=True, packed_flag=1, title=None):
    title = title if title is not None else (b"TITLE".ljust(30, b"\0"))
    return bytes([0]) + bytes(pal) + bytes([0 if rgb else r.choice([1, 255])]) + bytes([packed_flag]) \
        + title + bytes([r.randrange(256), r.randrange(256)])


def rle_encode(r, by, max_run=255, style=None):
    """(count, value) pairs, terminator 0; nondeterministic run splitting."""
    style = style if style is not None else r.randrange(3)
    out = bytearray()
    i = 0
    while i < len(by):
        j = i
        while j < len(by) and by[j] == by[i] and j - i < max_run:
            j += 1
        n = j - i
        if style == 1:
            n = 1
        elif style == 2 and n > 1:
            n = r.randrange(1, n + 1)
        out += bytes([n, by[i]])
        i += n
    out.append(0)
    return bytes(out)


def build_mge(r, compressed=None, rgb=None):
    compressed = compressed if compressed is not None else (r.randrange(2) == 0)
    rgb = rgb if rgb is not None else (r.randrange(3) != 0)
    pal = rand_pal(r)
    px = rand_pixels(r, 64000)
    by = pack_nib(px)
    if compressed:
        data = mge_header(r, pal, rgb, 0) + rle_encode(r, by)
    else:
        data = mge_header(r, pal, rgb, r.choice([1, 2, 255])) + by
    return {"fmt": "mge", "kind": "valid", "req": req_simple("mge", data), "data": data,
            "pal": pal, "rgb": rgb, "pixels": px, "compressed": compressed}


def rat_encode(r, by, esc, style=None, empty_runs=False):
    """literal ≠ esc, or `esc n v` with 1 ≤ n ≤ 255; nondeterministic choices.  empty_runs: also `esc 0 v` triples
    (a run of no bytes: the decoder skips it), sprinkled over the stream and placed right before the end"""
    style = style if style is not None else r.randrange(3)
    out = bytearray()
    i = 0
    while i < len(by):
        if empty_runs and (r.randrange(400) == 0 or i in (len(by) - 1, len(by) - 100, len(by) - 255, len(by) - 300)):
            out += bytes([esc, 0, r.randrange(256)])
        j = i
        while j < len(by) and by[j] == by[i] and j - i < 255:
            j += 1
        n = j - i
        if style == 1:
            n = 1
        elif style == 2 and n > 1:
            n = r.randrange(1, n + 1)
        if by[i] == esc or n > 2 or (style == 2 and r.randrange(4) == 0):
            out += bytes([esc, n, by[i]])
            i += n
        else:
            out.append(by[i])
            i += 1
    return bytes(out)


def build_rat(r, low_nibble_max=8, empty_runs=False):
    pal = rand_pal(r)
    px = rand_pixels(r, 199 * 320)
    if low_nibble_max < 16:
        px = [p if i % 2 == 0 else p % low_nibble_max for i, p in enumerate(px)]
    else:  # make sure the full nibble range really occurs in right-hand pixels
        for k in range(1, len(px), 2 * r.choice([1, 3, 50])):
            px[k] |= 8
    by = pack_nib(px)
    esc = r.choice([by[0], 0, 255, r.randrange(256)])
    data = bytes([esc, r.choice([1, 2, 255]), r.randrange(256)]) + bytes(pal) + rat_encode(r, by, esc, empty_runs=empty_runs)
    return {"fmt": "rat", "kind": "valid", "req": req_simple("rat", data), "data": data,
            "pal": pal, "pixels": px}


def cm3_encode_line(r, prev, cur, prev_last, mode):
    """One CM3 line given the previous line.  mode 0: raw; 1: greedy compressed; 2: random valid."""
    if mode == 0:
        return bytes([r.choice([128, 255, 200])]) + bytes(cur)
    left_bits, up_bits, lits = [], [], []
    for x in range(160):
        left = cur[x - 1] if x > 0 else prev_last
        can_left = cur[x] == left
        can_up = cur[x] == prev[x]
        if mode == 2:
            can_left = can_left and r.randrange(3) != 0
            can_up = can_up and r.randrange(3) != 0
        if can_left:
            left_bits.append(0)
        else:
            left_bits.append(1)
            if can_up:
                up_bits.append(0)
            else:
                up_bits.append(1)
                lits.append(cur[x])
    contr = (len(up_bits) + 7) // 8
    if mode == 2 and contr < 127:
        contr += r.randrange(2)  # a control byte may announce an unused padding byte
    if contr >= 128:
        return bytes([128]) + bytes(cur)
    up_bits += [r.randrange(2) if mode == 2 else 0 for _ in range(contr * 8 - len(up_bits))]
    pk = lambda bits: bytes(sum(bits[k * 8 + j] << (7 - j) for j in range(8)) for k in range(len(bits) // 8))  # noqa: E731
    # stream order in the decoder: control, 20 mask bytes, `contr` mask bytes, then literals as needed
    return bytes([contr]) + pk(left_bits) + pk(up_bits) + bytes(lits)


def build_cm3(r, pages=None, pattern=None, mode=None, first_row_zero=False, alternate=False, uniform_rows=False):
    pages = pages if pages is not None else r.choice([1, 1, 2])
    pattern = pattern if pattern is not None else (r.randrange(2) == 0)
    mode = mode if mode is not None else r.choice([0, 1, 2, 3])
    pal = rand_pal(r)
    rows = pages * 192
    px = rand_pixels(r, rows * 320)
    if alternate or r.randrange(2) == 0:  # make vertical/horizontal coherence so copy-up/left really happen
        for y in range(1, rows):
            if r.randrange(3) == 0:
                px[y * 320:(y + 1) * 320] = px[(y - 1) * 320:y * 320]
            elif alternate:
                for x in range(0, 320, 2):
                    if r.randrange(2) == 0:
                        px[y * 320 + x:y * 320 + x + 2] = px[(y - 1) * 320 + x:(y - 1) * 320 + x + 2]
    if first_row_zero:     # the first line copies from the initial (all zero) line buffer
        px[0:320] = [0] * 320
    if uniform_rows:       # (every other line really varied, whatever style `rand_pixels` drew)
        px = [r.randrange(16) for _ in range(rows * 320)]
    if uniform_rows:       # a constant line that repeats the last byte of the varied line above it: every byte is a copy of its left
        for y in (1, 3, 50, 191, rows - 1):     # neighbour, the second mask is empty and the greedy coder writes control byte 0
            px[y * 320:(y + 1) * 320] = [px[y * 320 - 2], px[y * 320 - 1]] * 160
    by = pack_nib(px)
    pictyp = (0x80 if pages == 2 else 0) | (0 if pattern else 1) | r.choice([0, 2, 0x40])
    data = bytearray([pictyp]) + bytes(pal) + bytes(r.randrange(256) for _ in range(12))
    if pattern:
        data += bytes(r.randrange(256) for _ in range(243))
    prev = [0] * 160
    prev_last = 0
    for p in range(pages):
        data.append(192)
        for y in range(192):
            cur = list(by[(p * 192 + y) * 160:(p * 192 + y + 1) * 160])
            m = mode if mode < 3 else r.randrange(3)
            if alternate:      # raw and coded lines in turn: a coded line copies from the raw line above it
                m = 0 if y % 2 == 0 else 1
            data += cm3_encode_line(r, prev, cur, prev_last, m)
            prev, prev_last = cur, cur[159]
    return {"fmt": "cm3", "kind": "valid", "req": req_simple("cm3", bytes(data)), "data": bytes(data),
            "pal": pal, "pixels": px, "pages": pages, "mode_used": mode}


VEF_TYPES = {0: (320, 80, 8), 1: (640, 80, 7), 3: (320, 40, 6)}


def vef_squash_row(r, row):
    """repeat groups 129..255 (count-128 copies), literal groups 1..128; random valid choices."""
    out = bytearray()
    i = 0
    while i < len(row):
        j = i
        while j < len(row) and row[j] == row[i] and j - i < 127:
            j += 1
        n = j - i
        if n >= 2 and r.randrange(4) != 0:
            n = r.randrange(1, n + 1) if r.randrange(3) == 0 else n
            out += bytes([128 + n, row[i]])
            i += n
        else:
            n = r.randrange(1, min(128, len(row) - i) + 1)
            if r.randrange(2) == 0:
                n = 1
            out += bytes([n]) + bytes(row[i:i + n])
            i += n
    return bytes(out)


def build_vef(r, t=None, squashed=None):
    t = t if t is not None else r.choice([0, 1, 3])
    squashed = squashed if squashed is not None else (r.randrange(2) == 0)
    width, orig_len, veftype = VEF_TYPES[t]
    depth = 16 if veftype == 8 else 4
    pal = rand_pal(r)
    ppb = 2 if veftype == 8 else 4
    # squashed files always hold 400 records; raw files hold width*200/ppb bytes
    nbytes = 400 * orig_len if squashed else width * 200 // ppb
    px = rand_pixels(r, nbytes * ppb, depth)
    if veftype == 8:
        by = pack_nib(px)
    else:
        by = bytes((px[k] << 6) | (px[k + 1] << 4) | (px[k + 2] << 2) | px[k + 3] for k in range(0, len(px), 4))
    head = bytes([128 if squashed else r.choice([0, 1, 127]), t]) + bytes(pal)
    if squashed:
        body = bytearray()
        for k in range(400):
            rec = vef_squash_row(r, by[k * orig_len:(k + 1) * orig_len])
            if len(rec) > 255:  # a record length is one byte; fall back to one literal group
                rec = bytes([orig_len]) + by[k * orig_len:(k + 1) * orig_len]
            body += bytes([len(rec)]) + rec
        data = head + bytes(body)
    else:
        data = head + by
    return {"fmt": "vef", "kind": "valid", "req": req_simple("vef", data), "data": data,
            "pal": pal, "pixels": px, "width": width, "squashed": squashed, "veftype": veftype,
            "expect_bitmap": bytes(pal[p] for p in px)}


BUILDERS = {"hrs": build_hrs, "pix": build_pix, "max": build_max, "mge": build_mge,
            "rat": build_rat, "cm3": build_cm3, "vef": build_vef}


# ---------------------------------------------------------------- well-formed files under unusual but legal options

def option_variants(r, n):
    """kind "option": inputs the format / the option parser allow but the default path never sees:
    odd widths, widths not a multiple of 8, explicit row counts, skips, sizes that are not a square,
    a title that fills all 30 bytes, the fourth VEF screen type."""
    out = []
    for _ in range(n):
        k = r.randrange(8)
        if k == 0:  # HRS, odd width: rows of ceil(w/2) bytes would be the honest layout; the file is ample
            w, h = r.choice([1, 3, 5, 7, 319]), r.choice([1, 2, 3])
            pal = rand_pal(r)
            data = bytes(pal) + bytes(r.randrange(256) for _ in range((w + 1) // 2 * h + 8))
            out.append({"fmt": "hrs", "kind": "option", "req": req_hrs(data, w, h), "data": data})
        elif k == 1:  # HRS, skip
            c = build_hrs(r)
            sk = r.choice([1, 7, 30])
            data = bytes(r.randrange(256) for _ in range(sk)) + c["data"]
            out.append({"fmt": "hrs", "kind": "option", "req": req_hrs(data, c["w"], c["h"], sk), "data": data,
                        "expect": c["expect"]})
        elif k == 2:  # MAX, width not a multiple of 8, explicit rows, ample data
            cols, rows = r.choice([1, 7, 12, 20, 250]), r.choice([1, 2, 5])
            data = bytes([0, 0, 0, 0, 0]) + bytes(r.randrange(256) for _ in range((cols + 7) // 8 * rows + 8))
            out.append({"fmt": "max", "kind": "option", "req": req_max(data, arte=r.choice([0, 3, 5]), cols=cols, rows=rows),
                        "data": data})
        elif k == 3:  # MAX, explicit rows / skip on a well-formed file
            c = build_max(r, newsroom=False)
            rows = r.randrange(1, c["rows"] + 1)
            sk = r.choice([0, 3])
            data = bytes(sk) + c["data"]
            out.append({"fmt": "max", "kind": "option", "req": req_max(data, arte=c["arte"], cols=c["cols"], rows=rows, skip=sk),
                        "data": data})
        elif k == 4:  # PIX whose size is not 2·(side/2)·side for an even side (not a well-formed PIX: kind random)
            L = r.choice([1, 3, 5, 7, 9, 10, 12, 20, 50, 100])
            data = bytes(r.randrange(256) for _ in range(L))
            out.append({"fmt": "pix", "kind": "random", "req": req_simple("pix", data), "data": data})
        elif k == 5:  # MGE whose 30-byte title has no NUL (all 30 characters used)
            pal = rand_pal(r)
            px = rand_pixels(r, 64000)
            data = mge_header(r, pal, True, 1, title=b"A" * 30) + pack_nib(px)
            out.append({"fmt": "mge", "kind": "option", "req": req_simple("mge", data), "data": data,
                        "pal": pal, "rgb": True, "pixels": px, "compressed": False})
        elif k == 6:  # VEF 640x200x2 (type byte 4): accepted by the header check
            data = bytes([0, 4]) + bytes(rand_pal(r)) + bytes(r.randrange(256) for _ in range(16000))
            out.append({"fmt": "vef", "kind": "option", "req": req_simple("vef", data), "data": data})
        else:  # newsroom header with explicit options ignored
            c = build_max(r, newsroom=True)
            out.append({"fmt": "max", "kind": "option", "req": c["req"], "data": c["data"], "expect": c["expect"]})
    return out


def option_products(r):
    """kind "option": every combination of the MAX / HRS options that select where the image starts
    (skip, newsroom header, explicit rows, ignore-errors) on a well-formed file whose expected
    output is known - an option must not change what another one means"""
    out = []
    for newsroom in (False, True):
        for sk in (0, 1, 5):
            for ignore in (False, True):
                for explicit_rows in (False, True):
                    c = build_max(r, newsroom=newsroom)
                    data = bytes(r.randrange(1, 256) for _ in range(sk)) + c["data"]
                    # with the Newsroom header an explicit -r must not change what is announced and written
                    rows = (c["rows"] + 5 if newsroom else c["rows"]) if explicit_rows else None
                    req = req_max(data, arte=c["arte"], newsroom=newsroom, cols=c["cols"], rows=rows, skip=sk, ignore=ignore)
                    out.append({"fmt": "max", "kind": "option", "req": req, "data": data, "expect": c["expect"],
                                "arte": c["arte"], "newsroom": newsroom, "cols": c["cols"], "rows": c["rows"]})
    for sk in (0, 1, 5, 30):
        c = build_hrs(r)
        data = bytes(r.randrange(256) for _ in range(sk)) + c["data"]
        out.append({"fmt": "hrs", "kind": "option", "req": req_hrs(data, c["w"], c["h"], sk), "data": data, "expect": c["expect"]})
    return out


def _const_pixels(n, v):
    return [v] * n


def all_bytes_pixels(n, depth=16):
    """pixels whose packed bytes run through all 256 byte values (0x00, 0x01, … 0xFF, again and again)"""
    per = 2 if depth == 16 else 4
    bits = 4 if depth == 16 else 2
    out = []
    k = 0
    while len(out) < n:
        b = k % 256
        out += [(b >> (bits * (per - 1 - j))) & (depth - 1) for j in range(per)]
        k += 1
    return out[:n]


def extremes(r):
    """Structured extremes of the valid-file space (kind "valid"): field maxima, boundary crossings,
    constant and alternating images, copies at column 0 across page boundaries, maximal/split runs."""
    out = []
    # HRS pictures larger than one standard screen (160 x 192 bytes): the size comes from the options, not from a constant
    import random as _random
    r_own = _random.Random(20260930)          # a stream of its own: the draws of everything that follows stay what they were
    for w, h in ((320, 200), (320, 193), (640, 100), (640, 192), (320, 400), (322, 192)):
        out.append(build_hrs(r_own, w=w, h=h))
    # CM3 lines whose control byte is 0 (greedy coding of a constant line after a varied one), one and two pages
    out.append(build_cm3(r_own, pages=1, pattern=False, mode=1, uniform_rows=True))
    out.append(build_cm3(r_own, pages=2, pattern=True, mode=1, uniform_rows=True))
    # every format that packs pixels into bytes: an uncompressed picture whose data runs through all 256 byte
    # values (a decoder that treats one value specially - 0x00 as "empty", 0xFF as a marker - shows here)
    global rand_pixels
    saved = rand_pixels
    rand_pixels = lambda r_, n, depth=16: all_bytes_pixels(n, depth)    # noqa: E731
    try:
        out.append(build_pix(r, side=32))
        out.append(build_hrs(r))
        out.append(build_mge(r, compressed=False, rgb=True))
        out.append(build_mge(r, compressed=False, rgb=False))
        out.append(build_cm3(r, pages=1, pattern=False, mode=0))
        for t in (0, 1, 3):
            out.append(build_vef(r, t=t, squashed=False))
    finally:
        rand_pixels = saved
    # MAX: length fields at and above 0x8000 / 0xFF00, widest and narrowest legal widths
    for cols, rows in ((256, 1024), (512, 1023), (8, 4096), (2040, 1)):
        nbytes = cols // 8 * rows
        body = bytes((i * 37 + (i >> 8)) & 255 for i in range(nbytes))
        data = bytes([0, nbytes >> 8, nbytes & 255, 0x0E, 0x00]) + body
        c = {"fmt": "max", "kind": "valid", "req": req_max(data, arte=0, cols=cols), "data": data,
             "arte": 0, "newsroom": False, "cols": cols, "rows": rows}
        exp = bytearray(b"P6\n%d %d\n255\n" % (cols, rows))
        for b in body:
            for k in range(8):
                exp += b"\xff\xff\xff" if b & (0x80 >> k) else b"\0\0\0"
        c["expect"] = bytes(exp)
        out.append(c)
    c = build_max(r, arte=3, newsroom=True)
    out.append(c)
    # Newsroom pictures wider than the default 256 pixels (width byte 33, 40, 64, 255) and of 255 rows
    for cols, rows, arte in ((264, 4, 0), (320, 3, 5), (512, 2, 3), (2040, 2, 0), (264, 255, 8)):
        out.append(build_max(r, arte=arte, newsroom=True, cols=cols, rows=rows))
    # RAT with empty runs (`esc 0 v`) sprinkled over the stream and right before the end of the picture
    out.append(build_rat(r, empty_runs=True))
    out.append(build_rat(r, empty_runs=True))
    # HRS: every palette slot used, all 64 codes over four files
    for base in (0, 16, 32, 48):
        pal = list(range(base, base + 16))
        px = [(i + i // 16) % 16 for i in range(32 * 4)]
        data = bytes(pal) + pack_nib(px)
        out.append({"fmt": "hrs", "kind": "valid", "req": req_hrs(data, 32, 4), "data": data, "w": 32, "h": 4,
                    "expect": b"P6\n32 4\n255\n" + b"".join(rgb6(pal[p]) for p in px)})
    # MGE: composite palette over all 64 codes; maximal runs; runs of length 1; run crossing everything
    for base in (0, 16, 32, 48):
        pal = list(range(base, base + 16))
        px = [(i // 640 + i) % 16 for i in range(64000)]
        by = pack_nib(px)
        data = mge_header(r, pal, False, 1) + by
        out.append({"fmt": "mge", "kind": "valid", "req": req_simple("mge", data), "data": data,
                    "pal": pal, "rgb": False, "pixels": px, "compressed": False})
    pal = rand_pal(r)
    px = _const_pixels(64000, 9)
    for style in (0, 1):
        data = mge_header(r, pal, True, 0) + rle_encode(r, pack_nib(px), style=style)
        out.append({"fmt": "mge", "kind": "valid", "req": req_simple("mge", data), "data": data,
                    "pal": pal, "rgb": True, "pixels": px, "compressed": True})
    # RAT: literal equal to the escape byte, maximal runs, runs crossing rows
    pal = rand_pal(r)
    px = [((i // 1000) % 8) if i % 2 else ((i // 700) % 16) for i in range(199 * 320)]
    by = pack_nib(px)
    for esc in (by[0], by[-1], 0):
        data = bytes([esc, 1, 0]) + bytes(pal) + rat_encode(r, by, esc, style=0)
        out.append({"fmt": "rat", "kind": "valid", "req": req_simple("rat", data), "data": data, "pal": pal, "pixels": px})
    # CM3: two pages, compressed, constant non-zero image: every byte (column 0 included, first line of
    # page 2 included) is a copy of its left neighbour; then vertical stripes: every byte copies from above
    pal = rand_pal(r)
    for pages, pattern in ((2, True), (2, False), (1, True)):
        for kind in ("const", "stripes", "rows"):
            rows = pages * 192
            if kind == "const":
                px = _const_pixels(rows * 320, 5)
            elif kind == "stripes":
                px = [(x * 3 + x // 7) % 16 for _ in range(rows) for x in range(320)]
            else:
                px = [((y * 5 + 1) % 16) for y in range(rows) for x in range(320)]
            by = pack_nib(px)
            pictyp = (0x80 if pages == 2 else 0) | (0 if pattern else 1)
            data = bytearray([pictyp]) + bytes(pal) + bytes(12) + (bytes(243) if pattern else b"")
            prev, prev_last = [0] * 160, 0
            for p in range(pages):
                data.append(192)
                for y in range(192):
                    cur = list(by[(p * 192 + y) * 160:(p * 192 + y + 1) * 160])
                    data += cm3_encode_line(r, prev, cur, prev_last, 1)
                    prev, prev_last = cur, cur[159]
            out.append({"fmt": "cm3", "kind": "valid", "req": req_simple("cm3", bytes(data)), "data": bytes(data),
                        "pal": pal, "pixels": px, "pages": pages, "mode_used": 1})
    # CM3: every picture-type byte shape with uncoded lines (pages x pattern block x the bits the decoder ignores)
    for pages in (1, 2):
        for pattern in (False, True):
            out.append(build_cm3(r, pages=pages, pattern=pattern, mode=0))
    # CM3: raw and coded lines in turn (a coded line copies from the raw line above it and vice versa)
    for pages in (1, 2):
        c = build_cm3(r, pages=pages, alternate=True)
        out.append(c)
    # VEF: all three types, squashed with maximal repeat groups (constant rows) and maximal literal groups
    for t in (0, 1, 3):
        width, orig_len, veftype = VEF_TYPES[t]
        depth = 16 if veftype == 8 else 4
        ppb = 2 if veftype == 8 else 4
        pal = rand_pal(r)
        px = [((k // (orig_len * ppb)) % depth) for k in range(400 * orig_len * ppb)]
        by = pack_nib(px) if veftype == 8 else bytes((px[k] << 6) | (px[k + 1] << 4) | (px[k + 2] << 2) | px[k + 3] for k in range(0, len(px), 4))
        body = bytearray()
        for k in range(400):
            row = by[k * orig_len:(k + 1) * orig_len]
            rec = bytes([128 + orig_len, row[0]]) if k % 2 == 0 else bytes([orig_len]) + row
            body += bytes([len(rec)]) + rec
        data = bytes([128, t]) + bytes(pal) + bytes(body)
        out.append({"fmt": "vef", "kind": "valid", "req": req_simple("vef", data), "data": data, "pal": pal,
                    "pixels": px, "width": width, "squashed": True, "veftype": veftype,
                    "expect_bitmap": bytes(pal[p] for p in px)})
    # VEF: records of every length around the raw row length (orig_len - 5 .. orig_len + 2): noisy rows with one
    # planted run of 2..7 equal bytes at the start / inside / at the end, coded literal + repeat + literal
    for t in (0, 1, 3):
        width, orig_len, veftype = VEF_TYPES[t]
        depth = 16 if veftype == 8 else 4
        ppb = 2 if veftype == 8 else 4
        pal = rand_pal(r)
        rows, body = [], bytearray()
        for k in range(400):
            row = bytearray(r.randrange(256) for _ in range(orig_len))
            for j in range(1, orig_len):          # no accidental runs
                if row[j] == row[j - 1]:
                    row[j] = (row[j] + 1) % 256
            L = 2 + k % 6
            pos = [0, 1, 10, orig_len - L, orig_len // 2][(k // 6) % 5]
            v = r.randrange(256)
            row[pos:pos + L] = bytes([v]) * L
            rec = bytearray()
            if pos > 0:
                rec += bytes([pos]) + row[:pos]
            rec += bytes([128 + L, v])
            if pos + L < orig_len:
                rec += bytes([orig_len - pos - L]) + row[pos + L:]
            rows.append(bytes(row))
            body += bytes([len(rec)]) + rec
        by = b"".join(rows)
        if veftype == 8:
            px = [n for b in by for n in (b >> 4, b & 15)]
        else:
            px = [n for b in by for n in (b >> 6, (b >> 4) & 3, (b >> 2) & 3, b & 3)]
        data = bytes([128, t]) + bytes(pal) + bytes(body)
        out.append({"fmt": "vef", "kind": "valid", "req": req_simple("vef", data), "data": data, "pal": pal,
                    "pixels": px, "width": width, "squashed": True, "veftype": veftype,
                    "expect_bitmap": bytes(pal[p] for p in px)})
    return out


def structured_damage(case, r):
    """Damage aimed at compression control bytes and count fields (kind "control")."""
    fmt, data = case["fmt"], case["data"]
    out = []
    if fmt == "mge" and case.get("compressed"):
        body = 51
        npairs = (len(data) - body - 1) // 2
        for _ in range(4):
            b = bytearray(data)
            k = body + 2 * r.randrange(npairs)
            b[k] = r.choice([1, 2, 255, (b[k] % 255) + 1])
            out.append(rewrap(case, bytes(b), "control"))
        k = body + 2 * r.randrange(npairs)
        out.append(rewrap(case, data[:k] + b"\0" + data[k:], "control"))          # early terminator
        out.append(rewrap(case, data[:-1] + bytes([3, 0x12, 0]), "control"))       # one run too many
    if fmt == "rat":
        esc = data[0]
        pos = [i for i in range(19, len(data) - 2) if data[i] == esc]
        for i in r.sample(pos, min(4, len(pos))):
            b = bytearray(data)
            b[i + 1] = r.choice([0, 1, 255, (b[i + 1] + 1) % 256])
            out.append(rewrap(case, bytes(b), "control"))
        out.append(rewrap(case, data + bytes([esc, 200, 0x11]), "control"))
        if len(data) > 40:
            out.append(rewrap(case, data[:-1] + bytes([esc, 255, 0x22]), "control"))  # last run overruns the image
    if fmt == "cm3":
        off = 1 + 16 + 12 + (0 if data[0] & 1 else 243)
        for v in (0, 1, 191, 193, 255):
            b = bytearray(data)
            b[off] = v
            out.append(rewrap(case, bytes(b), "control"))
    if fmt == "vef":
        if case.get("squashed"):
            for _ in range(4):
                b = bytearray(data)
                b[18] = r.choice([0, 1, b[18] - 1 if b[18] else 3, (b[18] + 1) % 256])
                out.append(rewrap(case, bytes(b), "control"))
            b = bytearray(data)
            b[19] = r.choice([0, 129, 255, 128, 1])
            out.append(rewrap(case, bytes(b), "control"))
            # every group control byte of the first records at every boundary value (128 is where "literal" meets "repeat")
            pos, ctl = 18, []
            for _rec in range(3):
                if pos >= len(data):
                    break
                count, i = data[pos], pos + 1
                while i < pos + 1 + count and i < len(data) and len(ctl) < 8:
                    ctl.append(i)
                    i += 2 if data[i] > 128 else 1 + data[i]
                pos += 1 + count
            for i in ctl:
                for v in (0, 1, 127, 128, 129, 255):
                    if data[i] != v:
                        b = bytearray(data)
                        b[i] = v
                        out.append(rewrap(case, bytes(b), "control"))
        else:
            out.append(rewrap(case, data[:-1], "control"))
            out.append(rewrap(case, data + b"\x11", "control"))
        b = bytearray(data)
        b[2 + r.randrange(16)] = r.choice([64, 255, 128])
        out.append(rewrap(case, bytes(b), "control"))
    # the same for the other run-length schemes, without a random draw: the first count / control bytes at every boundary value
    if fmt == "mge" and case.get("compressed"):
        for k in range(51, min(len(data) - 1, 51 + 2 * 4), 2):
            for v in (0, 1, 2, 127, 128, 255):
                if data[k] != v:
                    b = bytearray(data)
                    b[k] = v
                    out.append(rewrap(case, bytes(b), "control"))
        for i, v in ((16 + 1, 1), (16 + 2, 1), (16 + 1, 255), (16 + 2, 255), (0, 1)):      # the two header flags, the lead byte
            b = bytearray(data)
            b[i] = v if data[i] != v else 0
            out.append(rewrap(case, bytes(b), "control"))
    if fmt == "rat":
        esc = data[0]
        for i in [j for j in range(19, len(data) - 2) if data[j] == esc][:4]:
            for v in (0, 1, 2, 127, 128, 255, esc):
                if data[i + 1] != v:
                    b = bytearray(data)
                    b[i + 1] = v
                    out.append(rewrap(case, bytes(b), "control"))
        for i, v in ((1, 0), (1, 1), (1, 255), (0, (esc + 1) % 256)):                       # packed flag, escape byte
            if data[i] != v:
                b = bytearray(data)
                b[i] = v
                out.append(rewrap(case, bytes(b), "control"))
    if fmt == "cm3":
        off = 1 + 16 + 12 + (0 if data[0] & 1 else 243)
        for v in (0, 1, 2, 19, 20, 21, 127, 128, 129, 159, 160, 255):                        # the first line's control byte
            if off + 1 < len(data) and data[off + 1] != v:
                b = bytearray(data)
                b[off + 1] = v
                out.append(rewrap(case, bytes(b), "control"))
        for v in (0, 1, 0x80, 0x81, 2, 0xFF):                                               # the type byte (pages / pattern block)
            if data[0] != v:
                b = bytearray(data)
                b[0] = v
                out.append(rewrap(case, bytes(b), "control"))
    return out


def wit_mge_full_title(r):
    pal = rand_pal(r)
    px = rand_pixels(r, 64000)
    data = mge_header(r, pal, True, 1, title=b"A" * 30) + pack_nib(px)
    return {"fmt": "mge", "kind": "option", "req": req_simple("mge", data), "data": data,
            "pal": pal, "rgb": True, "pixels": px, "compressed": False}


def wit_vef_type4(r):
    data = bytes([0, 4]) + bytes(rand_pal(r)) + bytes(r.randrange(256) for _ in range(16000))
    return {"fmt": "vef", "kind": "option", "req": req_simple("vef", data), "data": data}


def wit_mge_early_terminator(r):
    c = build_mge(r, compressed=True)
    data = c["data"][:51] + bytes([5, 0x12, 0])
    return rewrap(c, data, "control")


def wit_rat_overrun(r):
    c = build_rat(r)
    esc = c["data"][0]
    data = c["data"][:19] + bytes([esc, 255, 0x11]) * 125      # 31875 bytes worth for a 31840-byte image
    return rewrap(c, data, "control")


def wit_cm3_lines(r):
    c = build_cm3(r, pages=1, pattern=False, mode=0)
    b = bytearray(c["data"])
    b[29] = 1
    return rewrap(c, bytes(b[:30 + 161]), "control")


def wit_vef_short(r):
    c = build_vef(r, t=0, squashed=False)
    return rewrap(c, c["data"][:-1], "control")


def wit_vef_palette(r):
    c = build_vef(r, t=0, squashed=False)
    b = bytearray(c["data"])
    b[2:18] = bytes([64] * 16)
    return rewrap(c, bytes(b), "control")


# ---------------------------------------------------------------- damage

def rewrap(case, data, kind):
    """Same decoder options, different bytes."""
    fmt = case["fmt"]
    parts = case["req"].split(" ")
    parts[-1] = hexs(data)
    return {"fmt": fmt, "kind": kind, "req": " ".join(parts), "data": data, "base": case}


def prefixes(case, r, n):
    data = case["data"]
    L = len(data)
    pts = {0, 1, 2, 3, 5, 16, 17, 18, 19, 20, 21, 48, 49, 50, 51, 52, L - 1, L - 2, L - 160, L // 2}
    pts |= {L * k // max(1, n) for k in range(n)}
    pts |= {r.randrange(L + 1) for _ in range(n // 4)}
    return [rewrap(case, data[:p], "prefix") for p in sorted(p for p in pts if 0 <= p < L)]


def corruptions(case, r, n):
    data = case["data"]
    out = []
    hdr = min(len(data), 64)
    idx = list(range(hdr)) if n >= hdr else r.sample(range(hdr), n)
    idx += [r.randrange(len(data)) for _ in range(max(0, n - len(idx)))] if data else []
    for i in idx:
        b = bytearray(data)
        b[i] = r.choice([0, 1, 64, 127, 128, 129, 255, b[i] ^ 0x80, (b[i] + 1) % 256])
        out.append(rewrap(case, bytes(b), "corrupt"))
    return out


def extended(case, r):
    return [rewrap(case, case["data"] + bytes(r.randrange(256) for _ in range(k)), "extended")
            for k in (1, 7, 300)]


def random_strings(r, fmt, n):
    out = []
    for _ in range(n):
        L = r.choice([0, 1, 2, 3, 5, 17, 18, 19, 20, 40, 60, 200, 700])
        data = bytes(r.choice([0, 0, 1, 128, 255, r.randrange(256)]) for _ in range(L))
        if fmt == "hrs":
            req = req_hrs(data, r.choice([1, 2, 3, 4, 8]), r.choice([1, 2, 3]), r.choice([0, 0, 1, 5]))
        elif fmt == "max":
            req = req_max(data, arte=r.randrange(9), newsroom=r.randrange(3) == 0,
                          cols=r.choice([8, 12, 16, 256, 7, 1]), rows=r.choice([None, None, 1, 2, 5]),
                          skip=r.choice([0, 0, 2]), ignore=r.randrange(2) == 0)
        else:
            req = req_simple(fmt, data)
        out.append({"fmt": fmt, "kind": "random", "req": req, "data": data})
    return out


def fixtures():
    out = []
    f = fixture
    out.append({"fmt": "hrs", "kind": "fixture", "req": req_hrs(f("monalisa.hrs"), 320, 192), "data": f("monalisa.hrs")})
    out.append({"fmt": "hrs", "kind": "fixture", "req": req_hrs(f("monalisa_s7.hrs"), 320, 192, 7), "data": f("monalisa_s7.hrs")})
    out.append({"fmt": "hrs", "kind": "fixture", "req": req_hrs(f("monalisa.hrs"), 160, 192), "data": f("monalisa.hrs")})
    out.append({"fmt": "hrs", "kind": "fixture", "req": req_hrs(f("monalisa.hrs"), 320, 97), "data": f("monalisa.hrs")})
    out.append({"fmt": "pix", "kind": "fixture", "req": req_simple("pix", f("sue.pix")), "data": f("sue.pix")})
    for arte in range(9):
        out.append({"fmt": "max", "kind": "fixture", "req": req_max(f("eye4.max"), arte=arte), "data": f("eye4.max")})
    out.append({"fmt": "max", "kind": "fixture", "req": req_max(f("eye4.max"), arte=2, cols=128), "data": f("eye4.max")})
    out.append({"fmt": "max", "kind": "fixture", "req": req_max(f("eye4.max"), rows=96), "data": f("eye4.max")})
    out.append({"fmt": "max", "kind": "fixture", "req": req_max(f("eye4_s7.max"), skip=7), "data": f("eye4_s7.max")})
    for name in ("eye4.bad1.max", "eye4.bad2.max"):
        for ign in (False, True):
            out.append({"fmt": "max", "kind": "fixture", "req": req_max(f(name), ignore=ign), "data": f(name),
                        "malformed": True})
    out.append({"fmt": "max", "kind": "fixture", "req": req_max(f("shamrock.art"), newsroom=True), "data": f("shamrock.art")})
    out.append({"fmt": "mge", "kind": "fixture", "req": req_simple("mge", f("dragon1.mge")), "data": f("dragon1.mge")})
    out.append({"fmt": "rat", "kind": "fixture", "req": req_simple("rat", f("watrfall.rat")), "data": f("watrfall.rat")})
    out.append({"fmt": "cm3", "kind": "fixture", "req": req_simple("cm3", f("clip1.cm3")), "data": f("clip1.cm3")})
    out.append({"fmt": "vef", "kind": "fixture", "req": req_simple("vef", f("trekies.vef")), "data": f("trekies.vef")})
    out.append({"fmt": "vef", "kind": "fixture", "req": req_simple("vef", f("owlcasl.vef")), "data": f("owlcasl.vef")})
    return out
