"""Control-flow suite (C02): generated programs over multi-statement lines, IF/THEN/ELSE (nested,
chained ELSE IF, line-number or statement branches), FOR/NEXT (STEP, bare NEXT, NEXT lists), GOTO,
GOSUB/RETURN, ON..GOTO/GOSUB, END and STOP, with unique ascending line numbers and lexically nested
loops.  The real `convert` translates each program under the four combinations of
filter_unused_linenum x initialize_vars; the oracle runs the source on the Color BASIC reference
machine and the real output on the BASIC09 reference machine (ctlsem.py) for several input
vectors and compares the traces of observable events."""
import multiprocessing as mp

import ctlsem as C
import exprsem as S
import oracles_b09 as OB
from common import hexs, note, rng, run_driver, unhex

ENVS = [
    {"A": 1.0, "B": 2.0, "C": 3.0, "N": 0.0},
    {"A": 2.0, "B": 2.0, "C": -1.0, "N": 5.0},
    {"A": 3.0, "B": 1.0, "C": 0.0, "N": 2.0},
    {"A": 0.0, "B": -2.0, "C": 7.0, "N": 1.0},
]
SCRIPT = {}


class CGen:
    def __init__(self, r):
        self.r = r
        self.n = 10
        self.lines = []
        self.subs = []
        self.pending_targets = []

    def num(self):
        n = self.n
        self.n += self.r.choice([5, 10, 10])
        return n

    def cond(self):
        r = self.r
        v = r.choice("ABCN")
        rel = r.choice(["=", "<>", "<", ">", "<=", ">="])
        c = f"{v}{rel}{r.choice(['0', '1', '2', '3', 'A', 'B', 'C'])}"
        k = r.randrange(8)
        if k == 0:
            return f"{c} AND {r.choice('ABCN')}>{r.randrange(3)}"
        if k == 1:
            return f"{c} OR {r.choice('ABCN')}={r.randrange(3)}"
        if k == 2:
            return r.choice(["A", "N", "A-B"])          # bare numeric condition
        return c

    def simple(self):
        r = self.r
        k = r.randrange(6)
        if k == 0:
            return f"{r.choice('ABCN')}={r.choice('ABCN')}+{r.randrange(1, 4)}"
        if k == 1:
            return f"PRINT \"{r.choice(['P', 'Q', 'R', 'HI'])}\";{r.choice('ABCN')}"
        if k == 2:
            return f"PRINT {r.choice('ABCN')}*2"
        if k == 3:
            if r.randrange(3) == 0:      # every spelling of a number, also right in front of ELSE / ':'
                return f"{r.choice('ABCN')}={r.choice(['2.5', '.5', '1.5', '2.', '1E1', '1.5E1', '-0.5', '25'])}"
            return f"{r.choice('ABCN')}={r.randrange(0, 4)}"
        if k == 4:
            return f"PRINT \"{r.choice(['X', 'Y', 'Z'])}\""
        return f"PRINT {r.choice('ABCN')};{r.choice('ABCN')}"

    def stmts(self, n=None):
        return ":".join(self.simple() for _ in range(n or self.r.choice([1, 1, 2])))

    def branch(self, fwd):
        r = self.r
        k = r.randrange(5)
        if k == 0 and fwd:
            return str(r.choice(fwd))
        if k == 1 and fwd:
            return self.stmts(1) + ":GOTO " + str(r.choice(fwd))
        return self.stmts()

    def block(self, later):
        """one block of 1..3 lines; `later` = line numbers that will exist further down (forward targets)"""
        r = self.r
        k = r.randrange(14)
        L = self.lines
        if k == 0:
            L.append(f"{self.num()} {self.stmts(r.choice([1, 2, 3]))}")
        elif k == 1:
            L.append(f"{self.num()} IF {self.cond()} THEN {self.branch(later)}")
        elif k == 2:
            L.append(f"{self.num()} IF {self.cond()} THEN {self.branch(later)} ELSE {self.branch(later)}")
        elif k == 3:
            s = f"{self.num()} IF {self.cond()} THEN {self.branch(later)}"
            for _ in range(r.choice([1, 2])):
                s += f" ELSE IF {self.cond()} THEN {self.branch(later)}"
            if r.randrange(3):
                s += f" ELSE {self.branch(later)}"
            L.append(s)
        elif k == 4:
            L.append(f"{self.num()} IF {self.cond()} THEN IF {self.cond()} THEN {self.stmts(1)} ELSE {self.stmts(1)}")
        elif k == 5:
            v = r.choice("IJ")
            a, b = r.choice(["1", "0", "A"]), r.choice(["3", "2", "B", "0"])
            step = r.choice(["", "", " STEP 2", " STEP -1"])
            if step == " STEP -1":
                a, b = b, a
            nxt = r.choice([f"NEXT {v}", "NEXT"])
            L.append(f"{self.num()} FOR {v}={a} TO {b}{step}:PRINT {v};:{self.stmts(1)}:{nxt}")
        elif k == 6:
            L.append(f"{self.num()} FOR I=1 TO {r.choice(['2', '3', 'A'])}")
            L.append(f"{self.num()} FOR J=1 TO 2:PRINT I;J")
            L.append(f"{self.num()} " + r.choice(["NEXT J,I", "NEXT J:NEXT I", "NEXT:NEXT", "NEXT J:NEXT"]))
            if r.randrange(3) == 0:      # three loops: a NEXT list closes two, a later NEXT the third
                L.pop(); L.pop(); L.pop()
                L.append(f"{self.num()} FOR K=1 TO 2:FOR I=1 TO 2")
                L.append(f"{self.num()} FOR J=1 TO 2:PRINT K;I;J")
                L.append(f"{self.num()} " + r.choice(["NEXT J,I:NEXT", "NEXT J,I:NEXT K", "NEXT J:NEXT I:NEXT", "NEXT:NEXT I,K",
                                                      "NEXT J,I,K", "NEXT:NEXT:NEXT", "NEXT J:NEXT:NEXT K"]))
        elif k == 7:
            L.append(f"{self.num()} FOR I={r.choice(['1', 'A', '2'])} TO {r.choice(['0', '1', 'B'])}:PRINT \"L\";I:NEXT I")
        elif k == 8 and later:
            L.append(f"{self.num()} IF {r.choice('ABCN')}<3 THEN {r.choice('ABCN')}=3:GOTO {r.choice(later)}")
        elif k == 9 and r.randrange(3) == 0:
            # a subroutine that starts on the very next line (falls into it once more after the RETURN)
            n1 = self.num()
            L.append(f"{n1} {self.stmts(1)}:GOSUB {self.n}")
            L.append(f"{self.num()} PRINT \"NX\";K:K=K+1:IF K<{r.choice([2, 3])} THEN RETURN")
        elif k == 9:
            sub = 900 + 10 * len(self.subs)
            self.subs.append(f"{sub} PRINT \"SUB{len(self.subs)}\";{r.choice('ABCN')}:{r.choice(['RETURN', 'IF A>0 THEN RETURN ELSE RETURN', self.simple() + ':RETURN'])}")
            L.append(f"{self.num()} GOSUB {sub}:{self.stmts(1)}")
        elif k == 10 and len(later) >= 2:
            t = r.sample(later, 2)
            # the selector may be out of range: then the statements after the colon run
            tail = r.choice(["", "", ":" + self.stmts(1), ":" + self.stmts(1) + ":GOTO " + str(r.choice(later)),
                             ":" + self.stmts(1) + ":" + r.choice(["END", "STOP"])])
            L.append(f"{self.num()} ON {r.choice('ABCN')} GOTO {t[0]},{t[1]}{tail}")
        elif k == 11 and self.subs:
            subs = [int(s.split(' ')[0]) for s in self.subs]
            L.append(f"{self.num()} ON {r.choice('ABCN')} GOSUB {','.join(str(x) for x in r.sample(subs, min(2, len(subs))))}:{self.stmts(1)}")
        elif k == 12:
            back = [int(l.split(' ')[0]) for l in L]
            if back:
                L.append(f"{self.num()} K=K+1:IF K<{r.choice([2, 3])} THEN {r.choice(back)}")
        else:
            L.append(f"{self.num()} {self.stmts(2)}:IF {self.cond()} THEN {r.choice(['END', 'STOP', self.stmts(1)])}")

    def program(self):
        r = self.r
        nblocks = r.choice([2, 3, 4, 6, 8])
        self.lines.append(f"{self.num()} K=0")
        tail_first = 800
        for b in range(nblocks):
            later = [tail_first, tail_first + 10]
            self.block(later)
        self.lines.append(f"{tail_first} PRINT \"T1\";A;B")
        self.lines.append(f"{tail_first + 10} PRINT \"T2\";C;N:END")
        return "\n".join(self.lines + self.subs)


PROBES = [
    # a STEP that starts with a sign / is an expression (B is 2, 2, 1, -2 in the four input vectors)
    "10 FOR I=6 TO 1 STEP -B:PRINT I:NEXT I\n20 PRINT \"D\"", "10 FOR I=1 TO 6 STEP +B:PRINT I:NEXT\n20 PRINT \"D\"",
    "10 FOR I=6 TO 1 STEP -(B):PRINT I:NEXT I", "10 FOR I=8 TO 1 STEP -B*2:PRINT I:NEXT I", "10 FOR I=1 TO 6 STEP B+1:PRINT I:NEXT I",
    "10 FOR I=1 TO 6 STEP ABS(B):PRINT I:NEXT I", "10 FOR I=6 TO 1 STEP (-B):PRINT I:NEXT I", "10 FOR I=-B TO +B:PRINT I:NEXT I",
    # an ELSE IF chain whose last ELSE is empty: when no guard holds, both programs go on with the next line
    "10 IF A=1 THEN PRINT \"ONE\" ELSE IF A=2 THEN PRINT \"TWO\" ELSE\n20 PRINT \"AFTER\"",
    "10 IF A=1 THEN PRINT \"ONE\" ELSE IF A=2 THEN PRINT \"TWO\" ELSE IF A=3 THEN PRINT \"THREE\" ELSE :\n20 PRINT \"AFTER\"",
    "10 IF A=1 THEN B=5 ELSE IF A=2 THEN 30 ELSE\n20 PRINT \"AFTER\";B\n30 PRINT \"END\"",
    "10 IF A=1 THEN PRINT \"ONE\" ELSE\n20 PRINT \"AFTER\"",
    "10 IF A=1 THEN B=2.5 ELSE B=3\n20 PRINT B",
    "10 IF A=1 THEN B=.5ELSE B=1E1\n20 PRINT B",
    "10 IF A=1 THEN B=2. ELSE IF A=2 THEN B=1.5E1 ELSE 30\n20 PRINT B\n30 PRINT \"Z\"",
    "10 IF A=1 THEN 30:PRINT \"X\"\n20 PRINT \"Y\"\n30 PRINT \"Z\"",
    "10 IF A=1 THEN PRINT \"P\" ELSE 30:PRINT \"X\"\n20 PRINT \"Y\"\n30 PRINT \"Z\"",
    "10 IF A=1 THEN PRINT \"ONE\" ELSE IF A=2 THEN PRINT \"TWO\"\n20 PRINT \"AFTER\"",
    "10 IF A=1 THEN PRINT \"ONE\" ELSE IF A=2 THEN PRINT \"TWO\" ELSE PRINT \"OTHER\"\n20 PRINT \"AFTER\"",
    "10 FOR I=1 TO 0:PRINT I:NEXT\n20 PRINT \"D\"",
    "10 FOR I=1 TO 3:FOR J=1 TO 2:PRINT I;J:NEXT:NEXT\n20 PRINT \"D\"",
    "10 FOR I=1 TO 3\n20 PRINT I\n30 NEXT\n40 PRINT \"D\"",
    "10 IF A THEN PRINT \"T\" ELSE PRINT \"F\"",
    "10 IF A THEN PRINT \"T\"\n20 PRINT \"N\"",
    "10 IF A=1 THEN IF B=2 THEN PRINT \"AB\" ELSE PRINT \"A\"\n20 PRINT \"N\"",
    "10 GOSUB 100:PRINT \"BACK\":END\n100 PRINT \"IN\":RETURN",
    "10 ON A GOSUB 100,200:PRINT \"BACK\":END\n100 PRINT \"S1\":RETURN\n200 PRINT \"S2\":RETURN",
    "10 ON A GOTO 30,40\n20 PRINT \"FALL\"\n30 PRINT \"T3\"\n40 PRINT \"T4\"",
    "10 ON A GOTO 100,200:PRINT \"NEITHER\":GOTO 300\n100 PRINT \"ONE\":GOTO 300\n200 PRINT \"TWO\"\n300 PRINT \"DONE\"",
    "10 ON N GOTO 100,200:PRINT \"NEITHER\":STOP\n100 PRINT \"ONE\":END\n200 PRINT \"TWO\"",
    "10 IF B>0 THEN ON A GOTO 100,200:PRINT \"NEITHER\"\n20 PRINT \"NEXT\":END\n100 PRINT \"ONE\":END\n200 PRINT \"TWO\"",
    "10 ON A GOSUB 100,200:PRINT \"BACK\":ON B GOTO 300,400:PRINT \"FALL\"\n20 END\n100 PRINT \"S1\":RETURN\n200 PRINT \"S2\":RETURN\n300 PRINT \"T3\":END\n400 PRINT \"T4\"",
    "10 GOSUB 100:PRINT \"A\":GOSUB 100:PRINT \"B\":END\n100 PRINT \"IN\":RETURN:PRINT \"DEAD\"",
    "10 PRINT \"START\":GOSUB 100:PRINT \"DONE\":END\n100 PRINT \"TWICE\":GOSUB 110\n110 PRINT \"BODY\":RETURN",
    "10 PRINT \"A\":GOTO 20\n20 PRINT \"B\":GOSUB 30\n30 PRINT \"C\":IF K=0 THEN K=1:RETURN\n40 PRINT \"D\"",
    "10 ON A GOSUB 20,20\n20 PRINT \"S\":K=K+1:IF K<3 THEN RETURN\n30 PRINT \"E\"",
    "10 IF A=1 THEN GOSUB 20\n20 PRINT \"X\":K=K+1:IF K=1 THEN RETURN\n30 END",
    "10 A=A+1:IF A<4 THEN 10\n20 PRINT A",
    "10 PRINT \"S\":STOP\n20 PRINT \"NEVER\"",
    "10 FOR I=3 TO 1 STEP -1:PRINT I:NEXT I\n20 PRINT \"D\"",
    "10 FOR I=1 TO 5 STEP 2:PRINT I:NEXT I",
    "10 FOR K=1 TO 2:FOR I=1 TO 2:FOR J=1 TO 2:PRINT K;I;J:NEXT J,I:NEXT\n20 PRINT \"D\"",
    "10 FOR K=1 TO 2:FOR I=1 TO 2:FOR J=1 TO 2:PRINT K;I;J:NEXT:NEXT I,K\n20 PRINT \"D\"",
    "10 FOR K=1 TO 2\n20 FOR I=1 TO 2:FOR J=1 TO 2:NEXT J,I\n30 PRINT K:NEXT\n40 PRINT \"D\"",
    "10 FOR I=1 TO 2:FOR J=1 TO 2:PRINT I;J:NEXT J:NEXT\n20 PRINT \"D\"",
]

# programs whose first line is line 0 (the steering variables are set there) and that jump back to it: line 0 in every
# position of a target list, in THEN / ELSE / GOTO / GOSUB
PROBES_ZERO = [
    "10 K=K+1:PRINT \"K\";K:IF K>2 THEN END\n20 ON A GOTO 40,0,50\n30 PRINT \"FALL\":END\n40 PRINT \"T4\":END\n50 PRINT \"T5\"",
    "10 K=K+1:PRINT \"K\";K:IF K>2 THEN END\n20 ON A GOTO 0,40,50\n30 PRINT \"FALL\":END\n40 PRINT \"T4\":END\n50 PRINT \"T5\"",
    "10 K=K+1:PRINT \"K\";K:IF K>2 THEN END\n20 ON A GOTO 40,50,0\n30 PRINT \"FALL\":END\n40 PRINT \"T4\":END\n50 PRINT \"T5\"",
    "10 K=K+1:PRINT \"K\";K:IF K>2 THEN END\n20 ON A GOTO 40,0,0,50:PRINT \"NONE\"\n30 PRINT \"FALL\":END\n40 PRINT \"T4\":END\n50 PRINT \"T5\"",
    "10 K=K+1:PRINT \"K\";K:IF K>3 THEN END\n20 IF K>1 THEN RETURN\n30 ON A GOSUB 60,0,70:PRINT \"BACK\":END\n60 PRINT \"S6\":RETURN\n70 PRINT \"S7\":RETURN",
    "10 K=K+1:PRINT \"K\";K:IF K>2 THEN END\n20 IF A=1 THEN 0 ELSE IF A=2 THEN PRINT \"TWO\" ELSE 0\n30 PRINT \"N\"",
    "10 K=K+1:PRINT \"K\";K:IF K>2 THEN END\n20 IF A=2 THEN PRINT \"TWO\":GOTO 0\n30 PRINT \"N\":IF A=1 THEN GOTO 0",
]

FLAGS = ["0100000", "0101000", "0100100", "0101100"]


def cases(tier):
    r = rng("ctl-suite")
    progs = list(PROBES) + ["#0 " + p for p in PROBES_ZERO]
    for _ in range(120 if tier != "thorough" else 1200):
        progs.append(CGen(r).program())
    out = []
    for k, p in enumerate(progs):
        probe = k < len(PROBES) + len(PROBES_ZERO)
        first = "5 "
        if p.startswith("#0 "):
            first, p = "0 ", p[3:]
        envs = ENVS if probe or tier == "thorough" else r.sample(ENVS, 2)
        for n, env in enumerate(envs):
            # the input vector is part of the program: a first line that sets the steering variables
            text = first + ":".join(f"{v}={int(x)}" for v, x in env.items()) + "\n" + p
            for flags in (FLAGS if probe else [r.choice(FLAGS)]):
                o = {"flags": flags, "storage": 32, "procname": "", "sizes": []}
                out.append({"fmt": "ctl", "kind": "probe" if probe else "generated", "text": text, "opts": o,
                            "req": "ctl " + flags + " " + hexs(text.encode())})
    return out


def _work(item):
    import impl_b09
    text, o = item
    sx = impl_b09.sexp(text)
    impl = impl_b09.convert(text, o)
    return (impl_b09.convast_request(sx, o) if sx is not None else None), impl


def run(tier):
    import impl_b09
    cs = cases(tier)
    with mp.Pool(16) as pool:
        res = pool.map(_work, [(c["text"], c["opts"]) for c in cs], chunksize=8)
    reqs, idx = ["setlib " + hexs(impl_b09.lib_text().encode())], []
    for k, (req, _) in enumerate(res):
        if req is not None:
            idx.append(k)
            reqs.append(req)
    outs = run_driver(reqs)[1:]
    impl = [i for _, i in res]
    model = list(impl)
    for k, o in zip(idx, outs):
        model[k] = o
    dis = [{"req": cs[k]["text"], "kind": cs[k]["kind"], "model": model[k][:160], "impl": impl[k][:160]}
           for k in range(len(cs)) if model[k] != impl[k]]
    return {"cases": cs, "model": model, "impl": impl, "disagreements": dis}


def traces(case, out_text, env):
    src = C.DecbMachine(case["text"], env, SCRIPT).run()
    lines = OB.program_lines(case, out_text)
    try:
        b09 = C.B09Machine(lines, env, SCRIPT).run()
    except Exception as e:  # noqa: BLE001
        b09 = [("unreadable", f"{type(e).__name__}: {e}")]
    return src, b09


def oracle(case, impl):
    if not impl.startswith("ok "):
        # every generated program and every probe lies inside the property's fragment (unique ascending
        # line numbers, existing targets, lexically nested loops): there must be a translated program
        note("ctl: refused")
        return f"the tool refuses a program of the control-flow fragment ({impl[:60]})"
    out = unhex(impl[3:]).decode()
    for n, env in enumerate([{}]):
        try:
            a, b = traces(case, out, env)
        except Exception:  # noqa: BLE001
            note("ctl: skipped, reference machine does not cover the source")
            return None           # the reference machine does not cover this source
        if a and a[-1][0] == "error":
            note("ctl: skipped, Color BASIC stops with an error (" + str(a[-1][1])[:14] + ")")
            continue              # Color BASIC stops with an error for this input vector: nothing to compare
        note("ctl: traces compared")
        m = min(len(a), len(b))
        abud, bbud = a[-1:] == [("budget",)], b[-1:] == [("budget",)]
        if abud or bbud:
            aa = [e for e in a if e != ("budget",)]
            bb = [e for e in b if e != ("budget",)]
            m = min(len(aa), len(bb))
            k = next((i for i in range(m) if aa[i] != bb[i]), m)
            if k < m:
                return f"after {k} common events Color BASIC does {aa[k]} and the translated program {bb[k]}"
            if abud != bbud:
                who = "the source" if abud else "the translated program"
                how = f" (with {b[-1][1]})" if abud and b and b[-1][0] == "error" else ""
                return f"after {k} common events {who} does not stop within the step budget while the other one stops{how}"
            continue
        if a != b:
            k = next((i for i in range(m) if a[i] != b[i]), m)
            return (f"after {k} common events Color BASIC does {a[k] if k < len(a) else 'nothing (stopped)'} "
                    f"and the translated program {b[k] if k < len(b) else 'nothing (stopped)'}")
    return None


def classify(case, impl, why, _depth=0):
    import re
    t = case["text"]
    if re.search(r"(THEN|ELSE) *\d+ *:", t):
        return "statement-after-then-line"
    if "IF needs a BOOLEAN" in why or "EXITIF needs a BOOLEAN" in why:
        return "numeric-condition-in-if-else"
    if re.search(r"ELSE *IF", t) and not re.search(r"ELSE(?! *IF)", re.sub(r"ELSE *IF", "", t).split("\n")[0] if False else " ".join(
            l for l in t.split("\n") if "ELSE IF" in l and not re.search(r"ELSE(?! *IF)", l.replace("ELSE IF", "")))):
        pass
    for l in t.split("\n"):
        if re.search(r"ELSE *IF", l) and not re.search(r"ELSE(?! *IF)", l):
            if "does not stop" in why or "budget" in why or "nothing" in why:
                return "else-if-chain-without-else-never-exits"
    if re.search(r"FOR [A-Z]+=.* TO ", t) and ("stopped" in why or "print" in why):
        # a loop whose range is empty at entry runs once in Color BASIC, never in BASIC09.  Counterfactual: were that the only
        # difference, the translated program would behave like the source on a BASIC09 whose FOR runs its body once
        if _depth:
            return None
        import ctlsem as C
        C.LENIENT.add("for-zero-trip")
        try:
            again = oracle(case, impl)
            # what remains once the FOR difference is taken away may be another listed finding of this property (a program can
            # hold several): then the case is explained by listed findings only
            rest = None if again is None else classify(case, impl, again, 1)
        except Exception:  # noqa: BLE001
            again, rest = "error", None
        finally:
            C.LENIENT.discard("for-zero-trip")
        return "for-zero-trip" if again is None or rest is not None else None
    return None


if __name__ == "__main__":
    import sys
    from collections import Counter
    res = run(sys.argv[1] if len(sys.argv) > 1 else "quick")
    print(len(res["cases"]), "cases", len(res["disagreements"]), "disagreements")
    cnt = Counter()
    for c, i in zip(res["cases"], res["impl"]):
        w = oracle(c, i)
        if w:
            k = classify(c, i, w)
            cnt[k] += 1
            if cnt[k] <= 3:
                print("----", k, "|", w[:200])
                print(c["text"][:400])
    print(cnt, Counter(i.split(" ")[0] for i in res["impl"]))
