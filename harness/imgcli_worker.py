"""Run one decoder's command-line entry point (`start(argv)`) in this fresh interpreter.
usage: imgcli_worker.py <module> <argv...>   — stdin/stdout are whatever the parent gave us."""
import importlib
import sys

sys.path.insert(0, sys.argv.pop(1)) if sys.argv[1].startswith("/") else None
mod = importlib.import_module("coco." + sys.argv[1])
mod.start(sys.argv[2:])
