"""Command-line level of the image decoders (C18: standard input / output give the same bytes as
files, every valid option goes through argparse; C19: how failure is reported, MAX removing its
output file).  A sample of the image suite's cases (valid, option, extended, truncated, corrupted)
is decoded by the real `start(argv)` in a fresh interpreter in three I/O arrangements -

    file -> file      file -> stdout      stdin -> stdout   (where the tool has the optional operands)

- and each result is compared with what the in-process `convert()` answered for the same request
(the answer the Lean model is tied to): success with exactly those bytes, or a reported failure
(non-zero exit status, or - MAX without -i - the output file removed)."""
import multiprocessing as mp
import os
import subprocess
import tempfile

import gens_img as G
import impl_img
import suite_img
from common import PY, REPO, hexs, rng, unhex

HERE = os.path.dirname(os.path.abspath(__file__))
MODULE = {"hrs": "hrstoppm", "pix": "pixtopgm", "max": "maxtoppm", "mge": "mgetoppm", "rat": "rattoppm", "cm3": "cm3toppm"}
ARTE_FLAG = {0: [], 1: ["-br"], 2: ["-rb"], 3: ["-br2"], 4: ["-rb2"], 5: ["-br3"], 6: ["-rb3"], 7: ["-s10"], 8: ["-s11"]}
STDIN_OK = {"hrs", "max", "mge", "rat", "cm3"}


def argv_of(req):
    """(format, option argv, data) of an `img …` request, or None for VEF (file names only, PNG)"""
    p = req.split(" ")
    fmt = p[1]
    data = unhex(p[-1])
    if fmt == "hrs":
        w, h, skip = int(p[2]), int(p[3]), int(p[4])
        return fmt, ["-w", str(w), "-r", str(h)] + (["-s", str(skip)] if skip else []), data
    if fmt == "max":
        arte, news, cols, rows, skip, ign = int(p[2]), p[3] == "1", int(p[4]), p[5], int(p[6]), p[7] == "1"
        opts = list(ARTE_FLAG[arte]) + ["-w", str(cols)]
        if rows != "-":
            opts += ["-r", rows]
        if skip:
            opts += ["-s", str(skip)]
        if ign:
            opts += ["-i"]
        if news:
            opts += ["-newsroom"]
        return fmt, opts, data
    if fmt in ("pix", "mge", "rat", "cm3"):
        return fmt, [], data
    return None


def cases(tier):
    r = rng("imgcli-suite")
    base = [c for c in suite_img.cases(tier) if c["fmt"] != "vef" and len(c["data"]) <= 70000]
    by = {}
    for c in base:
        by.setdefault((c["fmt"], c["kind"]), []).append(c)
    out = []
    per = 3 if tier != "thorough" else 25
    for key in sorted(by):
        for c in r.sample(by[key], min(per, len(by[key]))):
            out.append({"fmt": c["fmt"], "kind": "cli-" + c["kind"], "req": c["req"], "data": c["data"]})
    # not left to the draw: every fixture, and up to four valid / option cases per format that skip a preamble (-s N > 0)
    have = {c["req"] for c in out}
    nskip = {}
    for c in base:
        parts = c["req"].split(" ")
        skip = int(parts[4]) if c["fmt"] == "hrs" else int(parts[6]) if c["fmt"] == "max" else 0
        want = c["kind"] == "fixture" or (skip > 0 and c["kind"] in ("valid", "option") and nskip.get(c["fmt"], 0) < 4)
        if want and c["req"] not in have:
            if skip > 0 and c["kind"] != "fixture":
                nskip[c["fmt"]] = nskip.get(c["fmt"], 0) + 1
            have.add(c["req"])
            out.append({"fmt": c["fmt"], "kind": "cli-" + c["kind"], "req": c["req"], "data": c["data"]})
    # MAX's own failure protocol: header errors with and without -i, for every I/O arrangement
    for _ in range(3 if tier != "thorough" else 12):
        c = G.build_max(r, newsroom=False)
        bad = bytes([r.randrange(1, 256)]) + c["data"][1:]
        short = c["data"][:r.randrange(0, 5)]
        for data in (bad, short):
            for ign in (False, True):
                out.append({"fmt": "max", "kind": "cli-max-header-error", "data": data,
                            "req": G.req_max(data, arte=c["arte"], cols=c["cols"], ignore=ign)})
    return out


def run_cli(fmt, opts, data, mode):
    """mode ff / fo / io -> (exit status, output bytes or None when there is no output file)"""
    with tempfile.TemporaryDirectory() as d:
        src, dst = os.path.join(d, "in." + fmt), os.path.join(d, "out.pnm")
        with open(src, "wb") as f:
            f.write(data)
        cmd = [PY, os.path.join(HERE, "imgcli_worker.py"), MODULE[fmt]]
        if mode == "ff":
            p = subprocess.run(cmd + [src, dst] + opts, stdin=subprocess.DEVNULL, capture_output=True, cwd=REPO, timeout=120, env=dict(os.environ, PYTHONPATH=REPO))
            out = open(dst, "rb").read() if os.path.exists(dst) else None
        elif mode == "fo":
            p = subprocess.run(cmd + [src] + opts, stdin=subprocess.DEVNULL, capture_output=True, cwd=REPO, timeout=120, env=dict(os.environ, PYTHONPATH=REPO))
            out = p.stdout
        elif mode == "ip":          # standard input through a pipe that delivers the file in three pieces, not aligned with any read
            p = subprocess.Popen(cmd + opts, stdin=subprocess.PIPE, stdout=subprocess.PIPE, stderr=subprocess.PIPE, cwd=REPO,
                                 env=dict(os.environ, PYTHONPATH=REPO))
            import threading
            import time
            cuts = sorted({min(len(data), 7), min(len(data), max(8, len(data) // 3 + 5))})

            def feed():
                try:
                    pos = 0
                    for n_, c in enumerate(cuts + [len(data)]):
                        p.stdin.write(data[pos:c])
                        p.stdin.flush()
                        pos = c
                        time.sleep(1.5 if n_ == 0 else 0.4)      # the reader must be up and waiting before the next piece comes
                    p.stdin.close()
                except (BrokenPipeError, OSError):
                    pass
            t = threading.Thread(target=feed, daemon=True)
            guard = threading.Timer(120, p.kill)          # a reader that never ends is ended: no arrangement may block the check
            guard.start()
            t.start()
            try:
                out, _err = p.communicate_no_stdin() if hasattr(p, "communicate_no_stdin") else (None, None)
                if out is None:
                    import selectors
                    chunks, sel = [], selectors.DefaultSelector()
                    sel.register(p.stdout, selectors.EVENT_READ)
                    sel.register(p.stderr, selectors.EVENT_READ)
                    open_ = 2
                    while open_:
                        for key, _ in sel.select(timeout=130):
                            b = os.read(key.fileobj.fileno(), 65536)
                            if not b:
                                sel.unregister(key.fileobj)
                                open_ -= 1
                            elif key.fileobj is p.stdout:
                                chunks.append(b)
                        if p.poll() is not None and not sel.get_map():
                            break
                    out = b"".join(chunks)
                p.wait(timeout=10)
            finally:
                guard.cancel()
            t.join(timeout=5)
        elif mode == "fd":          # an explicit `-` for the output
            p = subprocess.run(cmd + [src, "-"] + opts, stdin=subprocess.DEVNULL, capture_output=True, cwd=d, timeout=120,
                               env=dict(os.environ, PYTHONPATH=REPO))
            out = p.stdout
        elif mode == "dd":          # an explicit `-` for both
            p = subprocess.run(cmd + ["-", "-"] + opts, input=data, capture_output=True, cwd=d, timeout=120,
                               env=dict(os.environ, PYTHONPATH=REPO))
            out = p.stdout
        else:
            p = subprocess.run(cmd + opts, input=data, capture_output=True, cwd=REPO, timeout=120, env=dict(os.environ, PYTHONPATH=REPO))
            out = p.stdout
        return p.returncode, out


def _work(req):
    a = argv_of(req)
    fmt, opts, data = a
    inproc = impl_img.run_request(req)
    res = {}
    for mode in ("ff", "fo") + (("io", "ip", "fd", "dd") if fmt in STDIN_OK else ()):
        try:
            rc, out = run_cli(fmt, opts, data, mode)
            res[mode] = (rc, None if out is None else hexs(out))
        except subprocess.TimeoutExpired:
            res[mode] = ("timeout", None)
    return inproc, res


def run(tier):
    cs = cases(tier)
    with mp.Pool(16) as pool:
        res = pool.map(_work, [c["req"] for c in cs], chunksize=2)
    from common import run_driver
    model = run_driver([c["req"] for c in cs])
    impl = []
    for c, (inproc, modes) in zip(cs, res):
        c["aux"] = {"modes": modes}
        impl.append(inproc)
    dis = [{"req": cs[k]["req"][:120], "kind": cs[k]["kind"], "model": model[k][:100], "impl": impl[k][:100]}
           for k in range(len(cs)) if model[k] != impl[k]]
    return {"cases": cs, "model": model, "impl": impl, "disagreements": dis}


def oracle(case, impl):
    """impl = the in-process convert() answer; the three command-line runs must say the same"""
    modes = case["aux"]["modes"]
    fmt = case["fmt"]
    for mode, (rc, out) in sorted(modes.items()):
        name = {"ff": "file -> file", "fo": "file -> stdout", "io": "stdin -> stdout", "fd": "file -> `-`", "dd": "`-` -> `-`", "ip": "stdin (a pipe filled in pieces) -> stdout"}[mode]
        if rc == "timeout":
            return f"{fmt} {name}: the tool did not terminate within 120 s"
        if impl.startswith("ok "):
            if rc != 0:
                return f"{fmt} {name}: convert() decodes this input but the command exits with status {rc}"
            if out != impl[3:]:
                return (f"{fmt} {name}: the command writes {0 if out is None else len(out) // 2} bytes, convert() "
                        f"{len(impl[3:]) // 2} bytes for the same input and options")
        else:
            # a failure must be reported: non-zero exit status, or (MAX, file output) the output file removed
            reported = rc != 0 or (fmt == "max" and mode == "ff" and out is None)
            if not reported:
                return (f"{fmt} {name}: convert() fails ({impl}) but the command exits 0"
                        + (" and leaves an output file" if mode == "ff" else " after writing to standard output"))
    return None


def classify(case, impl, why):
    if case["fmt"] == "max" and "standard output" in why and impl == "fail False":
        return "max-failure-on-stdout-not-reported"
    return None


if __name__ == "__main__":
    import sys
    import time
    from collections import Counter
    t0 = time.time()
    res = run(sys.argv[1] if len(sys.argv) > 1 else "quick")
    print(len(res["cases"]), "cases", len(res["disagreements"]), "disagreements", "%.1fs" % (time.time() - t0))
    cnt = Counter()
    for c, i in zip(res["cases"], res["impl"]):
        w = oracle(c, i)
        if w:
            k = classify(c, i, w)
            cnt[k] += 1
            if cnt[k] <= 6:
                print("----", k, c["kind"], "|", w[:300], "|", c["req"][:60])
    print(cnt, Counter(c["kind"] for c in res["cases"]), Counter(i.split(" ")[0] + " " + (i.split(" ")[1] if i.startswith("fail") else "") for i in res["impl"]))
