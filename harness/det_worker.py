"""Worker for the determinism suite: runs in a FRESH interpreter (own PYTHONHASHSEED), converts
the cases it is given in the order it is given, prints one digest per case.
stdin: JSON {"cases": [...], "order": [...], "repeat": k}; stdout: JSON {index: [digests…]}"""
import hashlib
import json
import sys

sys.path.insert(0, __file__.rsplit("/", 1)[0])


def main():
    job = json.load(sys.stdin)
    import impl_b09
    import impl_img
    out = {}
    for idx in job["order"]:
        c = job["cases"][idx]
        if c["fmt"] == "b09":
            res = impl_b09.convert(c["text"], c["opts"])
        else:
            res = impl_img.run_request(c["req"])
        out.setdefault(str(idx), []).append(hashlib.sha256(res.encode()).hexdigest()[:16])
    json.dump(out, sys.stdout)


if __name__ == "__main__":
    main()
