"""Worker for the determinism suite: runs in a FRESH interpreter (own PYTHONHASHSEED), converts
the cases it is given in the order it is given, prints one digest per case.
stdin: JSON {"cases": [...], "order": [...], "repeat": k}; stdout: JSON {index: [digests…]}"""
import hashlib
import json
import sys

sys.path.insert(0, __file__.rsplit("/", 1)[0])


def main():
    job = json.load(sys.stdin)
    import impl_b09
    import impl_img
    out = {}
    shared = {}     # one options object per size map, owned by the caller and passed to every call
    for idx in job["order"]:
        c = job["cases"][idx]
        if c["fmt"] == "b09" and job.get("share_configs") and c["opts"].get("sizes"):
            from coco.b09 import compiler
            from coco.b09.configs import CompilerConfigs, StringConfigs
            key = json.dumps(c["opts"]["sizes"])
            if key not in shared:
                shared[key] = CompilerConfigs(string_configs=StringConfigs(strname_to_size=dict(c["opts"]["sizes"])))
            kw = impl_b09.opts_to_kwargs(c["opts"])
            kw["compiler_configs"] = shared[key]
            res = impl_b09.outcome(lambda: compiler.convert(c["text"], **kw))
        elif c["fmt"] == "b09":
            res = impl_b09.convert(c["text"], c["opts"])
        else:
            res = impl_img.run_request(c["req"])
        out.setdefault(str(idx), []).append(hashlib.sha256(res.encode()).hexdigest()[:16])
    json.dump(out, sys.stdout)


if __name__ == "__main__":
    main()
