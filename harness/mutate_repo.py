"""Mechanical mutation run (analysis tool, not part of any check).

Works on an isolated copy:  <work>/repo2 (git clone of /repo)  and  <work>/verif2 (copy of /verif).
For each sampled single-line mutant of the project source: apply it, run the project's own test
suite; when all tests still pass (a change the tests cannot see) run the quick checks of the
properties that depend on the mutated file and record whether any of them reports a VIOLATION.
Survivors of both are listed for manual triage (equivalent mutant, behaviour outside the 20
properties, or a gap in a generator / oracle).

usage: /venv/bin/python mutate_repo.py <work> <n> <seed> [file-substring]
"""
import json
import os
import random
import re
import subprocess
import sys

WORK, N, SEED = sys.argv[1], int(sys.argv[2]), int(sys.argv[3])
ONLY = sys.argv[4] if len(sys.argv) > 4 else ""
REPO = os.path.join(WORK, "repo2")
VERIF = os.path.join(WORK, "verif2")
ENV = dict(os.environ, VERIF_REPO=REPO, PYTHONPATH=REPO, VERIF_SEED="0")

TRANSPILER = ["C01", "C02", "C03", "C04", "C05", "C06", "C07", "C08", "C09", "C10", "C11", "C12", "C13", "C14", "C15"]
FILES = {
    "coco/b09/compiler.py": TRANSPILER, "coco/b09/elements.py": TRANSPILER, "coco/b09/parser.py": TRANSPILER,
    "coco/b09/visitors.py": TRANSPILER, "coco/b09/procbank.py": ["C13", "C10", "C15", "C12"],
    "coco/b09/error_handler.py": ["C06", "C02", "C11"], "coco/b09/prog.py": TRANSPILER, "coco/decb_to_b09.py": ["C11"],
    "coco/hrstoppm.py": ["C16", "C18", "C19", "C12"], "coco/pixtopgm.py": ["C16", "C18", "C19"],
    "coco/maxtoppm.py": ["C16", "C18", "C19", "C12"], "coco/mgetoppm.py": ["C16", "C17", "C18", "C19"],
    "coco/rattoppm.py": ["C16", "C17", "C18", "C19"], "coco/cm3toppm.py": ["C16", "C17", "C18", "C19", "C12"],
    "coco/veftopng.py": ["C16", "C17", "C18", "C19"],
}

SWAPS = [(r" <= ", " < "), (r" < ", " <= "), (r" >= ", " > "), (r" > ", " >= "), (r" == ", " != "), (r" != ", " == "),
         (r" and ", " or "), (r" or ", " and "), (r"\bTrue\b", "False"), (r"\bFalse\b", "True"), (r" \+ ", " - "), (r" - ", " + "),
         (r" is not None", " is None"), (r" is None", " is not None"), (r"\bif not ", "if "), (r" >> ", " << "), (r" & ", " | ")]


def candidates(path, lines):
    out = []
    in_doc = False
    for k, line in enumerate(lines):
        s = line.strip()
        if s.count('"""') % 2 == 1:
            in_doc = not in_doc
            continue
        if in_doc or not s or s.startswith(("#", "import ", "from ", "def ", "class ", "@", '"', "'", ")", "]", "}")):
            continue
        if "add_argument" in line or "help=" in line or "description" in line.lower():
            continue
        for pat, rep in SWAPS:
            for m in re.finditer(pat, line):
                out.append((k, line[:m.start()] + rep + line[m.end():], f"{pat.strip()} -> {rep.strip()}"))
        for m in re.finditer(r"(?<![\w.\"'])(\d+)(?![\w.\"'])", line):
            v = int(m.group(1))
            for nv in {v + 1, max(0, v - 1)} - {v}:
                out.append((k, line[:m.start()] + str(nv) + line[m.end():], f"{v} -> {nv}"))
        # delete a simple statement line (assignment / call), keep the block valid with `pass`
        if re.match(r"^\s+[\w.\[\]]+(\s*=\s*|\.\w+\()", line) and not s.endswith((",", "(", "[", "{", "\\")) and s.count("(") == s.count(")"):
            out.append((k, re.match(r"^\s*", line).group(0) + "pass  # deleted: " + s[:40] + "\n", "statement deleted"))
    return out


def sh(cmd, cwd, timeout=1800):
    p = subprocess.run(cmd, cwd=cwd, env=ENV, capture_output=True, text=True, timeout=timeout)
    return p.returncode, p.stdout + p.stderr


def main():
    r = random.Random(SEED)
    pool = []
    for rel in FILES:
        if ONLY and ONLY not in rel:
            continue
        lines = open(os.path.join(REPO, rel)).read().split("\n")
        lines = [l + "\n" for l in lines]
        for k, new, what in candidates(rel, lines):
            pool.append((rel, k, new, what))
    r.shuffle(pool)
    log = open(os.path.join(WORK, f"mutation_{SEED}.jsonl"), "a")
    done = 0
    for rel, k, new, what in pool:
        if done >= N:
            break
        path = os.path.join(REPO, rel)
        src = open(path).read()
        lines = src.split("\n")
        old = lines[k]
        lines[k] = new.rstrip("\n")
        mutated = "\n".join(lines)
        try:
            compile(mutated, path, "exec")
        except SyntaxError:
            continue
        open(path, "w").write(mutated)
        try:
            rc, out = sh(["/venv/bin/python", "-m", "pytest", "-q", "-x", "-p", "no:cacheprovider", "--timeout=300"], REPO, 900)
            rec = {"file": rel, "line": k + 1, "old": old.strip()[:120], "new": new.strip()[:120], "what": what}
            if rc != 0:
                rec["result"] = "killed-by-tests"
            else:
                caught = []
                for pid in FILES[rel]:
                    rc2, out2 = sh(["/venv/bin/python", "harness/check.py", pid, "--tier", "quick"], VERIF, 1800)
                    if "VIOLATION" in out2:
                        weak = all("no-failing-input-found" in l for l in out2.split("\n") if l.startswith("VIOLATION"))
                        caught.append(pid + ("*" if weak else ""))
                        if not weak:          # stop at the first check that shows a failing input
                            break
                rec["result"] = ("caught" if any(not c.endswith("*") for c in caught) else "caught-weak") if caught else "SURVIVED"
                rec["by"] = caught
                done += 1
            log.write(json.dumps(rec) + "\n")
            log.flush()
            print(rec["result"], rel, k + 1, what, rec.get("by", ""), flush=True)
        finally:
            open(path, "w").write(src)


if __name__ == "__main__":
    main()
