"""A small interpreter for the statement subset of BASIC09 in which the *value procedures* of ecb.b09 are
written (ecb_int, ecb_val, ecb_str, ecb_hex, _ecb_hex_digit, ecb_instr, ecb_string, ecb_read_filter).

It is used for one thing only: when `Tie.EcbText` no longer compiles (the text of one of these procedures
changed), the checks of C01 / C03 run the procedure as it is now and the pinned original
(`harness/pinned_value_procs.b09`) on the same arguments and report the first argument list on which the
results differ as the failing input.  Parameters are passed **by reference** (BASIC09's rule): an
argument that is a plain variable shares its cell with the parameter, so `RUN ecb_int(A, A)` aliases the
input and the result.  Anything outside the subset raises `Unsupported`, and the search reports nothing
(the violation is then reported without a failing input).

Semantics (trusted, from the BASIC09 reference): reals are Python floats; INT truncates towards zero, FIX
rounds to the nearest integer; `MID$(s, a, n)` / `LEFT$` / `RIGHT$` as in the manual; `VAL` raises error 67
for text that is not a number; `STR$` of a whole number ends in a point; an error jumps to the line named
by the active ON ERROR GOTO, without one it ends the procedure with that error; a procedure's own variables
start as 0 / "" / FALSE.
"""
import math
import re

import b09text as T


class Unsupported(Exception):
    pass


class B09Error(Exception):
    def __init__(self, code):
        super().__init__(f"error {code}")
        self.code = code


def split_procs(text):
    """name(lower) -> list of source lines, split like ProcedureBank does"""
    procs, cur = {}, None
    for raw in re.split(r"[\r\n]", text):
        m = re.match(r"(?i)procedure\s+(\w+)\s*$", raw)
        if m:
            cur = []
            procs[m.group(1).lower()] = cur
            continue
        if cur is not None:
            cur.append(raw)
    return procs


NUM_RE = re.compile(r"\s*[+-]?(\d+\.?\d*|\.\d+)([eE][+-]?\d+)?\s*$")


def b09_str(v):
    if v == int(v) and abs(v) < 1e9:
        return f"{int(v)}."
    return repr(float(v))


class Proc:
    def __init__(self, name, lines):
        self.name = name
        self.params = []          # (name, kind)
        self.locals = []
        self.code = []            # (label or None, tokens)
        for raw in lines:
            toks = [t for t in T.tokens(raw) if t[0] != "comment"]
            if not toks:
                continue
            head = toks[0][1].lower() if toks[0][0] == "id" else None
            if head in ("param", "dim"):
                i, names = 1, []
                while i < len(toks) and toks[i] != ("op", ":"):
                    if toks[i][0] == "id":
                        if i + 1 < len(toks) and toks[i + 1] == ("op", "("):
                            raise Unsupported(f"{name}: array declaration")
                        names.append(toks[i][1].lower())
                    elif toks[i] != ("op", ",") and toks[i] != ("op", ";"):
                        raise Unsupported(f"{name}: declaration {raw!r}")
                    i += 1
                typ = "".join(t[1] for t in toks[i + 1:]).lower()
                kind = "s" if typ.startswith("string") else "b" if typ == "boolean" else \
                    "n" if typ in ("real", "integer", "byte") else None
                if kind is None:
                    raise Unsupported(f"{name}: type {typ}")
                (self.params if head == "param" else self.locals).extend((n, kind) for n in names)
                continue
            label = None
            if toks[0][0] == "num" and re.fullmatch(r"\d+", toks[0][1]):
                label, toks = int(toks[0][1]), toks[1:]
            self.code.append((label, toks))
        self.match = self._blocks()

    def _blocks(self):
        """matching indices of block statements"""
        m, stack = {}, []
        for k, (_, toks) in enumerate(self.code):
            if not toks or toks[0][0] != "id":
                continue
            h = toks[0][1].lower()
            last = toks[-1][1].lower() if toks[-1][0] == "id" else None
            if h == "if" and last == "then":
                stack.append(("if", k))
            elif h == "else" and len(toks) == 1:
                kind, j = stack.pop()
                if kind != "if":
                    raise Unsupported("else")
                m[j] = k
                stack.append(("else", k))
            elif h == "endif":
                kind, j = stack.pop()
                m[j] = k
            elif h == "while":
                stack.append(("while", k))
            elif h == "endwhile":
                kind, j = stack.pop()
                m[j], m[k] = k, j
            elif h == "for":
                stack.append(("for", k))
            elif h == "next":
                kind, j = stack.pop()
                m[j], m[k] = k, j
            elif h in ("loop", "endloop", "exitif", "endexit", "repeat", "until"):
                raise Unsupported(h)
        if stack:
            raise Unsupported("unbalanced blocks")
        return m


class Lib:
    def __init__(self, text):
        self.src = split_procs(text)
        self.procs = {}
        self.steps = 0

    def proc(self, name):
        n = name.lower()
        if n not in self.procs:
            if n not in self.src:
                raise Unsupported(f"no procedure {name}")
            self.procs[n] = Proc(n, self.src[n])
        return self.procs[n]

    # ------------------------------------------------------------------ expressions
    def ev(self, toks, env):
        self.t, self.i, self.env = toks, 0, env
        v = self.e_or()
        if self.i != len(self.t):
            raise Unsupported(f"expression {toks}")
        return v

    def peek(self):
        return self.t[self.i] if self.i < len(self.t) else (None, None)

    def kw(self, w):
        k, t = self.peek()
        return k == "id" and t.lower() == w

    def e_or(self):
        v = self.e_and()
        while self.kw("or") or self.kw("xor"):
            x = self.kw("xor")
            self.i += 1
            w = self.e_and()
            v = (bool(v) != bool(w)) if x else (bool(v) or bool(w))
        return v

    def e_and(self):
        v = self.e_rel()
        while self.kw("and"):
            self.i += 1
            w = self.e_rel()
            v = bool(v) and bool(w)
        return v

    def e_rel(self):
        v = self.e_add()
        ops = {"=": lambda a, b: a == b, "<>": lambda a, b: a != b, "<": lambda a, b: a < b, "<=": lambda a, b: a <= b,
               "=<": lambda a, b: a <= b, ">": lambda a, b: a > b, ">=": lambda a, b: a >= b, "=>": lambda a, b: a >= b}
        k, t = self.peek()
        if k == "op" and t in ops:
            self.i += 1
            w = self.e_add()
            if isinstance(v, str) != isinstance(w, str):
                raise Unsupported("mixed comparison")
            return ops[t](v, w)
        return v

    def e_add(self):
        v = self.e_mul()
        while self.peek() in (("op", "+"), ("op", "-")):
            op = self.peek()[1]
            self.i += 1
            w = self.e_mul()
            if isinstance(v, str) or isinstance(w, str):
                if op != "+" or not (isinstance(v, str) and isinstance(w, str)):
                    raise Unsupported("string arithmetic")
                v = v + w
            else:
                v = v + w if op == "+" else v - w
        return v

    def e_mul(self):
        v = self.e_un()
        while self.peek() in (("op", "*"), ("op", "/")):
            op = self.peek()[1]
            self.i += 1
            w = self.e_un()
            if op == "/" and w == 0:
                raise B09Error(45)
            v = v * w if op == "*" else v / w
        return v

    def e_un(self):
        if self.peek() == ("op", "-"):
            self.i += 1
            return -self.e_un()
        if self.kw("not"):
            self.i += 1
            return not bool(self.e_un())
        return self.e_prim()

    def args(self):
        if self.peek() != ("op", "("):
            raise Unsupported("(")
        self.i += 1
        out = [self.e_or()]
        while self.peek() == ("op", ","):
            self.i += 1
            out.append(self.e_or())
        if self.peek() != ("op", ")"):
            raise Unsupported(")")
        self.i += 1
        return out

    def e_prim(self):
        k, t = self.peek()
        self.i += 1
        if k == "num":
            return float(t)
        if k == "hex":
            return float(int(t[1:], 16))
        if k == "str":
            if len(t) < 2 or not t.endswith('"'):
                raise Unsupported("string literal")
            return t[1:-1]
        if (k, t) == ("op", "("):
            v = self.e_or()
            if self.peek() != ("op", ")"):
                raise Unsupported(")")
            self.i += 1
            return v
        if k == "id":
            f = t.lower()
            if f == "true":
                return True
            if f == "false":
                return False
            if f in FUNCS:
                a = self.args()
                return FUNCS[f](*a)
            if f in self.env:
                return self.env[f][0]
            raise Unsupported(f"name {t}")
        raise Unsupported(f"primary {k} {t}")

    # ------------------------------------------------------------------ statements
    def call(self, name, cells, depth=0):
        """run procedure `name`; `cells` = one-element lists shared with the caller (by reference)"""
        if depth > 8:
            raise Unsupported("recursion")
        p = self.proc(name)
        if len(cells) != len(p.params):
            raise B09Error(56)                       # parameter error
        env = {}
        for (n, kind), c in zip(p.params, cells):
            env[n] = c
        for n, kind in p.locals:
            env[n] = [0.0 if kind == "n" else "" if kind == "s" else False]
        kinds = dict(p.params + p.locals)
        labels = {lab: k for k, (lab, _) in enumerate(p.code) if lab is not None}
        handler = None
        fors = {}
        pc = 0
        while pc < len(p.code):
            self.steps += 1
            if self.steps > 200000:
                raise Unsupported("step budget")
            _, toks = p.code[pc]
            try:
                pc = self.step(p, pc, toks, env, kinds, labels, fors, depth)
                if isinstance(pc, tuple):
                    handler = pc[1]
                    pc = pc[0]
                if pc is None:
                    return
            except B09Error as e:
                if handler is None or handler not in labels:
                    raise
                pc = labels[handler]

    def assign(self, env, kinds, name, v):
        n = name.lower()
        if n not in env:
            raise Unsupported(f"assignment to {name}")
        k = kinds.get(n)
        if k == "s" and not isinstance(v, str) or k == "n" and (isinstance(v, (str, bool))) or k == "b" and not isinstance(v, bool):
            raise Unsupported(f"type of {name}")
        env[n][0] = v

    def step(self, p, pc, toks, env, kinds, labels, fors, depth):
        if not toks:
            return pc + 1
        h = toks[0][1].lower() if toks[0][0] == "id" else None
        if h in ("rem",):
            return pc + 1
        if h in ("end", "return"):
            return None
        if h == "if":
            k = next((i for i, t in enumerate(toks) if t[0] == "id" and t[1].lower() == "then"), None)
            if k is None:
                raise Unsupported("IF without THEN")
            c = bool(self.ev(toks[1:k], env))
            if k == len(toks) - 1:                    # block IF
                end = p.match[pc]
                if c:
                    return pc + 1
                return end + 1
            if c:                                     # one-line IF c THEN statement
                return self.step(p, pc, toks[k + 1:], env, kinds, labels, fors, depth)
            return pc + 1
        if h == "else":
            return p.match[pc] + 1
        if h == "endif":
            return pc + 1
        if h == "while":
            if toks[-1][1].lower() != "do":
                raise Unsupported("WHILE without DO")
            return pc + 1 if bool(self.ev(toks[1:-1], env)) else p.match[pc] + 1
        if h == "endwhile":
            return p.match[pc]
        if h == "for":
            k = next(i for i, t in enumerate(toks) if t[0] == "id" and t[1].lower() == "to")
            ks = next((i for i, t in enumerate(toks) if t[0] == "id" and t[1].lower() == "step"), len(toks))
            a = self.ev(toks[3:k], env)
            b = self.ev(toks[k + 1:ks], env)
            s = self.ev(toks[ks + 1:], env) if ks < len(toks) else 1.0
            self.assign(env, kinds, toks[1][1], a)
            fors[pc] = (toks[1][1], b, s)
            if (s >= 0 and a > b) or (s < 0 and a < b):
                return p.match[pc] + 1
            return pc + 1
        if h == "next":
            j = p.match[pc]
            v, b, s = fors[j]
            x = env[v.lower()][0] + s
            env[v.lower()][0] = x
            if (s >= 0 and x > b) or (s < 0 and x < b):
                return pc + 1
            return j + 1
        if h == "on" and len(toks) == 4 and [t[1].lower() for t in toks[1:3]] == ["error", "goto"]:
            return (pc + 1, int(toks[3][1]))
        if h == "goto" and len(toks) == 2:
            return labels[int(toks[1][1])]
        if h == "error" and len(toks) == 2:
            raise B09Error(int(float(toks[1][1])))
        if h == "run":
            name = toks[1][1]
            if name.lower() not in self.src:
                raise Unsupported(f"RUN {name}")
            cells = []
            if len(toks) > 2:
                for a in T.split_args(toks[3:-1]):
                    if len(a) == 1 and a[0][0] == "id" and a[0][1].lower() in env:
                        cells.append(env[a[0][1].lower()])           # by reference
                    else:
                        cells.append([self.ev(a, env)])              # a temporary
            self.call(name, cells, depth + 1)
            return pc + 1
        if toks[0][0] == "id" and len(toks) > 2 and toks[1] in (("op", "="), ("op", ":=")):
            self.assign(env, kinds, toks[0][1], self.ev(toks[2:], env))
            return pc + 1
        if h == "let":
            return self.step(p, pc, toks[1:], env, kinds, labels, fors, depth)
        raise Unsupported(f"{p.name}: statement {' '.join(t[1] for t in toks)}")


def _mid(s, a, n=None):
    if not isinstance(s, str) or a < 1 or (n is not None and n < 0):
        raise B09Error(67)
    a = int(a)
    return s[a - 1:] if n is None else s[a - 1:a - 1 + int(n)]


def _val(s):
    if not isinstance(s, str) or not NUM_RE.match(s):
        raise B09Error(67)
    return float(s)


def _chr(v):
    if not 0 <= v < 256:
        raise B09Error(67)
    return chr(int(v))


def _asc(s):
    if not s:
        raise B09Error(67)
    return float(ord(s[0]))


FUNCS = {
    "int": lambda v: float(math.trunc(v)),
    "fix": lambda v: float(math.floor(v + 0.5)),
    "float": lambda v: float(v),
    "abs": lambda v: abs(v),
    "sgn": lambda v: float((v > 0) - (v < 0)),
    "val": _val,
    "str$": b09_str,
    "len": lambda s: float(len(s)),
    "mid$": _mid,
    "left$": lambda s, n: _mid(s, 1, n),
    "right$": lambda s, n: s[max(0, len(s) - int(n)):] if n >= 0 else (_ for _ in ()).throw(B09Error(67)),
    "chr$": _chr,
    "asc": _asc,
    "land": lambda a, b: float(int(a) & int(b)),
    "lor": lambda a, b: float(int(a) | int(b)),
    "lxor": lambda a, b: float(int(a) ^ int(b)),
    "lnot": lambda a: float(~int(a)),
}


# ---------------------------------------------------------------------- argument grids and the differential search

def grids():
    nums = [-100.75, -3.0, -2.5, -2.0, -1.5, -0.5, 0.0, 0.5, 1.0, 1.5, 2.5, 7.9, 100.25]
    strs = ["", "0", "12", "-5", "3.5", " 42", "HELLO", "N/A", "1E2", "7UP"]
    g = {}
    # (arguments, indices of by-reference result cells, alias pairs)
    g["ecb_int"] = [([v, pre], [1], None) for v in nums for pre in (0.0, 99.0)] + [([v, v], [1], (0, 1)) for v in nums]
    g["ecb_val"] = [([s, pre], [1], None) for s in strs for pre in (0.0, 37.0)]
    g["ecb_str"] = [([v, "junk"], [1], None) for v in [0.0, 1.0, -1.0, 2.5, -2.5, 10.0, 100.0, 0.5, 65535.0]]
    g["ecb_hex"] = [([v, "zz"], [1], None) for v in [0.0, 1.0, 9.0, 10.0, 15.0, 16.0, 255.0, 256.0, 4095.0, 4096.0, 65535.0, -1.0, 65536.0, 300.7]]
    g["_ecb_hex_digit"] = [([float(v), "q"], [1], None) for v in range(16)]
    subj = ["", "A", "AB", "ABA", "ABAB", "HELLO", "AAB"]
    pats = ["", "A", "B", "AB", "BA", "Z", "LO"]
    g["ecb_instr"] = [([float(st), s, p, pre], [3], None) for s in subj for p in pats for st in (1, 2, 3) for pre in (0.0, 5.0)]
    g["ecb_string"] = [([float(c), s, "junk"], [2], None) for c in (0, 1, 2, 5, -1) for s in ("", "A", "XYZ")]
    g["ecb_read_filter"] = [([s, pre], [1], None) for s in ["", "0", "12", "-5", " 7"] for pre in (0.0, 9.0)]
    # parameters are passed by reference: what a procedure leaves in its ARGUMENT cells is visible to the caller too, so every
    # cell is compared (a helper that counts down in its count parameter computes one value right and ruins the next)
    g["ecb_instr"] += [([float(st), s, p, float(st)], [3], (0, 3)) for s in ("XYX", "ABAB") for p in ("Y", "AB", "Q") for st in (1, 2, 3)]
    g["ecb_string"] += [([float(c), s, s], [2], (1, 2)) for c in (0, 1, 3) for s in ("X", "AB")]
    return {name: [(args, sorted(set(outs) | set(range(len(args)))), alias) for args, outs, alias in grid] for name, grid in g.items()}


def run_once(lib, name, args, outs, alias):
    cells = [[a] for a in args]
    if alias:
        cells[alias[1]] = cells[alias[0]]
    try:
        lib.steps = 0
        lib.call(name, cells)
        return "ok " + repr([cells[k][0] for k in outs])
    except B09Error as e:
        return f"error {e.code}"


def differential(current_text, pinned_text):
    """[(procedure, arguments, aliasing, result now, result of the pinned text)] for the first differing
    argument list of every value procedure; procedures outside the subset are skipped (listed separately)"""
    now, ref = Lib(current_text), Lib(pinned_text)
    found, skipped, ncases = [], [], 0
    for name, grid in grids().items():
        for args, outs, alias in grid:
            ncases += 1
            try:
                b = run_once(ref, name, args, outs, alias)
            except Unsupported as e:
                skipped.append(f"{name} (pinned text): {e}")
                break
            try:
                a = run_once(now, name, args, outs, alias)
            except Unsupported as e:
                skipped.append(f"{name}: {e}")
                break
            if a != b:
                found.append((name, args, alias, a, b))
                break
    return found, skipped, ncases


if __name__ == "__main__":
    import os
    import sys
    here = os.path.dirname(os.path.abspath(__file__))
    cur = open(sys.argv[1] if len(sys.argv) > 1 else "/repo/coco/resources/ecb.b09", newline="").read()
    pin = open(os.path.join(here, "pinned_value_procs.b09"), newline="").read()
    f, s, n = differential(cur, pin)
    print(n, "cases;", "differences:", f, "skipped:", s)
