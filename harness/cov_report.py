"""One-off analysis (not part of any check): which lines of /repo/coco do the quick-tier inputs of the
suites execute?  A line the suites never reach cannot be tied by correspondence.
usage: /venv/bin/python cov_report.py  -> prints uncovered line ranges per file"""
import io
import contextlib
import os
import sys

import coverage

from common import REPO

cov = coverage.Coverage(source=[os.path.join(REPO, "coco")], omit=["*/mge_viewer2.py"])
cov.start()

import impl_b09  # noqa: E402
import impl_img  # noqa: E402
import impl_front  # noqa: E402


def b09_cases():
    import suite_b09, suite_expr, suite_ctl, suite_sem, suite_layout, suite_parse, suite_names, suite_forms  # noqa: E401
    for m in (suite_b09, suite_expr, suite_ctl, suite_sem, suite_layout):
        for c in m.cases("quick"):
            yield c["text"], c["opts"]
    for c in suite_parse.cases("quick"):
        yield c["text"], {"flags": "1101110", "storage": 80, "procname": "prog", "sizes": []}
    for c in suite_names.cases("quick"):
        yield c["text"], {"flags": "0100000", "storage": 32, "procname": "", "sizes": []}
    for c in suite_forms.cases("quick"):
        yield c["text"], {"flags": "0100000", "storage": 32, "procname": "", "sizes": []}


n = 0
for text, o in b09_cases():
    impl_b09.convert(text, o)
    n += 1
print("b09 conversions:", n, file=sys.stderr)
import suite_img  # noqa: E402
for c in suite_img.cases("quick"):
    impl_img.run_request(c["req"])
import suite_cli  # noqa: E402
import tempfile
d = tempfile.mkdtemp()
for c in suite_cli.cases("quick"):
    suite_cli.run_cli(d, c["name"], c["data"], c["flags"], c["storage"], c["sizes"])
import suite_procbank  # noqa: E402
try:
    suite_procbank.run("quick")
except Exception as e:  # noqa: BLE001
    print("procbank:", e, file=sys.stderr)
cov.stop()
out = io.StringIO()
cov.report(file=out, show_missing=True, skip_covered=False)
print(out.getvalue())
