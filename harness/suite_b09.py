"""Correspondence suite for the transpiler after parsing: AST -> passes -> text -> bundle.

Implementation side: `convert(text, **opts)` of /repo, in-process, in worker processes.
Model side: `Model.Compile.convertAst` + `Model.ProcBank.finish` in the Lean driver, fed with the
S-expression dump of the object graph that the real grammar + visitor built for the same text."""
import multiprocessing as mp
from collections import Counter

import gens_b09 as G
from common import hexs, rng, run_driver


def _work(item):
    import impl_b09
    text, o = item
    sx = impl_b09.sexp(text)
    impl = impl_b09.convert(text, o)
    req = impl_b09.convast_request(sx, o) if sx is not None else None
    aux = {}
    if impl.startswith("ok "):
        f = o["flags"]
        flip = lambda k: f[:k] + ("0" if f[k] == "1" else "1") + f[k + 1:]  # noqa: E731
        if f[5] == "1":
            aux["nodeps"] = impl_b09.convert(text, dict(o, flags=flip(5)))
        # single-option variants for the option properties (C06, C11): filter, init, width, storage
        aux["flip_filter"] = impl_b09.convert(text, dict(o, flags=flip(3)))
        aux["flip_init"] = impl_b09.convert(text, dict(o, flags=flip(4)))
        aux["flip_width"] = impl_b09.convert(text, dict(o, flags=flip(2)))
        aux["flip_deps"] = impl_b09.convert(text, dict(o, flags=flip(5)))
        aux["storage_32"] = impl_b09.convert(text, dict(o, storage=32))
        aux["storage_77"] = impl_b09.convert(text, dict(o, storage=77))
    return req, impl, aux


def programs(tier):
    r = rng("b09-suite")
    quick = tier != "thorough"
    progs = [("example", p) for p in G.example_programs()]
    progs += [("unit-test", p) for p in G.test_suite_programs()]
    n = 500 if quick else 4000
    for k in range(n):
        g = G.Gen(r, max_depth=r.choice([1, 2, 2, 3]), spaces=r.randrange(3) != 0)
        progs.append(("generated", g.program()))
    for k in range(120 if quick else 1200):
        g = G.Gen(r, max_depth=2)
        progs.append(("mutated", G.mutate(r, g.program(r.choice([1, 2, 3])))))
    # every documented refusal, and its neighbours that must convert
    for p in REFUSAL_PROBES:
        progs.append(("refusal-probe", p))
    return progs


REFUSAL_PROBES = [
    "10 ON ERR GOTO 100\n20 ON ERR GOTO 100\n100 END", "10 ON ERR GOTO 100:ON ERR GOTO 200\n100 END\n200 END",
    "10 ON ERR GOTO 100\n20 ON ERR GOTO 100\n30 ON ERR GOTO 100\n100 END", "10 ON BRK GOTO 100\n20 ON BRK GOTO 100\n100 END",
    "10 ON BRK GOTO 100\n20 ON BRK GOTO 200\n100 END\n200 STOP", "10 ON ERR GOTO 100\n20 ON BRK GOTO 100\n100 END",
    "10 ON ERR GOTO 100\n20 ON BRK GOTO 200\n100 END\n200 END", "10 ON ERR GOTO 100\n100 END", "10 ON BRK GOTO 0\n0 END",
    "10 IF A THEN ON ERR GOTO 20 ELSE ON ERR GOTO 30\n20 END\n30 END", "10 ON ERR GOTO 999", "10 ON BRK GOTO 999\n20 ON ERR GOTO 20",
    "10 GOTO 20", "10 GOSUB 5\n20 END", "10 IF A=1 THEN 50", "10 IF A=1 THEN PRINT ELSE 60", "10 ON A GOTO 10,20,30\n20 END",
    "10 ON A GOSUB 10,99", "32699 END", "32700 END", "32701 PRINT", "99999 GOTO 99999", "10 GOTO 32700", "0 GOTO 0", "10 GOTO 0",
    "10 PRINT\n10 PRINT", "20 PRINT\n10 PRINT",
]


def cases(tier):
    r = rng("b09-suite-opts")
    out = []
    for kind, text in programs(tier):
        nopt = 3 if kind in ("example",) else 1
        for o in G.option_sets(r, nopt):
            out.append({"kind": kind, "text": text, "opts": o, "fmt": "b09",
                        "req": "b09 " + o["flags"] + f" {o['storage']} " + hexs(o["procname"].encode()) + " "
                               + hexs(",".join(f"{k}={v}" for k, v in o["sizes"]).encode()) + " " + hexs(text.encode())})
    return out


def run(tier):
    import impl_b09
    cs = cases(tier)
    with mp.Pool(16) as pool:
        res = pool.map(_work, [(c["text"], c["opts"]) for c in cs], chunksize=8)
    reqs, idx = ["setlib " + hexs(impl_b09.lib_text().encode())], []
    for k, (req, impl, aux) in enumerate(res):
        cs[k]["aux"] = aux
        if req is not None:
            idx.append(k)
            reqs.append(req)
    # the same driver run also answers, per parsed program, whether Props.C07.skel matches Emit (tie of C07)
    skel_reqs = ["skel " + r.split(" ")[-1] for r in reqs[1:]]
    allouts = run_driver(reqs + skel_reqs)
    outs = allouts[1:1 + len(idx)]
    skels = allouts[1 + len(idx):]
    model = [None] * len(cs)
    for k, o, sk in zip(idx, outs, skels):
        model[k] = o
        cs[k]["aux"]["skel"] = sk
    impl = [i for _, i, _ in res]
    # text that the real front end rejects (or crashes on) is outside this boundary: the model side
    # is "not applicable" and the case is compared only by the end-to-end suite later
    for k in range(len(cs)):
        if model[k] is None:
            model[k] = impl[k]
            cs[k]["kind"] += "/front-end-only"
    dis = [{"req": cs[k]["req"][:300], "kind": cs[k]["kind"], "model": model[k][:160], "impl": impl[k][:160]}
           for k in range(len(cs)) if model[k] != impl[k]]
    return {"cases": cs, "model": model, "impl": impl, "disagreements": dis}


if __name__ == "__main__":
    import sys, time
    from common import unhex
    t = time.time()
    res = run(sys.argv[1] if len(sys.argv) > 1 else "quick")
    print(len(res["cases"]), "cases", len(res["disagreements"]), "disagreements", round(time.time() - t, 1), "s")
    print(Counter(c["kind"] for c in res["cases"]))
    print(Counter(i.split(" ")[0] + (" " + i.split(" ")[1] if not i.startswith("ok") else "") for i in res["impl"]))
    shown = 0
    for k, c in enumerate(res["cases"]):
        m, i = res["model"][k], res["impl"][k]
        if m != i and shown < 12:
            shown += 1
            print("----", c["kind"], c["opts"]["flags"], c["opts"]["storage"], c["opts"]["sizes"])
            print(c["text"][:300])
            if m.startswith("ok") and i.startswith("ok"):
                a, b = unhex(i[3:]).decode(), unhex(m[3:]).decode()
                la, lb = a.split("\n"), b.split("\n")
                j = next((j for j in range(min(len(la), len(lb))) if la[j] != lb[j]), min(len(la), len(lb)))
                print("  line", j, "\n  impl :", repr(la[j] if j < len(la) else None), "\n  model:", repr(lb[j] if j < len(lb) else None))
            else:
                print("  impl :", i[:150], "\n  model:", m[:150])
