"""Correspondence suite for the transpiler after parsing: AST -> passes -> text -> bundle.

Implementation side: `convert(text, **opts)` of /repo, in-process, in worker processes.
Model side: `Model.Compile.convertAst` + `Model.ProcBank.finish` in the Lean driver, fed with the
S-expression dump of the object graph that the real grammar + visitor built for the same text."""
import multiprocessing as mp
from collections import Counter

import gens_b09 as G
from common import hexs, rng, run_driver


GUARD_SECONDS = 25


def _guarded(text):
    """inputs built to be long (size probes): converted in a child process under a wall-clock limit, because a
    regular-expression blow-up inside `re` cannot be interrupted from within the interpreter"""
    import re
    return len(text) > 1500 or re.search(r"\d{20}", text) is not None or re.search(r"[A-Z]{30}", text) is not None


def _convert_guarded(text, o):
    import json
    import os
    import subprocess
    from common import PY, REPO
    here = os.path.dirname(os.path.abspath(__file__))
    code = ("import sys, json; sys.path.insert(0, %r); import impl_b09; j = json.load(sys.stdin); "
            "sys.stdout.write(impl_b09.convert(j['text'], j['o']))" % here)
    try:
        r = subprocess.run([PY, "-c", code], input=json.dumps({"text": text, "o": o}), capture_output=True, text=True,
                           timeout=GUARD_SECONDS, env=dict(os.environ, PYTHONPATH=REPO))
        out = r.stdout.strip().split("\n")[-1] if r.stdout.strip() else "internal ChildProcessError"
        return out
    except subprocess.TimeoutExpired:
        return f"internal Timeout (no answer within {GUARD_SECONDS} s: the conversion hangs)"


def _work(item):
    import impl_b09
    text, o = item
    if _guarded(text):
        impl = _convert_guarded(text, o)
        if impl.startswith("internal Timeout"):
            return None, impl, {}
    sx = impl_b09.sexp(text)
    impl = impl_b09.convert(text, o)
    req = impl_b09.convast_request(sx, o) if sx is not None else None
    aux = {}
    if impl.startswith("ok "):
        f = o["flags"]
        flip = lambda k: f[:k] + ("0" if f[k] == "1" else "1") + f[k + 1:]  # noqa: E731
        if f[5] == "1":
            aux["nodeps"] = impl_b09.convert(text, dict(o, flags=flip(5)))
        # single-option variants for the option properties (C06, C11): filter, init, width, storage
        aux["flip_filter"] = impl_b09.convert(text, dict(o, flags=flip(3)))
        aux["flip_init"] = impl_b09.convert(text, dict(o, flags=flip(4)))
        aux["flip_width"] = impl_b09.convert(text, dict(o, flags=flip(2)))
        aux["flip_deps"] = impl_b09.convert(text, dict(o, flags=flip(5)))
        aux["storage_32"] = impl_b09.convert(text, dict(o, storage=32))
        aux["storage_77"] = impl_b09.convert(text, dict(o, storage=77))
    return req, impl, aux


def programs(tier):
    r = rng("b09-suite")
    quick = tier != "thorough"
    progs = [("example", p) for p in G.example_programs()]
    progs += [("unit-test", p) for p in G.test_suite_programs()]
    n = 500 if quick else 4000
    for k in range(n):
        g = G.Gen(r, max_depth=r.choice([1, 2, 2, 3]), spaces=r.randrange(3) != 0)
        progs.append(("generated", g.program()))
    for k in range(120 if quick else 1200):
        g = G.Gen(r, max_depth=2)
        progs.append(("mutated", G.mutate(r, g.program(r.choice([1, 2, 3])))))
    # every documented refusal, and its neighbours that must convert
    for p in REFUSAL_PROBES:
        progs.append(("refusal-probe", p))
    # every numeric operand position of every statement kind once with each extreme literal
    lits = EXTREME_LITERALS if quick else EXTREME_LITERALS + EXTREME_LITERALS_MORE
    for t in OPERAND_TEMPLATES:
        for lit in lits:
            progs.append(("extreme-literal-probe", "10 " + t.replace("#", lit)))
    # the empty-DATA filter turns DATA numbers into strings: the same spelling used as an operand elsewhere in
    # the program must stay a number (every operand position once, three spellings)
    for k, t in enumerate(OPERAND_TEMPLATES):
        lit = ["7", "1.5", "&HFF"][k % 3] if quick else None
        for l in ([lit] if quick else ["7", "1.5", "&HFF"]):
            progs.append(("data-alias-probe", f"10 DATA {l},,{l}\n20 READ P,Q,R\n30 " + t.replace("#", l)))
    progs.append(("data-alias-probe", "10 DATA 1,,3\n20 READ A,B,C\n30 SET(1,2,3)\n40 SOUND 1,3"))
    progs.append(("data-alias-probe", "10 SOUND 1,3:SET(1,2,3)\n20 READ A,B,C\n30 DATA 1,,3"))
    # the addresses around the two speed pokes, in every spelling
    for a in ["65494", "65495", "65496", "65497", "65498", "65499", "&HFFD6", "&HFFD7", "&HFFD8", "&HFFD9", "&HFFDA", "65495.0",
              "65497.0", "65496.5", "32768", "0", "1024", "&H400"]:
        progs.append(("poke-probe", f"10 POKE {a},0:POKE {a},V\n20 SOUND 1,1"))
        progs.append(("poke-probe", f"10 A=1:POKE {a},A+1"))
    # the two speed pokes with a value operand that needs a runtime call: the call must still be made
    for a in ["65496", "65497", "&HFFD8", "&HFFD9", "65497.0"]:
        for v in ["BUTTON(0)", "VAL(INKEY$)", "INT(B/2)", "JOYSTK(1)+1", "POINT(1,2)"]:
            progs.append(("poke-call-probe", f"10 POKE {a},{v}\n20 A=BUTTON(1)"))
    # every numeric operand position of every statement kind once with an operand that needs a runtime call
    for t in OPERAND_TEMPLATES:
        if '"U#"' in t or t.startswith(("DATA", "CLEAR", "PCLEAR", "RGB")):
            continue
        for v in (["BUTTON(0)", "INT(B/2)"] if quick else ["BUTTON(0)", "INT(B/2)", "VAL(INKEY$)", "POINT(1,2)", "JOYSTK(0)"]):
            progs.append(("function-operand-probe", "10 " + t.replace("#", v)))
    # ... and once with an operator expression (bare and parenthesised): its kind is numeric whatever flags the tool keeps
    for k, t in enumerate(OPERAND_TEMPLATES):
        if '"U#"' in t or t.startswith(("DATA", "CLEAR", "PCLEAR", "RGB")):
            continue
        for v in (["B+1", "(B*2)"] if quick else ["B+1", "(B*2)", "128+16*C", "(N+1)", "B-1", "B/2", "2^B"]):
            progs.append(("expression-operand-probe", "10 " + t.replace("#", v)))
    # a runtime helper whose argument is directly another helper call, inside a larger expression, a PRINT, an IF and as a whole
    # right-hand side: each call needs a result cell of its own (ecb_string / ecb_instr clear their result before they read)
    for inner in ["STRING$(2,\"X\")", "STR$(5)", "HEX$(10)", "INKEY$"]:
        for shape in ["10 A$=STRING$(3,{i})+\"Y\"", "10 PRINT STRING$(3,{i})", "10 IF STRING$(2,{i})=\"XX\" THEN 10", "10 A$=STRING$(3,{i})",
                      "10 B$=\"Q\":A$=B$+STRING$(2,{i})"]:
            progs.append(("helper-nest-probe", shape.replace("{i}", inner)))
    for inner in ["INSTR(1,A$,\"B\")", "INT(N)", "VAL(B$)"]:
        for shape in ["10 P=INSTR({i},A$,\"C\")+1", "10 PRINT INSTR({i},A$,\"C\")", "10 IF INSTR({i},A$,\"C\")>0 THEN 10", "10 P=INSTR({i},A$,\"C\")",
                      "10 Q=2*INSTR({i},A$,C$)-1"]:
            progs.append(("helper-nest-probe", shape.replace("{i}", inner)))
    # legal Extended BASIC spellings the tool refuses today: if one becomes accepted, what is emitted for it is judged like the rest
    for p in ["10 P=INSTR(A$,B$)", "10 IF INSTR(N$,\",\")>0 THEN 10", "10 PRINT INSTR(A$,\"X\")+1", "10 A$=STRING$(3,65)", "10 A$=MID$(B$,2)",
              "10 PRINT USING \"##\";A", "10 A=RND(0)", "10 LINE(0,0)-(1,1),PSET", "10 A$=INKEY$+INKEY$", "10 EXEC 44539", "10 PRINT MEM"]:
        progs.append(("helper-nest-probe", p))
    # FOR / NEXT: a NEXT list that closes the inner loops, then a bare NEXT for the enclosing one (and deeper nests)
    for p in ["10 FOR A=1 TO 2\n20 FOR I=1 TO 2:FOR J=1 TO 2\n30 PRINT A;I;J\n40 NEXT J,I\n50 NEXT",
              "10 FOR A=1 TO 2:FOR I=1 TO 2:FOR J=1 TO 2:PRINT A;I;J:NEXT J,I:NEXT", "10 FOR A=1 TO 2:FOR B=1 TO 2\n20 FOR I=1 TO 2:FOR J=1 TO 2\n30 NEXT J,I\n40 NEXT:NEXT",
              "10 FOR A=1 TO 2\n20 FOR I=1 TO 2\n30 NEXT I\n40 NEXT", "10 FOR A=1 TO 2:FOR I=1 TO 2:FOR J=1 TO 2:NEXT:NEXT J:NEXT",
              "10 FOR A=1 TO 2:FOR I=1 TO 2:FOR J=1 TO 2:NEXT J,I,A", "10 FOR A=1 TO 2\n20 FOR I=1 TO 2:FOR J=1 TO 2:NEXT J,I\n30 FOR K=1 TO 2:NEXT\n40 NEXT"]:
        progs.append(("next-probe", p))
    for p in ["10 P=INSTR(P,A$,B$)", "10 P=INSTR(P+1,A$,B$)", "10 A$=STRING$(3,A$)", "10 A$=STRING$(N,B$)", "10 P=1:A$=\"XYX\":P=INSTR(P,A$,\"Y\")"]:
        progs.append(("helper-nest-probe", p))
    # nested conditionals with convertible functions in the inner condition / body
    for c in ["INKEY$=\"X\"", "BUTTON(0)=1", "INT(B)=2", "JOYSTK(0)>31", "POINT(1,2)=3", "VAL(B$)=1"]:
        progs.append(("nested-if-probe", f"10 IF A=1 THEN IF {c} THEN PRINT \"Y\"\n20 END"))
        progs.append(("nested-if-probe", f"10 IF A=1 THEN IF {c} THEN K=1 ELSE K=2\n20 END"))
        progs.append(("nested-if-probe", f"10 IF A=1 THEN B=2:IF {c} THEN 20\n20 END"))
    # keyword pairs and statements spelled without any blank (as a detokenised listing prints them)
    for p in DENSE_PROBES:
        progs.append(("dense-probe", p))
    # size probes: long literals, names, lines, chains (a conversion must answer; see `_guarded`)
    for p in SIZE_PROBES:
        progs.append(("size-probe", p))
    # lines without statements (as jump targets and in between), programs whose only variables are temporaries
    for p in EMPTY_LINE_PROBES:
        progs.append(("empty-line-probe", p))
    # CHR$ of every printable code and the neighbours (34 is the quote), in the contexts where a literal could stand
    for n in ([34, 32, 33, 35, 39, 40, 41, 42, 58, 65, 92, 126, 127, 13, 10, 0, 191, 255] if quick else list(range(0, 256))):
        progs.append(("chr-probe", f"10 A$=CHR$({n}):PRINT CHR$({n});\"X\";CHR$({n})\n20 IF A$=CHR$({n}) THEN B$=CHR$({n})+\"HI\""))
    # characters that only some line splitters treat as line ends, inside literals, comments and DATA items
    for ch in ["\x0b", "\x0c", "\x1c", "\x1d", "\x1e", "\x85", "\u2028", "\u2029", "\t", "\x7f"]:
        for sh in ("10 A$=\"AB{c}CD\":PRINT A$", "10 PRINT \"X{c}PROCEDURE zz{c}\":A$=STR$(1):B$=HEX$(2)\n20 PRINT A$;B$",
                   "10 DATA \"A{c}B\",C{c}D\n20 READ A$,B$", "10 REM A{c}RUN ecb_hex{c}B\n20 CLS"):
            progs.append(("control-char-probe", sh.replace("{c}", ch)))
    return progs


DENSE_PROBES = [
    "10 PALETTERGB", "10 PALETTECMP", "10 RGB:CMP", "10 ONERRGOTO100\n100 END", "10 ONBRKGOTO100\n100 END", "10 FORI=1TO3:NEXTI",
    "10 IFA=1THENPRINT\"X\"ELSEPRINT\"Y\"", "10 GOSUB100:END\n100 RETURN", "10 LINEINPUTA$", "10 LINEINPUT\"P\";A$", "10 INPUT\"P\";A,B$",
    "10 HCOLOR1,2:HSCREEN2:HCLS1", "10 PRINT@1,\"X\"", "10 POKE1,2:SOUND1,2:CLS1", "10 A$=INKEY$:B=JOYSTK(0)", "10 PALETTE1,2",
    "10 HBUFF1,2:HGET(1,2)-(3,4),1:HPUT(1,2)-(3,4),1,PSET", "10 DIMA(3):DATA1,2:READA,B:RESTORE", "10 ATTR1,2,B,U", "10 HPRINT(1,2),\"X\"",
    "10 PLAY\"C\":WIDTH40:LOCATE1,2", "10 HLINE(1,2)-(3,4),PSET,BF:HLINE-(5,6),PRESET", "10 HCIRCLE(1,2),3,4,5,6,7", "10 HPAINT(1,2),3,4",
    "10 HSET(1,2,3):HRESET(1,2):SET(1,2,3):RESET(1,2)", "10 HDRAW\"U1\"", "10 IFA THEN10ELSE10", "10 ONA+1GOTO10,10", "10 FORI=1TO9STEP2:NEXT",
    "10 A=BUTTON(0):B=POINT(1,2):C=HPOINT(1,2)", "10 IFA=1THEN10ELSEIFA=2THENB=1ELSEB=2", "10 A=NOTB ANDC ORD", "10 PRINTTAB(3);1",
]
_D40 = "1234567890" * 4
SIZE_PROBES = [
    f"10 A={_D40}", f"10 A={_D40[:24]}", f"10 A={_D40}{_D40}", f"10 DATA {_D40},2\n20 READ A,B", f"10 PRINT {_D40};{_D40[:30]}",
    f"10 A=1.{_D40}", f"10 A={_D40}.5E+{_D40[:25]}", "10 DIM A(" + "0" * 20 + "10)", f"10 POKE {_D40[:21]},1", f"10 A=&H{'F' * 40}",
    f"10 {'ABCDEFGHIJ' * 4}=1", f"10 {'ABCDEFGHIJ' * 4}$=\"X\"", "10 A$=\"" + "X" * 2000 + "\"", "10 REM " + "R" * 2000,
    "10 A=" + "+".join(["1"] * 400), "10 A=" + "(" * 20 + "1" + ")" * 20, "10 " + ":".join(["A=1"] * 300),
    "10 A" + " " * 1600 + "=" + " " * 400 + "1", "10 PRINT " + ";".join(["\"X\""] * 300), "10 DATA " + ",".join(["1"] * 500),
    "10 IF A=1 THEN " + " ELSE IF A=2 THEN ".join(["B=1"] * 30), "\n".join(f"{10 * k} A=A+1" for k in range(1, 250)),
    f"{_D40} END", f"10 GOTO {_D40[:25]}", "10 A$=" + "+".join(["CHR$(65)"] * 120), "10 A=" + "-".join(["INT(B)"] * 60),
]
EMPTY_LINE_PROBES = [
    "10 GOTO 100\n100", "10 GOTO 100\n100 ", "10 GOSUB 100:END\n100 :\n110 RETURN", "10 GOTO 30\n20\n30 END", "10 GOTO 30\n20 :\n30 END",
    "10 ON ERR GOTO 100\n20 PRINT 1/0\n100\n110 END", "10 ON BRK GOTO 50\n50\n60 END", "10 IF A=1 THEN 40 ELSE 50\n40\n50",
    "10 ON A GOTO 20,30\n20\n30 :", "10 PRINT 1", "10 PRINT INT(2.5)", "10 PRINT STR$(1)+HEX$(2)", "10 CLS", "10", "10 :", "10\n20\n30",
    "0\n10 GOTO 0", "10 FOR I=1 TO 2\n20\n30 NEXT", "10 REM\n20 '\n30 GOTO 10",
]


EXTREME_LITERALS = ["1E999", "-1E400", "1E-999", "99999999999999999999", "65497.5", "&HFFFF"]
EXTREME_LITERALS_MORE = ["1E308", "1.8E308", "-0", "0.0000000000000000000000001", "&H0", "32768", "-32769", "1E38", "4294967296"]
OPERAND_TEMPLATES = [
    "POKE #,0", "POKE 1,#", "SOUND #,1", "SOUND 1,#", "CLS #", "A=#", "A=-#", "A=(#)", "A=#+1", "A=1^#", "DIM A(5):A(#)=1",
    "A(#)=1", "FOR I=# TO 2:NEXT", "FOR I=1 TO #:NEXT", "FOR I=1 TO 2 STEP #:NEXT", "IF A=# THEN 10", "IF # THEN 10",
    "ON # GOTO 10", "ON # GOSUB 10", "PRINT #", "PRINT #;#", "PRINT@#,\"X\"", "PRINT TAB(#);1", "LOCATE #,1", "LOCATE 1,#",
    "WIDTH #", "HSCREEN #", "HCOLOR #", "HCOLOR 1,#", "PALETTE #,1", "PALETTE 1,#", "HSET(#,1)", "HSET(1,#)", "HSET(1,1,#)",
    "HRESET(#,1)", "HLINE(#,1)-(2,2),PSET", "HLINE(1,1)-(#,2),PRESET,BF", "HLINE-(#,2),PSET", "HCIRCLE(#,1),2",
    "HCIRCLE(1,1),#", "HCIRCLE(1,1),2,#", "HCIRCLE(1,1),2,1,#", "HCIRCLE(1,1),2,1,1,#,1", "HPAINT(#,1)", "HPAINT(1,1),#,1",
    "HPRINT(#,1),\"X\"", "HPRINT(1,1),#", "HBUFF #,1", "HBUFF 1,#", "HGET(#,1)-(2,2),1", "HPUT(1,1)-(2,#),1,PSET", "HCLS #",
    "ATTR #,1", "ATTR 1,#,B", "SET(#,1,1)", "SET(1,1,#)", "RESET(#,1)", "A=JOYSTK(#)", "A=BUTTON(#)", "A=POINT(#,1)",
    "A=HPOINT(#,1)", "A$=STRING$(#,\"A\")", "A$=STRING$(2,#)", "A$=HEX$(#)", "A=INT(#)", "A$=STR$(#)", "A=RND(#)",
    "A$=CHR$(#)", "A$=LEFT$(\"X\",#)", "A$=MID$(\"X\",#,1)", "A$=MID$(\"X\",1,#)", "A$=RIGHT$(\"X\",#)", "A=PEEK(#)",
    "A=INSTR(#,\"AB\",\"B\")", "A=ABS(#)", "A=SQR(#)", "A=SGN(#)", "A=VARPTR(A(#))", "DATA #", "DATA 1,#", "READ A(#)",
    "INPUT A(#)", "RGB:PALETTE RGB", "PLAY \"C\":SOUND #,#", "HDRAW \"U#\"", "CLEAR #", "PCLEAR #", "A=B AND #", "A=NOT #",
    "IF A=1 THEN POKE #,0 ELSE POKE 1,#", "IF A=1 THEN B=# ELSE IF A=2 THEN B=-# ELSE B=0", "GOTO 10:POKE #,#",
]


REFUSAL_PROBES = [
    "10 ON ERR GOTO 100\n20 ON ERR GOTO 100\n100 END", "10 ON ERR GOTO 100:ON ERR GOTO 200\n100 END\n200 END",
    "10 ON ERR GOTO 100\n20 ON ERR GOTO 100\n30 ON ERR GOTO 100\n100 END", "10 ON BRK GOTO 100\n20 ON BRK GOTO 100\n100 END",
    "10 ON BRK GOTO 100\n20 ON BRK GOTO 200\n100 END\n200 STOP", "10 ON ERR GOTO 100\n20 ON BRK GOTO 100\n100 END",
    "10 ON ERR GOTO 100\n20 ON BRK GOTO 200\n100 END\n200 END", "10 ON ERR GOTO 100\n100 END", "10 ON BRK GOTO 0\n0 END",
    "10 IF A THEN ON ERR GOTO 20 ELSE ON ERR GOTO 30\n20 END\n30 END", "10 ON ERR GOTO 999", "10 ON BRK GOTO 999\n20 ON ERR GOTO 20",
    "10 GOTO 20", "10 GOSUB 5\n20 END", "10 IF A=1 THEN 50", "10 IF A=1 THEN PRINT ELSE 60", "10 ON A GOTO 10,20,30\n20 END",
    "10 ON A GOSUB 10,99", "32699 END", "32700 END", "32701 PRINT", "99999 GOTO 99999", "10 GOTO 32700", "0 GOTO 0", "10 GOTO 0",
    "10 PRINT\n10 PRINT", "20 PRINT\n10 PRINT",
]


def dim_probes(r, n):
    """DIM statements listing several string names whose configured sizes interleave (X, Y, X), under
    every kind of default: the declaration of each name must survive the grouping by size"""
    out = []
    names = ["N$", "L$", "A$", "B$", "X$", "Y$", "Q$", "ZZ$"]
    for k in range(n):
        chosen = r.sample(names, r.choice([3, 3, 4, 5]))
        ents, sizes = [], []
        pool = r.choice([[64, None, 64], [None, 200, None], [10, 20, 10, 20], [None, 7, 7, None, 7], [5, None, 5, None]])
        for j, nm in enumerate(chosen):
            arr = r.randrange(2) == 0
            ents.append(nm[:-1] + "$(" + ",".join(str(r.randrange(1, 9)) for _ in range(r.choice([1, 1, 2]))) + ")" if arr else nm)
            sz = pool[j % len(pool)]
            if sz is not None:
                sizes.append((nm + ("()" if arr else ""), sz))
        uses = ":".join((e if "(" not in e else e.split("(")[0] + "(" + ",".join("1" for _ in e.split(","))  + ")") + "=\"V\"" for e in ents)
        split = r.randrange(3) == 0 and len(ents) > 3
        text = (f"10 DIM {', '.join(ents[:2])}:DIM {', '.join(ents[2:])}\n20 {uses}" if split
                else f"10 DIM {', '.join(ents)}\n20 {uses}")
        o = {"flags": r.choice(G.FLAG_SETS_QUICK), "storage": r.choice([32, 80, 80, 255]), "procname": "prog", "sizes": sizes}
        out.append((text, o))
    return out


def cases(tier):
    r = rng("b09-suite-opts")
    r_new = rng("b09-suite-opts-newer-probes")
    out = []

    def add(kind, text, o):
        out.append({"kind": kind, "text": text, "opts": o, "fmt": "b09",
                    "req": "b09 " + o["flags"] + f" {o['storage']} " + hexs(o["procname"].encode()) + " "
                           + hexs(",".join(f"{k}={v}" for k, v in o["sizes"]).encode()) + " " + hexs(text.encode())})

    for kind, text in programs(tier):
        if kind in ("empty-line-probe", "control-char-probe"):
            # bundled and not, filtered and not, pre-initialised and not
            for flags in ("1101110", "1100010", "1101010", "0100100", "1111011"):
                add(kind, text, {"flags": flags, "storage": 32, "procname": "prog", "sizes": []})
            continue
        if kind == "refusal-probe":
            G.option_sets(r, 1)       # (the draw this probe used to take: the stream of the kinds that follow stays what it was)
            # a refusal must not depend on an option: with and without the dispatcher suffix, the prologue, label filtering
            for flags in ("1100000", "1001000", "0000100", "0101000", "1011010", "1111011"):
                add(kind, text, {"flags": flags, "storage": 32, "procname": "prog", "sizes": []})
            continue
        nopt = 3 if kind in ("example",) else 1
        # probe kinds added later draw their options from a stream of their own: the draws of the older kinds stay what they were
        newer = kind in ("poke-call-probe", "function-operand-probe", "expression-operand-probe", "helper-nest-probe", "next-probe")
        for o in G.option_sets(r_new if newer else r, nopt):
            add(kind, text, o)
    for text, o in dim_probes(rng("b09-dim-probes"), 24 if tier != "thorough" else 240):
        add("dim-probe", text, o)
    # text that only looks like BASIC09 structure (a call, a header, a placeholder, a comment bracket) inside
    # comments, literals and DATA items, first / later on a line that is / is not a jump target, dependencies bundled,
    # with and without label filtering: what is bundled must not depend on where the comment stands
    hostile = ["RUN ecb_val", "to check: RUN ecb_hex(x)", "run ecb_point", "PROCEDURE ecb_cls", "procedure zz", ": STRING<<>>",
               "DIM a:STRING<<>>", "(* RUN ecb_int *)", "RUN _ecb_start", "RUN inkey"]
    shapes = ["10 REM {h}\n20 CLS", "10 GOTO 20\n20 REM {h}\n30 CLS", "10 CLS:REM {h}", "10 ' {h}\n20 A=1", "10 A$=\"{h}\"",
              "10 DATA {h}\n20 READ A$", "10 PRINT \"{h}\":REM {h}", "10 IF A=1 THEN 30\n20 REM {h}\n30 REM {h}"]
    for h in hostile:
        for sh in (shapes if tier == "thorough" else shapes[:4] + [shapes[7]]):
            for flags in ("1100010", "1101010"):
                add("hostile-text-probe", sh.replace("{h}", h),
                    {"flags": flags, "storage": 32, "procname": "prog", "sizes": []})
    return out


def run(tier):
    import impl_b09
    cs = cases(tier)
    with mp.Pool(16) as pool:
        res = pool.map(_work, [(c["text"], c["opts"]) for c in cs], chunksize=8)
    reqs, idx = ["setlib " + hexs(impl_b09.lib_text().encode())], []
    for k, (req, impl, aux) in enumerate(res):
        cs[k]["aux"] = aux
        if req is not None:
            idx.append(k)
            reqs.append(req)
    # the same driver run also answers, per parsed program, whether Props.C07.skel matches Emit (tie of C07)
    skel_reqs = ["skel " + r.split(" ")[-1] for r in reqs[1:]]
    allouts = run_driver(reqs + skel_reqs)
    outs = allouts[1:1 + len(idx)]
    skels = allouts[1 + len(idx):]
    model = [None] * len(cs)
    for k, o, sk in zip(idx, outs, skels):
        model[k] = o
        cs[k]["aux"]["skel"] = sk
    impl = [i for _, i, _ in res]
    # text that the real front end rejects (or crashes on) is outside this boundary: the model side
    # is "not applicable" and the case is compared only by the end-to-end suite later
    for k in range(len(cs)):
        if model[k] is None:
            model[k] = impl[k]
            cs[k]["kind"] += "/front-end-only"
    dis = [{"req": cs[k]["req"][:300], "kind": cs[k]["kind"], "model": model[k][:160], "impl": impl[k][:160]}
           for k in range(len(cs)) if model[k] != impl[k]]
    return {"cases": cs, "model": model, "impl": impl, "disagreements": dis}


if __name__ == "__main__":
    import sys, time
    from common import unhex
    t = time.time()
    res = run(sys.argv[1] if len(sys.argv) > 1 else "quick")
    print(len(res["cases"]), "cases", len(res["disagreements"]), "disagreements", round(time.time() - t, 1), "s")
    print(Counter(c["kind"] for c in res["cases"]))
    print(Counter(i.split(" ")[0] + (" " + i.split(" ")[1] if not i.startswith("ok") else "") for i in res["impl"]))
    shown = 0
    for k, c in enumerate(res["cases"]):
        m, i = res["model"][k], res["impl"][k]
        if m != i and shown < 12:
            shown += 1
            print("----", c["kind"], c["opts"]["flags"], c["opts"]["storage"], c["opts"]["sizes"])
            print(c["text"][:300])
            if m.startswith("ok") and i.startswith("ok"):
                a, b = unhex(i[3:]).decode(), unhex(m[3:]).decode()
                la, lb = a.split("\n"), b.split("\n")
                j = next((j for j in range(min(len(la), len(lb))) if la[j] != lb[j]), min(len(la), len(lb)))
                print("  line", j, "\n  impl :", repr(la[j] if j < len(la) else None), "\n  model:", repr(lb[j] if j < len(lb) else None))
            else:
                print("  impl :", i[:150], "\n  model:", m[:150])
