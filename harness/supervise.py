"""Supervisor of one check run.  `./check …` starts this; it starts `check.py` in a process group of its own and
watches the heartbeat files (common.py: every call of the real parser writes its input into a file of its process
and removes it when the call returns).  An input whose call has not returned after HANG_SECONDS is a hang of
the tool - C15 ("it never hangs") - and, for every other property, a conversion that cannot be compared: the
supervisor stops the run, writes the input as the replay and reports the violation."""
import hashlib
import json
import os
import shutil
import signal
import subprocess
import sys
import tempfile
import time

HERE = os.path.dirname(os.path.abspath(__file__))
VERIF = os.path.dirname(HERE)
HANG_SECONDS = 60


def main():
    args = sys.argv[1:]
    pid = next((a for a in args if len(a) == 3 and a[0] == "C" and a[1:].isdigit()), None)
    if pid is None:                       # --setup, replay: nothing to supervise
        os.execv("/venv/bin/python", ["/venv/bin/python", os.path.join(HERE, "check.py")] + args)
    hb = tempfile.mkdtemp(prefix="verif-hb-")
    env = dict(os.environ, VERIF_HB_DIR=hb)
    child = subprocess.Popen(["/venv/bin/python", os.path.join(HERE, "check.py")] + args, env=env, start_new_session=True)
    try:
        while True:
            rc = child.poll()
            if rc is not None:
                return rc
            time.sleep(2)
            now = time.time()
            for f in os.listdir(hb):
                path = os.path.join(hb, f)
                try:
                    with open(path) as fh:
                        j = json.load(fh)
                except (OSError, ValueError):
                    continue
                if now - j["t"] > HANG_SECONDS:
                    try:
                        os.killpg(child.pid, signal.SIGKILL)
                    except OSError:
                        pass
                    child.wait()
                    try:
                        os.unlink(os.path.join(VERIF, ".lock"))
                    except OSError:
                        pass
                    text = j["text"]
                    d = os.path.join(VERIF, "replays", pid)
                    os.makedirs(d, exist_ok=True)
                    rp = os.path.join(d, "hang-" + hashlib.sha256(text.encode()).hexdigest()[:16] + ".json")
                    with open(rp, "w") as fh:
                        json.dump({"property": pid, "type": "failing-input" if pid == "C15" else "broken-obligation",
                                   "kind": "hang", "input": text,
                                   "why": f"grammar.parse(<input>) of the real tool has not returned after {HANG_SECONDS} s "
                                          "(the bundled example programs parse in well under a second): the conversion hangs",
                                   "obligations": [{"what": "correspondence", "detail": "the real code does not answer on this input; "
                                                    "the run was stopped"}]}, fh, indent=1)
                    rel = os.path.relpath(rp, VERIF)
                    print(f"VIOLATION property={pid} replay={rel}" + ("" if pid == "C15" else " no-failing-input-found"), flush=True)
                    print(f"{pid} stopped: the tool hangs on an input (see the replay)", flush=True)
                    return 1
    finally:
        shutil.rmtree(hb, ignore_errors=True)


if __name__ == "__main__":
    sys.exit(main())
