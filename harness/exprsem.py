"""Reference semantics for the C01/C02 oracles: how Color BASIC reads and evaluates a source
expression (Spec side, written from the Color / Extended Color BASIC manual) and how BASIC09
evaluates emitted text (via b09parse).  Both evaluators share one implementation of every
arithmetic primitive, so two results are equal only if the *trees* force them to be.

Color BASIC precedence, high to low:  ^ ; unary - + ; * / ; + - ; relational ; NOT ; AND ; OR —
binary operators left-associative, relations yield -1 / 0, AND/OR/NOT act on 16-bit integers."""
import math
import re

# ----------------------------------------------------------------------------- shared primitives


class EvalError(Exception):
    pass


def to_i16(x):
    if isinstance(x, bool):
        x = -1 if x else 0
    if isinstance(x, str):
        raise EvalError("TM")
    if x != x or abs(x) > 1e15:
        raise EvalError("FC")
    n = math.floor(x)
    if not -32768 <= n <= 32767:
        n = ((n + 32768) % 65536) - 32768      # both sides use the same wrap: only structure matters
    return n


def num(x):
    if isinstance(x, bool):
        return -1.0 if x else 0.0
    if isinstance(x, str):
        raise EvalError("TM")
    return float(x)


def power(a, b):
    a, b = num(a), num(b)
    try:
        r = a ** b
    except (OverflowError, ZeroDivisionError):
        raise EvalError("OV")
    if isinstance(r, complex):
        raise EvalError("FC")
    if abs(r) > 1e30:
        raise EvalError("OV")
    return r


def arith(op, a, b):
    if op == "+" and isinstance(a, str) and isinstance(b, str):
        return a + b
    a, b = num(a), num(b)
    if op == "+":
        return a + b
    if op == "-":
        return a - b
    if op == "*":
        r = a * b
        if abs(r) > 1e30:
            raise EvalError("OV")
        return r
    if op == "/":
        if b == 0:
            raise EvalError("/0")
        return a / b
    raise EvalError(op)


def compare(op, a, b):
    if isinstance(a, str) != isinstance(b, str):
        raise EvalError("TM")
    if not isinstance(a, str):
        a, b = num(a), num(b)
    return {"=": a == b, "<>": a != b, "<": a < b, ">": a > b, "<=": a <= b, ">=": a >= b, "=<": a <= b, "=>": a >= b}[op]


def fn(name, args, script):
    """built-in and runtime functions; `script` gives the scripted device values"""
    n = name.upper()
    a = args
    try:
        if n == "ABS":
            return abs(num(a[0]))
        if n == "SGN":
            v = num(a[0])
            return (v > 0) - (v < 0) + 0.0
        if n == "INT":
            return float(math.floor(num(a[0])))
        if n == "FIX":
            return float(math.trunc(num(a[0])))
        if n == "SQR":
            if num(a[0]) < 0:
                raise EvalError("FC")
            return math.sqrt(num(a[0]))
        if n in ("SIN", "COS", "TAN", "ATN", "EXP", "LOG"):
            v = num(a[0])
            if n == "LOG" and v <= 0:
                raise EvalError("FC")
            if n == "EXP" and v > 60:
                raise EvalError("OV")
            return {"SIN": math.sin, "COS": math.cos, "TAN": math.tan, "ATN": math.atan, "EXP": math.exp, "LOG": math.log}[n](v)
        if n == "PEEK":
            return float(to_i16(a[0]) * 7 % 251)
        if n == "RND":
            return float(abs(to_i16(a[0])) % 13 + 1)
        if n == "LEN":
            return float(len(a[0]))
        if n == "ASC":
            if not a[0]:
                raise EvalError("FC")
            return float(ord(a[0][0]))
        if n == "VAL":
            m = re.match(r"\s*[+-]?(\d+\.?\d*|\.\d+)([eE][+-]?\d+)?", a[0])
            return float(m.group(0)) if m else 0.0
        if n == "CHR$":
            return chr(to_i16(a[0]) % 256)
        if n == "STR$":
            v = num(a[0])
            t = (" " if v >= 0 else "") + (str(int(v)) if v == int(v) and abs(v) < 1e9 else repr(v))
            if script.get("__neg_blank__") and v < 0:
                t = " " + t
            return t + (" " if script.get("__str_blank__") else "")
        if n == "HEX$":
            return format(to_i16(a[0]) % 65536, "X")
        if n == "LEFT$":
            k = to_i16(a[1])
            if k < 0:
                raise EvalError("FC")
            return a[0][:k]
        if n == "RIGHT$":
            k = to_i16(a[1])
            if k < 0:
                raise EvalError("FC")
            return a[0][len(a[0]) - k:] if k else ""
        if n == "MID$":
            s, p, k = a[0], to_i16(a[1]), to_i16(a[2])
            if p < 1 or k < 0:
                raise EvalError("FC")
            return s[p - 1:p - 1 + k]
        if n == "STRING$":
            k = to_i16(a[0])
            if not isinstance(a[1], str):          # STRING$(n, code)
                return chr(to_i16(a[1]) % 256) * k
            if k < 0 or not a[1]:
                raise EvalError("FC")
            return a[1][0] * k
        if n == "INSTR":
            st, s, p = to_i16(a[0]), a[1], a[2]
            if st < 1:
                raise EvalError("FC")
            if p == "":
                return float(st if st <= len(s) + 1 else 0)
            return float(s.find(p, st - 1) + 1)
        if n == "INKEY$":
            return script.get("INKEY$", "K")
        if n in ("BUTTON", "JOYSTK"):
            return float((to_i16(a[0]) * 3 + script.get(n, 1)) % 64)
        if n == "POINT":
            return float((to_i16(a[0]) + 2 * to_i16(a[1]) + script.get(n, 2)) % 16)
        if n in ("LAND", "LOR"):
            x, y = to_i16(a[0]), to_i16(a[1])
            return float(x & y if n == "LAND" else x | y)
        if n == "LNOT":
            return float(-to_i16(a[0]) - 1)
        if n == "FLOAT":
            return num(a[0])
        if n == "TAB":
            return "\t"
    except (TypeError, IndexError, AttributeError):
        raise EvalError("TM")
    raise EvalError(f"unknown function {name}")


# ----------------------------------------------------------------------------- Color BASIC side

DTOK = re.compile(r"""
    (?P<ws>\ +)
  | (?P<str>"[^"]*"?)
  | (?P<hex>&\ *H\ *[0-9A-F]+)
  | (?P<num>(?:\d+\.?\d*|\.\d+)(?:E[+-]?\d+)?)
  | (?P<id>[A-Z][A-Z0-9]*\$?)
  | (?P<op><>|<=|>=|=<|=>|[-+*/^=<>(),;])
""", re.X)

KEYWORDS = ["INSTR", "INKEY$", "BUTTON", "JOYSTK", "POINT", "STRING$", "LEFT$", "RIGHT$", "MID$", "CHR$", "STR$", "HEX$",
            "ABS", "ATN", "COS", "EXP", "FIX", "LEN", "LOG", "PEEK", "RND", "SGN", "SIN", "SQR", "TAN", "ASC", "VAL",
            "INT", "NOT", "AND", "OR", "TAB"]


def dtokens(s):
    out = []
    i = 0
    while i < len(s):
        m = DTOK.match(s, i)
        if not m:
            raise EvalError(f"cannot read {s[i:i + 10]!r}")
        k = m.lastgroup
        t = m.group(0)
        i = m.end()
        if k == "ws":
            continue
        if k == "id":
            # Color BASIC tokenises keywords first: split a leading keyword off an identifier run
            kw = next((w for w in KEYWORDS if t.startswith(w)), None)
            if kw:
                out.append(("kw", kw))
                i = m.start() + len(kw)
                continue
        out.append((k, t))
    return out


class DecbParser:
    """Pratt parser with Color BASIC's table"""

    def __init__(self, toks):
        self.t, self.i = toks, 0

    def peek(self):
        return self.t[self.i] if self.i < len(self.t) else (None, None)

    def next(self):
        x = self.peek()
        self.i += 1
        return x

    # levels: 1 OR, 2 AND, 3 NOT(prefix), 4 relational, 5 + -, 6 * /, 7 unary, 8 ^
    def expr(self, lvl=1):
        if lvl == 3 and self.peek() == ("kw", "NOT"):
            self.next()
            return ("un", "NOT", self.expr(3))
        if lvl == 7 and self.peek()[0] == "op" and self.peek()[1] in "+-":
            op = self.next()[1]
            return ("un", op, self.expr(7))
        if lvl == 9:
            return self.primary()
        if lvl in (3, 7):
            return self.expr(lvl + 1)
        left = self.expr(lvl + 1)
        ops = {1: ["OR"], 2: ["AND"], 4: ["=", "<>", "<", ">", "<=", ">=", "=<", "=>"], 5: ["+", "-"], 6: ["*", "/"], 8: ["^"]}[lvl]
        while self.peek()[1] in ops and self.peek()[0] in ("op", "kw"):
            op = self.next()[1]
            # after ^ Color BASIC evaluates a term, which may start with a sign applied to what follows
            if lvl == 8:
                right = self.expr(7) if (self.peek()[0] == "op" and self.peek()[1] in "+-") else self.expr(9)
            else:
                right = self.expr(lvl + 1)
            left = ("bin", op, left, right)
        return left

    def primary(self):
        k, t = self.next()
        if k == "num":
            return ("num", float(t))
        if k == "hex":
            return ("num", float(int(re.sub(r"[& H]", "", t), 16)))
        if k == "str":
            return ("str", t[1:-1] if t.endswith('"') and len(t) > 1 else t[1:])
        if (k, t) == ("op", "("):
            e = self.expr(1)
            if self.next() != ("op", ")"):
                raise EvalError("missing )")
            return e
        if k == "kw":
            if t == "INKEY$":
                return ("call", t, [])
            if self.next() != ("op", "("):
                raise EvalError("( expected")
            args = [self.expr(1)]
            while self.peek() == ("op", ","):
                self.next()
                args.append(self.expr(1))
            if self.next() != ("op", ")"):
                raise EvalError(") expected")
            return ("call", t, args)
        if k == "id":
            if self.peek() == ("op", "("):
                self.next()
                args = [self.expr(1)]
                while self.peek() == ("op", ","):
                    self.next()
                    args.append(self.expr(1))
                if self.next() != ("op", ")"):
                    raise EvalError(") expected")
                return ("arr", t, args)
            return ("var", t)
        raise EvalError(f"operand expected, got {t!r}")


def decb_parse(src):
    p = DecbParser(dtokens(src))
    e = p.expr(1)
    if p.i != len(p.t):
        raise EvalError(f"unexpected {p.t[p.i][1]!r}")
    return e


def var_key(name):
    """Color BASIC variable identity: two significant characters + type"""
    s = name.endswith("$")
    base = name[:-1] if s else name
    return base[:2] + ("$" if s else "")


def decb_eval(e, env, script):
    k = e[0]
    if k == "num":
        return e[1]
    if k == "str":
        return e[1]
    if k == "var":
        return env.get(var_key(e[1]), "" if e[1].endswith("$") else 0.0)
    if k == "arr":
        idx = tuple(to_i16(decb_eval(a, env, script)) for a in e[2])
        if hasattr(env, "arr_get"):          # a machine that keeps DIM bounds (C03)
            return env.arr_get(var_key(e[1]), idx)
        return env.get(("arr", var_key(e[1])) + idx, ("" if e[1].endswith("$") else float(sum(idx) % 7)))
    if k == "call":
        return fn(e[1], [decb_eval(a, env, script) for a in e[2]], script)
    if k == "un":
        v = decb_eval(e[2], env, script)
        if e[1] == "NOT":
            return float(-to_i16(v) - 1)
        return -num(v) if e[1] == "-" else num(v)
    if k == "bin":
        a = decb_eval(e[2], env, script)
        b = decb_eval(e[3], env, script)
        op = e[1]
        if op == "^":
            return power(a, b)
        if op in "+-*/":
            return arith(op, a, b)
        if op in ("AND", "OR"):
            x, y = to_i16(a), to_i16(b)
            return float(x & y if op == "AND" else x | y)
        return -1.0 if compare(op, a, b) else 0.0
    raise EvalError(k)


# ----------------------------------------------------------------------------- BASIC09 side

def b09_eval(e, env, script):
    """evaluate a b09parse tree: BOOLEAN is its own type (Python bool), AND/OR/NOT need booleans"""
    k = e[0]
    if k == "num":
        t = e[1]
        if t.startswith("$"):                      # a BASIC09 hex literal is a 16-bit INTEGER: $8000..$FFFF are negative
            v = int(t[1:], 16)
            return float(v - 0x10000 if 0x8000 <= v <= 0xFFFF else v)
        return float(t)
    if k == "str":
        return e[1]
    if k == "id":
        n = e[1]
        if n.upper() == "TRUE":
            return True
        if n.upper() == "FALSE":
            return False
        if n in env:
            return env[n]
        if hasattr(env, "unset"):            # a machine that tracks initialisation (C03)
            return env.unset(n)
        return "" if n.endswith("$") else 0.0
    if k == "call":
        name = e[1]
        args = [b09_eval(a, env, script) for a in e[2]]
        if name.startswith("arr_"):
            idx = tuple(to_i16(a) for a in args)
            if hasattr(env, "arr_get"):
                return env.arr_get(name[4:], idx)
            key = ("arr", name[4:]) + idx
            return env.get(key, "" if name.endswith("$") else float(sum(idx) % 7))
        return fn(name, args, script)
    if k == "un":
        v = b09_eval(e[2], env, script)
        if e[1] == "NOT":
            if not isinstance(v, bool):
                raise EvalError("BASIC09: NOT needs a BOOLEAN")
            return not v
        return -num(v) if e[1] == "-" else num(v)
    if k == "bin":
        a = b09_eval(e[2], env, script)
        b = b09_eval(e[3], env, script)
        op = e[1]
        if op in ("^", "**"):
            return power(a, b)
        if op in ("+", "-", "*", "/"):
            if isinstance(a, bool) or isinstance(b, bool):
                raise EvalError("BASIC09: arithmetic on a BOOLEAN")
            return arith(op, a, b)
        if op in ("AND", "OR", "XOR"):
            if not (isinstance(a, bool) and isinstance(b, bool)):
                raise EvalError("BASIC09: AND/OR need BOOLEANs")
            return (a and b) if op == "AND" else (a or b) if op == "OR" else (a != b)
        if isinstance(a, bool) or isinstance(b, bool):
            raise EvalError("BASIC09: relation on a BOOLEAN")
        return compare(op, a, b)
    raise EvalError(k)
