"""Shared plumbing: paths, seed/tier, the line protocol to the Lean driver, PRNG."""
import hashlib
import json
import os
import random
import subprocess
import sys
import tempfile
import time

VERIF = os.path.dirname(os.path.dirname(os.path.abspath(__file__)))
REPO = os.environ.get("VERIF_REPO", "/repo")
LEAN = os.path.join(VERIF, "lean")
DRIVER = os.path.join(LEAN, ".lake", "build", "bin", "driver")
PY = "/venv/bin/python"

if REPO not in sys.path:
    sys.path.insert(0, REPO)


ORACLE_NOTES = {}


def note(key: str):
    """oracles count what they did with each case (compared / skipped and why); check.py copies the
    counts into the evidence so that a silently skipping oracle is visible"""
    ORACLE_NOTES[key] = ORACLE_NOTES.get(key, 0) + 1


def seed() -> int:
    try:
        return int(os.environ.get("VERIF_SEED", "0"))
    except ValueError:
        return 0


def rng(tag: str) -> random.Random:
    """Every random choice derives from VERIF_SEED and a per-suite tag."""
    h = hashlib.sha256(f"{seed()}:{tag}".encode()).digest()
    return random.Random(int.from_bytes(h[:8], "big"))


def hexs(b: bytes) -> str:
    return b.hex() if b else "-"


def unhex(s: str) -> bytes:
    return b"" if s == "-" else bytes.fromhex(s)


DRIVER_SECONDS = 900

# --- heartbeat: every call of the real parser announces its input in a file of its own process, so that the
# supervisor (harness/supervise.py) can tell WHICH input a conversion hangs on (a regular-expression blow-up inside
# `re` / `regex` holds the interpreter lock: nothing inside the process can interrupt or even observe it)
HB_DIR = os.environ.get("VERIF_HB_DIR")


def _install_heartbeat():
    if not HB_DIR:
        return
    try:
        import json as _json
        import time as _time
        from coco.b09 import grammar as _g
        orig = _g.grammar.parse

        def parse(text, pos=0):
            path = os.path.join(HB_DIR, f"{os.getpid()}.json")
            try:
                with open(path, "w") as fh:
                    _json.dump({"t": _time.time(), "text": text[:20000]}, fh)
            except OSError:
                pass
            try:
                return orig(text, pos)
            finally:
                try:
                    os.unlink(path)
                except OSError:
                    pass
        _g.grammar.parse = parse
    except Exception:  # noqa: BLE001
        pass


def run_driver(lines):
    """Send request lines to the compiled Lean driver, return the answer lines."""
    if not lines:
        return []
    with tempfile.TemporaryFile("w+") as fin:
        fin.write("\n".join(lines) + "\n")
        fin.flush()
        fin.seek(0)
        try:
            p = subprocess.run([DRIVER], stdin=fin, capture_output=True, text=True, timeout=DRIVER_SECONDS)
        except subprocess.TimeoutExpired:
            # the model is total but may be slow on a grammar whose regular expressions blow up: no model answer
            return [f"model-timeout (no answer from the Lean driver within {DRIVER_SECONDS} s)"] * len(lines)
    if p.returncode != 0:
        raise RuntimeError(f"driver failed rc={p.returncode}: {p.stderr[-2000:]}")
    out = p.stdout.split("\n")
    if out and out[-1] == "":
        out.pop()
    if len(out) != len(lines):
        raise RuntimeError(f"driver answered {len(out)} lines for {len(lines)} requests")
    return out


def repo_digest() -> str:
    """SHA-256 over every file of /repo/coco (working tree)."""
    h = hashlib.sha256()
    for root, dirs, files in sorted(os.walk(os.path.join(REPO, "coco"))):
        dirs[:] = sorted(d for d in dirs if d != "__pycache__")
        for f in sorted(files):
            if f.endswith((".pyc", ".pyo")):
                continue
            p = os.path.join(root, f)
            h.update(os.path.relpath(p, REPO).encode())
            with open(p, "rb") as fh:
                h.update(fh.read())
    return h.hexdigest()


class Timer:
    def __init__(self):
        self.t0 = time.time()

    def s(self):
        return round(time.time() - self.t0, 2)


_install_heartbeat()
