"""Front-end tie (used by C08, C15, C09): the PEG model (`Model.Peg` run on the grammar regenerated
from coco/b09/grammar.py into `Gen/Grammar.lean`) against parsimonious on the same texts.  Both
sides answer with the outcome (tree / no match / incomplete at position p) and, for a tree, the
number of nodes and a digest over every node's rule, span and child count in preorder, so one
differing node anywhere is a disagreement.

Texts: the grammar-directed generator (valid programs with random optional blanks), its malformed
stream (token deletion / duplication / swap), the bundled examples and test-suite programs, the
layout suite's variants (blank lines, line ends, NUL, blanks in literals) and a set of probes."""
import multiprocessing as mp

import gens_b09 as G
from common import hexs, rng, run_driver

PROBES = ["", "\n", "10", "10 ", "10 A=1", "10 A=1\n", "\n\n10 A=1\n\n", "10 A=1\x00", "10 A=1\n\x00", "10 A=1\x00\n", " 10 A=1",
          "10 A=1\n  \n20 B=2", "10 PRINT \"A", "10 A$=\"UNTERMINATED", "10 REM", "10 REM X:Y", "10 'X", "10 DATA", "10 DATA ,",
          "10 DATA 1,,\"A,B\",C D :PRINT", "10 IF A THEN 20", "10 IF A=1 THEN IF B=2 THEN 30 ELSE 40 ELSE 50", "10 A=CHR", "10 CHR=1",
          "10 FORI=1TO10", "10 FOR I=1 TO 10 STEP2", "10 A=1E", "10 A=1 E 5", "10 A=.", "10 A=& H FF", "10 A=&H", "10 A=&HFFFFFFF",
          "10 A=-+-1", "10 A=NOT NOT B", "10 PRINT;", "10 ?", "10 PRINT A B", "10 PRINT@32,\"X\"", "10 NEXT", "10 NEXT I,J",
          "10 HLINE-(1,2),PSET", "10 HLINE(0,0)-(1,1),PRESET,BF", "10 ON ERR GOTO 10", "10 ONERRGOTO10", "10 TO=1", "10 IN=2",
          "10 ELSEX=1", "10 A=1ELSE", "10 X=1E5ELSE", "99999 END", "10 A=1:", "10 :", "10 ::A=1", "10 A=(((((((((1)))))))))",
          "10 LET A$(1)=\"ABC", "10 A$(1)=\"ABC", "10 LET A$=\"ABC", "10 A$=\"ABC", "10 LET A=1", "10 LET A(1)=2", "10 LET A$(1)=\"X\"",
          "10 STRING$=1", "10 A$=STRING$(3,65)", "10 A=INSTR(A$,B$)", "10 Ä=1", "10 PRINT \"Ä\"", "10 REM Ä"]


def property_probes(tier, r):
    import suite_b09
    import suite_ctl
    import suite_expr
    import suite_names
    import suite_sem
    out = list(suite_ctl.PROBES) + ["0 A=1\n" + p for p in suite_ctl.PROBES_ZERO]
    out += list(suite_sem.PROBES) + list(suite_sem.PROBES_80) + list(suite_sem.DATA_VALUE_PROBES)
    out += list(suite_names.GENERATED_PROGRAMS)
    fixed = [t for k, t in suite_b09.programs(tier) if k.endswith("-probe") and k != "size-probe"]
    out += fixed if tier == "thorough" else r.sample(fixed, min(len(fixed), 500))
    ex = [c["text"] for c in suite_expr.cases(tier) if c["kind"].endswith("/probe") or c["kind"].endswith("/exhaustive")]
    out += ex if tier == "thorough" else r.sample(ex, min(len(ex), 400))
    return out


def cases(tier):
    r = rng("parse-suite")
    texts = [(p, "probe") for p in PROBES]
    n = 150 if tier != "thorough" else 1500
    for _ in range(n):
        t = G.Gen(r).program(r.choice([1, 2, 4, 8]))
        texts.append((t, "generated"))
        if r.random() < 0.5:
            texts.append((G.mutate(r, t), "malformed"))
    for t in G.example_programs()[: (2 if tier != "thorough" else 50)]:
        texts.append((t, "example"))
    for t in G.test_suite_programs()[: (60 if tier != "thorough" else 1000)]:
        texts.append((t, "test-program"))
    import suite_layout
    lay = suite_layout.cases(tier)
    for c in (lay if tier == "thorough" else r.sample(lay, min(len(lay), 400))):
        if c["kind"] != "single" or r.random() < 0.2:
            texts.append((c["text"], "layout-" + c["kind"]))
    # the probe programs of the property suites: the shapes the property oracles look at are also the shapes on which the
    # front-half model is tied to the real parser and visitor
    texts += [(t, "prop-probe") for t in property_probes(tier, r)]
    seen, out = set(), []
    for t, kind in texts:
        if t in seen:
            continue
        seen.add(t)
        out.append({"fmt": "parse", "kind": kind, "text": t, "req": "parse " + hexs(t.encode("utf-8", "surrogatepass"))})
    return out


def _work(text):
    import impl_parse
    return impl_parse.digest(text)


def run(tier):
    cs = cases(tier)
    with mp.Pool(16) as pool:
        impl = pool.map(_work, [c["text"] for c in cs], chunksize=8)
    model = run_driver([c["req"] for c in cs])
    dis = [{"req": cs[k]["text"][:200], "kind": cs[k]["kind"], "model": model[k], "impl": impl[k]}
           for k in range(len(cs)) if model[k] != impl[k]]
    return {"cases": cs, "model": model, "impl": impl, "disagreements": dis}


if __name__ == "__main__":
    import sys
    import time
    from collections import Counter
    t0 = time.time()
    res = run(sys.argv[1] if len(sys.argv) > 1 else "quick")
    print(len(res["cases"]), "cases", len(res["disagreements"]), "disagreements", "%.1fs" % (time.time() - t0))
    for d in res["disagreements"][:10]:
        print(d)
    print(Counter(c["kind"] for c in res["cases"]), Counter(i.split(" ")[0] for i in res["impl"]))
