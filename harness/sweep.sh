#!/bin/sh
# usage: sweep.sh <tier> <seed>... — every claimed check under each seed; prints only alarms and the summary line
cd /verif || exit 2
tier=$1; shift
for s in "$@"; do
  for p in $(python3 -c "import json; print(' '.join(c['property_id'] for c in json.load(open('MANIFEST.json'))['checks']))"); do
    out=$(VERIF_SEED=$s ./check "$p" --tier "$tier" 2>&1)
    echo "$out" | grep -E "VIOLATION|Traceback|Error" 
    echo "$out" | tail -1
  done
done
