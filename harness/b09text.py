"""An independent reader of BASIC09 text (the Spec side of the transpiler oracles, written from
the BASIC09 reference, not from the tool): tokenizer, statement splitting, RUN calls, labels,
procedure splitting, expression grouping under BASIC09 precedence."""
import re

TOKEN_RE = re.compile(r"""
    (?P<ws>[ \t]+)
  | (?P<comment>\(\*.*?(?:\*\)|$))
  | (?P<str>"[^"\n]*"?)
  | (?P<hex>\$[0-9A-Fa-f]+)
  | (?P<num>(?:\d+\.\d*|\.\d+|\d+)(?:[eE][+-]?\d+)?)
  | (?P<id>[A-Za-z_][A-Za-z0-9_$.]*)
  | (?P<op>:=|<>|<=|>=|=<|=>|\*\*|[-+*/^=<>(),;:\\\[\]#&])
  | (?P<other>.)
""", re.X)


def tokens(line):
    """[(kind, text)] without whitespace; kind in comment,str,hex,num,id,op,other"""
    out = []
    for m in TOKEN_RE.finditer(line):
        k = m.lastgroup
        if k != "ws":
            out.append((k, m.group(0)))
    return out


def split_statements(toks):
    """split a token list at top-level `\\` separators"""
    out, cur = [], []
    for t in toks:
        if t == ("op", "\\"):
            out.append(cur)
            cur = []
        else:
            cur.append(t)
    out.append(cur)
    return out


def split_args(toks):
    """tokens of `( a, b, c )` (without the outer parentheses) -> list of argument token lists"""
    args, cur, depth = [], [], 0
    for t in toks:
        if t[0] == "op" and t[1] in "([":
            depth += 1
        elif t[0] == "op" and t[1] in ")]":
            depth -= 1
        if t == ("op", ",") and depth == 0:
            args.append(cur)
            cur = []
        else:
            cur.append(t)
    if cur or args:
        args.append(cur)
    return args


def run_calls(toks):
    """every `RUN name(args)` / `RUN name` in a token list (anywhere, so that a RUN that leaked into
    an argument list is seen too): [(name, [arg token lists] or None, index)]"""
    out = []
    i = 0
    while i < len(toks):
        k, t = toks[i]
        if k == "id" and t.upper() == "RUN" and i + 1 < len(toks) and toks[i + 1][0] == "id":
            name = toks[i + 1][1]
            args = None
            j = i + 2
            if j < len(toks) and toks[j] == ("op", "("):
                depth, j0 = 0, j
                while j < len(toks):
                    if toks[j] == ("op", "("):
                        depth += 1
                    elif toks[j] == ("op", ")"):
                        depth -= 1
                        if depth == 0:
                            break
                    j += 1
                args = split_args(toks[j0 + 1:j])
            out.append((name, args, i))
        i += 1
    return out


HEADER_RE = re.compile(r"(?i)^procedure[ \t]+([A-Za-z0-9_]+)[ \t]*$")


def split_procedures(text):
    """[(name or None, [lines])] — lines before the first header belong to name None"""
    procs = [(None, [])]
    for line in text.split("\n"):
        m = HEADER_RE.match(line)
        if m:
            procs.append((m.group(1), []))
        procs[-1][1].append(line)
    if not procs[0][1]:
        procs.pop(0)
    return procs


def line_label(line):
    """(label or None, rest) of one emitted line"""
    m = re.match(r"^(\d+) (.*)$", line, re.S)
    if m:
        return int(m.group(1)), m.group(2)
    m = re.match(r"^(\d+)$", line)          # a line that holds only its number (the bank strips the last line's blank)
    if m:
        return int(m.group(1)), ""
    return None, line


def code_tokens(line):
    """tokens of a line without comments"""
    return [t for t in tokens(line) if t[0] != "comment"]


def blank_literals(line):
    """the line with string literals and comments blanked out"""
    out = []
    for m in TOKEN_RE.finditer(line):
        out.append(" " if m.lastgroup in ("str", "comment") else m.group(0))
    return "".join(out)


def has_placeholder(line):
    """`STRING<<>>` outside string literals and comments"""
    return re.search(r"(?i)STRING<<>>", blank_literals(line)) is not None


# --------------------------------------------------------------------------- block structure of a whole procedure

_BLOCK_CACHE = {}


def block_events(lines):
    """[(word, line index)]: the block keywords of a BASIC09 procedure in order, each where it starts a statement
    (any procedure: the library uses WHILE, REPEAT, FOR with its NEXT … that the tool never writes).  Words: IF (block
    form), IF1 (one-line form: a line number follows THEN), ELSE, ENDIF, WHILE, ENDWHILE, REPEAT, UNTIL, LOOP, ENDLOOP,
    EXITIF, ENDEXIT, FOR, NEXT; BAD-IF / BAD-WHILE when THEN / DO is missing.  Statements are separated by line ends and
    `\\`; THEN, ELSE and DO also end a clause (what follows them on the line is the next statement)."""
    ev = []
    for n, line in enumerate(lines):
        toks = [t for t in code_tokens(line_label(line)[1]) if t[0] != "str"]
        words = [(k, t.upper() if k == "id" else t) for k, t in toks]
        i = 0
        start = True                  # at the start of a statement
        while i < len(words):
            k, w = words[i]
            if (k, w) == ("op", "\\"):
                start = True
                i += 1
                continue
            if k == "id" and start and w == "REM":
                break
            if k == "id" and start and w in ("IF", "EXITIF"):
                j = i + 1
                while j < len(words) and words[j] != ("id", "THEN"):
                    j += 1
                if j >= len(words):
                    ev.append(("BAD-IF", n))
                    break
                if w == "IF" and j + 1 < len(words) and words[j + 1][0] == "num":
                    ev.append(("IF1", n))
                    i = j + 2
                    start = False
                else:
                    ev.append((w, n))
                    i = j + 1
                    start = True
                continue
            if k == "id" and start and w == "WHILE":
                j = i + 1
                while j < len(words) and words[j] != ("id", "DO"):
                    j += 1
                if j >= len(words):
                    ev.append(("BAD-WHILE", n))
                    break
                ev.append(("WHILE", n))
                i = j + 1
                start = True
                continue
            if k == "id" and start and w in ("REPEAT", "LOOP", "FOR", "ELSE", "ENDIF", "ENDWHILE", "UNTIL", "ENDLOOP", "ENDEXIT", "NEXT"):
                ev.append((w, n))
                start = w in ("REPEAT", "LOOP", "ELSE")
                i += 1
                continue
            start = False
            i += 1
    return ev


BLOCK_CLOSES = {"ENDIF": "IF", "ENDWHILE": "WHILE", "UNTIL": "REPEAT", "ENDLOOP": "LOOP", "ENDEXIT": "EXITIF", "NEXT": "FOR"}


def block_errors(lines):
    """why the block structure of a procedure is broken (an opener without its closer, a closer or ELSE without its
    opener), or None"""
    key = "\n".join(lines)
    if key in _BLOCK_CACHE:
        return _BLOCK_CACHE[key]
    stack, err = [], None
    for w, n in block_events(lines):
        where = f" | {lines[n].strip()[:80]}"
        if w.startswith("BAD-"):
            err = f"line {n}: {w[4:]} without its THEN / DO" + where
        elif w in ("IF", "EXITIF", "WHILE", "REPEAT", "LOOP", "FOR"):
            stack.append((w, n))
        elif w == "ELSE":
            if not stack or stack[-1][0] != "IF":
                err = f"line {n}: ELSE outside an IF block" + where
        elif w in BLOCK_CLOSES:
            if not stack or stack[-1][0] != BLOCK_CLOSES[w]:
                top = f"{stack[-1][0]} opened at line {stack[-1][1]}" if stack else "nothing"
                err = f"line {n}: {w} closes {top}" + where
            else:
                stack.pop()
        if err:
            break
    if err is None and stack:
        err = f"{stack[-1][0]} opened at line {stack[-1][1]} is never closed | {lines[stack[-1][1]].strip()[:80]}"
    _BLOCK_CACHE[key] = err
    return err
