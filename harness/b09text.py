"""An independent reader of BASIC09 text (the Spec side of the transpiler oracles, written from
the BASIC09 reference, not from the tool): tokenizer, statement splitting, RUN calls, labels,
procedure splitting, expression grouping under BASIC09 precedence."""
import re

TOKEN_RE = re.compile(r"""
    (?P<ws>[ \t]+)
  | (?P<comment>\(\*.*?(?:\*\)|$))
  | (?P<str>"[^"\n]*"?)
  | (?P<hex>\$[0-9A-Fa-f]+)
  | (?P<num>(?:\d+\.\d*|\.\d+|\d+)(?:[eE][+-]?\d+)?)
  | (?P<id>[A-Za-z_][A-Za-z0-9_$.]*)
  | (?P<op>:=|<>|<=|>=|=<|=>|\*\*|[-+*/^=<>(),;:\\\[\]#&])
  | (?P<other>.)
""", re.X)


def tokens(line):
    """[(kind, text)] without whitespace; kind in comment,str,hex,num,id,op,other"""
    out = []
    for m in TOKEN_RE.finditer(line):
        k = m.lastgroup
        if k != "ws":
            out.append((k, m.group(0)))
    return out


def split_statements(toks):
    """split a token list at top-level `\\` separators"""
    out, cur = [], []
    for t in toks:
        if t == ("op", "\\"):
            out.append(cur)
            cur = []
        else:
            cur.append(t)
    out.append(cur)
    return out


def split_args(toks):
    """tokens of `( a, b, c )` (without the outer parentheses) -> list of argument token lists"""
    args, cur, depth = [], [], 0
    for t in toks:
        if t[0] == "op" and t[1] in "([":
            depth += 1
        elif t[0] == "op" and t[1] in ")]":
            depth -= 1
        if t == ("op", ",") and depth == 0:
            args.append(cur)
            cur = []
        else:
            cur.append(t)
    if cur or args:
        args.append(cur)
    return args


def run_calls(toks):
    """every `RUN name(args)` / `RUN name` in a token list (anywhere, so that a RUN that leaked into
    an argument list is seen too): [(name, [arg token lists] or None, index)]"""
    out = []
    i = 0
    while i < len(toks):
        k, t = toks[i]
        if k == "id" and t.upper() == "RUN" and i + 1 < len(toks) and toks[i + 1][0] == "id":
            name = toks[i + 1][1]
            args = None
            j = i + 2
            if j < len(toks) and toks[j] == ("op", "("):
                depth, j0 = 0, j
                while j < len(toks):
                    if toks[j] == ("op", "("):
                        depth += 1
                    elif toks[j] == ("op", ")"):
                        depth -= 1
                        if depth == 0:
                            break
                    j += 1
                args = split_args(toks[j0 + 1:j])
            out.append((name, args, i))
        i += 1
    return out


HEADER_RE = re.compile(r"(?i)^procedure[ \t]+([A-Za-z0-9_]+)[ \t]*$")


def split_procedures(text):
    """[(name or None, [lines])] — lines before the first header belong to name None"""
    procs = [(None, [])]
    for line in text.split("\n"):
        m = HEADER_RE.match(line)
        if m:
            procs.append((m.group(1), []))
        procs[-1][1].append(line)
    if not procs[0][1]:
        procs.pop(0)
    return procs


def line_label(line):
    """(label or None, rest) of one emitted line"""
    m = re.match(r"^(\d+) (.*)$", line, re.S)
    if m:
        return int(m.group(1)), m.group(2)
    m = re.match(r"^(\d+)$", line)          # a line that holds only its number (the bank strips the last line's blank)
    if m:
        return int(m.group(1)), ""
    return None, line


def code_tokens(line):
    """tokens of a line without comments"""
    return [t for t in tokens(line) if t[0] != "comment"]


def blank_literals(line):
    """the line with string literals and comments blanked out"""
    out = []
    for m in TOKEN_RE.finditer(line):
        out.append(" " if m.lastgroup in ("str", "comment") else m.group(0))
    return "".join(out)


def has_placeholder(line):
    """`STRING<<>>` outside string literals and comments"""
    return re.search(r"(?i)STRING<<>>", blank_literals(line)) is not None
