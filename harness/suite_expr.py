"""Expression suite (C01): expression trees over the supported fragment — every shape up to a
size bound, random shapes beyond — in the six statement contexts of the property.  The real
`convert` translates a one-statement program; the oracle evaluates the source expression the way
Color BASIC reads it (exprsem.DecbParser) and the emitted text the way BASIC09 reads it
(b09parse + exprsem.b09_eval, after executing the hoisted RUN wrappers) on a panel of
environments and compares.  The model side is the post-parse pipeline (as in the b09 suite)."""
import itertools
import multiprocessing as mp
import re

import b09parse as BP
import b09text as T
import exprsem as S
import gens_b09 as G
from common import hexs, note, rng, run_driver, unhex

OPTS = {"flags": "0100000", "storage": 32, "procname": "", "sizes": []}

ENVS = [
    {"A": 2.0, "B": 3.0, "C": 5.0, "X": -4.0, "Y": 0.5, "I": 7.0, "J": 1.0, "N": 0.0, "A$": "HELLO", "B$": "LL", "N$": "", "NA$": "BOB", "TI$": "T1", "AB$": "QQ", "NA": 11.0, "AB": 21.0},
    {"A": -1.0, "B": 0.0, "C": 1.0, "X": 10.0, "Y": -2.5, "I": 3.0, "J": 2.0, "N": 6.0, "A$": "A", "B$": "B", "N$": "12", "NA$": "X", "TI$": "T2", "AB$": "", "NA": 12.0, "AB": 22.0},
    {"A": 0.0, "B": -7.0, "C": 2.0, "X": 1.5, "Y": 8.0, "I": -3.0, "J": 5.0, "N": 1.0, "A$": "", "B$": "XYZ", "N$": "Q", "NA$": "", "TI$": "T3", "AB$": "AB", "NA": 13.0, "AB": 23.0},
    {"A": 5.0, "B": 2.0, "C": -3.0, "X": 0.25, "Y": 3.0, "I": 1.0, "J": -1.0, "N": 2.0, "A$": "AB", "B$": "ABAB", "N$": "7.5", "NA$": "ZED", "TI$": "T4", "AB$": "Z", "NA": 14.0, "AB": 24.0},
]
SCRIPT = {"INKEY$": "K", "BUTTON": 1, "JOYSTK": 5, "POINT": 2}

NUM_LEAVES = ["A", "B", "C", "X", "2", "3", "0.5", "10", "&HF", "1E1", "2.5"]
BINOPS = ["+", "-", "*", "/", "^"]


def small_trees(depth, ops=BINOPS):
    """every expression shape with up to `depth` binary operators over two leaves, with unary minus
    and parentheses at every position (exhaustive small space)"""
    if depth == 0:
        for l in ("A", "B", "2", "3"):
            yield l
        return
    for d1 in range(depth):
        d2 = depth - 1 - d1
        for l in small_trees(d1, ops):
            for r_ in small_trees(d2, ops):
                for op in ops:
                    yield f"{l}{op}{r_}"
    for e in small_trees(depth - 1, ops):
        yield f"({e})"
        yield f"-{e}"


class EGen(G.Gen):
    """numeric / string / condition expressions without VARPTR, ERNO, TAB (not in the fragment)"""

    def val(self, d):
        r = self.r
        if d <= 0:
            return r.choice(NUM_LEAVES)
        k = r.randrange(18)
        if k == 0:
            return f"({self.num(d - 1)})"
        if k == 1:
            return r.choice(["-", "-", "+"]) + self.val(d - 1)
        if k == 2:
            return f"{r.choice(['ABS', 'SGN', 'FIX', 'SQR', 'ATN', 'PEEK', 'RND'])}({self.num(d - 1)})"
        if k == 3:
            return f"INT({self.num(d - 1)})"
        if k == 4:
            return f"{r.choice(['LEN', 'ASC', 'VAL'])}({self.str(d - 1)})"
        if k == 5:
            return f"INSTR({self.r.choice(['1', '2', 'J'])},{self.str(d - 1)},{self.str(d - 1)})"
        if k == 6:
            return r.choice([f"POINT({self.num(d - 1)},{self.num(d - 1)})", f"BUTTON({self.num(d - 1)})"])
        if k == 7:
            return f"QQ({self.num(d - 1)})"
        return r.choice(NUM_LEAVES)

    def str(self, d=None):
        r = self.r
        d = self.max_depth if d is None else d
        if d <= 0:
            return r.choice(['"AB"', '"X"', '""', "A$", "B$", "N$"])
        k = r.randrange(12)
        if k < 2:
            return f"{self.str(d - 1)}+{self.str(d - 1)}"
        if k == 2:
            return f"{r.choice(['LEFT$', 'RIGHT$'])}({self.str(d - 1)},{r.choice(['1', '2', 'J', 'LEN(A$)'])})"
        if k == 3:
            return f"MID$({self.str(d - 1)},{r.choice(['1', '2', 'J'])},{r.choice(['1', '3', 'I'])})"
        if k == 4:
            return f"{r.choice(['CHR$', 'STR$', 'HEX$'])}({r.choice(['65', 'I', 'C+60', '255'])})"
        if k == 5:
            return f"STRING$({r.choice(['2', 'J', '3'])},{self.str(d - 1)})"
        if k == 6:
            return "INKEY$"
        return r.choice(['"AB"', '"X"', "A$", "B$", "N$"])


def contexts(r, kind, e):
    """(source statement, context tag) for one expression"""
    if kind == "num":
        return [(f"10 ZZ={e}", "assign"), (f"10 PRINT {e}", "print"), (f"10 FOR ZZ={e} TO 5", "for"),
                (f"10 ZZ=QQ({e})", "index"), (f"10 ON {e} GOTO 10", "on"), (f"10 IF {e} THEN 10", "if")]
    if kind == "str":
        return [(f"10 ZZ$={e}", "assign"), (f"10 PRINT {e}", "print"), (f"10 IF {e}=\"AB\" THEN 10", "ifstr")]
    return [(f"10 IF {e} THEN 10", "if")]


def cases(tier):
    r = rng("expr-suite")
    quick = tier != "thorough"
    out = []

    def add(kind, e, origin):
        for src, ctx in contexts(r, kind, e) if origin != "exhaustive" else [(f"10 ZZ={e}", "assign")]:
            out.append({"fmt": "expr", "kind": f"{kind}/{ctx}/{origin}", "ctx": ctx, "ekind": kind, "expr": e, "text": src,
                        "opts": OPTS, "req": "expr " + hexs(src.encode())})
    seen = set()
    for d in range(0, 3 if quick else 4):
        for e in small_trees(d):
            if e not in seen:
                seen.add(e)
                add("num", e, "exhaustive")
        if quick and d == 2:
            break
    # a sign on every operand position of every chain of two and three binary operators (the shapes the exhaustive
    # enumeration reaches only in the thorough tier): what the sign covers must not depend on what follows later
    for ops_ in ([(a, b) for a in BINOPS for b in BINOPS] + [(a, b, c) for a in BINOPS for b in BINOPS for c in BINOPS]):
        leaves = ["A", "B", "C", "2"][:len(ops_) + 1] if len(ops_) == 3 else ["B", "C", "2"]
        for pos in range(len(leaves)):
            ls = list(leaves)
            ls[pos] = "-" + ls[pos]
            e = ls[0] + "".join(o + l for o, l in zip(ops_, ls[1:]))
            if e not in seen:
                seen.add(e)
                add("num", e, "exhaustive")
    for a in BINOPS:
        for b in BINOPS:
            for e in (f"-(B{a}C){b}2", f"B{a}-(C{b}2)", f"-B{a}(C{b}2)", f"-B{a}ABS(C{b}2)", f"-B{a}C{b}ABS(A^2)", f"-B{a}SQR(C^2{b}A)"):
                if e not in seen:
                    seen.add(e)
                    add("num", e, "exhaustive")
    # logical and relational operators, literal spellings, hex
    for e in ["A AND B", "A OR B", "NOT A", "A AND B OR C", "A OR B AND C", "NOT A AND B", "NOT A OR B", "A AND NOT B",
              "(A OR B) AND C", "A+B AND C*2", "-A AND B", "A=B", "A<>B", "(A=B)+1", "A<B AND B<C", "1E2", "1.5E+1", "2.5E-1",
              ".5", "5.", "&HFF", "&H7FFF", "&H8000", "&HFFFF", "-1", "+2", "-A^2", "-2^2", "A^-B", "A-B-C", "A/B/C", "A^B^C",
              "A-(B-C)", "-(A+B)", "-A+B", "-A*B", "2*-A", "A--B", "- A", "1 0", "1E 1",
              # a parenthesised group that starts with a sign or NOT, in every operand position
              "(-A+B)*2", "2*(-A+B)", "(-A)*B", "(-A-B)/2", "A-(-B+C)", "A/(-B-C)", "(+A-B)*3", "(-A+B)^2", "2^(-A+B)",
              "(-A*B)+C", "(NOT A)+1", "2*(NOT A)", "(NOT A AND B)+1", "(-A)^2", "(-A+B)*(-C+X)", "((-A+B))*2", "(-(A+B))*2",
              "ABS((-A+B)*2)", "(-A+B)*2 AND 7"]:
        add("num", e, "probe")
    for e in ["A=B", "A<>B AND B<C", "A=B OR B=C AND C=X", "NOT A=B", "NOT A=B AND C=X", "NOT (A=B) AND C=X", "(A=B OR B=C) AND NOT (C=X)",
              "A$=B$", "A$<\"B\" OR N$=\"\"", "A$+B$=\"HELLOLL\"", "A", "A+B", "A AND B", "LEN(A$)>2 AND ASC(B$)=76", "INT(A/2)=1",
              "A=>B", "A=<B", "INSTR(1,B$,\"AB\")>1"]:
        add("cond", e, "probe")
    # names of two characters, numeric and string, in every context (a name cut in two reads two other variables)
    for e in ["NA$", "TI$", "NA$+AB$", "AB$+\"X\"", "LEFT$(NA$,2)", "NA$+STR$(NA)"]:
        add("str", e, "probe")
    for e in ["NA", "AB+NA", "NA*2-AB", "LEN(NA$)+NA", "ASC(TI$)", "VAL(AB$)+AB"]:
        add("num", e, "probe")
    for e in ["NA$=\"BOB\"", "NA$<>AB$", "NA>AB OR TI$=\"T2\""]:
        add("cond", e, "probe")
    # the same literal spelled in a DATA statement with an empty item (whose numbers the tool turns into strings): the
    # operand stays a number
    tail = "\n20 DATA 1,,2,3,4,5,7,8,10,16,0,.5,1E2\n30 READ P,Q,R"
    for e in ["A+1", "C*3", "2*3", "A^2", "-B+C^2", "A AND 3", "3", "-2", "A/2-1", "INT(A/2)", "ABS(-3)", "1E2+A", ".5*4",
              "QQ(1)+2", "A-10", "16/8"]:
        out.append({"fmt": "expr", "kind": "num/assign/data-alias", "ctx": "assign", "ekind": "num", "expr": e, "text": f"10 ZZ={e}" + tail,
                    "opts": OPTS, "req": "expr " + hexs((f"10 ZZ={e}" + tail).encode())})
    for e in ["A=1", "A<>2 AND B<3", "A+1=2", "NOT A=3"]:
        out.append({"fmt": "expr", "kind": "cond/if/data-alias", "ctx": "if", "ekind": "cond", "expr": e, "text": f"10 IF {e} THEN 10" + tail,
                    "opts": OPTS, "req": "expr " + hexs((f"10 IF {e} THEN 10" + tail).encode())})
    n = 150 if quick else 1500
    for _ in range(n):
        g = EGen(r, max_depth=r.choice([1, 2, 2, 3]), spaces=r.randrange(4) == 0)
        k = r.randrange(10)
        if k < 6:
            add("num", g.num(), "random")
        elif k < 8:
            add("str", g.str(), "random")
        else:
            add("cond", g.cond(), "random")
    return out


def _work(item):
    import impl_b09
    text, o = item
    sx = impl_b09.sexp(text)
    impl = impl_b09.convert(text, o)
    return (impl_b09.convast_request(sx, o) if sx is not None else None), impl


def run(tier):
    import impl_b09
    cs = cases(tier)
    with mp.Pool(16) as pool:
        res = pool.map(_work, [(c["text"], c["opts"]) for c in cs], chunksize=16)
    reqs, idx = ["setlib " + hexs(impl_b09.lib_text().encode())], []
    for k, (req, _) in enumerate(res):
        if req is not None:
            idx.append(k)
            reqs.append(req)
    outs = run_driver(reqs)[1:]
    impl = [i for _, i in res]
    model = list(impl)
    for k, o in zip(idx, outs):
        model[k] = o
    dis = [{"req": cs[k]["text"], "kind": cs[k]["kind"], "model": model[k][:160], "impl": impl[k][:160]}
           for k in range(len(cs)) if model[k] != impl[k]]
    return {"cases": cs, "model": model, "impl": impl, "disagreements": dis}


# ----------------------------------------------------------------------------- the oracle

def run_group(line, env):
    """execute the statement group of one emitted line up to (not including) its last statement:
    the hoisted RUN wrappers assign their result variable; returns the last statement's tokens"""
    _, rest = T.line_label(line)
    sts = T.split_statements(T.code_tokens(rest))
    for st in sts[:-1]:
        node = BP.parse_statement(st)
        if node[0] != "run":
            raise S.EvalError(f"unexpected statement in group: {node[0]}")
        name, args = node[1], node[2]
        func = {"ecb_int": "INT", "ecb_val": "VAL", "ecb_str": "STR$", "ecb_hex": "HEX$", "ecb_instr": "INSTR",
                "ecb_string": "STRING$", "inkey": "INKEY$", "ecb_button": "BUTTON", "ecb_joystk": "JOYSTK",
                "ecb_point": "POINT", "ecb_at": None}.get(name)
        if func is None:
            continue
        target = args[-1]
        vals = [S.b09_eval(a, env, SCRIPT) for a in args[:-1]]
        if target[0] != "id":
            raise S.EvalError("result is not a variable")
        env[target[1]] = S.fn(func, vals, SCRIPT)
    return sts[-1]


def b09_value(case, out, env0):
    env = {k: v for k, v in env0.items()}
    lines = [l for l in out.split("\n") if l.strip()]
    line = next(l for l in lines if l.startswith("10 "))
    last = run_group(line, env)
    node = BP.parse_statement(last)
    ctx = case["ctx"]
    if ctx == "assign":
        if node[0] == "run":          # top-level convertible function: RUN f(args, ZZ)
            name, args = node[1], node[2]
            func = {"ecb_int": "INT", "ecb_val": "VAL", "ecb_str": "STR$", "ecb_hex": "HEX$", "ecb_instr": "INSTR",
                    "ecb_string": "STRING$", "inkey": "INKEY$", "ecb_button": "BUTTON", "ecb_joystk": "JOYSTK",
                    "ecb_point": "POINT"}[name]
            return S.fn(func, [S.b09_eval(a, env, SCRIPT) for a in args[:-1]], SCRIPT)
        return S.b09_eval(node[2], env, SCRIPT)
    if ctx == "print":
        if node[0] != "print" or len(node[1]) != 1:
            raise S.EvalError("PRINT with other than one item")
        v = S.b09_eval(node[1][0], env, SCRIPT)
        return v
    if ctx == "for":
        return S.b09_eval(node[2], env, SCRIPT)
    if ctx == "index":
        return S.b09_eval(node[2][2][0], env, SCRIPT)
    if ctx == "on":
        return S.b09_eval(node[2], env, SCRIPT)
    if ctx in ("if", "ifstr"):
        v = S.b09_eval(node[1], env, SCRIPT)
        if not isinstance(v, bool):
            raise S.EvalError("BASIC09: IF needs a BOOLEAN")
        return v
    raise S.EvalError(ctx)


def decb_value(case, env):
    e = case["expr"]
    if case["ctx"] == "ifstr":
        e = e + '="AB"'
    tree = S.decb_parse(e)
    v = S.decb_eval(tree, dict(env), SCRIPT)
    if case["ctx"] in ("if", "ifstr"):
        return S.num(v) != 0
    return v


def same(a, b):
    if isinstance(a, bool) or isinstance(b, bool):
        return a is b if isinstance(a, bool) and isinstance(b, bool) else False
    if isinstance(a, str) or isinstance(b, str):
        return a == b
    return a == b or (abs(a - b) <= 1e-9 * max(1.0, abs(a), abs(b)))


def oracle(case, impl):
    if not impl.startswith("ok "):
        return None
    out = unhex(impl[3:]).decode()
    for n, env in enumerate(ENVS):
        try:
            want = decb_value(case, env)
        except S.EvalError:
            note("expr: environment skipped, Color BASIC raises an error")
            continue              # Color BASIC raises an error for these values: nothing to compare
        except Exception:  # noqa: BLE001
            note("expr: case skipped, reference reader does not cover the spelling")
            return None           # the reference reader does not cover this spelling
        note("expr: environment compared")
        try:
            got = b09_value(case, out, env)
        except (S.EvalError, BP.ParseFail, StopIteration, KeyError, IndexError) as e:
            return f"{case['text']!r}: Color BASIC gives {want!r} (environment {n}) but the emitted text cannot be evaluated under BASIC09 rules: {e} | {out.strip()[:120]}"
        if case["ctx"] == "print" and case["ekind"] == "num" and isinstance(got, str) and not isinstance(want, str):
            want = S.fn("STR$", [want], SCRIPT)      # the item went through the number formatter
        if not same(want, got):
            return f"{case['text']!r}: Color BASIC gives {want!r}, the emitted text gives {got!r} under BASIC09 rules (environment {n}) | {out.strip()[:120]}"
    return None


REL = ("=", "<>", "<", ">", "<=", ">=", "=<", "=>")


def sign_scopes(e):
    """for every unary sign in the source expression, what the tool's grammar (a sign takes a whole
    `exp`) puts under it and Color BASIC (a sign takes a term) does not: returns the set of
    {'power', 'logical', 'comparison'} found after a unary sign at its own parenthesis depth"""
    try:
        toks = S.dtokens(e)
    except S.EvalError:
        return set()
    found = set()
    for i, (k, t) in enumerate(toks):
        if not (k == "op" and t in "+-"):
            continue
        prev = toks[i - 1] if i else (None, None)
        unary = i == 0 or (prev[0] == "op" and prev[1] != ")") or (prev[0] == "kw" and prev[1] in ("AND", "OR", "NOT"))
        if not unary:
            continue
        j = i + 1                      # the sign's own operand: further signs, then one primary
        while j < len(toks) and toks[j][0] == "op" and toks[j][1] in "+-":
            j += 1
        if j < len(toks) and toks[j][0] in ("id", "kw", "num", "hex", "str"):
            j += 1
        if j < len(toks) and toks[j] == ("op", "("):
            d = 0
            while j < len(toks):
                d += toks[j] == ("op", "(")
                d -= toks[j] == ("op", ")")
                j += 1
                if d == 0:
                    break
        if j < len(toks) and toks[j] == ("op", "^"):
            found.add("power")
        depth = 0
        for k2, t2 in toks[i + 1:]:
            if (k2, t2) == ("op", "("):
                depth += 1
            elif (k2, t2) == ("op", ")"):
                depth -= 1
                if depth < 0:
                    break
            elif depth == 0:
                if (k2, t2) == ("op", ","):
                    break
                if k2 == "kw" and t2 in ("AND", "OR"):
                    found.add("logical")
                elif k2 == "op" and t2 in REL:
                    found.add("comparison")
    return found


def rel_as_number(t, cond):
    """does the Color BASIC tree use a comparison's value as a number: a relational node anywhere
    but in condition position (the root of an IF condition, or below AND/OR/NOT in such a position)"""
    if t[0] == "bin":
        if t[1] in REL:
            return (not cond) or rel_as_number(t[2], False) or rel_as_number(t[3], False)
        keep = cond and t[1] in ("AND", "OR")
        return rel_as_number(t[2], keep) or rel_as_number(t[3], keep)
    if t[0] == "un":
        return rel_as_number(t[2], cond and t[1] == "NOT")
    if t[0] in ("call", "arr"):
        return any(rel_as_number(a, False) for a in t[2])
    return False


def classify(case, impl, why):
    e = case["expr"]
    blank = re.sub(r'"[^"]*"', '""', e)
    try:
        if rel_as_number(S.decb_parse(e), case["ctx"] in ("if", "ifstr")):
            return "comparison-outside-if"
    except S.EvalError:
        pass
    if re.search(r"\bNOT\b", blank) and (re.search(r"\b(AND|OR)\b", blank) or case["ctx"] == "if"):
        return "not-scope"
    sc = sign_scopes(blank)
    if "power" in sc:
        return "sign-before-power"
    if "logical" in sc:
        return "sign-scope-over-logical"
    if case["ctx"] == "if" and "comparison" in sc:
        return "sign-scope-over-comparison"
    if case["ctx"] == "if" and case["ekind"] == "num" and re.search(r"\b(AND|OR|NOT)\b", blank):
        return "numeric-logical-condition"
    if "inf" in why or "nan" in why:
        return "literal-overflows-to-inf"
    return None


if __name__ == "__main__":
    import sys
    from collections import Counter
    res = run(sys.argv[1] if len(sys.argv) > 1 else "quick")
    print(len(res["cases"]), "cases", len(res["disagreements"]), "disagreements")
    cnt, ex = Counter(), {}
    for c, i in zip(res["cases"], res["impl"]):
        w = oracle(c, i)
        if w:
            k = classify(c, i, w)
            cnt[k] += 1
            if k is None or cnt[k] <= 2:
                print(k, "|", w[:260])
    print(cnt, Counter(i.split(" ")[0] for i in res["impl"]))
