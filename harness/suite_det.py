"""Determinism suite (C12): the same cases are converted in several FRESH interpreters with
different PYTHONHASHSEEDs, each in its own shuffled order and with repetitions, so that hash
seeds, separate processes, repeated calls and preceding conversions are all varied.  All runs
must agree with each other and with the single model output."""
import hashlib
import json
import os
import subprocess

import gens_b09 as G
import gens_img as GI
from common import PY, REPO, hexs, rng, run_driver

HERE = os.path.dirname(os.path.abspath(__file__))


def cases(tier):
    r = rng("det-suite")
    quick = tier != "thorough"
    out = []
    fixed = [
        "10 A(1)=1:B(2)=2:C(1)=3:Z$(1)=\"X\":Q9(3)=4",
        "10 HCLS:SOUND 1,2:A$=STRING$(3,\"X\")",
        "10 PRINT \"HI\"",
        "10 A$=\"A\":B$=\"B\":C$=\"C\":D$=\"D\":E$=\"E\":ZZ$=\"Z\":M$(1)=\"Q\"",
        "10 HLINE(1,2)-(3,4),PSET:PLAY \"CDE\":A=POINT(1,2)",
        # statements whose omitted operand is filled in by the tool: an object shared between statements or calls
        # (a default-colour node, a default CLS colour, a prologue line) would carry state from one to the next
        "10 HCIRCLE(100,100),50,,INT(A)/2", "10 HCIRCLE(100,100),50", "10 HCIRCLE(10,10),5,,1,INT(A),BUTTON(0)",
        "10 HCIRCLE(1,2),3,,INT(B)\n20 HCIRCLE(1,2),3", "10 CLS INT(A)\n20 CLS", "10 CLS", "10 HSCREEN:HCLS:HCOLOR INT(A)",
        "10 HLINE-(INT(A),2),PSET\n20 HLINE-(3,4),PSET", "10 PRINT@INT(A),STR$(B)\n20 PRINT@1,\"X\"", "10 A=JOYSTK(0)\n20 B=JOYSTK(1)",
    ]
    # process-wide interpreter state (recursion limit, warnings filters, regex caches): programs with very long lines next to
    # programs nested so deeply that the tool refuses them or runs out of stack - each must answer the same in every history
    fixed += ["10 REM " + "R" * 3000, "10 A$=\"" + "S" * 2500 + "\"", "10 " + ":".join(["A=A+1"] * 400), "10 PRINT " + ";".join(["A"] * 500)]
    fixed += ["10 A=" + "(" * d + "1" + ")" * d for d in (20, 40, 55, 65, 70, 75, 80, 90, 120, 200)]
    fixed += ["10 A=" + "ABS(" * d + "1" + ")" * d for d in (30, 60, 100)] + ["10 A=" + "-" * 150 + "1", "10 A=1" + "+1" * 600]
    progs = fixed + [G.Gen(r, max_depth=2).program(r.choice([2, 4, 6])) for _ in range(30 if quick else 200)]
    for t in progs:
        # same procedure name and storage for all: a bank shared between conversions would show
        o = {"flags": r.choice(["1101110", "1101110", "1100010", "1101100"]), "storage": r.choice([32, 80]),
             "procname": r.choice(["program", "program", ""]), "sizes": []}
        out.append({"fmt": "b09", "kind": "det", "text": t, "opts": o,
                    "req": "det-b09 " + o["flags"] + f" {o['storage']} " + hexs(o["procname"].encode()) + " " + hexs(t.encode())})
    # one size map shared by programs that DIM the same string names under different default sizes: half of the
    # worker processes pass ONE options object to every call (a tool that writes into its caller's options shows)
    for sizes in ([["A1$", 10]], [["K$", 33], ["B$", 200]], [["A$()", 40]],
                  [["A$()", 40], ["T$()", 12], ["Q$()", 7], ["ZZ$()", 90]], [["T$()", 12], ["N$", 9], ["A$()", 12], ["K$", 9], ["B$", 70]]):
        for text in ("10 DIM N$, T$(4)\n20 N$=\"X\":T$(1)=\"Y\"", "10 DIM N$, T$(4), B$\n20 B$=N$+T$(2)",
                     "10 N$=\"A\":Q$(3)=N$", "10 DIM A$(3), K$\n20 A$(1)=K$",
                     "10 DIM A$(3), T$(4), Q$(2), ZZ$(1), N$, K$, B$\n20 A$(1)=\"X\":T$(1)=\"Y\":Q$(1)=\"Z\":ZZ$(0)=N$+K$+B$",
                     "10 DIM Q$(2), B$, T$(4)\n20 DIM ZZ$(1), K$, A$(3)\n30 T$(1)=Q$(1)+A$(1)+ZZ$(1)"):
            for storage in (80, 32, 255):
                o = {"flags": "1101110", "storage": storage, "procname": "program", "sizes": sizes}
                out.append({"fmt": "b09", "kind": "det", "text": text, "opts": o,
                            "req": "det-b09 " + o["flags"] + f" {storage} " + hexs(b"program") + " "
                                   + hexs(json.dumps(sizes).encode()) + " " + hexs(text.encode())})
    # every decoder, several images each: decoded twice per process in shuffled order, so state that
    # survives a call (a module-level buffer, a cached table) shows as a different output
    for fmt in sorted(GI.BUILDERS):
        for _ in range(3 if fmt in ("hrs", "max", "pix") else 4):
            c = GI.BUILDERS[fmt](r)
            out.append({"fmt": fmt, "kind": "det", "req": c["req"]})
    for mode in (1, 2, 1):     # CM3 whose first line is coded against the initial line buffer
        c = GI.build_cm3(r, mode=mode, first_row_zero=True)
        out.append({"fmt": "cm3", "kind": "det", "req": c["req"]})
    return out


def run(tier):
    import impl_b09
    cs = cases(tier)
    seeds = [0, 1, 2, 3, 7, 11, 12345, 99] if tier != "thorough" else list(range(32))
    r = rng("det-orders")
    procs = []
    for s in seeds:
        order = list(range(len(cs))) * 2
        r.shuffle(order)
        job = json.dumps({"cases": [{k: v for k, v in c.items() if k in ("fmt", "text", "opts", "req")} for c in cs],
                          "order": order, "share_configs": len(procs) % 2 == 1})
        env = dict(os.environ, PYTHONHASHSEED=str(s), PYTHONPATH=REPO)
        procs.append(subprocess.Popen([PY, os.path.join(HERE, "det_worker.py")], stdin=subprocess.PIPE,
                                      stdout=subprocess.PIPE, stderr=subprocess.DEVNULL, env=env, text=True))
        procs[-1].stdin.write(job)
        procs[-1].stdin.close()
    results = []
    for p in procs:
        results.append(json.loads(p.stdout.read() or "{}"))
        p.wait()
    # the model: one output per case
    reqs, idx = ["setlib " + hexs(impl_b09.lib_text().encode())], []
    for k, c in enumerate(cs):
        if c["fmt"] == "b09":
            sx = impl_b09.sexp(c["text"])
            if sx is not None:
                reqs.append(impl_b09.convast_request(sx, c["opts"]))
                idx.append(k)
        else:
            reqs.append(c["req"])
            idx.append(k)
    outs = run_driver(reqs)[1:]
    mdig = {k: hashlib.sha256(o.encode()).hexdigest()[:16] for k, o in zip(idx, outs)}
    impl, model = [], []
    for k, c in enumerate(cs):
        digs = set()
        for res in results:
            digs.update(res.get(str(k), ["missing"]))
        if len(digs) == 1:
            impl.append("same " + next(iter(digs)))
        else:
            impl.append(f"nondeterministic {len(digs)} different outputs over {len(seeds)} processes x 2 calls")
        model.append("same " + mdig[k] if k in mdig else impl[-1])
    dis = [{"req": cs[k]["req"][:200], "kind": "det", "model": model[k], "impl": impl[k]}
           for k in range(len(cs)) if model[k] != impl[k]]
    return {"cases": cs, "model": model, "impl": impl, "disagreements": dis, "seeds": seeds}


def oracle(case, impl):
    return impl if impl.startswith("nondeterministic") else None


if __name__ == "__main__":
    import sys
    res = run(sys.argv[1] if len(sys.argv) > 1 else "quick")
    print(len(res["cases"]), "cases", len(res["disagreements"]), "disagreements",
          sum(1 for i in res["impl"] if i.startswith("nondet")), "nondeterministic")
    for d in res["disagreements"][:5]:
        print(d)
