"""Run the real image decoders of /repo in-process on a byte string.

Every function returns the canonical answer string that the Lean driver prints for
the same request: `ok <hex>` / `fail <ExceptionClassName>` (MAX's `return False`
is `fail False`).  Nothing but the exception class is compared for failures.
"""
import contextlib
import io
import os
import tempfile

from common import hexs

import coco.cm3toppm
import coco.hrstoppm
import coco.maxtoppm
import coco.mgetoppm
import coco.pixtopgm
import coco.rattoppm
import coco.veftopng


def _run(fn):
    err = io.StringIO()
    try:
        with contextlib.redirect_stderr(err), contextlib.redirect_stdout(io.StringIO()):
            return fn()
    except SystemExit:
        return "fail SystemExit"
    except RecursionError:
        return "fail RecursionError"
    except Exception as e:  # noqa: BLE001 - the class name is the observation
        return f"fail {type(e).__name__}"


def hrs(data: bytes, w: int, h: int, skip: int) -> str:
    def go():
        out = io.BytesIO()
        coco.hrstoppm.convert(io.BytesIO(data), out, w, h, skip if skip else None)
        return "ok " + hexs(out.getvalue())

    return _run(go)


def pix(data: bytes) -> str:
    def go():
        with tempfile.NamedTemporaryFile(suffix=".pix") as f:
            f.write(data)
            f.flush()
            out = io.BytesIO()
            with open(f.name, "rb") as fin:
                coco.pixtopgm.convert(fin, out)
            return "ok " + hexs(out.getvalue())

    return _run(go)


def max_(data: bytes, arte: int, newsroom: bool, cols: int, rows, skip: int, ignore: bool) -> str:
    def go():
        out = io.BytesIO()
        ok = coco.maxtoppm.convert(
            io.BytesIO(data), out, arte, newsroom, cols, rows, skip if skip else None, ignore
        )
        if not ok:
            return "fail False"
        return "ok " + hexs(out.getvalue())

    return _run(go)


def _simple(mod):
    def f(data: bytes) -> str:
        def go():
            out = io.BytesIO()
            mod.convert(io.BytesIO(data), out)
            return "ok " + hexs(out.getvalue())

        return _run(go)

    return f


mge = _simple(coco.mgetoppm)
rat = _simple(coco.rattoppm)
cm3 = _simple(coco.cm3toppm)


class _Captured(Exception):
    pass


def vef(data: bytes) -> str:
    """Model boundary: the palette-index bitmap handed to png.Writer.write_array."""
    cap = {}

    class Rec:
        def __init__(self, width, height, palette=None, bitdepth=None, **kw):
            cap["w"], cap["h"] = width, height
            cap["palette"] = list(palette) if palette is not None else None

        def write_array(self, file, bitmap):
            cap["bitmap"] = bytes(bitmap) if all(0 <= b < 256 for b in bitmap) else None
            raise _Captured()

    def go():
        with tempfile.TemporaryDirectory() as d:
            src = os.path.join(d, "in.vef")
            with open(src, "wb") as f:
                f.write(data)
            real = coco.veftopng.png.Writer
            coco.veftopng.png.Writer = Rec
            try:
                coco.veftopng.start([src, os.path.join(d, "out.png")])
            except _Captured:
                return f"ok {cap['w']} {cap['h']} {hexs(cap['bitmap'])}"
            finally:
                coco.veftopng.png.Writer = real
        return "fail NoWrite"

    return _run(go)


def vef_palette():
    """The palette the decoder hands to pypng (captured, not read from the source)."""
    cap = {}

    class Rec:
        def __init__(self, width, height, palette=None, bitdepth=None, **kw):
            cap["palette"] = [tuple(p) for p in palette]

        def write_array(self, file, bitmap):
            raise _Captured()

    with tempfile.TemporaryDirectory() as d:
        src = os.path.join(d, "in.vef")
        with open(src, "wb") as f:
            f.write(bytes([0, 0] + [0] * 16 + [0] * 16000))
        real = coco.veftopng.png.Writer
        coco.veftopng.png.Writer = Rec
        try:
            with contextlib.redirect_stdout(io.StringIO()):
                coco.veftopng.start([src, os.path.join(d, "out.png")])
        except _Captured:
            pass
        finally:
            coco.veftopng.png.Writer = real
    return cap["palette"]


def run_request(req: str) -> str:
    """Execute one driver-protocol `img …` request against the real code."""
    from common import unhex

    parts = req.split(" ")
    assert parts[0] == "img"
    fmt = parts[1]
    if fmt == "hrs":
        return hrs(unhex(parts[5]), int(parts[2]), int(parts[3]), int(parts[4]))
    if fmt == "pix":
        return pix(unhex(parts[2]))
    if fmt == "max":
        rows = None if parts[5] == "-" else int(parts[5])
        return max_(unhex(parts[8]), int(parts[2]), parts[3] != "0", int(parts[4]), rows,
                    int(parts[6]), parts[7] != "0")
    if fmt == "mge":
        return mge(unhex(parts[2]))
    if fmt == "rat":
        return rat(unhex(parts[2]))
    if fmt == "cm3":
        return cm3(unhex(parts[2]))
    if fmt == "vef":
        return vef(unhex(parts[2]))
    raise ValueError(req)
