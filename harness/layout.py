"""Layout variants of a Color BASIC program (C08): an independent, deliberately simple lexer that
splits each line into tokens whose *content* must not change (strings, REM and DATA tails, words,
numbers, operators) and re-renders the line with other blanks between them.

A boundary between two word-like tokens (letters, digits, `$`) keeps at least one blank when the
base spelling has one and is left alone when it has none; every other boundary may take 0, 1 or 2
blanks.  Nothing inside a string literal, a REM / ' comment or a DATA item list is touched."""
import re

TOK = re.compile(r"""
    (?P<str>"[^"\r\n]*"?)
  | (?P<hex>&H[0-9A-F]+)
  | (?P<num>(?:\d+\.?\d*|\.\d+)(?:E[+-]?\d+)?)
  | (?P<word>[A-Z][A-Z0-9]*\$?)
  | (?P<op><>|<=|>=|=<|=>|[^\sA-Z0-9"])
""", re.X)


def lex_line(line):
    """-> (tokens [(text, kind)], gaps [blanks before token k] + [trailing blanks]) or None when the
    line has something this lexer does not know (lower case, tabs, ...)"""
    toks, gaps = [], []
    i, n = 0, len(line)
    first = True
    while True:
        j = i
        while j < n and line[j] == " ":
            j += 1
        gap = j - i
        if j >= n:
            gaps.append(gap)
            return toks, gaps
        if first:
            first = False
            m = re.match(r"\d+", line[j:])
            if m:
                toks.append((m.group(0), "linenum"))
                gaps.append(gap)
                i = j + m.end()
                continue
        m = TOK.match(line, j)
        if not m:
            return None
        kind, text = m.lastgroup, m.group(0)
        if kind == "word" and (text.startswith("REM") or text.startswith("DATA")):
            text = "REM" if text.startswith("REM") else "DATA"      # REMARK / DATA1,2: the keyword ends here
            toks.append((text, kind))
            gaps.append(gap)
            i = j + len(text)
        else:
            toks.append((text, kind))
            gaps.append(gap)
            i = m.end()
        if kind == "word" and text == "REM" or (kind == "op" and text == "'"):
            toks[-1] = (text, "rem")
            toks.append((line[i:], "tail"))          # the comment text, blanks and all
            gaps.append(0)
            gaps.append(0)
            return toks, gaps
        if kind == "word" and text == "DATA":
            toks[-1] = (text, "data")
            k, inq = i, False
            while k < n and (inq or line[k] != ":"):
                if line[k] == '"':
                    inq = not inq
                k += 1
            toks.append((line[i:k], "tail"))         # the item list up to the next colon
            gaps.append(0)
            i = k


def wordish(tok):
    return tok[1] in ("word", "num", "hex", "linenum", "rem", "data")


def choices(toks, gaps, k):
    """the blank counts boundary k (before token k; k == len(toks) is the line end) may take"""
    n = len(toks)
    if k == 0:
        return [gaps[0]]                              # in front of the line number: own variant kind
    if k < n and toks[k][1] == "tail" or toks[k - 1][1] in ("rem", "data", "tail"):
        return [gaps[k]]
    if k == n:
        last = toks[-1]
        open_string = last[1] == "str" and (len(last[0]) < 2 or not last[0].endswith('"'))
        return [gaps[k]] if last[1] == "tail" or open_string else [0, 1, 2]
    if wordish(toks[k - 1]) and wordish(toks[k]):
        # a number directly in front of a keyword needs no blank in Color BASIC (FOR I=1TO 10, X=2ELSE …); a hex literal
        # only when the keyword cannot continue it
        a, b = toks[k - 1], toks[k]
        if b[1] == "word" and (a[1] == "num" or (a[1] == "hex" and b[0][:1] not in "ABCDEF")):
            return [0, 1, 2]
        return [1, 2] if gaps[k] >= 1 else [gaps[k]]
    return [0, 1, 2]


def render(toks, gaps):
    out = []
    for k, (t, _) in enumerate(toks):
        out.append(" " * gaps[k])
        out.append(t)
    out.append(" " * gaps[len(toks)])
    return "".join(out)


def lex_program(text):
    """list of (toks, gaps) per non-empty line, or None"""
    out = []
    for line in text.split("\n"):
        if line.strip() == "":
            continue
        r = lex_line(line)
        if r is None or render(*r) != line:
            return None
        out.append(r)
    return out


def render_program(lines, eol="\n", final=True):
    return eol.join(render(t, g) for t, g in lines) + (eol if final else "")


def canonical(lines):
    """the base spelling: the generated text itself, line by line"""
    return render_program(lines)


def boundaries(lines):
    """[(line index, boundary index, allowed counts)] of every boundary with a real choice"""
    out = []
    for li, (toks, gaps) in enumerate(lines):
        for k in range(1, len(toks) + 1):
            ch = choices(toks, gaps, k)
            if len(ch) > 1:
                out.append((li, k, ch))
    return out


def with_gap(lines, li, k, v):
    new = [(t, list(g)) for t, g in lines]
    new[li][1][k] = v
    return new


def number_blanks(lines, r, between_digits):
    """one numeric literal spelled with a blank inside (Color BASIC skips blanks in numbers), or
    None.  between_digits=False: only next to `E`, the exponent sign, `&` or `H` (the places the
    tool's literal rules name); True: between two digits / a digit and the point"""
    spots = []
    for li, (toks, _) in enumerate(lines):
        for k, (t, kind) in enumerate(toks):
            if kind not in ("num", "hex"):
                continue
            for c in range(1, len(t)):
                marker = t[c - 1] in "E+-&H" and not (kind == "hex" and c > 2) or t[c] in "E+-" and kind == "num"
                if kind == "hex" and c <= 2:
                    marker = True
                if marker != between_digits:
                    spots.append((li, k, c))
    if not spots:
        return None
    li, k, c = r.choice(spots)
    new = [(list(t), list(g)) for t, g in lines]
    t, kind = new[li][0][k]
    spelled = t[:c] + " " * r.choice([1, 1, 2]) + t[c:]
    new[li][0][k] = (spelled, kind)
    return new, t, spelled


def qmark(lines):
    """every PRINT keyword written as `?`, or None when there is none"""
    hit = False
    new = []
    for toks, gaps in lines:
        toks2, gaps2 = list(toks), list(gaps)
        for k, (t, kind) in enumerate(toks2):
            if kind == "word" and t == "PRINT":
                toks2[k] = ("?", "op")
                hit = True
        new.append((toks2, gaps2))
    return new if hit else None


DATA_NUM = re.compile(r"[+-]?(?:\d+\.?\d*|\.\d+)(?:E[+-]?\d+)?$|&H[0-9A-F]+$")


def data_blanks(lines, r):
    """blanks around one item of a DATA list where they are not content: before and after a numeric
    or quoted item, before (only) an unquoted string item.  Returns (lines, description) or None"""
    spots = [(li, k) for li, (toks, _) in enumerate(lines) for k, (t, kind) in enumerate(toks)
             if kind == "tail" and k > 0 and toks[k - 1][1] == "data"]
    if not spots:
        return None
    li, k = r.choice(spots)
    tail = lines[li][0][k][0]
    items, cur, inq = [], [], False
    for ch in tail:
        if ch == '"':
            inq = not inq
        if ch == "," and not inq:
            items.append("".join(cur))
            cur = []
        else:
            cur.append(ch)
    items.append("".join(cur))
    n = r.randrange(len(items))
    core = items[n].strip(" ")
    lead = len(items[n]) - len(items[n].lstrip(" "))
    trail = len(items[n]) - len(items[n].rstrip(" "))
    quoted = len(core) >= 2 and core[0] == '"' and core[-1] == '"'
    if core == "":
        return None
    if DATA_NUM.match(core) or quoted:
        new_item = " " * r.choice([0, 1, 2]) + core + " " * r.choice([0, 1, 2])
    else:
        new_item = " " * r.choice([0, 1, 2]) + items[n].lstrip(" ")
    if new_item == items[n]:
        new_item = " " + new_item
    items2 = items[:n] + [new_item] + items[n + 1:]
    new = [(list(t), list(g)) for t, g in lines]
    new[li][0][k] = (",".join(items2), "tail")
    return new, f"DATA item {items[n]!r} spelled {new_item!r}"
