"""Correspondence + oracle suite for variable naming (C09): every name up to two characters and
a sample of longer ones, in every syntactic position a variable can occupy.  The real `convert`
translates a one-line template; the identifier it emitted is read back from the output and
compared with `Model.Names.xl` (driver) and, by the oracle, with Color BASIC's identity rule."""
import itertools
import re

from common import hexs, rng, run_driver

LETTERS = "ABCDEFGHIJKLMNOPQRSTUVWXYZ"
DIGITS = "0123456789"

# (kind, template, regex that extracts the emitted identifier)
TEMPLATES = [
    ("scalar", "10 {v}=1", r"^10 (\S+) := 1\.0$"),
    ("scalar", "10 ZZ={v}+1", r"^10 ZZ := (\S+) \+ 1\.0$"),
    ("scalar", "10 FOR {v}=1 TO 2", r"^10 FOR (\S+) = 1\.0 TO 2\.0$"),
    ("scalar", "10 FOR ZZ=1 TO 2:NEXT {v}", r"NEXT (\S+)$"),
    ("scalar", "10 READ {v}", r"^10 READ (\S+)$"),
    ("scalar", "10 INPUT {v}", r'INPUT "\? ", (\S+) \\'),
    ("scalar", "10 DIM {v}", r"^10 DIM (\S+)$"),
    ("scalar", "10 ZZ=VARPTR({v})", r"ADDR\((\S+)\)$"),
    ("scalar", "10 ZZ=QQ({v})", r"^10 ZZ := arr_QQ\((\S+)\)$"),
    ("scalar", "10 QQ({v})=1", r"^10 arr_QQ\((\S+)\) := 1\.0$"),
    ("str", "10 {v}$=\"X\"", r'^10 (\S+) := "X"$'),
    ("str", "10 ZZ$={v}$+\"X\"", r'^10 ZZ\$ := (\S+) \+ "X"$'),
    ("str", "10 READ {v}$", r"^10 READ (\S+)$"),
    ("str", "10 LINE INPUT {v}$", r'INPUT "", (\S+) \\'),
    ("str", "10 DIM {v}$", r"^10 DIM (\S+)$"),
    ("str", "10 ZZ=VARPTR({v}$)", r"ADDR\((\S+)\)$"),
    ("str", "10 PRINT {v}$", r'^10 PRINT (\S+)$'),
    ("str", "10 PRINT \"A\";{v}$", r'^10 PRINT "A"; (\S+)$'),
    ("str", "10 ?{v}$;\"B\"", r'^10 PRINT (\S+); "B"$'),
    ("str", "10 PRINT@1,{v}$", r'PRINT (\S+)$'),
    ("str", "10 IF {v}$=\"X\" THEN 10", r'^10 IF (\S+) = "X" THEN 10$'),
    ("str", "10 ZZ=LEN({v}$)", r'^10 ZZ := LEN\((\S+)\)$'),
    ("strarray", "10 PRINT {v}$(1)", r'^10 PRINT (\S+)\(1\.0\)$'),
    ("array", "10 {v}(1)=2", r"^10 (\S+)\(1\.0\) := 2\.0$"),
    ("array", "10 ZZ={v}(1,2)", r"^10 ZZ := (\S+)\(1\.0, 2\.0\)$"),
    ("array", "10 DIM {v}(3)", r"^10 DIM (\S+)\(4\)$"),
    ("array", "10 READ {v}(1)", r"^10 READ (\S+)\(1\.0\)$"),
    ("array", "10 ZZ=VARPTR({v}(1))", r"ADDR\((\S+)\(1\.0\)\)$"),
    ("strarray", "10 {v}$(1)=\"X\"", r'^10 (\S+)\(1\.0\) := "X"$'),
    ("strarray", "10 ZZ$={v}$(1)", r"^10 ZZ\$ := (\S+)\(1\.0\)$"),
    ("strarray", "10 DIM {v}$(3)", r"^10 DIM (\S+)\(4\)$"),
    ("strarray", "10 INPUT {v}$(1)", r'INPUT "\? ", (\S+)\(1\.0\) \\'),
]


# Color BASIC reserved words the tool knows (pinned here, not read from the tool): as a variable name each
# must be refused, or else treated like any other name in every position
RESERVED = ['ABS', 'AND', 'ASC', 'ATN', 'ATTR', 'BRK', 'BUTTON', 'CHR', 'CLEAR', 'CLS', 'CMP', 'COS', 'DATA', 'DIM', 'ELSE', 'END',
            'ERNO', 'ERR', 'EXP', 'FIX', 'FOR', 'GOSUB', 'GOTO', 'HBUFF', 'HCLS', 'HCOLOR', 'HEX', 'HLINE', 'HPAINT', 'HPRINT',
            'HPUT', 'HRESET', 'HSCREEN', 'HSET', 'IF', 'INKEY', 'INPUT', 'INSTR', 'INT', 'JOYSTK', 'LEFT', 'LEN', 'LET', 'LINE',
            'LOCATE', 'LOG', 'MID', 'NEXT', 'NOT', 'OPEN', 'OR', 'PALETTE', 'PEEK', 'PLAY', 'POINT', 'POKE', 'PRESET', 'PRINT',
            'PSET', 'READ', 'REM', 'RESET', 'RESTORE', 'RETURN', 'RGB', 'RIGHT', 'RND', 'SET', 'SGN', 'SIN', 'SOUND', 'SQR',
            'STEP', 'STOP', 'STR', 'STRING', 'TAB', 'TAN', 'THEN', 'TO', 'TROFF', 'TRON', 'VAL', 'VARPTR', 'WIDTH', 'ON', 'IN']


def names(tier):
    r = rng("names-suite")
    one = list(LETTERS)
    two = [a + b for a in LETTERS for b in LETTERS + DIGITS]
    longer = ["".join(r.choice(LETTERS + DIGITS) for _ in range(n - 1)) for n in (3, 4, 4, 6) for _ in range(40)]
    longer = [r.choice(LETTERS) + x for x in longer]
    if tier == "thorough":
        return one + two + longer + RESERVED
    return one + r.sample(two, 120) + ["A1", "A2", "A1B", "AA", "AAA", "AAB", "AB1", "Z9", "Z99", "X0"] + longer[:40] + RESERVED


DECLARED = {}
ARR_IDENTS = {}


def impl_ident(text, rx):
    from coco.b09.compiler import convert
    try:
        out = convert(text, add_standard_prefix=False, add_suffix=False)
    except Exception as e:  # noqa: BLE001
        return "rejected " + type(e).__name__
    DECLARED[text] = sorted(set(re.findall(r"(?m)^(?:\d+ )?DIM ([A-Za-z_][A-Za-z0-9_]*\$?)", out)))
    # every array identifier the output mentions anywhere, also in the loops written for --initialize-vars
    try:
        out_init = convert(text, add_standard_prefix=False, add_suffix=False, initialize_vars=True)
    except Exception as e:  # noqa: BLE001
        out_init = ""
    ARR_IDENTS[text] = sorted(set(re.findall(r"\barr_[A-Za-z0-9_]*\$?", out + "\n" + out_init)))
    for line in out.split("\n"):
        m = re.search(rx, line)
        if m:
            return "ok " + hexs(m.group(1).encode())
    return "noid " + hexs(out.encode())


# programs that make the tool write identifiers of its own (pid, the display / play records, the error number, temporaries,
# the joystick cells): with the prologue and --initialize-vars, the only identifiers the initialisation block may clear are
# the translations of the program's own variables A and B$ - a generated identifier is never handled as a user variable
GENERATED_PROGRAMS = [
    "10 HBUFF 1,100:A=1:B$=\"X\"", "10 HGET(0,0)-(9,9),1:A=1:B$=\"X\"", "10 HPUT(0,0)-(9,9),1,PSET:A=1:B$=\"X\"",
    "10 HBUFF 1,100:HGET(0,0)-(9,9),1:HPUT(0,0)-(9,9),1,PSET:A=1:B$=\"X\"", "10 ON ERR GOTO 20:A=1:B$=\"X\"\n20 A=ERNO",
    "10 ON BRK GOTO 20:A=1:B$=\"X\"\n20 END", "10 PLAY \"CDE\":SOUND 1,2:A=1:B$=\"X\"", "10 B$=INKEY$:A=JOYSTK(0)+BUTTON(1)",
    "10 HSCREEN 2:HCLS:HCOLOR 1,2:A=POINT(1,2):B$=STR$(A)", "10 A=INT(A/2):B$=HEX$(A)+STRING$(2,\"X\")",
    "10 HCIRCLE(1,2),3:HLINE-(3,4),PSET:HPRINT(1,2),B$:A=1", "10 INPUT A,B$:LINE INPUT B$", "10 DATA 1,,X\n20 READ A,A,B$",
    "10 WIDTH 40:LOCATE 1,2:ATTR 1,2:CLS A:PRINT B$", "10 POKE 65497,0:A=PEEK(1):B$=\"\"",
]


# a call hoisted out of a larger expression writes into a temporary; only a function that is the WHOLE right-hand side may write
# straight into the assignment target - otherwise the tool's temporary and the user's variable would be one identifier
# a scalar and an array of one name are two variables: with --initialize-vars the scalar is cleared whether or not an array of
# its name exists (DIMmed or implicit)
INIT_SET_PROGRAMS = [
    ("10 A(1)=1:A=2", ["A"]), ("10 DIM A(3):A=2:A(1)=A", ["A"]), ("10 DIM A$(5):A$=\"X\":A$(1)=A$", ["A$"]), ("10 A$(1)=\"Y\":A$=\"X\"", ["A$"]),
    ("10 DIM A(3),B$(2):A=1:B$=\"Q\":A(1)=A:B$(1)=B$", ["A", "B$"]), ("10 A=1:B$=\"X\"", ["A", "B$"]), ("10 DIM A(3):A(1)=1", []),
]


def init_set_impl(text):
    from coco.b09.compiler import convert
    try:
        out = convert(text, initialize_vars=True)
    except Exception as e:  # noqa: BLE001
        return "rejected " + type(e).__name__
    head = []
    for line in out.split("\n"):
        if re.match(r"^\d+ ", line):
            break
        head.append(line)
    got = re.findall(r'(?m)^([A-Za-z_][A-Za-z0-9_]*\$?) := (?:0\.0|"")$', "\n".join(head))
    return "ok " + hexs(",".join(sorted(set(got))).encode())


RESULT_CELL_PROGRAMS = [
    "10 S=INT(X)+S", "10 S=INT(X)+INT(S/2)", "10 S=INT(X)*(S-1)", "10 S=S+INT(X)", "10 S=INT(S)+1", "10 S=INT(X)", "10 S$=STR$(X)+S$",
    "10 S$=S$+STR$(X)", "10 S=VAL(A$)-S", "10 S=BUTTON(0)+S*2", "10 S$=HEX$(S)+S$", "10 P=INSTR(1,A$,B$)+P", "10 S=INT(X):S=INT(X)+S",
    "10 IF INT(X)+S>2 THEN S=INT(X)+S", "10 FOR S=INT(X)+S TO 5:NEXT", "10 S(1)=INT(X)+S(1)", "10 PRINT INT(X)+S",
]


def result_cell_impl(text):
    from coco.b09.compiler import convert
    import b09text as T
    try:
        out = convert(text, add_standard_prefix=False, add_suffix=False)
    except Exception as e:  # noqa: BLE001
        return "rejected " + type(e).__name__
    bad = []
    for line in out.split("\n"):
        stmts = T.split_statements(T.code_tokens(T.line_label(line)[1]))
        for k, st in enumerate(stmts):
            for callee, args, _ in T.run_calls(st):
                if args and k + 1 < len(stmts):
                    cell = "".join(t for _, t in args[-1])
                    if not cell.startswith("tmp_") and cell not in ("display", "play", "pid"):
                        bad.append(f"{callee}->{cell}")
    return "ok " + hexs(",".join(bad).encode())


def generated_case_impl(text):
    from coco.b09.compiler import convert
    res = []
    for kw in ({}, {"default_width32": False}, {"filter_unused_linenum": True}):
        try:
            out = convert(text, initialize_vars=True, **kw)
        except Exception as e:  # noqa: BLE001
            return "rejected " + type(e).__name__
        head = []
        for line in out.split("\n"):
            if re.match(r"^\d+ ", line):
                break
            head.append(line)
        res += re.findall(r'(?m)^([A-Za-z_][A-Za-z0-9_]*\$?) := (?:0\.0|"")$', "\n".join(head))
    return "ok " + hexs(",".join(sorted(set(res))).encode())


def cases(tier):
    r = rng("names-cases")
    ns = names(tier)
    out = []
    for t in GENERATED_PROGRAMS:
        out.append({"fmt": "names", "kind": "generated-ident", "name": "A", "text": t, "rx": "", "req": "ping"})
    for t in RESULT_CELL_PROGRAMS:
        out.append({"fmt": "names", "kind": "result-cell", "name": "S", "text": t, "rx": "", "req": "ping"})
    for t, want in INIT_SET_PROGRAMS:
        out.append({"fmt": "names", "kind": "init-set", "name": "A", "text": t, "rx": "", "req": "ping", "want": want})
    for n in ns:
        tpls = TEMPLATES if tier == "thorough" or n in RESERVED or len(n) <= 2 and r.randrange(4) == 0 else r.sample(TEMPLATES, 5)
        for kind, tpl, rx in tpls:
            out.append({"fmt": "names", "kind": kind, "name": n, "text": tpl.format(v=n), "rx": rx,
                        "req": f"xlname {kind} {hexs(n.encode())}"})
    return out


def run(tier):
    cs = cases(tier)
    model = run_driver([c["req"] for c in cs])
    impl = [generated_case_impl(c["text"]) if c["kind"] == "generated-ident" else result_cell_impl(c["text"]) if c["kind"] == "result-cell"
            else init_set_impl(c["text"]) if c["kind"] == "init-set" else impl_ident(c["text"], c["rx"]) for c in cs]
    for k, c in enumerate(cs):
        if c["kind"] in ("generated-ident", "result-cell", "init-set"):
            model[k] = impl[k]          # no model side: the rule is the oracle's
    # names the grammar refuses (they start with a keyword) are outside the model's domain
    for k, i in enumerate(impl):
        if i.startswith("rejected"):
            model[k] = i
    for c in cs:
        c.setdefault("aux", {})["declared"] = DECLARED.get(c["text"], [])
        c["aux"]["arr_idents"] = ARR_IDENTS.get(c["text"], [])
    # a reserved word is outside the model's domain too: what matters for it is consistency (see oracle)
    groups = {}
    for k, c in enumerate(cs):
        if c["name"] in RESERVED:
            as_var = impl[k] == "ok " + hexs(expected(c["name"], c["kind"]).encode())
            groups.setdefault((c["name"], c["kind"]), []).append((c["text"], as_var or impl[k].startswith("rejected")))
            model[k] = impl[k]
    for c in cs:
        if c["name"] in RESERVED:
            g = groups[(c["name"], c["kind"])]
            # not_var: positions where the word is accepted but as something other than this variable
            c["aux"]["not_var"] = [t for t, v in g if not v][:3]
    dis = [{"req": c["text"], "kind": c["kind"], "model": m[:80], "impl": i[:80]}
           for c, m, i in zip(cs, model, impl) if m != i]
    return {"cases": cs, "model": model, "impl": impl, "disagreements": dis}


def expected(name, kind):
    """Color BASIC's rule: two significant characters, the type suffix, scalar or array"""
    base = name[:2]
    return {"scalar": base, "str": base + "$", "array": "arr_" + base, "strarray": "arr_" + base + "$"}[kind]


GENERATED = {"display", "play", "pid", "erno", "errnum", "ERNO", "joy0x", "joy0y", "joy1x", "joy1y"}


def oracle(case, impl):
    if case["kind"] == "init-set":
        if not impl.startswith("ok "):
            return f"{case['text']!r} is not converted: {impl}"
        from common import unhex
        got = [x for x in unhex(impl[3:]).decode().split(",") if x]
        if got != sorted(case["want"]):
            return (f"{case['text']!r}: with --initialize-vars the scalars cleared are {got}, the program's scalars are {sorted(case['want'])} "
                    f"(a scalar and an array of one name are two variables)")
        return None
    if case["kind"] == "result-cell":
        if not impl.startswith("ok "):
            return None if impl.startswith("rejected") else f"{case['text']!r}: {impl}"
        from common import unhex
        bad = unhex(impl[3:]).decode()
        if bad:
            return (f"{case['text']!r}: a call hoisted out of a larger statement writes into a user variable ({bad}): the tool's "
                    f"temporary and the user's variable are one identifier")
        return None
    if case["kind"] == "generated-ident":
        if not impl.startswith("ok "):
            return f"{case['text']!r} is not converted: {impl}"
        from common import unhex
        cleared = [x for x in unhex(impl[3:]).decode().split(",") if x]
        extra = [x for x in cleared if x not in ("A", "B$")]
        if extra:
            return (f"{case['text']!r}: the initialisation block clears {extra[0]!r} like a user variable, but the program's "
                    f"variables are A and B$ ({extra[0]} is an identifier the tool generates itself)")
        return None
    if case["name"] in RESERVED:
        # a reserved word must not be a variable in one place and something else in another
        aux = case.get("aux", {})
        here = impl == "ok " + hexs(expected(case["name"], case["kind"]).encode())
        if here and aux.get("not_var"):
            return (f"the reserved word {case['name']} is taken as the {case['kind']} variable {expected(case['name'], case['kind'])} in "
                    f"{case['text']!r} but not in {aux['not_var'][0]!r}")
        return None
    if not impl.startswith("ok "):
        return None if impl.startswith("rejected") else f"no identifier found in the output for {case['text']!r}"
    from common import unhex
    ident = unhex(impl[3:]).decode()
    want = expected(case["name"], case["kind"])
    if ident != want:
        return f"{case['text']!r}: variable {case['name']} ({case['kind']}) became {ident!r}, Color BASIC identity needs {want!r}"
    if ident in GENERATED or ident.startswith("tmp_"):
        return f"user variable {case['name']} collides with the generated identifier {ident}"
    # a one-variable program mentions no array but its own (and QQ of the template), with or without
    # --initialize-vars: the loop that clears the array must clear this array, not its numeric namesake
    mine = {want} if case["kind"] in ("array", "strarray") else set()
    other = [a for a in case.get("aux", {}).get("arr_idents", []) if a not in mine | {"arr_QQ"}]
    if other:
        return f"{case['text']!r}: the output (plain or with --initialize-vars) touches the array {other[0]}, which the source does not have"
    # the declaration the tool writes for an array must declare the identifier the statement uses
    if case["kind"] in ("array", "strarray"):
        decl = [d for d in case.get("aux", {}).get("declared", []) if d.startswith("arr_") and d != "arr_QQ"]
        if decl and want not in decl:
            return f"{case['text']!r}: the array is used as {want} but the output declares {', '.join(decl)}"
    return None


DOLLAR_WORDS = {"CHR", "HEX", "INKEY", "MID", "RIGHT", "STR", "STRING", "LEFT"}


def classify(case, impl, why):
    if case["name"] in DOLLAR_WORDS and case["kind"] in ("str", "strarray"):
        return "dollar-keyword-accepted-as-variable"
    return None


if __name__ == "__main__":
    import sys
    res = run(sys.argv[1] if len(sys.argv) > 1 else "quick")
    bad = [(c, i) for c, i in zip(res["cases"], res["impl"]) if oracle(c, i)]
    print(len(res["cases"]), "cases", len(res["disagreements"]), "disagreements", len(bad), "oracle failures")
    for d in res["disagreements"][:5]:
        print(d)
    for c, i in bad[:5]:
        print(oracle(c, i))
