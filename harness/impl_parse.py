"""The real front end's parse tree, digested the way the Lean driver digests the model's tree
(preorder: rule index, start, end, number of children)."""
from parsimonious.exceptions import IncompleteParseError, ParseError

M = 2305843009213693951


def _index():
    from coco.b09.grammar import grammar
    names = [n for n, e in grammar.items() if e.name == n]
    return grammar, {n: k for k, n in enumerate(names)}, len(names)


_G = None


def digest(text):
    """'ok <nodes> <digest>' | 'nomatch' | 'incomplete <pos>' | 'internal <ExceptionName>'"""
    global _G
    if _G is None:
        _G = _index()
    grammar, index, anon = _G
    try:
        tree = grammar.parse(text)
    except IncompleteParseError as e:
        return f"incomplete {e.pos}"
    except ParseError:
        return "nomatch"
    except RecursionError:
        return "internal RecursionError"
    h, n = 0, 0
    stack = [tree]
    while stack:
        t = stack.pop()
        k = index.get(t.expr_name, anon) if t.expr_name else anon
        for x in (k, t.start, t.end, len(t.children)):
            h = (h * 1000003 + x + 1) % M
        n += 1
        stack.extend(reversed(t.children))
    return f"ok {n} {h}"
