#!/bin/sh
# usage: try_seeded.sh <patch.diff> <Cnn> [<Cnn> ...]   — apply to /repo, run quick checks, undo
patch="$1"; shift
git -C /repo apply "$patch" || exit 3
for p in "$@"; do
  /verif/check "$p" --tier quick 2>&1 | grep -E 'VIOLATION|tier=' 
done
git -C /repo checkout -- . 
git -C /repo status --short | head -3
