"""Data-semantics suite (C03): generated programs mixing DIM (1-3 dimensions, decimal or hex
bounds), implicit arrays, DATA lines (quoted, unquoted, numeric, hex, empty items) with READ and
RESTORE, PRINT lists in every arrangement of `;` `,` and juxtaposition, INPUT / LINE INPUT with and
without prompt, and the string functions; string storage 32 and 80; pre-initialisation on and off.

The real `convert` translates each program (with the standard prologue, so `base 0` is part of what
is run).  The oracle runs the source on the strict Color BASIC reference machine and the real output
on the strict BASIC09 reference machine (ctlsem.py: arrays have bounds, `base`, DIM is needed, READ
is typed, PRINT of a raw REAL uses BASIC09's own format, and - with pre-initialisation requested -
a read of anything never assigned is an error) on the same input script, and compares the traces of
PRINT / INPUT events and the final variable stores."""
import multiprocessing as mp
import re

import ctlsem as C
import exprsem as S
from common import hexs, note, rng, run_driver, unhex

SCRIPT = {}
INPUTS = ["BOB", "7", "A LINE", "3", "ZZ", "12", "Q", "4", "X Y", "5", "W", "6", "V", "8"]

FLAGS = ["1100000", "1100100", "1101100", "1101000"]


class SGen:
    def __init__(self, r):
        self.r = r
        self.n = 10
        self.lines = []
        self.dimmed = {}         # array name -> bounds
        self.implicit = set()
        self.head = []

    def num(self):
        n = self.n
        self.n += self.r.choice([5, 10])
        return n

    def add(self, body):
        self.lines.append(f"{self.num()} {body}")

    def bound_text(self, b):
        return self.r.choice([str(b), str(b), "&H" + format(b, "X"), "&H0" + format(b, "X")])

    def fresh(self, pool):
        names = [n for n in pool if n not in self.dimmed and n not in self.implicit]
        return self.r.choice(names) if names else None

    def index(self, bounds, corner=True):
        r = self.r
        return [r.choice([0, b, r.randrange(b + 1)]) if corner else r.randrange(b + 1) for b in bounds]

    # ---- pieces
    def dim_piece(self):
        r = self.r
        decls = []
        made = []
        for _ in range(r.choice([1, 1, 2, 3])):
            isstr = r.random() < 0.35
            name = self.fresh(["D$", "E$", "F$"] if isstr else ["D", "E", "F", "G", "H"])
            if not name:
                continue
            nd = r.choice([1, 1, 2, 3])
            bounds = [r.choice([1, 2, 3, 5, 12]) for _ in range(nd)]
            self.dimmed[name] = bounds
            decls.append(f"{name}({','.join(self.bound_text(b) for b in bounds)})")
            made.append(name)
        if r.random() < 0.3:
            decls.append(r.choice(["S9", "S8$"]))                     # a scalar in a DIM list
        if not decls:
            return
        self.add("DIM " + ",".join(decls))
        for name in made:
            bounds = self.dimmed[name]
            writes = []
            for k in range(r.choice([1, 2, 3])):
                idx = self.index(bounds)
                val = f'"{r.choice("PQRS")}{k}"' if name.endswith("$") else str(r.randrange(1, 90))
                writes.append((idx, val))
                self.add(f"{name}({','.join(map(str, idx))})={val}")
            reads = [w[0] for w in writes] + [self.index(bounds), [0] * len(bounds), list(bounds)]
            self.add("PRINT " + ";".join(f"{name}({','.join(map(str, i))})" for i in reads))

    def implicit_piece(self):
        r = self.r
        isstr = r.random() < 0.3
        name = self.fresh(["X$", "Y$"] if isstr else ["X", "Y", "Z", "W"])
        if not name:
            return
        self.implicit.add(name)
        nd = 1 if r.random() < 0.85 else 2
        k = [r.choice([0, 10, r.randrange(11)]) for _ in range(nd)]
        sub = ",".join(map(str, k))
        val = '"IM"' if isstr else str(r.randrange(1, 50))
        form = r.randrange(4)
        if form == 0:
            self.add(f"{name}({sub})={val}:PRINT {name}({sub});{name}({','.join(['10'] * nd)});{name}({','.join(['0'] * nd)})")
        elif form == 1:
            self.add(f"PRINT {name}({sub})")                           # read before any write
        elif form == 2 and not isstr:
            self.add(f"Q=ABS({name}({sub}))+1:PRINT Q")                 # only inside a function argument
        else:
            self.add(f"I={k[0]}:{name}(I{',0' * (nd - 1)})={val}:PRINT {name}(I{',0' * (nd - 1)})")

    def data_piece(self):
        r = self.r
        items = []          # (text, kind) kind in num, str, empty
        nlines = r.choice([1, 2, 3])
        with_empty = r.random() < 0.35
        data_lines = []
        for _ in range(nlines):
            row = []
            for _ in range(r.choice([1, 2, 3, 4])):
                k = r.randrange(10)
                if k < 3:
                    row.append((r.choice(["5", "42", "2.5", "100", "0", "7"]), "num"))
                elif k == 3:
                    row.append((r.choice(["1E2", ".5", "1E2", ".5", "-3"]), "num"))
                elif k == 4 and not with_empty:
                    row.append((r.choice(["&H1F", "&HA"]), "num"))
                elif k == 5:
                    row.append((r.choice(['"X Y"', '"A,B"', '"Q"', '" LEAD"']), "str"))
                elif k in (6, 7):
                    row.append((r.choice(["HELLO", "RED", "TWO WORDS", "A1"]), "str"))
                elif k == 8 and with_empty:
                    row.append(("", "empty"))
                else:
                    row.append((r.choice(["9", "11"]), "num"))
            if with_empty and not any(k == "empty" for _, k in row) and r.random() < 0.5:
                row.insert(r.randrange(len(row) + 1), ("", "empty"))
            items += row
            # a DATA list ends at the colon: statements may follow it on the same line
            tail = r.choice(["", "", "", ":PRINT \"AFTER\"", ":Q7=1:PRINT Q7"])
            data_lines.append("DATA " + ",".join(t for t, _ in row) + tail)
        order = r.randrange(3)          # DATA before, after, or around the READs
        if order == 0:
            for d in data_lines:
                self.add(d)
        elif order == 2 and len(data_lines) > 1:
            self.add(data_lines[0])
        nread = r.randrange(1, len(items) + 1)
        targets, names = [], []
        numv, strv = ["A", "B", "C", "M"], ["A$", "B$", "C$"]
        for k in range(nread):
            _, kind = items[k]
            want_str = kind == "str" or (kind == "empty" and r.random() < 0.5) or (kind == "num" and r.random() < 0.06)
            if r.random() < 0.2:
                arr = "R$" if want_str else "R"
                if arr not in self.dimmed:
                    self.dimmed[arr] = [4]
                    self.head.append(f"{len(self.head) + 1} DIM {arr}(4)")
                t = f"{arr}({r.randrange(5)})"
            else:
                t = r.choice(strv if want_str else numv)
            targets.append(t)
        pos = 0
        while pos < len(targets):
            n = r.choice([1, 2, 3])
            chunk = targets[pos:pos + n]
            self.add("READ " + ",".join(chunk) + ":PRINT " + ";".join(chunk))
            pos += n
        if r.random() < 0.35:
            t = items[0][1]
            v = "A$" if t == "str" else "A"
            self.add(f"RESTORE:READ {v}:PRINT {v}")
        if order == 1:
            for d in data_lines:
                self.add(d)
        elif order == 2 and len(data_lines) > 1:
            for d in data_lines[1:]:
                self.add(d)
        elif order == 2:
            self.add(data_lines[0])

    def print_piece(self):
        r = self.r
        atoms_n = ["A", "B", "7", "2.5", "LEN(A$)", "ASC(\"A\")", "D9", "VAL(\"12\")", "INSTR(1,A$,\"L\")"]
        atoms_s = ["A$", "B$", '"LIT"', '"X"', "CHR$(65)", "LEFT$(A$,2)", "MID$(A$,2,2)", "RIGHT$(A$,1)",
                   "STRING$(3,\"*\")", "U$"]
        atoms_e = ["A+B", "A*2", "A$+B$", "A$+B$", "A$+\"Z\"", "(A)"]
        n = r.choice([1, 2, 3, 4, 5])
        out = ""
        prev_kind = None
        if r.random() < 0.15:
            out += r.choice([";", ","])
        for k in range(n):
            pick = r.randrange(10)
            if pick < 5:
                a, kind = r.choice(atoms_n), "n"
            elif pick < 9 or r.random() < 0.5:
                a, kind = r.choice(atoms_s), "s"
            else:
                a, kind = r.choice(atoms_e), "e"
            if k > 0:
                sep = r.choice([";", ";", ",", "", ";;", ",,", ", ", " ; "])
                if sep == "":
                    # juxtaposition needs a string literal or a closing quote/paren on one side
                    if not (out.endswith('"') or out.endswith(")") or out.endswith("$")) or not (a.startswith('"') or a[0].isalpha()):
                        sep = ";"
                    elif a[0].isalpha() and (out[-1].isalnum() or out[-1] == "$"):
                        sep = " "
                out += sep
            out += a
            prev_kind = kind
        if r.random() < 0.3:
            out += r.choice([";", ","])
        self.add("PRINT " + out if r.random() < 0.85 else "?" + out)

    def input_piece(self):
        r = self.r
        k = r.randrange(6)
        if k == 0:
            self.add('INPUT "NAME";N$,Q:PRINT N$;Q')
        elif k == 1:
            self.add("INPUT K:PRINT K")
        elif k == 2:
            self.add('LINE INPUT "L>";L$:PRINT L$;LEN(L$)')
        elif k == 3:
            self.add("LINE INPUT L$:PRINT L$")
        elif k == 4:
            if "V" not in self.dimmed:
                self.dimmed["V"] = [3]
                self.add("DIM V(3)")
            self.add(f'INPUT "EL";V({r.randrange(4)}),J$:PRINT V(0);V(1);V(2);V(3);J$')
        else:
            self.add('INPUT "";P$:PRINT P$')

    def string_piece(self):
        r = self.r
        s = r.choice(['"HELLO WORLD"', '"ABC"', 'A$', '"X"'])
        f = r.choice([f"LEFT$({s},{r.randrange(0, 5)})", f"RIGHT$({s},{r.randrange(0, 5)})",
                      f"MID$({s},{r.randrange(1, 4)},{r.randrange(0, 4)})", f"CHR$({r.randrange(65, 91)})",
                      f"STRING$({r.randrange(0, 5)},\"-\")", f"STRING$({r.randrange(0, 5)},B$+\"+\")",
                      f"LEFT$({s},{r.randrange(0, 5)})+CHR$(33)"]
                     + ([f"STR$({r.choice(['A', '12', '-4', '2.5'])})", f"STRING$({r.randrange(1, 4)},{r.randrange(65, 70)})"]
                        if r.random() < 0.15 else []))
        g = r.choice([f"LEN({s})", f"ASC({s})", f"VAL({r.choice(['\"12\"', '\"3.5X\"', '\"\"', 'B$'])})",
                      f"INSTR({r.randrange(1, 3)},{s},{r.choice(['\"L\"', '\"\"', '\"Z\"', 'B$'])})",
                      f"INSTR(1,{s},\"B\")"])
        self.add(f"T$={f}:N={g}:PRINT T$;N;LEN(T$)")

    def uninit_piece(self):
        r = self.r
        self.add(r.choice(["PRINT U;U$", "PRINT LEN(U$)+1", "K2=U9+1:PRINT K2", "IF U8=0 THEN PRINT \"ZERO\"",
                           "U$=U$+\"A\":PRINT U$", "FOR I=1 TO U7+2:PRINT I:NEXT I", "PRINT MID$(U$+\"ABC\",U6+1,2)",
                           "PRINT UU$;U2$;\"|\"", "W2$=UV$+\"A\":PRINT W2$;LEN(UV$)", "PRINT LEN(U3$+UW$)", "PRINT UX;U4;UX+1",
                           "IF UY$=\"\" THEN PRINT \"EMPTY\"", "PRINT LEFT$(UZ$+\"AB\",1);ASC(U5$+\"A\")"]))

    def program(self):
        r = self.r
        self.add(r.choice(['A$="HELLO":B$="LL":A=3:B=4', 'A$="AB":B$="":A=1:B=2', 'A=10:B=2.5:A$="Q":B$="QQ"']))
        pieces = [self.dim_piece, self.implicit_piece, self.data_piece, self.print_piece, self.print_piece,
                  self.input_piece, self.string_piece, self.uninit_piece]
        for _ in range(r.choice([2, 3, 4, 5])):
            r.choice(pieces)()
        self.add('PRINT "END";A;B;A$;B$')
        return "\n".join(self.head + self.lines)


PROBES = [
    '10 DIM A(5)\n20 A(0)=1:A(5)=2:PRINT A(0);A(5);A(3)',
    '10 DIM A(&H0A),B$(2,3)\n20 A(10)=7:B$(2,3)="X":B$(0,0)="Y":PRINT A(10);B$(2,3);B$(0,0);B$(1,1)',
    '10 DIM C(1,2,3)\n20 C(1,2,3)=9:C(0,0,0)=8:PRINT C(1,2,3);C(0,0,0);C(1,0,3)',
    '10 X(10)=4:PRINT X(10);X(0)',
    '10 PRINT X(3)',
    '10 B(1,2)=3:PRINT B(1,2)',
    '10 DATA 1,2,"X Y",HELLO,&H1F\n20 READ A,B,C$,D$,E:PRINT A;B;C$;D$;E',
    '10 DATA 1,,"X Y",HELLO,\n20 READ A,B,C$,D$,E:PRINT A;B;C$;D$;E:RESTORE:READ Q:PRINT Q',
    '10 READ A,B$\n20 DATA 5\n30 PRINT A;B$\n40 DATA TAIL',
    '10 DATA ,\n20 READ A$,B:PRINT A$;B',
    '10 DATA 12\n20 READ A$:PRINT A$',
    '10 DATA RED,GREEN:READ A$,B$:PRINT A$;B$\n20 PRINT "NEXT LINE"',
    '10 DATA 1,TWO WORDS:PRINT "X"\n20 READ A,B$:PRINT A;B$',
    '10 READ R(1):PRINT R(1)\n20 DATA 5',
    '10 READ R(1)\n20 DATA 5',
    '10 INPUT R$(2)',
    '10 A=-3:PRINT A;STR$(A);LEN(STR$(5))',
    '10 T$=STRING$(3,66):PRINT T$',
    '10 PRINT A;B,C$ D$;\n20 PRINT "S";STR$(A),,B',
    '10 PRINT A+B',
    '10 PRINT ;A$\n20 PRINT ,A$\n30 PRINT A$,\n40 PRINT',
    '10 ?"Q";A',
    '10 INPUT "NAME";N$,Q:PRINT N$;Q',
    '10 INPUT K:PRINT K',
    # blanks that end the last line of the listing are content of an unquoted DATA item / an open string literal
    '10 READ A$,B$:PRINT A$;"|";B$;"|"\n20 DATA EAST ,WEST  ', '10 READ A$,B$:PRINT A$;"|";B$;"|"\n20 DATA EAST ,WEST  \n',
    '10 READ A$:PRINT A$;"|":GOTO 30\n20 DATA  MID  \n30 PRINT "E"',
    # what the prompt text ends in makes no difference: INPUT always adds "? ", LINE INPUT adds nothing
    '10 INPUT "READY?";N$:PRINT N$', '10 INPUT "WHY? ";N$:PRINT N$', '10 INPUT "?";K:PRINT K', '10 INPUT "? ";K:PRINT K',
    '10 INPUT "A?B";K:PRINT K', '10 INPUT " ";K:PRINT K', '10 INPUT "X:";N$,K:PRINT N$;K', '10 LINE INPUT "Q?";L$:PRINT L$',
    '10 LINE INPUT "Q? ";L$:PRINT L$', '10 LINE INPUT "?";L$:PRINT L$', '10 INPUT "";K:PRINT K', '10 INPUT "LONG PROMPT WITH BLANKS  ";K:PRINT K',
    '10 LINE INPUT "L>";L$:PRINT L$',
    '10 LINE INPUT L$:PRINT L$',
    '10 INPUT A(2):PRINT A(2)',
    '10 A$="HELLO":PRINT LEFT$(A$,2);RIGHT$(A$,2);MID$(A$,2,2);LEN(A$);ASC(A$);CHR$(66);VAL("12");STR$(5);INSTR(1,A$,"L");STRING$(3,"*")',
    '10 PRINT U;U$;LEN(V$);ABS(W)',
    '10 PRINT AB$;N1$;"|";XY;Z9',
    '10 NM$=NM$+"A":PRINT NM$;LEN(Q2$)',
    '10 FOR I=0 TO 3:Y(I)=I*2:NEXT I:PRINT Y(0);Y(1);Y(2);Y(3)',
]


# strings longer than 32 characters: only meaningful with the larger string-storage setting.  A scalar
# and an array of one name are two variables; every one of them gets the storage asked for.
L40 = "ABCDEFGHIJKLMNOPQRSTUVWXYZ0123456789ABCD"
PROBES_80 = [
    f'10 N$="{L40}":PRINT N$;LEN(N$):PRINT RIGHT$(N$,3)',
    f'10 DIM N$(3)\n20 N$="{L40}":N$(1)="{L40}X"\n30 PRINT N$;LEN(N$)\n40 PRINT N$(1);LEN(N$(1))',
    f'10 DIM AB$(2,2),Q$\n20 AB$="{L40}":Q$=AB$+"12":AB$(2,2)=Q$+"3"\n30 PRINT LEN(AB$);LEN(Q$);LEN(AB$(2,2));MID$(AB$(2,2),38,4)',
    f'10 M$(4)="{L40}":M$="{L40}Y":PRINT LEN(M$(4));LEN(M$);RIGHT$(M$,2)',
    f'10 READ N$,N$(2):PRINT LEN(N$);LEN(N$(2))\n20 DATA {L40},"{L40}Z"',
]


# numeric DATA items over twenty orders of magnitude, with and without an empty item (which sends every number through
# its text and the read filter): the value that arrives must be the value written
DATA_VALUE_PROBES = [
    '10 DATA 1E-10,,1.5E-9,1.234567E-5,1E16,123456789012,0.000001,2.5E-7\n20 READ A,B,C,D,E,F,G,H\n'
    '30 A=A*1E10:C=C*1E9:D=D*1E5:E=E/1E16:F=F/1E6:G=G*1E6:H=H*1E7\n40 PRINT A;B;C;D;E;F;G;H',
    '10 DATA 1E-10,1.5E-9,1.234567E-5,1E16,123456789012,0.000001,2.5E-7\n20 READ A,C,D,E,F,G,H\n'
    '30 A=A*1E10:C=C*1E9:D=D*1E5:E=E/1E16:F=F/1E6:G=G*1E6:H=H*1E7\n40 PRINT A;C;D;E;F;G;H',
    '10 DATA ,0.5,.25,1E-5,1E-4,0.0001,12345.678,1E5,99999,100000,1E9,1E10\n20 READ Z,A,B,C,D,E,F,G,H,I,J,K\n'
    '30 A=A*4:B=B*8:C=C*1E5:D=D*1E4:E=E*1E4:G=G/1E5:J=J/1E9:K=K/1E10\n40 PRINT Z;A;B;C;D;E;F;G;H;I;J;K',
    '10 DATA 3E-10,,0.000123456789,&HFF,1E-38,32767,32766\n20 READ A,B,C,D,E,F,G\n30 A=A*1E10:C=C*1E4:E=E*1E38\n40 PRINT A;B;C;D;E;F;G',
    # several DATA statements, the empty item in the first / a middle / the last one only; READs that cross statement borders
    '10 DATA 1,,3\n20 DATA 4\n30 READ A,B,C,D\n40 PRINT A;B;C;D',
    '10 DATA 1,2\n20 DATA ,4\n30 DATA 5,6\n40 READ A,B,C,D,E,F\n50 PRINT A;B;C;D;E;F',
    '10 DATA 1,2\n20 DATA 3\n30 DATA 4,\n40 READ A,B,C,D,E\n50 PRINT A;B;C;D;E',
    '10 READ A,B:READ C\n20 DATA ,7:DATA 8\n30 PRINT A;B;C\n40 DATA 9\n50 READ D:PRINT D',
    '10 DATA ,\n20 DATA 1.5,2.5E1\n30 READ A,B,C,D\n40 PRINT A;B;C;D',
    '10 DATA "X",,1\n20 DATA 2,"Y"\n30 READ A$,B,C,D,E$\n40 PRINT A$;B;C;D;E$',
]


def cases(tier):
    r = rng("sem-suite")
    progs = [(p, "probe") for p in PROBES] + [(p, "probe80") for p in PROBES_80] + [(p, "data-value-probe") for p in DATA_VALUE_PROBES]
    for _ in range(200 if tier != "thorough" else 2500):
        progs.append((SGen(r).program(), "generated"))
    out = []
    for k, (p, kind) in enumerate(progs):
        for flags in (FLAGS if kind != "generated" else [r.choice(FLAGS)]):
            for storage in ([80] if kind == "probe80" else [32, 80] if kind == "probe" or r.random() < 0.25 else [32]):
                o = {"flags": flags, "storage": storage, "procname": "", "sizes": []}
                out.append({"fmt": "sem", "kind": kind, "text": p, "opts": o,
                            "req": f"sem {flags} {storage} " + hexs(p.encode())})
    return out


def _work(item):
    import impl_b09
    text, o = item
    sx = impl_b09.sexp(text)
    impl = impl_b09.convert(text, o)
    return (impl_b09.convast_request(sx, o) if sx is not None else None), impl


def run(tier):
    import impl_b09
    cs = cases(tier)
    with mp.Pool(16) as pool:
        res = pool.map(_work, [(c["text"], c["opts"]) for c in cs], chunksize=8)
    reqs, idx = ["setlib " + hexs(impl_b09.lib_text().encode())], []
    for k, (req, _) in enumerate(res):
        if req is not None:
            idx.append(k)
            reqs.append(req)
    outs = run_driver(reqs)[1:]
    impl = [i for _, i in res]
    model = list(impl)
    for k, o in zip(idx, outs):
        model[k] = o
    dis = [{"req": cs[k]["text"], "kind": cs[k]["kind"], "model": model[k][:160], "impl": impl[k][:160]}
           for k in range(len(cs)) if model[k] != impl[k]]
    return {"cases": cs, "model": model, "impl": impl, "disagreements": dis}


def same_value(a, b):
    if isinstance(a, str) or isinstance(b, str):
        return a == b
    return a == b or abs(a - b) <= 1e-9 * max(1.0, abs(a), abs(b))


def machines(case, out_text):
    init = case["opts"]["flags"][4] == "1"
    d = C.DecbMachine(case["text"], {}, SCRIPT, strict=True, inputs=INPUTS)
    a = d.run()
    try:
        m = C.B09Machine(out_text.split("\n"), {}, SCRIPT, strict=True, strict_init=init, inputs=INPUTS)
        b = m.run()
        benv = m.env
    except Exception as e:  # noqa: BLE001
        b, benv = [("unreadable", f"{type(e).__name__}: {e}")], {}
    return a, d.env, b, benv


def oracle(case, impl, quiet=False):
    note_ = (lambda *_: None) if quiet else note
    if not impl.startswith("ok "):
        return None
    out = unhex(impl[3:]).decode()
    try:
        a, aenv, b, benv = machines(case, out)
    except Exception:  # noqa: BLE001
        note_("sem: skipped, reference machine does not cover the source")
        return None
    if a and a[-1][0] == "error":
        note_("sem: skipped, Color BASIC stops with an error (" + str(a[-1][1])[:10] + ")")
        return None
    if a and a[-1] == ("budget",):
        note_("sem: skipped, step budget")
        return None
    note_("sem: traces and stores compared")
    if a != b:
        m = min(len(a), len(b))
        k = next((i for i in range(m) if a[i] != b[i]), m)
        return (f"after {k} common events Color BASIC does {a[k] if k < len(a) else 'nothing (stopped)'} "
                f"and the translated program {b[k] if k < len(b) else 'nothing (stopped)'}")
    for key, v in aenv.items():
        if isinstance(key, tuple):
            got = benv.get(key, "" if key[1].endswith("$") else 0.0)
            name = f"{key[1]}{key[2:]}"
        else:
            got = benv.get(key, "" if key.endswith("$") else 0.0)
            name = key
        if not same_value(v, got):
            return f"at the end {name} is {v!r} in Color BASIC and {got!r} in the translated program"
    return None


KNOWN_DIFFS = ["print-raw-number", "str-trailing-blank", "negative-number-leading-blank", "implicit-array-multi-dim",
               "numeric-datum-read-as-string", "array-only-read-or-input-target", "string-func-numeric-code"]


def classify(case, impl, why):
    """re-run the failing case with one, then two, of the known differences switched on in the
    reference machines: the class is the smallest set that makes the case pass (joined by `+`)"""
    import itertools
    t = case["text"]
    dimmed = set()
    for m in re.finditer(r"DIM ([^:\n]*)", t):
        for d in re.finditer(r"([A-Z][A-Z0-9]*\$?)\(", m.group(1)):
            dimmed.add(S.var_key(d.group(1)))
    used = {S.var_key(m.group(1)) for m in re.finditer(r"([A-Z][A-Z0-9]*\$?)\(", re.sub(r'"[^"]*"', "", t))}
    C.UNDIMMED.clear()
    C.UNDIMMED.update(used - dimmed)
    C.SOURCE_DATA[:] = C.DecbMachine(t, {}, SCRIPT, strict=True).data
    try:
        for n in (1, 2, 3):
            for combo in itertools.combinations(KNOWN_DIFFS, n):
                C.LENIENT.clear()
                C.LENIENT.update(combo)
                if oracle(case, impl, quiet=True) is None:
                    return "+".join(combo)
    finally:
        C.LENIENT.clear()
        C.UNDIMMED.clear()
        del C.SOURCE_DATA[:]
    return None


if __name__ == "__main__":
    import sys
    from collections import Counter
    res = run(sys.argv[1] if len(sys.argv) > 1 else "quick")
    print(len(res["cases"]), "cases", len(res["disagreements"]), "disagreements")
    for d in res["disagreements"][:5]:
        print(d)
    cnt = Counter()
    for c, i in zip(res["cases"], res["impl"]):
        w = oracle(c, i)
        if w:
            k = classify(c, i, w)
            cnt[k] += 1
            if cnt[k] <= (12 if k is None else 2):
                print("----", k, c["opts"]["flags"], "|", w[:300])
                print(c["text"][:500])
    from common import ORACLE_NOTES
    print(cnt, Counter(i.split(" ")[0] + " " + (i.split(" ")[1][:30] if not i.startswith("ok") else "") for i in res["impl"]))
    print(ORACLE_NOTES)
