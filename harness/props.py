"""Registry: for every claimed property, the Lean modules that carry its theorems and ties,
the correspondence suites, which suite cases it depends on, its oracle, the classifier of
known-finding classes and the failing-input search."""
import oracles_img as OI


def outcome_kind(impl):
    if impl.startswith("fail "):
        return impl
    return impl.split(" ")[0]


def nontrivial(case, impl):
    """a case counts as non-trivial when the real code got past argument handling: it produced
    output or failed inside the decoding / conversion logic on a non-empty input"""
    return len(case.get("data", b"x")) > 0


# --------------------------------------------------------------------------- images

def img_classify(case, impl, why):
    """Name of the known-finding class a failing image case belongs to (or None)."""
    fmt, kind = case["fmt"], case["kind"]
    parts = case["req"].split(" ")
    if fmt == "rat":
        if kind == "valid" and any(p >= 8 for p in case.get("pixels", [])[1::2]) and "differs" in why:
            return "rat-low-nibble-bit3"
        if "samples for" in why:
            return "rat-run-overruns-end"
    if fmt == "hrs" and "samples for" in why:
        return "hrs-odd-width" if int(parts[2]) % 2 == 1 else None
    if fmt == "pix" and "samples for" in why:
        return "pix-size-not-even-square"
    if fmt == "max" and "samples for" in why:
        cols = int(parts[4])
        if parts[3] == "0" and cols % 8 != 0:
            return "max-width-not-multiple-of-8"
        return "max-short-row-read"
    if fmt == "mge":
        if "samples for" in why:
            return "mge-rle-total-not-32000"
        if "not decoded: fail ValueError" in why:
            return "mge-title-without-nul"
    if fmt == "cm3" and "samples for" in why:
        return "cm3-line-count-not-192"
    if fmt == "vef":
        if "outside the 64-entry palette" in why:
            return "vef-palette-byte-ge-64"
        if "bitmap has" in why:
            return "vef-type-640x200x2" if len(case["data"]) > 1 and case["data"][1] == 4 else "vef-data-length"
    return None


def _img_search(pid, tier, findings):
    """More generated inputs against the REAL code, judged by the property oracle only."""
    import multiprocessing as mp
    import gens_img as G
    from common import rng
    from suite_img import _impl
    r = rng("img-search-" + pid)
    cases = []
    for fmt in G.BUILDERS:
        valid = [G.BUILDERS[fmt](r) for _ in range(6)]
        cases += valid
        if pid in ("C18", "C19"):
            for c in valid[:2]:
                cases += G.prefixes(c, r, 24) + G.corruptions(c, r, 24) + G.extended(c, r)
            cases += G.random_strings(r, fmt, 60)
    cases += G.option_variants(r, 40)
    with mp.Pool(16) as pool:
        impl = pool.map(_impl, [c["req"] for c in cases], chunksize=4)
    from common import run_driver
    model = run_driver([c["req"] for c in cases])
    orc = OI.ORACLES[pid]
    found = []
    for c, i, m in zip(cases, impl, model):
        if not IMG_RELEVANT[pid](c):
            continue
        why = orc(c, i)
        if why:
            klass = img_classify(c, i, why) if m == i else None
            if not any(f["status"] == "known" and f["class"] == klass for f in findings):
                found.append({"request": c["req"], "kind": c["kind"], "impl": i[:300], "model": m[:300],
                              "why": why, "class": klass})
    return found, len(cases)


IMG_RELEVANT = {
    "C16": lambda c: c["kind"] == "fixture" or (c["kind"] == "valid" and not OI.is_compressed(c)),
    "C17": lambda c: c["kind"] == "fixture" or (c["kind"] == "valid" and OI.is_compressed(c)),
    "C18": lambda c: c["kind"] in ("valid", "fixture", "option"),
    "C19": lambda c: True,
}

IMG_LEAN = ["CocoVerif.Tie.ImgTables"]
IMG_TRUSTED = [
    "modelled, not verified: Python file objects (`read(1)` at end of input, short multi-byte reads), argparse, "
    "pypng and Pillow (the VEF model stops at the palette-index bitmap handed to png.Writer.write_array)",
]

PROPS = {}
for _pid, _rule in (
    ("C16", "uncompressed well-formed files built from known pixel arrays and palettes by the seeded builders "
            "(plus the repository fixtures); a case is non-trivial when its input is non-empty; distinct = distinct request"),
    ("C17", "valid compressed encodings (MGE run-length, RAT escape, CM3 left/up/literal lines, squashed VEF) produced by "
            "seeded nondeterministic encoders from known images; distinct = distinct request"),
    ("C18", "well-formed files and fixtures x option variants (odd widths, widths not multiple of 8, explicit rows, skip); "
            "distinct = distinct request"),
    ("C19", "every case of the decoder suite: valid files, fixtures, prefixes at structure boundaries and evenly spaced "
            "points, single-byte corruptions of header/control bytes, appended junk, random strings; distinct = distinct request"),
):
    PROPS[_pid] = {
        "lean": IMG_LEAN + [f"CocoVerif.Props.{_pid}"],
        "lean_extra": ["CocoVerif.Props.Lemmas.Img", "CocoVerif.Model.Img", "CocoVerif.Spec.Img"],
        "suites": ["img"],
        "relevant": IMG_RELEVANT[_pid],
        "oracle": OI.ORACLES[_pid],
        "classify": img_classify,
        "search": _img_search,
        "rule": _rule,
        "trusted": IMG_TRUSTED,
        "assumptions": ["image-format descriptions of DESIGN.md appendix A are the specification"],
    }


# --------------------------------------------------------------------------- witnesses / replay

def replay_request(pid, request):
    """Run one stored request against the real code and judge it with the property oracle."""
    if request.startswith("img "):
        import impl_img
        from common import unhex
        impl = impl_img.run_request(request)
        parts = request.split(" ")
        case = {"fmt": parts[1], "kind": "replay", "req": request, "data": unhex(parts[-1])}
        return OI.c19(case, impl) if pid in ("C18", "C19") else None
    raise ValueError(request)


def replay_witness(f):
    """Reason string when the property (still / again) fails on a stored witness, else None."""
    w = f["witness"]
    if isinstance(w, dict) and w.get("type") == "img-builder":
        import gens_img as G
        from common import rng
        import impl_img
        case = getattr(G, w["builder"])(rng("witness-" + f["id"]), **w.get("args", {}))
        impl = impl_img.run_request(case["req"])
        return OI.ORACLES[w.get("oracle", f["property"])](case, impl)
    if isinstance(w, dict) and w.get("type") == "img-request":
        import impl_img
        from common import unhex
        impl = impl_img.run_request(w["request"])
        parts = w["request"].split(" ")
        case = {"fmt": parts[1], "kind": w.get("kind", "valid"), "req": w["request"], "data": unhex(parts[-1])}
        case.update(w.get("case", {}))
        return OI.ORACLES[w.get("oracle", f["property"])](case, impl)
    raise ValueError(f"unknown witness type in {f['id']}")
