"""Registry: for every claimed property, the Lean modules that carry its theorems and ties,
the correspondence suites, which suite cases it depends on, its oracle, the classifier of
known-finding classes and the failing-input search."""
import oracles_img as OI


def outcome_kind(impl):
    if impl.startswith("fail "):
        return impl
    return impl.split(" ")[0]


def nontrivial(case, impl):
    """a case counts as non-trivial when the real code got past argument handling: it produced
    output or failed inside the decoding / conversion logic on a non-empty input"""
    return len(case.get("data", b"x")) > 0


def show_case(c):
    """human-readable form of a case for evidence samples and replay files"""
    if "text" in c and "opts" in c:
        return f"options={c['opts']} program={c['text']!r}"
    if "text" in c:
        return f"program={c['text']!r} ({c.get('kind', '')} {c.get('name', '')})"
    return c["req"]


# --------------------------------------------------------------------------- images

def img_classify(case, impl, why):
    """Name of the known-finding class a failing image case belongs to (or None)."""
    fmt, kind = case["fmt"], case["kind"]
    parts = case["req"].split(" ")
    if fmt == "rat":
        if kind == "valid" and any(p >= 8 for p in case.get("pixels", [])[1::2]) and "differs" in why:
            return "rat-low-nibble-bit3"
        if "samples for" in why:
            return "rat-run-overruns-end"
    if fmt == "hrs" and "samples for" in why:
        return "hrs-odd-width" if int(parts[2]) % 2 == 1 else None
    if fmt == "pix" and "samples for" in why:
        return "pix-size-not-even-square"
    if fmt == "max" and "samples for" in why:
        cols = int(parts[4])
        if parts[3] == "0" and cols % 8 != 0:
            return "max-width-not-multiple-of-8"
        return "max-short-row-read"
    if fmt == "mge":
        if "samples for" in why:
            return "mge-rle-total-not-32000"
        if "not decoded: fail ValueError" in why:
            return "mge-title-without-nul"
    if fmt == "cm3" and "samples for" in why:
        return "cm3-line-count-not-192"
    if fmt == "vef":
        if "outside the 64-entry palette" in why:
            return "vef-palette-byte-ge-64"
        if "bitmap has" in why:
            return "vef-type-640x200x2" if len(case["data"]) > 1 and case["data"][1] == 4 else "vef-data-length"
    return None


def _img_search(pid, tier, findings):
    """More generated inputs against the REAL code, judged by the property oracle only."""
    import multiprocessing as mp
    import gens_img as G
    from common import rng
    from suite_img import _impl
    r = rng("img-search-" + pid)
    cases = []
    for fmt in G.BUILDERS:
        valid = [G.BUILDERS[fmt](r) for _ in range(6)]
        cases += valid
        if pid in ("C18", "C19"):
            for c in valid[:2]:
                cases += G.prefixes(c, r, 24) + G.corruptions(c, r, 24) + G.extended(c, r)
            cases += G.random_strings(r, fmt, 60)
    cases += G.option_variants(r, 40)
    with mp.Pool(16) as pool:
        impl = pool.map(_impl, [c["req"] for c in cases], chunksize=4)
    from common import run_driver
    model = run_driver([c["req"] for c in cases])
    orc = OI.ORACLES[pid]
    found = []
    for c, i, m in zip(cases, impl, model):
        if not IMG_RELEVANT[pid](c):
            continue
        why = orc(c, i)
        if why:
            klass = img_classify(c, i, why)
            if not (m == i and any(f["status"] == "known" and f["class"] == klass for f in findings)):
                found.append({"request": c["req"], "kind": c["kind"], "impl": i[:300], "model": m[:300],
                              "why": why, "class": klass})
    return found, len(cases)


IMG_RELEVANT = {
    "C16": lambda c: c["kind"] == "fixture" or (c["kind"] == "valid" and not OI.is_compressed(c))
                     or (c["kind"] == "option" and c["fmt"] in ("max", "hrs") and "expect" in c),
    "C17": lambda c: c["kind"] == "fixture" or (c["kind"] == "valid" and OI.is_compressed(c)),
    "C18": lambda c: c["kind"] in ("valid", "fixture", "option"),
    "C19": lambda c: True,
}

IMG_LEAN = ["CocoVerif.Tie.ImgTables"]
IMG_TRUSTED = [
    "modelled, not verified: Python file objects (`read(1)` at end of input, short multi-byte reads), argparse, "
    "pypng and Pillow (the VEF model stops at the palette-index bitmap handed to png.Writer.write_array)",
]

PROPS = {}
for _pid, _rule in (
    ("C16", "uncompressed well-formed files built from known pixel arrays and palettes by the seeded builders "
            "(plus the repository fixtures); a case is non-trivial when its input is non-empty; distinct = distinct request"),
    ("C17", "valid compressed encodings (MGE run-length, RAT escape, CM3 left/up/literal lines, squashed VEF) produced by "
            "seeded nondeterministic encoders from known images; distinct = distinct request"),
    ("C18", "well-formed files and fixtures x option variants (odd widths, widths not multiple of 8, explicit rows, skip); "
            "distinct = distinct request"),
    ("C19", "every case of the decoder suite: valid files, fixtures, prefixes at structure boundaries and evenly spaced "
            "points, single-byte corruptions of header/control bytes, appended junk, random strings; distinct = distinct request"),
):
    PROPS[_pid] = {
        "lean": IMG_LEAN + [f"CocoVerif.Props.{_pid}"] + (["CocoVerif.Props.C19Bytes", "CocoVerif.Props.C19Rle"] if _pid == "C19" else [])
                + (["CocoVerif.Props.C16Art"] if _pid == "C16" else []),
        "lean_extra": ["CocoVerif.Props.Lemmas.Img", "CocoVerif.Model.Img", "CocoVerif.Spec.Img"],
        "suites": [{"name": "img", "relevant": IMG_RELEVANT[_pid], "oracle": OI.ORACLES[_pid],
                    "classify": img_classify}],
        "search": _img_search,
        "rule": _rule,
        "trusted": IMG_TRUSTED,
        "assumptions": ["image-format descriptions of DESIGN.md appendix A are the specification"],
    }


import suite_imgcli  # noqa: E402

for _pid, _rel in (("C18", lambda c: c["kind"] in ("cli-valid", "cli-fixture", "cli-option")), ("C19", lambda c: True)):
    PROPS[_pid]["suites"].append({"name": "imgcli", "relevant": _rel, "oracle": suite_imgcli.oracle,
                                  "classify": suite_imgcli.classify})
    PROPS[_pid]["rule"] += ("; imgcli: a sample of those cases (3 per format and kind, thorough 25) plus MAX header-error probes "
                            "with and without -i, decoded by the real start(argv) in a fresh interpreter as file->file, "
                            "file->stdout and stdin->stdout; each run must agree with the in-process convert() answer (same "
                            "bytes, or a reported failure: non-zero exit status / MAX output file removed)")

# --------------------------------------------------------------------------- transpiler

import oracles_b09 as OB  # noqa: E402

B09_LEAN_EXTRA = ["CocoVerif.Model.Ast", "CocoVerif.Model.Emit", "CocoVerif.Model.Visit", "CocoVerif.Model.Passes",
                  "CocoVerif.Model.Compile", "CocoVerif.Model.ProcBank", "CocoVerif.Model.Sexp"]
FRONT_SUITES = [{"name": "parse", "relevant": lambda c: True, "oracle": None},
                {"name": "front", "relevant": lambda c: True, "oracle": None},
                {"name": "e2e", "relevant": lambda c: True, "oracle": None}]
FRONT_LEAN = ["CocoVerif.Model.Peg", "CocoVerif.Model.Front", "CocoVerif.Model.AstPrint", "CocoVerif.Gen.Grammar",
              "CocoVerif.Gen.FrontTables"]

B09_TRUSTED = [
    "the transpiler is modelled in two halves: the post-parse half (object graph -> passes -> text -> bundle) receives the real "
    "front end's object graph as an S-expression dump (harness/dump_ast.py is part of the tie); the front half (Model/Peg.lean on "
    "Gen/Grammar.lean, Model/Front.lean) is tied by the parse / front / e2e suites where a property lists them",
    "modelled, not verified: that parsimonious implements the PEG semantics of Model/Peg.lean and Python `re` the regex semantics of "
    "Rx.ends (compared on every suite text, not proved); Python's float()/repr() for numeric literals (a parameter of the "
    "front-end model, supplied per request by the harness); pydantic/YAML loading of the string-size map; argparse; input is "
    "assumed ASCII for `\\d` and str.strip()",
    "no Color BASIC or BASIC09 interpreter exists offline: what BASIC09 makes of emitted text is harness/b09text.py, b09parse.py, "
    "exprsem.py, ctlsem.py and Spec/* (written from the language manuals)",
]


def b09_ok_with_deps(c):
    return c.get("fmt") == "b09" and c["opts"]["flags"][5] == "1" and c["opts"]["flags"][6] == "0"


def placeholder_in_comment(case):
    """the source holds `: STRING<<>>` (any case, any blanks) inside a REM / ' comment"""
    for line in OB.re.split(r"[\r\n]+", case.get("text", "")):
        code = OB.src_blank(line)                 # literals blanked, cut at REM / ' / DATA
        tail = line[len(code):]
        if OB.re.match(r"(?i)REM|'", tail) and OB.re.search(r"(?i):\s*STRING<<>>", tail):
            return True
    return False


def c13_classify(case, impl, why):
    if "is also a library procedure" in why:
        return "procname-equals-library-procedure"
    if "user's program text differs" in why and placeholder_in_comment(case):
        return "placeholder-in-comment"
    if "unreachable procedures bundled" in why:
        # a RUN inside a comment of the user's program is taken for a call
        text = OB.out_text(impl) or ""
        prog = OB.T.split_procedures(text.rstrip("\n"))[-1][1]
        named = {m.group(1) for l in prog for cm in OB.re.findall(r"\(\*.*?\*\)", l)
                 for m in OB.re.finditer(r"(?i)RUN\s+(\w+)", cm)}
        extra = set(OB.re.findall(r"'([^']+)'", why))
        procs, _, edges = OB.lib()
        if extra and extra <= OB.reach(edges, named):
            return "run-inside-comment"
    return None


def _b09_search(oracle, relevant):
    def search(pid, tier, findings):
        import suite_b09
        from common import rng
        # a fresh, larger stream of programs and options under a different tag
        old = suite_b09.rng
        suite_b09.rng = lambda tag: rng(tag + "-search-" + pid)
        try:
            res = suite_b09.run("quick")
        finally:
            suite_b09.rng = old
        found = []
        P = PROPS[pid]
        cls = P["suites"][0].get("classify", lambda c, i, w: None)
        for c, i, m in zip(res["cases"], res["impl"], res["model"]):
            if not relevant(c):
                continue
            why = oracle(c, i)
            if why:
                klass = cls(c, i, why)
                if not (m == i and any(f["status"] == "known" and f["class"] == klass for f in findings)):
                    found.append({"request": c["req"], "kind": c["kind"], "impl": i[:300], "model": m[:300],
                                  "why": why, "class": klass, "readable": show_case(c)[:600]})
        return found, len(res["cases"])
    return search


def _c13_oracle(c, i):
    return OB.c13(c, i, c.get("aux", {}).get("nodeps"))


PROPS["C13"] = {
    "lean": ["CocoVerif.Props.C13", "CocoVerif.Props.C13Subst", "CocoVerif.Props.C13Many"],
    "lean_extra": B09_LEAN_EXTRA + ["CocoVerif.Props.Lemmas.ProcBank"],
    "suites": [
        {"name": "b09", "relevant": b09_ok_with_deps, "oracle": _c13_oracle, "classify": c13_classify},
        {"name": "procbank", "relevant": lambda c: True},
    ],
    "search": _b09_search(_c13_oracle, b09_ok_with_deps),
    "rule": "b09: generated / example / unit-test / mutated programs converted with output_dependencies under several option "
            "sets (string sizes 32/80/255/1, procedure names incl. one that collides with a library procedure); procbank: "
            "synthetic libraries with hostile lines (RUN inside literals and comments, odd headers, placeholders in quotes) "
            "and single-line probes of the three regular expressions; distinct = distinct request, non-trivial = non-empty input",
    "trusted": B09_TRUSTED,
    "assumptions": ["`RUN name` outside string literals and comments is a call (b09text.py); OS-9 system modules: gfx, gfx2, syscall, inkey"],
}


B09_ORACLES = {"C13": _c13_oracle}


def b09_any(c):
    return c.get("fmt") == "b09"


def register_b09(pid, lean, oracle, classify, rule, relevant=b09_any, tie=None, extra_suites=(), lean_extra=(),
                 assumptions=()):
    PROPS[pid] = {
        "lean": list(lean),
        "lean_extra": B09_LEAN_EXTRA + list(lean_extra),
        "suites": [{"name": "b09", "relevant": relevant, "oracle": oracle, "classify": classify, "tie": tie}]
                  + list(extra_suites),
        "search": _b09_search(oracle, relevant),
        "rule": rule,
        "trusted": B09_TRUSTED,
        "assumptions": list(assumptions),
    }
    B09_ORACLES[pid] = oracle


import suite_layout as _SL  # noqa: E402


def _on_layout(orc):
    """judge the real output of every layout variant (dense spellings such as PALETTERGB included) with a b09 oracle"""
    def f(case, impl):
        if OB.src_comment_closes_early(case.get("text", "")):
            return None           # `*)` inside a comment ends it early (C07 finding): the rest of the line is not readable
        c = dict(case)
        c.setdefault("fmt", "b09")
        return orc(c, impl)
    return f


register_b09(
    "C14", ["CocoVerif.Props.C14", "CocoVerif.Props.C14Front"], OB.c14, OB.c14_classify,
    "every RUN call in the user's procedure of every converted program of the transpiler suite (generated programs cover all "
    "device statements, convertible functions, PRINT/HPRINT items, INPUT wrappers, empty-DATA filters with literal, variable, "
    "array, expression and nested-function operands); the call's arity and syntactic argument kinds are compared with the "
    "`param` lines of ecb.b09 read independently; distinct = distinct request",
    tie=OB.c14_tie,
    assumptions=["argument kind = syntactic category of the emitted argument (string literal / name ending in $ / record variable / else numeric)"],
    extra_suites=[{"name": "layout", "relevant": lambda c: True, "oracle": _on_layout(OB.c14),
                   "classify": lambda c, i, w: OB.c14_classify(c, i, w)}],
)


register_b09(
    "C15", ["CocoVerif.Props.C15", "CocoVerif.Props.C15Kinds"], OB.c15, OB.c15_classify,
    "every case of the transpiler suite: generated programs over all statement kinds, the bundled examples, the unit-test "
    "inputs, and the malformed stream (token deletion / duplication / swap, extreme literals such as 1E, ., +-1, &H, ((((), "
    "under random option sets incl. procedure names my_prog, 9x, a-b, ecb_cls and the empty name; "
    "a case is non-trivial when the text is non-empty; distinct = distinct request",
    assumptions=["documented refusals: ParseError / IncompleteParseError (grammar), ParseError (undefined line, duplicate handler), "
                 "LineNumberTooLargeException, pydantic ValidationError"],
    extra_suites=FRONT_SUITES, lean_extra=FRONT_LEAN,
)

register_b09(
    "C06", ["CocoVerif.Props.C06"], OB.c06, OB.c06_classify,
    "every converted or refused program of the transpiler suite (reference graphs from generated GOTO/GOSUB/ON..GOTO/THEN n/"
    "ELSE n/ON ERR/ON BRK statements incl. self references, line 0, missing lines 5/70000/99999, line numbers 32699/32700/40000), "
    "both values of filter_unused_linenum (each case is also converted with the flag flipped) and add_suffix on/off; labels and "
    "jump targets are read from the real output and from the source text independently; distinct = distinct request",
    lean_extra=["CocoVerif.Spec.Targets"],
    assumptions=["source line numbers pairwise distinct (cases with duplicates are skipped for the label checks)"],
)

register_b09(
    "C11", ["CocoVerif.Props.C11"], OB.c11,
    lambda c, i, w: "placeholder-in-comment" if "user's program text differs" in w and placeholder_in_comment(c) else None,
    "every converted program of the transpiler suite is converted again with each single option flipped (filter, init, width, "
    "dependencies, string storage 32 and 77) and the pair is compared as the option documents; the CLI suite runs the real "
    "start(argv) on scratch files over all 16 flag sets x file names (hyphen, blank, dots, no extension, upper case) x LF/CR/CRLF; "
    "distinct = distinct request",
    extra_suites=[{"name": "cli", "relevant": lambda c: not c["kind"].startswith("cli-config"), "oracle": OB.c11_cli}],
    lean_extra=["CocoVerif.Model.Cli"],
)

register_b09(
    "C10", ["CocoVerif.Props.C10"], OB.c10, OB.c10_classify,
    "every converted program of the transpiler suite x default_str_storage in {32, 80, 255, 1} x per-name size maps x "
    "initialize_vars: DIM statements are read from the real output (identifier, dimensions, STRING size) and compared with the "
    "source's DIM statements read independently; variables occur in every position the generator produces (only inside function "
    "arguments, only as READ/INPUT targets, only inside VARPTR, only as implicit arrays); distinct = distinct request",
    assumptions=["a comment containing `*)` makes the rest of the line unreadable for the oracle (C07 finding): such cases are skipped"],
)

import suite_cli as _SC  # noqa: E402

_CONFIG_SUITE = {"name": "cli", "relevant": lambda c: c["kind"].startswith("cli-config"), "oracle": _SC.config_oracle}
# the configuration file through the real command line: used when valid (C10), refused with the documented error when not (C15)
PROPS["C10"]["suites"].append(_CONFIG_SUITE)
PROPS["C15"]["suites"].append(_CONFIG_SUITE)
# every other command line of the cli suite (file names, line ends, file contents at the edge): never an internal exception
PROPS["C15"]["suites"].append({"name": "cli", "relevant": lambda c: not c["kind"].startswith("cli-config"),
                               "oracle": _SC.crash_oracle, "classify": _SC.crash_classify})

register_b09(
    "C07", ["CocoVerif.Props.C07", "CocoVerif.Props.C07Expr", "CocoVerif.Props.C07Stmt", "CocoVerif.Props.C07Lib"], OB.c07, OB.c07_classify, 
    "every converted program of the transpiler suite (grammar-directed programs over all statement kinds, the bundled examples, "
    "unit-test inputs, mutated programs, all option sets): the user's procedure in the real output is parsed with an independent "
    "BASIC09 statement/expression grammar (harness/b09parse.py): labels, backslash-separated complete statements, balanced "
    "IF/ELSE/ENDIF and LOOP/EXITIF/ENDEXIT/ENDLOOP, every operator and call with all operands, closed strings and comments, no "
    "leaked object; distinct = distinct request",
    tie=OB.c07_tie,
    assumptions=["FOR/NEXT pairing is not checked (the source may branch into loops); type correctness is not part of the property"],
)

register_b09(
    "C05", ["CocoVerif.Props.C05", "CocoVerif.Props.C05Place"], OB.c05, OB.c05_classify,
    "every converted program of the transpiler suite (generated expressions nest INT/VAL/STR$/HEX$/INSTR/STRING$/INKEY$/BUTTON/"
    "JOYSTK/POINT inside each other and inside built-in functions, in assignment, IF with and without ELSE / ELSE IF, FOR bounds, "
    "PRINT and PRINT@ items, subscripts on either side, ON selector, device operands): in the real output every temporary must be "
    "assigned by a call of the same statement group before it is read and never overwritten before use, and per source line the "
    "sequence of runtime calls must equal the source's convertible functions ordered innermost-first, left-to-right (read from "
    "the source text independently); distinct = distinct request",
    assumptions=["with filter_unused_linenum or an unlabelled line 0 the output cannot be cut into source lines: only the temporary "
                 "discipline is checked there"],
)

import suite_forms  # noqa: E402

register_b09(
    "C04", ["CocoVerif.Props.C04", "CocoVerif.Props.Front", "CocoVerif.Props.C04Front"], OB.c04, lambda c, i, w: None,
    "forms: every row of Spec.Device.forms (53 device statement / function forms, each presence/absence pattern of optional "
    "operands its own row) instantiated with sentinel operands and with operand expressions (sums, parentheses, signs, NOT, "
    "literals, hex, array elements, built-in calls, string expressions), converted by the real convert(); the RUN call found in "
    "the output must be the spec's procedure with every operand in the position of the parameter the spec names and the "
    "documented default elsewhere; b09: on all suite programs the buffer prologue must be present iff HBUFF is used and the two "
    "speed pokes must become play.octo assignments; distinct = distinct request",
    extra_suites=[{"name": "forms", "relevant": lambda c: True, "oracle": suite_forms.oracle, "classify": suite_forms.classify}]
                 + FRONT_SUITES,
    lean_extra=["CocoVerif.Spec.Device"] + FRONT_LEAN,
    assumptions=["operand values: the oracle compares the operand *texts* the converter writes for the same expression in an assignment"],
)

import suite_ctl  # noqa: E402

PROPS["C02"] = {
    "lean": ["CocoVerif.Props.C02", "CocoVerif.Props.C02Front"],
    "lean_extra": B09_LEAN_EXTRA + ["CocoVerif.Props.C07"],
    "suites": [{"name": "ctl", "relevant": lambda c: True, "oracle": suite_ctl.oracle, "classify": suite_ctl.classify}],
    "search": None,
    "rule": "17 probes + 120 (thorough: 1200) generated programs over multi-statement lines, IF/THEN/ELSE (nested, ELSE IF chains "
            "with and without ELSE, line-number and statement branches), FOR/NEXT (STEP, negative STEP, bare NEXT, NEXT lists, "
            "nested across lines, initially empty ranges), GOTO forward/backward with counters, GOSUB/RETURN, ON..GOTO/GOSUB, END, "
            "STOP; unique ascending line numbers, lexically nested loops; each with 2-4 input vectors (a first line setting the "
            "steering variables) and the four combinations of filter_unused_linenum x initialize_vars; the source runs on the "
            "Color BASIC reference machine and the real output on the BASIC09 reference machine and the event traces (PRINT items, "
            "END) are compared under a step budget; distinct = distinct (program, input vector, options)",
    "trusted": B09_TRUSTED + ["harness/ctlsem.py: reference machines for the control-flow fragment of Color BASIC (an IF owns the rest "
                              "of its line, FOR body runs at least once, bare NEXT closes the innermost FOR) and of BASIC09 (FOR tested "
                              "before the first pass, lexical FOR/NEXT and block pairing, BOOLEAN conditions)"],
    "assumptions": ["bounded execution is used only to find a differing trace; termination is judged relative to a step budget"],
}

import suite_sem  # noqa: E402


def _lib_value_search(pid, tier, findings):
    """The text of a value procedure of ecb.b09 changed (Tie.EcbText): run it as it is now and the pinned
    original in the library interpreter (harness/b09lib.py, parameters by reference) on the same argument
    lists and report the first on which the results differ."""
    import os
    import b09lib
    from common import REPO
    here = os.path.dirname(os.path.abspath(__file__))
    cur = open(os.path.join(REPO, "coco", "resources", "ecb.b09"), newline="").read()
    pin = open(os.path.join(here, "pinned_value_procs.b09"), newline="").read()
    try:
        diffs, skipped, n = b09lib.differential(cur, pin)
    except Exception as e:  # noqa: BLE001
        return [], 0
    found = []
    for name, args, alias, now, ref in diffs:
        call = f"RUN {name}(" + ", ".join(("<same variable as argument %d>" % (alias[0] + 1)) if alias and k == alias[1] else repr(a)
                                          for k, a in enumerate(args)) + ")"
        found.append({"request": "libvalue " + call, "kind": "library-procedure", "impl": now, "model": ref, "class": None,
                      "why": f"{call}: the procedure of ecb.b09 as it is now gives {now}, the text the value oracles were written "
                             f"against gives {ref} (result parameters, by reference)", "readable": call})
    return found, n


PROPS["C03"] = {
    "lean": ["CocoVerif.Props.C03", "CocoVerif.Props.Front", "CocoVerif.Tie.EcbText"],
    "lean_extra": B09_LEAN_EXTRA + FRONT_LEAN,
    "suites": [{"name": "sem", "relevant": lambda c: True, "oracle": suite_sem.oracle, "classify": suite_sem.classify}]
              + FRONT_SUITES,
    "search": _lib_value_search,
    "rule": "28 probes + 200 (thorough: 2500) generated programs mixing DIM with 1-3 dimensions and decimal or hex bounds (writes and "
            "reads at the corner indices 0 and N), implicit arrays (index 0..10, read before write, used only inside a function "
            "argument), DATA lines with numeric, exponent, hex, quoted, unquoted and empty items placed before / after / around "
            "their READs, READ into scalars, strings and array elements, RESTORE, PRINT lists in every arrangement of ; , and "
            "juxtaposition with leading, doubled and trailing separators and `?`, INPUT / LINE INPUT with and without prompt into "
            "scalars, strings and elements, LEFT$/RIGHT$/MID$/LEN/ASC/CHR$/VAL/STR$/INSTR/STRING$ at edge operands, reads of "
            "never-assigned variables; options: pre-initialisation on/off x line filter on/off, string storage 32 and 80, always "
            "with the standard prologue (base 0).  The source runs on the strict Color BASIC machine and the real output on the "
            "strict BASIC09 machine with the same input script; PRINT/INPUT event traces and final variable stores are compared; "
            "distinct = distinct (program, options)",
    "trusted": B09_TRUSTED + ["harness/ctlsem.py (strict mode): arrays 0..N after DIM N and 0..10 without, elements start as 0 / \"\", "
                              "READ order, RESTORE, empty item = 0 / \"\", PRINT number format `sign digits blank`, STR$ without trailing "
                              "blank, INPUT prompt + `? ` (Color BASIC side, from the manuals); BASE is declarative, an array needs a "
                              "DIM, index range base..base+n-1, READ is typed, PRINT of a REAL is `digits.`, data memory is not "
                              "cleared (BASIC09 side); ecb_str = blank + STR$ without trailing point + blank (from ecb.b09)"],
    "assumptions": ["programs for which Color BASIC stops with an error (SN for a string datum read into a number) are not compared",
                    "without pre-initialisation a never-assigned BASIC09 variable is taken to read as 0 / \"\" (the property only speaks "
                    "about reads when pre-initialisation was requested)",
                    "string values stay below 32 characters, so BASIC09's fixed string storage never truncates"],
}

import suite_layout  # noqa: E402

PROPS["C08"] = {
    "lean": ["CocoVerif.Props.C08", "CocoVerif.Props.Front"],
    "lean_extra": B09_LEAN_EXTRA + ["CocoVerif.Model.Cli"] + FRONT_LEAN,
    "suites": [{"name": "layout", "relevant": lambda c: True, "oracle": suite_layout.oracle, "classify": suite_layout.classify}]
              + FRONT_SUITES,
    "search": None,
    "rule": "base programs: 43 probes (one per statement kind, fully spaced), the bundled examples, test-suite programs and "
            "grammar-directed generated programs without optional blanks (quick 40+40+2, thorough 400+400+50); variants of each: "
            "every (quick: 10 sampled) single token boundary at 0/1/2 blanks with keyword/identifier boundaries keeping one, all "
            "boundaries minimal / 2 blanks / random, `?` for PRINT, empty lines first/between/last, a line of blanks, CR LF, bare CR, "
            "no final line end, trailing NUL, a blank inside a numeric literal next to E / sign / & / H, a blank between two digits, "
            "blanks before a line number; string literals, REM and ' comments and DATA item lists are never touched; each variant "
            "is converted by the real convert() and compared with the conversion of the base spelling (both rejected or "
            "byte-identical); distinct = distinct variant text",
    "trusted": B09_TRUSTED + ["harness/layout.py: the lexer that decides what a token boundary is (strings, REM / ' / DATA tails are "
                              "content; words, numbers, hex literals and operators are tokens)"],
    "assumptions": ["layouts are those of the property's quantifier: 0-2 blanks at token boundaries; tabs and lower case are not layout"],
}

import suite_expr  # noqa: E402


PROPS["C01"] = {
    "lean": ["CocoVerif.Props.C01", "CocoVerif.Props.C01Front", "CocoVerif.Props.C01Tokens", "CocoVerif.Props.C01Signs", "CocoVerif.Tie.EcbText"],
    "lean_extra": B09_LEAN_EXTRA + ["CocoVerif.Spec.Ladder"] + FRONT_LEAN,
    "suites": [{"name": "expr", "relevant": lambda c: True, "oracle": suite_expr.oracle, "classify": suite_expr.classify}]
              + FRONT_SUITES,
    "search": _lib_value_search,
    "rule": "every expression shape with up to 2 (thorough: 3) binary operators from + - * / ^ over the leaves A, B, 2, 3 with unary "
            "minus and parentheses at every position (exhaustive), 60 probes for AND/OR/NOT, comparisons, literal spellings "
            "(decimal, exponent, hex below and above $8000, blanks inside), signs, and random larger numeric / string / condition "
            "expressions with nested built-in and convertible functions, each in the contexts assignment, PRINT item, FOR bound, "
            "array index, ON selector, IF condition; the source is read with Color BASIC's precedence table and the real output "
            "with BASIC09's (hoisted RUN wrappers executed first) and both are evaluated on four environments; "
            "distinct = distinct statement",
    "trusted": B09_TRUSTED + ["harness/exprsem.py: Color BASIC's and BASIC09's precedence tables and the typing of BOOLEAN, written from "
                              "the manuals; both evaluators share every arithmetic primitive so only the operator trees can differ"],
    "assumptions": ["values for which Color BASIC raises an error (division by zero, overflow, illegal function call) are not compared"],
}

import suite_names  # noqa: E402

PROPS["C09"] = {
    "lean": ["CocoVerif.Props.C09", "CocoVerif.Props.Front", "CocoVerif.Props.C09Init"],
    "lean_extra": ["CocoVerif.Model.Names"] + FRONT_LEAN,
    "suites": [{"name": "names", "relevant": lambda c: True, "oracle": suite_names.oracle, "classify": suite_names.classify}]
              + FRONT_SUITES,
    "search": None,
    "rule": "all 26 one-letter names, 120 (thorough: all 936) two-character names and sampled longer names up to 6 characters, in "
            "25 one-line templates covering every position a variable can occupy (assignment target, expression, FOR, NEXT, "
            "READ/INPUT target, DIM, VARPTR, subscript on either side) for the four kinds; the identifier the real convert() "
            "emitted is read back and compared with Model.Names.xl and with Color BASIC's identity rule; names the grammar refuses "
            "(keyword prefixes) are outside the domain; distinct = distinct (template, name)",
    "trusted": ["modelled by hand: the three visitor lines that truncate names (visit_var, visit_str_var, BasicArrayRef); the "
                "grammar's var / str_var regular expressions run as real code"],
    "assumptions": ["names match the grammar's var / str_var pattern: a letter followed by letters and digits"],
}

import suite_det  # noqa: E402

PROPS["C12"] = {
    "lean": ["CocoVerif.Props.C12"],
    "lean_extra": B09_LEAN_EXTRA + ["CocoVerif.Props.Lemmas.ProcBank"],
    "suites": [{"name": "det", "relevant": lambda c: True, "oracle": suite_det.oracle},
               {"name": "b09", "relevant": b09_any}],
    "search": None,
    "rule": "det: programs with several implicit arrays, several string sizes and several runtime dependencies (fixed probes + "
            "generated), all with the same procedure name, plus decoder inputs, each converted twice in each of 8 (thorough: 32) "
            "fresh interpreters with different PYTHONHASHSEED and an own shuffled order; every run must give the single output the "
            "model gives; b09: the transpiler correspondence suite; distinct = distinct request",
    "trusted": B09_TRUSTED + ["runtime behaviour the model cannot exhibit (hash seeds, process boundaries, module-level state "
                              "surviving between calls) is exercised by the det suite, not proved"],
    "assumptions": [],
}

# … and through the command line: a call of start(argv) equals the same command line in a fresh process
PROPS["C12"]["suites"].append({"name": "cli", "relevant": lambda c: True, "oracle": _SC.fresh_oracle})

import suite_lib  # noqa: E402

# C03 says INSTR / STRING$ / VAL of an empty datum keep their meaning: the translation sends them to the
# runtime's ecb_instr / ecb_string / ecb_read_filter, whose correctness is C20 - so C03 carries C20's tie
# (the helper bodies of ecb.b09 as they are now = the pinned ASTs the theorems are about) and its oracle
PROPS["C03"]["lean"] += ["CocoVerif.Tie.EcbHelpers", "CocoVerif.Props.C20"]
PROPS["C03"]["lean_extra"] += ["CocoVerif.Model.B09Lib", "CocoVerif.Spec.Strings", "CocoVerif.Pinned.EcbHelpers"]
PROPS["C03"]["suites"].append({"name": "lib", "relevant": lambda c: True, "oracle": suite_lib.oracle})
# C20, third clause: "the item's numeric value otherwise" - the value that reaches the read filter is the text the tool
# writes for the DATA item; the DATA value probes of the sem suite (items over twenty orders of magnitude, with an empty
# item so that every number goes through its text) are judged for C20 too
_C20_DATA = {"name": "sem", "relevant": lambda c: c.get("kind") == "data-value-probe", "oracle": suite_sem.oracle,
             "classify": suite_sem.classify}

PROPS["C20"] = {
    "lean": ["CocoVerif.Tie.EcbHelpers", "CocoVerif.Props.C20"],
    "lean_extra": ["CocoVerif.Model.B09Lib", "CocoVerif.Spec.Strings", "CocoVerif.Pinned.EcbHelpers"],
    "suites": [{"name": "lib", "relevant": lambda c: True, "oracle": suite_lib.oracle}, _C20_DATA],
    "search": _lib_value_search,
    "rule": "exhaustive: every subject over {A,B} up to length 4 (6 thorough) x every pattern up to length 3 (4) x every start "
            "index 1..len+2, plus long probes; STRING$ counts (all 0..255 in thorough) x 5 arguments incl. empty and negative counts; "
            "10 DATA spellings for the read filter; each case runs the procedure as translated from ecb.b09 on this run in the "
            "B09Lib interpreter and compares with an independent Python definition; distinct = distinct request",
    "trusted": ["no BASIC09 exists offline: Model/B09Lib.lean (semantics of the statement subset: integers for numbers, unbounded "
                "strings, MID$(s,a,n) = (s.drop (a-1)).take n with an error for a<1 or n<0, VAL as a parameter) is the trusted "
                "reading of BASIC09; there is NO correspondence run for this property, the tie is the translator plus "
                "Tie.EcbHelpers (regenerated AST = pinned AST, by rfl)",
                "BASIC09 truncates STRING parameters to their declared length (32 by default): not modelled"],
    "assumptions": ["start indices >= 1 (Color BASIC raises ?FC ERROR below 1)"],
}

# C12 for the decoders' command lines: the same bytes whatever the I/O arrangement, a pipe filled in pieces included
PROPS["C12"]["suites"].append({"name": "imgcli", "relevant": lambda c: c["kind"] in ("cli-valid", "cli-fixture", "cli-option"),
                               "oracle": suite_imgcli.oracle, "classify": suite_imgcli.classify})
# C08 through the command line: line-end spellings of one file (the cli suite's cli-eol cases)
PROPS["C08"]["suites"].append({"name": "cli", "relevant": lambda c: c["kind"] == "cli-eol", "oracle": _SC.eol_oracle})
PROPS["C08"]["lean_extra"] = list(PROPS["C08"]["lean_extra"]) + ["CocoVerif.Model.Cli"]
# C20 also depends on how the tool calls the helpers: the b09 suite's real outputs are judged by the aliasing rule
PROPS["C20"]["suites"].append({"name": "b09", "relevant": b09_any, "oracle": OB.c20_alias, "classify": OB.c20_alias_classify})
PROPS["C20"]["lean_extra"] = list(PROPS["C20"]["lean_extra"]) + B09_LEAN_EXTRA
B09_ORACLES["C20"] = OB.c20_alias
PROPS["C03"]["suites"].append({"name": "b09", "relevant": b09_any, "oracle": OB.c20_alias, "classify": OB.c20_alias_classify})


# --------------------------------------------------------------------------- witnesses / replay

def replay_request(pid, request):
    """Run one stored request against the real code and judge it with the property oracle."""
    if request.startswith("lib "):
        from common import run_driver
        ans = run_driver([request])[0]
        for c in suite_lib.cases("thorough"):
            if c["req"] == request:
                return suite_lib.oracle(c, ans)
        return None
    if request.startswith("b09 "):
        import impl_b09
        from common import unhex
        _, flags, storage, pn, sizes, text = request.split(" ")
        szs = [(kv.split("=")[0], int(kv.split("=")[1])) for kv in unhex(sizes).decode().split(",") if kv]
        w = {"type": "b09", "text": unhex(text).decode(), "oracle": pid,
             "opts": {"flags": flags, "storage": int(storage), "procname": unhex(pn).decode(), "sizes": szs}}
        return replay_witness({"property": pid, "id": "replay", "witness": w})
    if request.startswith("img "):
        import impl_img
        from common import unhex
        impl = impl_img.run_request(request)
        parts = request.split(" ")
        case = {"fmt": parts[1], "kind": "replay", "req": request, "data": unhex(parts[-1])}
        return OI.c19(case, impl) if pid in ("C18", "C19") else None
    raise ValueError(request)


# every property of the transpiler depends on the front end (grammar, visitor, constructors): the parse / front / e2e suites
# (the whole tool in the model, on generated texts and on the probe programs of all property suites) are attached to all of them,
# so that a change confined to the front end is at least a correspondence disagreement for the property it can break
for _pid in ("C02", "C05", "C06", "C07", "C10", "C11", "C12", "C13", "C14"):
    _have = {s_["name"] for s_ in PROPS[_pid]["suites"]}
    PROPS[_pid]["suites"] += [s_ for s_ in FRONT_SUITES if s_["name"] not in _have]
    PROPS[_pid]["lean_extra"] = list(PROPS[_pid].get("lean_extra", [])) + [m for m in FRONT_LEAN if m not in PROPS[_pid].get("lean_extra", [])]

# the regular expressions of procbank.py / grammar.py, the way they are used, and the numeric constants the models carry by
# hand are regenerated (Gen.Consts) and must equal the pinned copy the models were written against (Tie.Consts)
for _pid in ("C04", "C06", "C10", "C11", "C13", "C15"):
    PROPS[_pid]["lean"].append("CocoVerif.Tie.Consts")


def replay_witness(f):
    """Reason string when the property (still / again) fails on a stored witness, else None."""
    w = f["witness"]
    if isinstance(w, dict) and w.get("type") == "img-builder":
        import gens_img as G
        from common import rng
        import impl_img
        case = getattr(G, w["builder"])(rng("witness-" + f["id"]), **w.get("args", {}))
        impl = impl_img.run_request(case["req"])
        return OI.ORACLES[w.get("oracle", f["property"])](case, impl)
    if isinstance(w, dict) and w.get("type") == "img-request":
        import impl_img
        from common import unhex
        impl = impl_img.run_request(w["request"])
        parts = w["request"].split(" ")
        case = {"fmt": parts[1], "kind": w.get("kind", "valid"), "req": w["request"], "data": unhex(parts[-1])}
        case.update(w.get("case", {}))
        return OI.ORACLES[w.get("oracle", f["property"])](case, impl)
    if isinstance(w, dict) and w.get("type") == "ctl":
        import impl_b09
        o = {"flags": w.get("flags", "0100000"), "storage": 32, "procname": "", "sizes": []}
        case = {"text": w["text"], "opts": o}
        return suite_ctl.oracle(case, impl_b09.convert(w["text"], o))
    if isinstance(w, dict) and w.get("type") == "names":
        tpl = {t.format(v=w["name"]): rx for _, t, rx in suite_names.TEMPLATES}
        here = suite_names.impl_ident(w["text"], tpl[w["text"]])
        other = suite_names.impl_ident(w["other"], tpl[w["other"]])
        from common import hexs
        as_var = "ok " + hexs(suite_names.expected(w["name"], w["kind"]).encode())
        case = {"name": w["name"], "kind": w["kind"], "text": w["text"],
                "aux": {"not_var": [] if other == as_var or other.startswith("rejected") else [w["other"]]}}
        return suite_names.oracle(case, here)
    if isinstance(w, dict) and w.get("type") == "layout":
        import impl_b09
        case = {"kind": w["kind"], "text": w["text"], "base": w["base"], "detail": "", "opts": suite_layout.OPTS,
                "aux": {"base": impl_b09.convert(w["base"], suite_layout.OPTS)}}
        return suite_layout.oracle(case, impl_b09.convert(w["text"], suite_layout.OPTS))
    if isinstance(w, dict) and w.get("type") == "sem":
        import impl_b09
        o = {"flags": w.get("flags", "1100100"), "storage": w.get("storage", 32), "procname": "", "sizes": []}
        case = {"text": w["text"], "opts": o}
        return suite_sem.oracle(case, impl_b09.convert(w["text"], o), quiet=True)
    if isinstance(w, dict) and w.get("type") == "expr":
        import impl_b09
        case = {"text": w["text"], "ctx": w["ctx"], "ekind": w["ekind"], "expr": w["expr"], "opts": suite_expr.OPTS}
        return suite_expr.oracle(case, impl_b09.convert(w["text"], suite_expr.OPTS))
    if isinstance(w, dict) and w.get("type") == "form":
        res = suite_forms.run("quick")
        for c, i in zip(res["cases"], res["impl"]):
            if c["text"] == w["text"]:
                return suite_forms.oracle(c, i)
        # not among the quick cases: build it from the thorough list
        res = suite_forms.run("thorough")
        for c, i in zip(res["cases"], res["impl"]):
            if c["text"] == w["text"]:
                return suite_forms.oracle(c, i)
        return None
    if isinstance(w, dict) and w.get("type") == "det":
        import os
        import subprocess
        from common import PY, REPO
        outs = set()
        code = ("import sys; sys.path.insert(0, %r); from coco.b09.compiler import convert; "
                "sys.stdout.write(convert(%r, add_standard_prefix=False))" % (REPO, w["text"]))
        for seed_ in range(6):
            env = dict(os.environ, PYTHONHASHSEED=str(seed_))
            outs.add(subprocess.run([PY, "-c", code], capture_output=True, text=True, env=env).stdout)
        return None if len(outs) == 1 else f"{len(outs)} different outputs under PYTHONHASHSEED 0..5"
    if isinstance(w, dict) and w.get("type") == "libvalue":
        import os
        import b09lib
        from common import REPO
        cur = open(os.path.join(REPO, "coco", "resources", "ecb.b09"), newline="").read()
        try:
            ans = b09lib.run_once(b09lib.Lib(cur), w["proc"], list(w["args"]), list(w["outs"]), None)
        except b09lib.Unsupported as e:
            ans = f"unsupported {e}"
        return None if ans == w["expect"] else f"RUN {w['proc']}{tuple(w['args'])} -> {ans}, expected {w['expect']}"
    if isinstance(w, dict) and w.get("type") == "lib":
        from common import run_driver
        ans = run_driver([w["request"]])[0]
        return None if ans == w["expect"] else f"{w['request']} -> {ans}, expected {w['expect']}"
    if isinstance(w, dict) and w.get("type") == "b09":
        import impl_b09
        o = w["opts"]
        impl = impl_b09.convert(w["text"], o)
        case = {"fmt": "b09", "kind": "witness", "text": w["text"], "opts": o, "req": "b09", "aux": {}}
        if o["flags"][5] == "1" and impl.startswith("ok "):
            case["aux"]["nodeps"] = impl_b09.convert(w["text"], dict(o, flags=o["flags"][:5] + "0" + o["flags"][6:]))
        orc = B09_ORACLES[w.get("oracle", f["property"])]
        return orc(case, impl)
    raise ValueError(f"unknown witness type in {f['id']}")

