"""Property oracles for the transpiler properties, judged on the REAL code's output with an
independent reader of BASIC09 text (b09text.py) and of the library file.  Each oracle returns
None (holds / not applicable) or a reason string."""
import functools
import os
import re

import b09text as T
from common import REPO, unhex

SYSTEM_MODULES = {"gfx", "gfx2", "syscall", "inkey"}


def out_text(impl):
    return unhex(impl[3:]).decode("utf-8") if impl.startswith("ok ") else None


def flag(case, i):
    return case["opts"]["flags"][i] == "1"


# --------------------------------------------------------------------------- the library, read independently

@functools.lru_cache(maxsize=4)
def library(mtime):
    with open(os.path.join(REPO, "coco", "resources", "ecb.b09"), newline="") as f:
        text = f.read().replace("\r\n", "\n").replace("\r", "\n")
    procs = {}
    order = []
    for name, lines in T.split_procedures(text):
        if name is None:
            continue
        procs[name] = lines
        order.append(name)
    edges = {n: sorted({c[0] for line in lines for c in T.run_calls(T.code_tokens(line))}) for n, lines in procs.items()}
    return procs, order, edges


def lib():
    p = os.path.join(REPO, "coco", "resources", "ecb.b09")
    return library(os.path.getmtime(p))


def reach(edges, roots):
    seen, todo = set(), list(roots)
    while todo:
        n = todo.pop()
        if n in seen:
            continue
        seen.add(n)
        todo += edges.get(n, [])
    return seen


# --------------------------------------------------------------------------- C13

def c13(case, impl, no_deps_impl=None):
    o = case["opts"]
    if not (flag(case, 5) and not flag(case, 6)):
        return None
    text = out_text(impl)
    if text is None:
        return None
    procs, order, edges = lib()
    want_name = o["procname"] if re.fullmatch(r"[a-zA-Z0-9_]+", o["procname"]) else "program"
    parts = T.split_procedures(text.rstrip("\n"))
    if not parts or parts[0][0] is None:
        return "text before the first procedure header"
    names = [n for n, _ in parts]
    if names[-1] != want_name:
        return f"the program's procedure {want_name!r} is not last (last is {names[-1]!r})"
    others = names[:-1]
    if sorted(set(others)) != others:
        return f"bundled procedures not in ascending order / not unique: {others[:6]}…"
    prog_lines = parts[-1][1]
    prog_edges = sorted({c[0] for line in prog_lines for c in T.run_calls(T.code_tokens(line))})
    e = dict(edges)
    e[want_name] = prog_edges
    need = {n for n in reach(e, [want_name]) if n in procs and n != want_name}
    have = set(others)
    if want_name in procs:
        return f"the program's procedure name {want_name!r} is also a library procedure: the library's one is replaced"
    if need - have:
        return f"reachable runtime procedures missing from the bundle: {sorted(need - have)[:5]}"
    if have - need:
        return f"unreachable procedures bundled: {sorted(have - need)[:5]}"
    for n, lines in parts:
        for line in lines:
            if T.has_placeholder(line):
                return f"string-size placeholder left in {n}: {line.strip()[:60]}"
            for callee, _, _ in T.run_calls(T.code_tokens(line)):
                if callee not in have and callee != want_name and callee.lower() not in SYSTEM_MODULES:
                    return f"RUN {callee} in {n} names nothing in the bundle"
    st = o["storage"]
    repl = ": STRING" + ("" if st == 32 else f"[{st}]")
    for n, lines in parts[:-1]:
        exp = [re.sub(r"(?i):\s*STRING<<>>", repl, l) if T.has_placeholder(l) else l for l in procs[n]]
        while exp and exp[-1].strip() == "":
            exp.pop()
        got = list(lines)
        while got and got[-1].strip() == "":
            got.pop()
        if [l.rstrip() for l in got] != [l.rstrip() for l in exp]:
            return f"library procedure {n} was altered in the bundle"
    if no_deps_impl is not None:
        plain = out_text(no_deps_impl)
        # ProcedureBank strips white space at both ends of a procedure's text
        if plain is not None and "\n".join(prog_lines[1:]).strip() != plain.strip():
            return "the user's program text differs between the bundled and the unbundled output"
    return None


# --------------------------------------------------------------------------- C14

def lib_signatures():
    """name -> [kind] read independently from the `param` lines of ecb.b09"""
    procs, order, _ = lib()
    sigs = {}
    for n, lines in procs.items():
        kinds = []
        for line in lines:
            m = re.match(r"(?i)\s*param\s+(.*)$", line)
            if not m:
                continue
            for grp in m.group(1).split(";"):
                ids, typ = grp.rsplit(":", 1)
                t = typ.strip().lower()
                kind = "string" if t.startswith("string") else ("numeric" if t in ("real", "integer", "byte", "boolean") else "record:" + t)
                kinds += [kind] * len(ids.split(","))
        sigs[n] = kinds
    return sigs


RECORD_VARS = {"display": "record:display_t", "play": "record:play_t"}


def emitted_arg_kind(toks):
    """kind of an emitted argument, from its syntactic category"""
    if not toks:
        return "empty"
    while len(toks) >= 2 and toks[0] == ("op", "(") and toks[-1] == ("op", ")"):
        toks = toks[1:-1]
    if not toks:
        return "empty"
    k, t = toks[0]
    if len(toks) == 1 and k == "id" and t in RECORD_VARS:
        return RECORD_VARS[t]
    if k == "str" or (k == "id" and t.endswith("$")):
        return "string"
    return "numeric"


def program_lines(case, text):
    """the lines of the user's procedure (the whole text when no bundle was requested)"""
    if flag(case, 5) and not flag(case, 6):
        parts = T.split_procedures(text.rstrip("\n"))
        return parts[-1][1][1:] if parts and parts[-1][0] is not None else text.split("\n")
    return text.split("\n")


def emitted_calls(case, impl):
    text = out_text(impl)
    if text is None:
        return []
    out = []
    for line in program_lines(case, text):
        for callee, args, _ in T.run_calls(T.code_tokens(line)):
            out.append((callee, [emitted_arg_kind(a) for a in (args or [])], line))
    return out


def c14(case, impl):
    sigs = lib_signatures()
    for callee, kinds, line in emitted_calls(case, impl):
        if callee not in sigs:
            if callee.lower() in SYSTEM_MODULES:
                continue
            return f"RUN {callee}: no such procedure in the bundled library | {line.strip()[:80]}"
        want = sigs[callee]
        if len(want) != len(kinds):
            return f"RUN {callee}: {len(kinds)} arguments for {len(want)} parameters | {line.strip()[:80]}"
        for k, (w, g) in enumerate(zip(want, kinds)):
            if w != g:
                return f"RUN {callee}: argument {k + 1} is {g}, parameter is {w} | {line.strip()[:80]}"
    # calls between the bundled library procedures themselves: the argument count must be the callee's
    text = out_text(impl)
    if text and flag(case, 5) and not flag(case, 6):
        for name, lines in T.split_procedures(text.rstrip("\n"))[:-1]:
            for line in lines:
                for callee, args, _ in T.run_calls(T.code_tokens(line.rstrip("\r"))):
                    if callee in sigs and args is not None and len(args) != len(sigs[callee]):
                        return (f"library procedure {name}: RUN {callee} with {len(args)} arguments for "
                                f"{len(sigs[callee])} parameters | {line.strip()[:80]}")
    # a record passed between procedures must be declared field for field alike in each of them
    if text:
        seen = {}
        for line in text.split("\n"):
            m = re.match(r"(?i)^\s*type\s+(\w+)\s*=\s*(.*)$", line.rstrip("\r"))
            if m:
                name = m.group(1).lower()
                body = re.sub(r"\s+", "", m.group(2)).lower()
                if name in seen and seen[name] != body:
                    return f"record type {name} is declared differently in two procedures of the output: {seen[name][:70]} / {body[:70]}"
                seen.setdefault(name, body)
    return None


def c14_classify(case, impl, why):
    if why.startswith("RUN ecb_joystk: 2 arguments for 6"):
        return "joystk-arity"
    if why.startswith("RUN ecb_str: argument 2 is numeric") or why.startswith("RUN ecb_hprint: argument 3 is numeric"):
        return "hprint-numeric-item"
    if "is empty" in why:
        return "empty-operand"
    return None


_TABLE = {}


def c14_table():
    if "t" not in _TABLE:
        from common import run_driver
        ans = run_driver(["c14table"])[0]
        rows = set()
        for row in ans[3:].split(";"):
            proc, kinds, _ = row.split("|")
            rows.add((proc, tuple(k for k in kinds.split(",") if k)))
        _TABLE["t"] = rows
    return _TABLE["t"]


def c14_tie(case, impl):
    """every emitted call has a shape of the pinned table the theorems are about"""
    rows = c14_table()
    for callee, kinds, line in emitted_calls(case, impl):
        if "empty" in kinds:
            continue
        if (callee, tuple(kinds)) not in rows:
            return f"call shape not in the pinned table: {callee}({', '.join(kinds)}) | {line.strip()[:80]}"
    return None


# --------------------------------------------------------------------------- C15

def c15(case, impl):
    if impl.startswith("internal "):
        return f"conversion failed with an internal exception: {impl[9:]}"
    if impl.startswith("timeout"):
        return "conversion did not terminate within the time limit"
    return None


def c15_classify(case, impl, why):
    """the class is the raise site, found by re-running the real code and looking at the exception"""
    import impl_b09
    from coco.b09 import compiler
    try:
        compiler.convert(case["text"], **impl_b09.opts_to_kwargs(case["opts"]))
    except RecursionError:
        return "deep-nesting-recursion"
    except Exception as e:  # noqa: BLE001
        msg = str(e)
        if "could not convert string to float" in msg:
            return "literal-float-valueerror"
        if "'HexLiteral' object has no setter" in msg:
            return "hex-data-with-empty-item"
        if "'Node' object has no attribute 'visit'" in msg:
            return "leaked-parse-node"
        return None
    return None


# --------------------------------------------------------------------------- source-level scanning (Color BASIC side)

def src_blank(line):
    """a source line with string literals blanked and everything after REM / ' / DATA removed"""
    out, i, n = [], 0, len(line)
    while i < n:
        ch = line[i]
        if ch == '"':
            j = line.find('"', i + 1)
            j = n if j < 0 else j + 1
            out.append(" " * (j - i))
            i = j
            continue
        if ch == "'" or line.startswith("REM", i):
            break
        if line.startswith("DATA", i):
            # a DATA statement ends at the next colon outside a quoted item
            j, inq = i + 4, False
            while j < n and (inq or line[j] != ":"):
                if line[j] == '"':
                    inq = not inq
                j += 1
            out.append(" " * (j - i))
            i = j
            continue
        out.append(ch)
        i += 1
    return "".join(out)


def src_comment_closes_early(text):
    """a REM / ' comment whose text contains `*)` (it would end the BASIC09 comment early: C07)"""
    for raw in re.split(r"[\r\n]+", text):
        code = src_blank(raw)
        if "*)" in raw[len(code):]:
            return True
    return False


def src_scan(text):
    """(line numbers, jump targets, #ON ERR, #ON BRK) of a source program, read from the text"""
    nums, targets, n_err, n_brk = [], [], 0, 0
    for raw in re.split(r"[\r\n]+", text.replace("\x00", "")):
        m = re.match(r"\s*(\d+)", raw)
        if not m:
            continue
        nums.append(int(m.group(1)))
        body = src_blank(raw[m.end():])
        n_err += len(re.findall(r"ON *ERR *GOTO", body))
        n_brk += len(re.findall(r"ON *BRK *GOTO", body))
        for mm in re.finditer(r"(?:GOTO|GOSUB) *(\d+(?: *, *\d+)*)", body):
            targets += [int(x) for x in re.findall(r"\d+", mm.group(1))]
        for mm in re.finditer(r"(?:THEN|ELSE) *(\d+)(?= *(?:ELSE|:|$))", body):
            targets.append(int(mm.group(1)))
    return nums, targets, n_err, n_brk


# --------------------------------------------------------------------------- output-level reading of labels and jumps

def out_labels_and_targets(lines):
    labels, targets = [], []
    for line in lines:
        lab, rest = T.line_label(line)
        if lab is not None:
            labels.append(lab)
        toks = T.code_tokens(rest)
        for i, (k, t) in enumerate(toks):
            if k == "id" and t.upper() in ("GOTO", "GOSUB"):
                j = i + 1
                while j < len(toks) and toks[j][0] == "num":
                    targets.append(int(float(toks[j][1])))
                    j += 1
                    if j < len(toks) and toks[j] == ("op", ","):
                        j += 1
                    else:
                        break
            if k == "id" and t.upper() == "THEN" and i + 1 < len(toks) and toks[i + 1][0] == "num" \
                    and (i + 2 == len(toks) or toks[i + 2] == ("op", "\\")):
                targets.append(int(float(toks[i + 1][1])))
    return labels, targets


def strip_labels(lines):
    """the lines without their labels; empty lines at the end do not count (the bank strips the end of a procedure,
    so a last line that holds only a label disappears with it)"""
    out = [T.line_label(l)[1] for l in lines]
    while out and out[-1].strip() == "":
        out.pop()
    return out


# --------------------------------------------------------------------------- C06

def c06(case, impl):
    text = case["text"]
    nums, stargets, n_err, n_brk = src_scan(text)
    must_refuse = None
    if any(n > 32699 for n in nums):
        must_refuse = "a line number above 32699"
    elif n_err > 1 or n_brk > 1:
        must_refuse = "more than one ON ERR / ON BRK"
    elif any(t not in nums for t in stargets):
        must_refuse = f"a jump to the missing line {next(t for t in stargets if t not in nums)}"
    out = out_text(impl)
    if out is None or src_comment_closes_early(text):
        return None
    if must_refuse and len(set(nums)) == len(nums):
        return f"converted although the source has {must_refuse}"
    lines = program_lines(case, out)
    labels, targets = out_labels_and_targets(lines)
    if len(set(labels)) != len(labels):
        dup = next(l for l in labels if labels.count(l) > 1)
        if nums.count(dup) > 1:
            return None       # duplicate source line numbers: outside the property's precondition
        return f"label {dup} occurs on more than one line"
    for t in targets:
        if t not in labels:
            return f"jump to {t} but no emitted line carries that label"
    handler = (n_err + n_brk) > 0
    want = set(nums)
    if flag(case, 3):
        want = {n for n in nums if n in stargets}
    elif 0 in want and 0 not in stargets:
        want.discard(0)
    if handler and flag(case, 1):
        want.add(32700)
    if len(set(nums)) == len(nums) and set(labels) != want:
        extra, missing = sorted(set(labels) - want), sorted(want - set(labels))
        return f"labels differ from what the option documents: unexpected {extra[:4]}, missing {missing[:4]}"
    flipped = out_text(case.get("aux", {}).get("flip_filter", "")) if case.get("aux") else None
    if flipped is not None and strip_labels(lines) != strip_labels(program_lines(case, flipped)):
        return "label filtering changed a statement (outputs differ beyond labels)"
    if handler and flag(case, 1):
        k = next((i for i, l in enumerate(lines) if T.line_label(l)[0] == 32700), None)
        if k is None:
            return "a handler is requested but there is no dispatcher line 32700"
        disp = [re.sub(r"\s+", " ", l.strip()) for l in lines[k:] if l.strip()]
        exp = ["32700 ERNO := errnum"]
        _, st2, _, _ = src_scan(text)
        brk = re.search(r"ON *BRK *GOTO *(\d+)", "\n".join(src_blank(l) for l in re.split(r"[\r\n]+", text)))
        err = re.search(r"ON *ERR *GOTO *(\d+)", "\n".join(src_blank(l) for l in re.split(r"[\r\n]+", text)))
        if brk:
            exp.append(f"IF ERNO = 2 THEN {int(brk.group(1))}")
        if err:
            exp.append(f"GOTO {int(err.group(1))}")
        if disp != exp:
            return f"dispatcher is {disp[:3]} instead of {exp}"
    return None


def c06_classify(case, impl, why):
    if not flag(case, 1) and ("32700" in why):
        return "handler-without-suffix"
    return None


# --------------------------------------------------------------------------- C11

INIT_LINE = re.compile(r'^\s*(?:[A-Z][A-Z0-9]?\$? := (?:0\.0|0|"")|FOR tmp_1 = 0 TO .* \\ NEXT tmp_1)$')


def c11(case, impl):
    out = out_text(impl)
    aux = case.get("aux") or {}
    if out is None or not aux:
        return None
    lines = out.rstrip("\n").split("\n")

    def other(key):
        t = out_text(aux.get(key, ""))
        return None if t is None else t.rstrip("\n").split("\n")

    # label filtering only removes labels
    o = other("flip_filter")
    if o is not None:
        a, b = (lines, o) if flag(case, 3) else (o, lines)     # a = filtered
        if strip_labels(a) != strip_labels(b):
            return "filter_unused_linenum changed more than labels"
        la = [T.line_label(l)[0] for l in a]
        lb = [T.line_label(l)[0] for l in b]
        if any(x is not None and x != y for x, y in zip(la, lb)):
            return "filter_unused_linenum added or changed a label"
        # ... and only labels nothing jumps to: every jump of the filtered output still has its line
        labels, targets = out_labels_and_targets(program_lines(case, "\n".join(a)))
        missing = [t for t in targets if t not in labels]
        if missing and "*)" not in case.get("text", "") and all(t in [x for x in lb if x is not None] for t in missing):
            return f"filter_unused_linenum removed the label {missing[0]} although the output jumps to it"
    # disabling pre-initialisation only removes prologue assignments and fill loops
    o = other("flip_init")
    if o is not None:
        on, off = (lines, o) if flag(case, 4) else (o, lines)
        it = iter(on)
        extra = []
        for l in off:
            for m in it:
                if m == l:
                    break
                extra.append(m)
            else:
                return "initialize_vars=False output is not contained in the initialize_vars=True output"
        extra += list(it)
        bad = [l for l in extra if not INIT_LINE.match(l) and l != ""]
        if bad:
            return f"initialize_vars changed more than initialisations: {bad[0][:60]!r}"
    # the width flag only changes the start-up call's flag
    o = other("flip_width")
    if o is not None:
        diff = [(x, y) for x, y in zip(lines, o) if x != y]
        if len(lines) != len(o) or any(not (x.startswith("RUN _ecb_start(display, ") and y.startswith("RUN _ecb_start(display, ")) for x, y in diff):
            return "default_width32 changed more than the start-up call"
        if flag(case, 0) and len(diff) != 1:
            return "default_width32 did not change the start-up call"
    # the string-size option declares only what the program does not declare itself: a prologue
    # allocation line never repeats a declaration (BASIC09 refuses a second DIM of a variable)
    alloc = [m.group(1) for m in (re.match(r"^DIM (\S+):STRING\[\d+\]$", l) for l in lines) if m]
    if alloc:
        try:
            declared = [d[0] for d in out_decls(lines)]
        except Exception:  # noqa: BLE001
            declared = []
        twice = [a for a in alloc if declared.count(a) > 1]
        if twice:
            return f"the string-size option adds a second declaration of {twice[0]}, which the program declares itself"
    # the default string size only changes declared string sizes
    for key in ("storage_32", "storage_77"):
        o = other(key)
        if o is not None:
            def norm(ls):
                out = []
                for l in ls:
                    if re.match(r"^DIM \S+:STRING\[\d+\]$", l):
                        continue                      # the allocation lines of the prologue
                    l = re.sub(r"(?i):\s*STRING\[\d+\]", ": STRING", l)
                    l = re.sub(r"(?i):\s*STRING\b", ": STRING", l)
                    if re.match(r"^(\d+ )?\s*DIM ", l):
                        l = re.sub(r": STRING$", "", l)
                    out.append(l)
                return out
            if norm(lines) != norm(o):
                a, b = norm(lines), norm(o)
                k = next((i for i in range(min(len(a), len(b))) if a[i] != b[i]), min(len(a), len(b)))
                return f"default_str_storage changed more than declared string sizes (line {k}: {a[k][:50] if k < len(a) else None!r} / {b[k][:50] if k < len(b) else None!r})"
    # suppressing dependencies only removes the header and the bundled procedures
    if flag(case, 5) and not flag(case, 6):
        return c13(case, impl, aux.get("nodeps")) if "differs between" in (c13(case, impl, aux.get("nodeps")) or "") else None
    return None


def c11_cli(case, impl):
    """command line: OS-9 line ends, procedure named after the input file"""
    if not impl.startswith("ok "):
        return None
    data = unhex(impl[3:])
    if b"\n" in data:
        return "the output file contains LF line ends"
    for ch in (0x0b, 0x0c, 0x1c, 0x1d, 0x1e):
        # content of literals, comments and DATA items: only LF becomes CR, nothing else is a line end
        if data.count(bytes([ch])) != case["data"].count(bytes([ch])):
            return (f"the source has {case['data'].count(bytes([ch]))} characters {ch:#04x} (inside a literal, a comment, a DATA "
                    f"item), the output file {data.count(bytes([ch]))}: the line-end translation touched content")
    if case["flags"][2] == "0":
        base = os.path.basename(case["name"])
        stem = os.path.splitext(base)[0]
        want = stem if re.fullmatch(r"[a-zA-Z0-9_]+", stem) else "program"
        if ("\rprocedure %s\r" % want).encode() not in b"\r" + data:
            return f"no header `procedure {want}` in the output for input file {case['name']!r}"
    elif re.search(rb"(?m)^procedure ", data.replace(b"\r", b"\n")):
        return "-D still writes procedure headers"
    return None


# --------------------------------------------------------------------------- C10

def src_dims(text):
    """source DIM entries: BASIC09 identifier -> list of bounds (None for scalars)"""
    out = {}
    order = []
    for raw in re.split(r"[\r\n]+", text):
        body = src_blank(re.sub(r"^\s*\d+", "", raw))
        for m in re.finditer(r"(?<![A-Z])DIM *([^:]*)", body):
            for item in re.finditer(r"([A-Z][A-Z0-9]*)(\$?) *(?:\(([^)]*)\))?", m.group(1)):
                name, dollar, dims = item.group(1), item.group(2), item.group(3)
                ident = name[:2] + dollar
                if dims is not None:
                    bounds = []
                    try:
                        for d in dims.split(","):
                            d = d.replace(" ", "")
                            bounds.append(int(d[2:], 16) if d.upper().startswith("&H") else int(d))
                    except ValueError:
                        continue          # not a DIM statement after all (e.g. text inside another statement)
                    ident = "arr_" + ident
                    out.setdefault(ident, []).append(bounds)
                else:
                    out.setdefault(ident, []).append(None)
                order.append(ident)
    return out


def out_decls(lines):
    """[(identifier, dims tuple or None, size or None, line index)] for every DIM in the output"""
    decls = []
    for k, line in enumerate(lines):
        _, rest = T.line_label(line)
        for st in T.split_statements(T.code_tokens(rest)):
            if not st or st[0][0] != "id" or st[0][1].upper() != "DIM":
                continue
            body = st[1:]
            size = None
            typ = None
            if ("op", ":") in body:
                c = body.index(("op", ":"))
                ttoks = body[c + 1:]
                body = body[:c]
                typ = "".join(t[1] for t in ttoks)
                m = re.match(r"(?i)STRING\[(\d+)\]", typ)
                if m:
                    size = int(m.group(1))
            for item in T.split_args(body):
                if not item or item[0][0] != "id":
                    continue
                dims = None
                if len(item) > 1 and item[1] == ("op", "("):
                    dims = tuple(int(float(t[1])) if t[0] == "num" else int(t[1][1:], 16)
                                 for t in item[2:-1] if t[0] in ("num", "hex"))
                decls.append((item[0][1], dims, size, k, typ))
    return decls


def c10(case, impl):
    out = out_text(impl)
    if out is None or src_comment_closes_early(case["text"]):
        return None
    lines = program_lines(case, out)
    decls = out_decls(lines)
    names = [d[0] for d in decls]
    for n in names:
        if names.count(n) > 1:
            return f"identifier {n} is declared {names.count(n)} times"
    sdims = src_dims(case["text"])
    first_use = {}
    used_dims = {}
    for k, line in enumerate(lines):
        _, rest = T.line_label(line)
        toks = T.code_tokens(rest)
        is_dim_line = [st for st in T.split_statements(toks) if st and st[0][0] == "id" and st[0][1].upper() == "DIM"]
        for i, (kk, t) in enumerate(toks):
            if kk == "id" and t.startswith("arr_") and not is_dim_line:
                first_use.setdefault(t, k)
    declared = {d[0]: d for d in decls}
    for arr, k in first_use.items():
        if arr not in declared:
            return f"array {arr} is used but never declared"
        d = declared[arr]
        if d[3] > k:
            return f"array {arr} is declared after its first use"
        want = sdims.get(arr)
        if want and len(want) == 1 and want[0] is not None:
            exp = tuple(b + 1 for b in want[0])
            if d[1] != exp:
                return f"array {arr} declared with {d[1]}, source bound plus one is {exp}"
        elif not want and d[1] != (11,):
            return f"undimensioned array {arr} declared with {d[1]} instead of (11)"
    st = case["opts"]["storage"]
    if st != 32:
        cfg = {}
        for key, size in case["opts"]["sizes"]:
            cfg[key if key.endswith("$") else "arr_" + key[:-3] + "$"] = size
        strings = set()
        for line in lines:
            _, rest = T.line_label(line)
            for kk, t in T.code_tokens(rest):
                if kk == "id" and t.endswith("$") and re.fullmatch(r"(arr_)?[A-Z][A-Z0-9]?\$|tmp_\d+\$", t):
                    strings.add(t)
        for s_ in sorted(strings):
            if s_ not in declared:
                return f"string {s_} appears but has no declaration although the default size is {st}"
            want = cfg[s_] if (s_ in cfg and s_ in sdims) else st
            if declared[s_][2] != want:
                return f"string {s_} declared with size {declared[s_][2]}, requested {want}"
    return None


def strip_addr(s):
    """remove every `ADDR( … )` (balanced parentheses) from a line"""
    out, i = [], 0
    while i < len(s):
        if s.startswith("ADDR(", i):
            depth, j = 0, i + 4
            while j < len(s):
                if s[j] == "(":
                    depth += 1
                elif s[j] == ")":
                    depth -= 1
                    if depth == 0:
                        break
                j += 1
            i = j + 1
            out.append(" 0 ")
            continue
        out.append(s[i])
        i += 1
    return "".join(out)


def c10_classify(case, impl, why):
    text = case["text"]
    m = re.search(r"(?:array|string|identifier) (\S+)", why)
    ident = m.group(1) if m else ""
    if ident == "joy0y" and "declared 2 times" in why:
        return "joystk-prologue-duplicate"
    if "declared 2 times" in why or "declared 3 times" in why:
        sd = src_dims(text)
        if ident in sd and len(sd[ident]) > 1:
            return "re-dim-in-source"
    out = out_text(impl) or ""
    lines = program_lines(case, out)
    # does the identifier occur anywhere outside READ / INPUT statements (and their wrappers)?
    def only_read_input(idn):
        for line in lines:
            _, rest = T.line_label(line)
            for stt in T.split_statements(T.code_tokens(rest)):
                if any(t == ("id", idn) for t in stt) and not (stt and stt[0][0] == "id" and stt[0][1].upper() in ("READ", "INPUT", "DIM")):
                    return False
        return True
    def only_in_addr(idn):
        flat = " ".join(T.line_label(l)[1] for l in lines)
        stripped = strip_addr(flat)
        return re.search(r"(?<![\w$])" + re.escape(idn) + r"(?![\w$])", stripped) is None
    if ("never declared" in why or "has no declaration" in why):
        if only_in_addr(ident):
            return "varptr-argument-not-visited"
        if only_read_input(ident):
            return "read-input-only-target"
        # occurrences inside ADDR(...) and READ/INPUT only
        flat_lines = [strip_addr(l) for l in lines]
        saved, lines[:] = list(lines), flat_lines
        try:
            if only_read_input(ident):
                return "read-input-only-target"
        finally:
            lines[:] = saved
    if "declared with size None" in why and ident.startswith("arr_") and ident not in src_dims(text):
        return "implicit-string-array-unsized"
    if "declared after its first use" in why and ident in src_dims(text):
        return "dim-after-use-in-source"
    return None


# --------------------------------------------------------------------------- C07

import b09parse as BP  # noqa: E402


def c07(case, impl):
    out = out_text(impl)
    if out is None:
        return None
    lines = program_lines(case, out)
    for k, line in enumerate(lines):
        if "<Node" in line or "<RegexNode" in line or " object at 0x" in line:
            return f"an internal object leaked into line {k}: {line.strip()[:70]}"
    bad = BP.check_program(lines)
    if bad:
        k, why = bad
        return f"line {k} does not parse as BASIC09: {why} | {lines[k].strip()[:400]}"
    # a label stands once: a second line with the same number (a bare jump target written where a statement belongs) is not a
    # program BASIC09 accepts - unless the source itself numbers two lines alike
    labels = [T.line_label(l)[0] for l in lines]
    labels = [n for n in labels if n is not None]
    dup = sorted({n for n in labels if labels.count(n) > 1})
    if dup:
        src_nums = re.findall(r"(?m)^\s*(\d+)", case["text"].replace("\r", "\n"))
        if len(src_nums) == len(set(src_nums)):
            k = [i for i, l in enumerate(lines) if T.line_label(l)[0] == dup[0]][1]
            return f"line {k} does not parse as BASIC09: the label {dup[0]} stands a second time | {lines[k].strip()[:80]}"
    # FOR / NEXT: when the source's loops are lexically nested (every NEXT closes the innermost open FOR), so are the output's -
    # every NEXT names the innermost open loop and every FOR is closed
    if _src_loops_nested(case["text"]):
        stack = []
        for k, line in enumerate(lines):
            for st in T.split_statements(T.code_tokens(T.line_label(line)[1])):
                ws = [(kk, t.upper() if kk == "id" else t) for kk, t in st]
                if ws and ws[0] == ("id", "FOR") and len(ws) > 1:
                    stack.append((ws[1][1], k))
                elif ws and ws[0] == ("id", "NEXT") and len(ws) > 1:
                    if not stack or stack[-1][0] != ws[1][1]:
                        top = f"FOR {stack[-1][0]}" if stack else "none"
                        return f"line {k} does not parse as BASIC09: NEXT {ws[1][1]} but the innermost open loop is {top} | {line.strip()[:80]}"
                    stack.pop()
        if stack:
            return f"line {stack[-1][1]} does not parse as BASIC09: FOR {stack[-1][0]} is never closed | {lines[stack[-1][1]].strip()[:80]}"
    if flag(case, 5) and not flag(case, 6):
        # the bundled runtime procedures are part of the output: every block they open must be closed before the next header
        for name, plines in T.split_procedures(out.rstrip("\n"))[:-1]:
            e = T.block_errors(plines[1:] if name is not None else plines)
            if e:
                return f"bundled procedure {name}: {e}"
    for k, line in enumerate(lines):
        for kk, t in T.code_tokens(T.line_label(line)[1]):
            if kk == "id" and t in ("inf", "nan"):
                return f"non-finite literal {t} in line {k}: {line.strip()[:70]}"
    return None


def _src_loops_nested(text):
    """the source's FOR / NEXT, read in text order, are properly nested: a bare NEXT closes the innermost loop, a NEXT with
    names closes exactly the innermost loops in that order, nothing is left open, and no IF / GOTO / ON could skip one"""
    stack, seen = [], False
    for raw in re.split(r"[\r\n]+", text.replace("\x00", "")):
        body = src_blank(re.sub(r"^\s*\d+", "", raw))
        if re.search(r"\b(FOR|NEXT)\b", body) and re.search(r"\b(IF|GOTO|GOSUB|ON|RETURN|END|STOP)\b", body):
            return False
        for m in re.finditer(r"\bFOR\s*([A-Z][A-Z0-9]*)\s*=|\bNEXT\b\s*([A-Z0-9, ]*)", body):
            seen = True
            if m.group(1):
                stack.append(m.group(1)[:2])
            else:
                names = [n.strip()[:2] for n in (m.group(2) or "").split(",") if n.strip()]
                if not names:
                    if not stack:
                        return False
                    stack.pop()
                for n in names:
                    if not stack or stack[-1] != n:
                        return False
                    stack.pop()
    return seen and not stack


def c07_classify(case, impl, why):
    text = case["text"]
    if "comment" in why and src_comment_closes_early(text):
        return "comment-text-closes-comment"
    if "text after the end of a comment" in why or "comment inside a statement" in why:
        return "comment-text-closes-comment" if src_comment_closes_early(text) else None
    if "NEXT without a variable" in why:
        return "bare-next-without-open-for"
    if "non-finite literal" in why:
        return "literal-overflows-to-inf"
    line = why.split("|", 1)[1] if "|" in why else ""
    if re.search(r"(?i)\(\s*RUN |,\s+RUN ", line):
        return "hoisted-call-captured-by-default-colour"
    if "operand missing" in why or "empty argument list" in why or "empty expression" in why or "bad argument list" in why:
        # which construct lost its operand?
        if re.match(r"\s*(\d+ )?\s*(IF|EXITIF) ", line) or "EXITIF" in line or re.search(r"\bIF\b.*\bTHEN$", line):
            return "if-else-condition-drops-hoisted-call"
        if re.search(r"\b(READ|INPUT)\b", line):
            return "read-input-subscript-not-visited"
        if "ADDR(" in line:
            return "varptr-argument-not-visited"
        return None
    return None


def c07_tie(case, impl):
    """`Props.C07.skel` (the block-keyword skeleton the balance theorem is about) describes what
    `Model.Emit` writes for this program's AST (answered by the driver in the suite run)"""
    sk = (case.get("aux") or {}).get("skel", "ok same")
    return None if sk == "ok same" else f"skeleton differs from emitted block keywords: {sk}"


# --------------------------------------------------------------------------- C20 (how the tool calls the string helpers)

_ALIAS_SAFE = {}


def _alias_safe(proc):
    """does the library procedure, as shipped now, compute its function when its result cell IS the argument cell (BASIC09
    passes variables by reference)?  Run with the by-reference interpreter of the harness on a small grid; None = compared
    and equal, else the first difference"""
    if proc in _ALIAS_SAFE:
        return _ALIAS_SAFE[proc]
    import os
    import b09lib
    from common import REPO
    lib = b09lib.Lib(open(os.path.join(REPO, "coco", "resources", "ecb.b09"), newline="").read())
    bad = None
    try:
        if proc == "ecb_instr":
            for start in (1, 2, 3):
                for subj in ("XYX", "ABAB"):
                    for pat in ("Y", "AB", "Q"):
                        k = subj.find(pat, start - 1)
                        want = "ok " + repr([float(k + 1) if k >= 0 else 0.0])
                        got = b09lib.run_once(lib, proc, [float(start), subj, pat, float(start)], [3], (0, 3))
                        if bad is None and _num_repr(got) != _num_repr(want):
                            bad = f"INSTR({start},{subj!r},{pat!r}) with one cell as index and result gives {got}, not {want}"
        else:
            for n in (0, 1, 2, 3):
                for arg in ("X", "AB"):
                    want = "ok " + repr([arg[0] * n])
                    got = b09lib.run_once(lib, proc, [float(n), arg, arg], [2], (1, 2))
                    if bad is None and got != want:
                        bad = f"STRING$({n},{arg!r}) with one cell as string and result gives {got}, not {want}"
    except b09lib.Unsupported as e:
        bad = f"{proc} is outside the interpreter's subset ({e})"
    _ALIAS_SAFE[proc] = bad
    return bad


def _num_repr(ans):
    m = re.match(r"ok \[(-?[0-9.]+)\]$", ans)
    return float(m.group(1)) if m else ans


def c20_alias(case, impl):
    """BASIC09 passes variables by reference: where the tool passes ONE variable as the result cell of ecb_instr / ecb_string
    and as the argument (the start index of INSTR, the string of STRING$), the helper computes the Color BASIC function only
    if it reads the argument before it clears the result - judged by running the shipped procedure with aliased cells"""
    out = out_text(impl)
    if out is None:
        return None
    for line in program_lines(case, out):
        for callee, args, _ in T.run_calls(T.code_tokens(line)):
            if callee.lower() == "ecb_instr" and args and len(args) == 4:
                a, r = "".join(t for _, t in args[0]), "".join(t for _, t in args[3])
                if a == r and _alias_safe("ecb_instr"):
                    return f"ecb_instr gets {r} as start index and as result: {_alias_safe('ecb_instr')} | {line.strip()[:100]}"
            if callee.lower() == "ecb_string" and args and len(args) == 3:
                a, r = "".join(t for _, t in args[1]), "".join(t for _, t in args[2])
                if a == r and _alias_safe("ecb_string"):
                    return f"ecb_string gets {r} as its string and as result: {_alias_safe('ecb_string')} | {line.strip()[:100]}"
    return None


def c20_alias_classify(case, impl, why):
    # the known finding: a whole right-hand side `V=INSTR(V,…)` / `V$=STRING$(n,V$)` reuses the assignment target as result
    m = re.search(r"gets (\S+) as", why)
    if m and not m.group(1).startswith("tmp_"):
        return "result-cell-is-argument"
    return None


# --------------------------------------------------------------------------- C05

CONVERTIBLE = {"INT": "ecb_int", "VAL": "ecb_val", "HEX$": "ecb_hex", "INSTR": "ecb_instr", "STRING$": "ecb_string",
               "INKEY$": "inkey", "BUTTON": "ecb_button", "JOYSTK": "ecb_joystk", "POINT": "ecb_point", "STR$": "ecb_str"}


def src_calls_by_line(text):
    """{line number: [procedure names in evaluation order]}: convertible functions of each source line,
    innermost first, left to right (= ordered by the position of their closing parenthesis)"""
    out = {}
    for raw in re.split(r"[\r\n]+", text.replace("\x00", "")):
        m = re.match(r"\s*(\d+)", raw)
        if not m:
            continue
        body = src_blank(raw[m.end():])
        found = []
        for fm in re.finditer(r"(INT|VAL|HEX\$|INSTR|STRING\$|INKEY\$|BUTTON|JOYSTK|POINT|STR\$)", body):
            name = fm.group(1)
            # not part of a longer identifier / keyword (PRINT contains INT, …); a function may follow a
            # keyword without a blank (PRINTPOINT(…), THENINT(…))
            if fm.start() > 0 and body[fm.start() - 1].isalnum():
                j0 = fm.start()
                while j0 > 0 and body[j0 - 1].isalnum():
                    j0 -= 1
                run_ = body[j0:fm.start()]
                if run_[0].isdigit():
                    pass            # a number literal juxtaposed with the function (PRINT 1E+2INT(Y))
                elif not re.search(r"(PRINT|THEN|ELSE|TO|STEP|AND|OR|NOT|ON|IF|LET|GOTO|GOSUB|SOUND|POKE|CLS|WIDTH|LOCATE|ATTR|"
                                 r"PALETTE|HSCREEN|HCLS|HCOLOR|HDRAW|PLAY|HBUFF|CLEAR)$", run_) or (run_ + name).endswith("PRINT"):
                    continue
            if name == "INKEY$":
                found.append((fm.end() - 1, CONVERTIBLE[name]))
                continue
            j = fm.end()
            while j < len(body) and body[j] == " ":
                j += 1
            if j >= len(body) or body[j] != "(":
                continue
            depth, k = 0, j
            while k < len(body):
                if body[k] == "(":
                    depth += 1
                elif body[k] == ")":
                    depth -= 1
                    if depth == 0:
                        break
                k += 1
            found.append((k, CONVERTIBLE[name]))
        out.setdefault(int(m.group(1)), [])
        out[int(m.group(1))] += [n for _, n in sorted(found)]
    return out


TEMP_RE = re.compile(r"^tmp_\d+\$?$")


def c05(case, impl):
    out = out_text(impl)
    if out is None or src_comment_closes_early(case["text"]):
        return None
    lines = program_lines(case, out)
    # (1) temporaries: assigned once, before use, inside the same statement group (= output line)
    for k, line in enumerate(lines):
        _, rest = T.line_label(line)
        assigned = set()
        unread = set()
        for st in T.split_statements(T.code_tokens(rest)):
            if not st:
                continue
            head = st[0][1].upper() if st[0][0] == "id" else ""
            temps = [t for kk, t in st if kk == "id" and TEMP_RE.match(t)]
            result = None
            if head == "RUN" and st[-1] == ("op", ")") and len(st) >= 3 and st[-2][0] == "id" and TEMP_RE.match(st[-2][1]) \
                    and st[-3] in (("op", ","), ("op", "(")) and st[1][1] in CONVERTIBLE.values():
                result = st[-2][1]
                reads = temps[:-1]
            elif head == "READ":
                for t in temps:
                    if t in assigned:
                        return f"temporary {t} is assigned twice in one statement group | {line.strip()[:600]}"
                    assigned.add(t)
                continue
            elif head == "FOR" and len(st) > 1 and TEMP_RE.match(st[1][1]):
                assigned.add(st[1][1])      # the fill loops of DIM use tmp_k as loop variables
                continue
            elif head in ("NEXT", "DIM"):
                continue
            else:
                reads = temps
            for t in reads:
                if t not in assigned:
                    return f"temporary {t} is read but this statement group never assigned it | {line.strip()[:600]}"
                unread.discard(t)
            if result is not None:
                if result in unread:
                    return f"the result in {result} is overwritten by another call before it is used | {line.strip()[:600]}"
                assigned.add(result)
                unread.add(result)
    # (2) no call lost, none duplicated, order kept: per source line
    want = src_calls_by_line(case["text"])
    nums = sorted(want)
    if len(set(nums)) != len(re.findall(r"(?m)^\s*\d+", case["text"].replace("\r", "\n"))):
        return None
    got, cur = {}, None
    for line in lines:
        lab, rest = T.line_label(line)
        if lab is not None and lab in want:
            cur = lab
        if cur is None:
            continue
        for callee, args, _ in T.run_calls(T.code_tokens(rest)):
            if callee in CONVERTIBLE.values():
                got.setdefault(cur, []).append(callee)
    if flag(case, 3) or 0 in nums:
        return None     # with label filtering (or an unlabelled line 0) the output cannot be cut into source lines
    for n in nums:
        w = [c for c in want[n] if c != "ecb_str"]
        g = [c for c in got.get(n, []) if c != "ecb_str"]
        if w != g:
            return f"source line {n} calls {w} (innermost first, left to right) but the output calls {g}"
    # (3) "exactly once per execution of the enclosing statement": a call hoisted out of a conditional statement stays
    # under that condition, so every IF of a source line that holds convertible functions has its own IF / EXITIF
    cur, ifs = None, {}
    for line in lines:
        lab, rest = T.line_label(line)
        if lab is not None and lab in want:
            cur = lab
        if cur is not None:
            ifs[cur] = ifs.get(cur, 0) + sum(1 for kk, t in T.code_tokens(rest) if kk == "id" and t.upper() in ("IF", "EXITIF"))
    for raw in re.split(r"[\r\n]+", case["text"]):
        m = re.match(r"\s*(\d+)(.*)$", raw)
        if not m or int(m.group(1)) not in want or not want[int(m.group(1))]:
            continue
        n_src = len(re.findall(r"(?<![A-Z])IF(?![A-Z$])", src_blank(m.group(2))))
        if n_src >= 2 and ifs.get(int(m.group(1)), 0) < n_src - (1 if re.search(r"EXITIF TRUE", "\n".join(lines)) else 0):
            return (f"source line {m.group(1)} has {n_src} IF statements and convertible functions, the output has "
                    f"{ifs.get(int(m.group(1)), 0)} conditionals: a hoisted call no longer runs under its own condition")
    return None


def _string_func_second_arg(body):
    """the second argument of the first STRING$( … , … ) of a source line (parentheses may nest), or None"""
    m = re.search(r"STRING\$ *\(", body)
    if not m:
        return None
    depth, args, cur = 0, [], ""
    for ch in body[m.end():]:
        if ch == "(":
            depth += 1
        elif ch == ")":
            if depth == 0:
                args.append(cur)
                return args[1] if len(args) == 2 else None
            depth -= 1
        elif ch == "," and depth == 0:
            args.append(cur)
            cur = ""
            continue
        cur += ch
    return None


def c05_classify(case, impl, why):
    text = case["text"]
    out = out_text(impl) or ""
    if ("assigned twice" in why or "overwritten" in why) and re.search(r"(?i)\(\s*RUN |,\s+RUN ", why.split("|", 1)[1]):
        return "hoisted-call-captured-by-default-colour"
    if "is read but this statement group never assigned it" in why:
        line = why.split("|", 1)[1]
        if re.search(r"^\s*(\d+ )?\s*(IF .* THEN|EXITIF .* THEN|ELSE|LOOP)\s*$", line) or re.search(r"\b(EXITIF|IF)\b[^\\]*\bTHEN\s*$", line):
            return "if-else-condition-drops-hoisted-call"
        if re.search(r"\b(READ|INPUT)\b", line):
            return "read-input-subscript-not-visited"
        if re.search(r"(?i)\(\s*RUN |,\s+RUN ", line):
            return "hoisted-call-captured-by-default-colour"
        return None
    m = re.match(r"source line (\d+) calls", why)
    if m:
        n = int(m.group(1))
        src_line = next((l for l in re.split(r"[\r\n]+", text) if re.match(rf"\s*{n}\b", l)), "")
        body = src_blank(src_line)
        if re.search(r"(H?CLS|HSCREEN) *(NOT|-|\+)", body):
            return "signed-operand-replaced-by-default"
        if re.search(r"\bELSE\b", body) and re.search(r"\bIF\b", body):
            return "if-else-condition-drops-hoisted-call"
        if re.search(r"(READ|INPUT)[^:]*\(", body):
            return "read-input-subscript-not-visited"
        if "VARPTR" in body:
            return "varptr-argument-not-visited"
        if re.search(r"HCIRCLE[^:]*,,", body):
            return "hoisted-call-captured-by-default-colour"
        second = _string_func_second_arg(body)
        if second is not None and "ecb_string" in why and "arr_ST$" in out and not re.search(r"\$|\"", second):
            return "string-func-numeric-code"      # STRING$(n, <numeric code>) is read as the array ST$ (see C03)
    return None


# --------------------------------------------------------------------------- C04 (the parts judged on whole programs)

def c04(case, impl):
    out = out_text(impl)
    if out is None or src_comment_closes_early(case["text"]):
        return None
    lines = program_lines(case, out)
    src = "\n".join(src_blank(l) for l in re.split(r"[\r\n]+", case["text"]))
    uses_hbuff = re.search(r"HBUFF", src) is not None
    has_prologue = any(l.strip() == "dim pid: integer" for l in lines)
    has_init = any(re.match(r"^RUN _ecb_init_hbuff\(pid\)$", l.strip()) for l in lines)
    if flag(case, 0):
        if uses_hbuff != has_prologue or uses_hbuff != has_init:
            return f"buffer prologue present={has_prologue}/{has_init} but the program {'uses' if uses_hbuff else 'does not use'} HBUFF"
    # the two speed pokes
    for m in re.finditer(r"POKE *(65496|65497|&H *FFD8|&H *FFD9|65496\.0*|65497\.0*) *,", src):
        addr = m.group(1).replace(" ", "")
        fast = addr.startswith(("65497", "&HFFD9"))
        want = f"play.octo := {1 if fast else 0}"
        if not any(want in l for l in lines):
            return f"POKE {addr} is not translated into `{want}`"
    # … and only those two: a POKE to any other literal address reaches the runtime POKE with both operands
    others = [m.group(1) for m in re.finditer(r"POKE *(\d+(?:\.\d*)?|&H *[0-9A-F]+) *,", src)
              if _poke_addr(m.group(1)) not in (65496, 65497, None)]
    body = [l for l in lines if T.line_label(l)[0] is not None or l.startswith(" ")] or lines
    n_assign = sum(len(re.findall(r"play\.octo := [01]\b", l)) for l in lines) - (1 if flag(case, 0) else 0)
    n_speed = len(re.findall(r"POKE *(65496|65497|&H *FFD8|&H *FFD9|65496\.0*|65497\.0*) *,", src))
    if others and n_assign > n_speed:
        return (f"a POKE to address {others[0]} (not one of the two speed-poke addresses) is translated into a play.octo "
                f"assignment: its operands do not reach the runtime")
    return None


def _poke_addr(t):
    t = t.replace(" ", "")
    try:
        return int(t[2:], 16) if t.upper().startswith("&H") else (int(float(t)) if float(t) == int(float(t)) else None)
    except ValueError:
        return None
