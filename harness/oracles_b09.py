"""Property oracles for the transpiler properties, judged on the REAL code's output with an
independent reader of BASIC09 text (b09text.py) and of the library file.  Each oracle returns
None (holds / not applicable) or a reason string."""
import functools
import os
import re

import b09text as T
from common import REPO, unhex

SYSTEM_MODULES = {"gfx", "gfx2", "syscall", "inkey"}


def out_text(impl):
    return unhex(impl[3:]).decode("utf-8") if impl.startswith("ok ") else None


def flag(case, i):
    return case["opts"]["flags"][i] == "1"


# --------------------------------------------------------------------------- the library, read independently

@functools.lru_cache(maxsize=4)
def library(mtime):
    with open(os.path.join(REPO, "coco", "resources", "ecb.b09"), newline="") as f:
        text = f.read().replace("\r\n", "\n").replace("\r", "\n")
    procs = {}
    order = []
    for name, lines in T.split_procedures(text):
        if name is None:
            continue
        procs[name] = lines
        order.append(name)
    edges = {n: sorted({c[0] for line in lines for c in T.run_calls(T.code_tokens(line))}) for n, lines in procs.items()}
    return procs, order, edges


def lib():
    p = os.path.join(REPO, "coco", "resources", "ecb.b09")
    return library(os.path.getmtime(p))


def reach(edges, roots):
    seen, todo = set(), list(roots)
    while todo:
        n = todo.pop()
        if n in seen:
            continue
        seen.add(n)
        todo += edges.get(n, [])
    return seen


# --------------------------------------------------------------------------- C13

def c13(case, impl, no_deps_impl=None):
    o = case["opts"]
    if not (flag(case, 5) and not flag(case, 6)):
        return None
    text = out_text(impl)
    if text is None:
        return None
    procs, order, edges = lib()
    want_name = o["procname"] if re.fullmatch(r"[a-zA-Z0-9_]+", o["procname"]) else "program"
    parts = T.split_procedures(text.rstrip("\n"))
    if not parts or parts[0][0] is None:
        return "text before the first procedure header"
    names = [n for n, _ in parts]
    if names[-1] != want_name:
        return f"the program's procedure {want_name!r} is not last (last is {names[-1]!r})"
    others = names[:-1]
    if sorted(set(others)) != others:
        return f"bundled procedures not in ascending order / not unique: {others[:6]}…"
    prog_lines = parts[-1][1]
    prog_edges = sorted({c[0] for line in prog_lines for c in T.run_calls(T.code_tokens(line))})
    e = dict(edges)
    e[want_name] = prog_edges
    need = {n for n in reach(e, [want_name]) if n in procs and n != want_name}
    have = set(others)
    if want_name in procs:
        return f"the program's procedure name {want_name!r} is also a library procedure: the library's one is replaced"
    if need - have:
        return f"reachable runtime procedures missing from the bundle: {sorted(need - have)[:5]}"
    if have - need:
        return f"unreachable procedures bundled: {sorted(have - need)[:5]}"
    for n, lines in parts:
        for line in lines:
            if T.has_placeholder(line):
                return f"string-size placeholder left in {n}: {line.strip()[:60]}"
            for callee, _, _ in T.run_calls(T.code_tokens(line)):
                if callee not in have and callee != want_name and callee.lower() not in SYSTEM_MODULES:
                    return f"RUN {callee} in {n} names nothing in the bundle"
    st = o["storage"]
    repl = ": STRING" + ("" if st == 32 else f"[{st}]")
    for n, lines in parts[:-1]:
        exp = [re.sub(r"(?i):\s*STRING<<>>", repl, l) if T.has_placeholder(l) else l for l in procs[n]]
        while exp and exp[-1].strip() == "":
            exp.pop()
        got = list(lines)
        while got and got[-1].strip() == "":
            got.pop()
        if [l.rstrip() for l in got] != [l.rstrip() for l in exp]:
            return f"library procedure {n} was altered in the bundle"
    if no_deps_impl is not None:
        plain = out_text(no_deps_impl)
        # ProcedureBank strips white space at both ends of a procedure's text
        if plain is not None and "\n".join(prog_lines[1:]).strip() != plain.strip():
            return "the user's program text differs between the bundled and the unbundled output"
    return None


# --------------------------------------------------------------------------- C14

def lib_signatures():
    """name -> [kind] read independently from the `param` lines of ecb.b09"""
    procs, order, _ = lib()
    sigs = {}
    for n, lines in procs.items():
        kinds = []
        for line in lines:
            m = re.match(r"(?i)\s*param\s+(.*)$", line)
            if not m:
                continue
            for grp in m.group(1).split(";"):
                ids, typ = grp.rsplit(":", 1)
                t = typ.strip().lower()
                kind = "string" if t.startswith("string") else ("numeric" if t in ("real", "integer", "byte", "boolean") else "record:" + t)
                kinds += [kind] * len(ids.split(","))
        sigs[n] = kinds
    return sigs


RECORD_VARS = {"display": "record:display_t", "play": "record:play_t"}


def emitted_arg_kind(toks):
    """kind of an emitted argument, from its syntactic category"""
    if not toks:
        return "empty"
    while len(toks) >= 2 and toks[0] == ("op", "(") and toks[-1] == ("op", ")"):
        toks = toks[1:-1]
    if not toks:
        return "empty"
    k, t = toks[0]
    if len(toks) == 1 and k == "id" and t in RECORD_VARS:
        return RECORD_VARS[t]
    if k == "str" or (k == "id" and t.endswith("$")):
        return "string"
    return "numeric"


def program_lines(case, text):
    """the lines of the user's procedure (the whole text when no bundle was requested)"""
    if flag(case, 5) and not flag(case, 6):
        parts = T.split_procedures(text.rstrip("\n"))
        return parts[-1][1][1:] if parts and parts[-1][0] is not None else text.split("\n")
    return text.split("\n")


def emitted_calls(case, impl):
    text = out_text(impl)
    if text is None:
        return []
    out = []
    for line in program_lines(case, text):
        for callee, args, _ in T.run_calls(T.code_tokens(line)):
            out.append((callee, [emitted_arg_kind(a) for a in (args or [])], line))
    return out


def c14(case, impl):
    sigs = lib_signatures()
    for callee, kinds, line in emitted_calls(case, impl):
        if callee not in sigs:
            if callee.lower() in SYSTEM_MODULES:
                continue
            return f"RUN {callee}: no such procedure in the bundled library | {line.strip()[:80]}"
        want = sigs[callee]
        if len(want) != len(kinds):
            return f"RUN {callee}: {len(kinds)} arguments for {len(want)} parameters | {line.strip()[:80]}"
        for k, (w, g) in enumerate(zip(want, kinds)):
            if w != g:
                return f"RUN {callee}: argument {k + 1} is {g}, parameter is {w} | {line.strip()[:80]}"
    return None


def c14_classify(case, impl, why):
    if why.startswith("RUN ecb_joystk: 2 arguments for 6"):
        return "joystk-arity"
    if why.startswith("RUN ecb_str: argument 2 is numeric") or why.startswith("RUN ecb_hprint: argument 3 is numeric"):
        return "hprint-numeric-item"
    if "is empty" in why:
        return "empty-operand"
    return None


_TABLE = {}


def c14_table():
    if "t" not in _TABLE:
        from common import run_driver
        ans = run_driver(["c14table"])[0]
        rows = set()
        for row in ans[3:].split(";"):
            proc, kinds, _ = row.split("|")
            rows.add((proc, tuple(k for k in kinds.split(",") if k)))
        _TABLE["t"] = rows
    return _TABLE["t"]


def c14_tie(case, impl):
    """every emitted call has a shape of the pinned table the theorems are about"""
    rows = c14_table()
    for callee, kinds, line in emitted_calls(case, impl):
        if "empty" in kinds:
            continue
        if (callee, tuple(kinds)) not in rows:
            return f"call shape not in the pinned table: {callee}({', '.join(kinds)}) | {line.strip()[:80]}"
    return None


# --------------------------------------------------------------------------- C15

def c15(case, impl):
    if impl.startswith("internal "):
        return f"conversion failed with an internal exception: {impl[9:]}"
    if impl.startswith("timeout"):
        return "conversion did not terminate within the time limit"
    return None


def c15_classify(case, impl, why):
    """the class is the raise site, found by re-running the real code and looking at the exception"""
    import impl_b09
    from coco.b09 import compiler
    try:
        compiler.convert(case["text"], **impl_b09.opts_to_kwargs(case["opts"]))
    except RecursionError:
        return "deep-nesting-recursion"
    except Exception as e:  # noqa: BLE001
        msg = str(e)
        if "could not convert string to float" in msg:
            return "literal-float-valueerror"
        if "'HexLiteral' object has no setter" in msg:
            return "hex-data-with-empty-item"
        if "'Node' object has no attribute 'visit'" in msg:
            return "leaked-parse-node"
        return None
    return None
