#!/bin/sh
# run every claimed check (quick) on the clean tree so that the committed evidence comes from /repo as it is
cd /verif || exit 2
git -C /repo diff --quiet || { echo "/repo has uncommitted changes"; exit 2; }
for p in $(python3 -c "import json; print(' '.join(c['property_id'] for c in json.load(open('MANIFEST.json'))['checks']))"); do
  ./check "$p" --tier quick | tail -1
done
