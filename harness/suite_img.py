"""Correspondence suite for the decoder boundary: bytes -> image bytes.

Model side: `Model.Img.*` through the compiled driver.  Implementation side: the real
`convert`/`start` functions of /repo run in-process (16 workers)."""
import multiprocessing as mp
from collections import Counter

import gens_img as G
from common import rng, run_driver

FMTS = ["hrs", "pix", "max", "mge", "rat", "cm3", "vef"]


def _impl(req):
    import impl_img
    return impl_img.run_request(req)


def cases(tier):
    r = rng("img-suite")
    quick = tier != "thorough"
    out = list(G.fixtures())
    extreme_cases = G.extremes(r)
    out += extreme_cases
    n_valid = {"hrs": 12, "pix": 8, "max": 16, "mge": 3, "rat": 2, "cm3": 3, "vef": 4}
    n_pref = 10 if quick else 48
    n_corr = 12 if quick else 64
    if not quick:
        n_valid = {k: v * 4 for k, v in n_valid.items()}
    for fmt in FMTS:
        valid = [G.BUILDERS[fmt](r) for _ in range(n_valid[fmt])]
        if fmt == "rat":
            valid.append(G.build_rat(r, low_nibble_max=16))
        out += valid
        base = valid[: (2 if quick else 6)]
        # not left to the draw: the structural extremes of the compressed formats (raw and coded CM3 lines, maximal runs, every
        # VEF record shape) are damaged too
        if fmt in ("cm3", "mge", "rat", "vef"):
            base = base + [c for c in extreme_cases if c["fmt"] == fmt and len(c["data"]) <= 70000][: (3 if quick else 8)]
        for c in base:
            out += G.prefixes(c, r, n_pref)
            out += G.corruptions(c, r, n_corr)
            out += G.extended(c, r)
            out += G.structured_damage(c, r)
        out += G.random_strings(r, fmt, 30 if quick else 200)
    out += G.option_variants(r, 24 if quick else 120)
    out += G.option_products(r)
    fx = [c for c in out if c["kind"] == "fixture"]
    seen = set()
    for c in fx:
        key = (c["fmt"], len(c["data"]))
        if key in seen:
            continue
        seen.add(key)
        out += G.prefixes(c, r, n_pref)
        out += G.corruptions(c, r, n_corr // 2)
    return out


def run(tier):
    cs = cases(tier)
    reqs = [c["req"] for c in cs]
    model = run_driver(reqs)
    with mp.Pool(16) as pool:
        impl = pool.map(_impl, reqs, chunksize=4)
    # state carried from one call to the next (a module-level buffer, a cached table): the valid pictures once more, one after
    # the other in THIS process, in list order and in reverse - every answer must be the one the fresh pool worker gave
    seq = [k for k, c in enumerate(cs) if c["kind"] in ("valid", "fixture") and len(c.get("data", b"")) <= 70000]
    for order in (seq, seq[::-1]):
        for k in order:
            if impl[k].startswith("ok ") and _impl(reqs[k]) != impl[k]:
                impl[k] = "fail HistoryDependent"
    dis = []
    for c, m, i in zip(cs, model, impl):
        if m != i:
            dis.append({"req": c["req"] if len(c["req"]) < 400 else c["req"][:400] + "…",
                        "fmt": c["fmt"], "kind": c["kind"], "model": m[:120], "impl": i[:120],
                        "full_req": c["req"]})
    dist = Counter((c["fmt"], c["kind"]) for c in cs)
    outcomes = Counter((c["fmt"], i.split(" ")[0] + (" " + i.split(" ")[1] if i.startswith("fail") else ""))
                       for c, i in zip(cs, impl))
    return {"cases": cs, "model": model, "impl": impl, "disagreements": dis,
            "distribution": {f"{a}/{b}": n for (a, b), n in sorted(dist.items())},
            "outcomes": {f"{a}: {b}": n for (a, b), n in sorted(outcomes.items())}}


if __name__ == "__main__":
    import sys, time
    t = time.time()
    res = run(sys.argv[1] if len(sys.argv) > 1 else "quick")
    print(len(res["cases"]), "cases", len(res["disagreements"]), "disagreements", round(time.time() - t, 1), "s")
    for d in res["disagreements"][:15]:
        print(d["fmt"], d["kind"], d["model"][:80], "|", d["impl"][:80], "|", d["req"][:100])
    pass
