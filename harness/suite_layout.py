"""Layout suite (C08): base programs over the full statement grammar (the grammar-directed
generator without random blanks, the bundled examples and the test-suite programs, one probe per
statement kind) x layout variants that Color BASIC does not distinguish:

  single   one token boundary set to 0 / 1 / 2 blanks (keyword/identifier boundaries keep one)
  dense    every boundary at its minimum;  wide: every boundary 2 blanks;  random: random gaps
  qmark    `?` for PRINT
  blanklines  empty lines between, before and after the program lines;  spacelines: a line of blanks
  crlf / cr / nofinal  line ends CR LF, bare CR, no line end after the last line
  nul      a NUL after the last line end
  numblank a numeric literal spelled with a blank next to E, the exponent sign, & or H (`1 E2`, `& H FF`)
  digitblank  a blank between two digits of a literal or line number (`1 0`)
  datablank  blanks around a numeric or quoted DATA item, in front of an unquoted one (never inside an item)
  lead     blanks in front of a line number
  openquote  the closing quote of a string literal that ends a line left out (`A$="AB C` for `A$="AB C"`), where the last
             statement assigns that literal to a string variable or element: the literal's characters are content

Every variant is converted by the real `convert` (and by the model, from the dumped object graph);
the oracle compares it with the conversion of the base spelling: both rejected, or byte-identical."""
import multiprocessing as mp

import gens_b09 as G
import layout as L
from common import hexs, note, rng, run_driver

OPTS = {"flags": "0100000", "storage": 32, "procname": "", "sizes": []}

PROBES = [
    '10 PRINT "A B";A;B$,"  X  "', '10 PRINT @ 32, "HI"', '10 IF A = 1 THEN 20 ELSE 30\n20 END\n30 STOP',
    '10 IF A < B AND B <> C THEN PRINT "Y" : GOTO 10 ELSE PRINT "N"', '10 FOR I = 1 TO 10 STEP 2 : NEXT I',
    '10 FOR I = 1 TO 3 : FOR J = 3 TO 1 STEP -1 : NEXT J , I', '10 ON A GOTO 10 , 20 , 30\n20 ON B GOSUB 30\n30 RETURN',
    '10 DIM A ( 5 , 6 ) , B$ ( &H0A )', '10 DATA 1 , 2,  "A  B" , C D ,,\n20 READ A , B , C$ , D$ , E , F',
    '10 DATA 10,20,30,&H1F,2.5,"Q",RED\n20 READ A,B,C,D,E,F$,G$', '10 DATA 1,2,3:PRINT "X"\n20 DATA -4,1E2',
    '10 REM   THREE   BLANKS  ', "10 A = 1 ' TAIL   COMMENT ", '10 INPUT "WHO  ARE YOU" ; N$ , A', '10 LINE INPUT "L" ; A$',
    '10 A$ = LEFT$ ( B$ , 2 ) + MID$ ( B$ , 2 , 3 ) + RIGHT$ ( B$ , 1 )', '10 A = INSTR ( 1 , A$ , "X Y" ) : B$ = STRING$ ( 3 , "*" )',
    '10 POKE &HFF22 , 8 : POKE 65497 , 0', '10 SOUND 100 , 2 : PLAY "L4 CDE"', '10 CLS 3 : CLS', '10 CLEAR 200',
    '10 HSCREEN 2 : HCLS 1 : HCOLOR 2 , 3', '10 HLINE ( 0 , 0 ) - ( 10 , 10 ) , PSET , BF', '10 HLINE - ( 10 , 10 ) , PRESET',
    '10 HCIRCLE ( 100 , 90 ) , 40 , 2 , 1.5 , .1 , .9', '10 HPRINT ( 1 , 2 ) , "HI  THERE"', '10 HSET ( 1 , 2 , 3 ) : HRESET ( 1 , 2 )',
    '10 HPAINT ( 1 , 2 ) , 3 , 4', '10 HBUFF 1 , 100 : HGET ( 0 , 0 ) - ( 9 , 9 ) , 1 : HPUT ( 0 , 0 ) - ( 9 , 9 ) , 1 , PSET',
    '10 HDRAW "U10 R10"', '10 PALETTE 1 , 63 : PALETTE RGB : PALETTE CMP', '10 WIDTH 80 : LOCATE 1 , 2 : ATTR 1 , 2 , B , U',
    '10 SET ( 1 , 2 , 3 ) : RESET ( 1 , 2 )', '10 A = JOYSTK ( 0 ) + BUTTON ( 1 ) + POINT ( 1 , 2 ) : A$ = INKEY$',
    '10 ON ERR GOTO 100 : ON BRK GOTO 100\n100 END', '10 A = - 1.5E+3 + &HFF * ( B ^ 2 ) / NOT C', '10 LET A = 1 : GOSUB 10 : RETURN',
    '10 A = VARPTR ( B ) : A = PEEK ( 1024 ) : TRON : TROFF', '0 PRINT "ZERO"', '10 A = 10 : B = 1.25 : C = 100000 : D = .5 : E = 1E5',
    '10 IF A THEN 10', '10 IF A > 1 THEN IF B > 2 THEN PRINT "X" ELSE PRINT "Y"', '10 NEXT : NEXT I , J', '10 RESTORE : END : STOP',
    '10 A$ = "HI  THERE "', '10 B = 1 : LET A$ ( 2 ) = " X Y"', '10 DIM Q$(3)\n20 Q$(1)="ABC"\n30 IF A=1 THEN N$="L R"', '10 LET Z9$=""',
    '10 IF A = 1 THEN X = 2 ELSE IF A = 2 THEN 30 ELSE IF B THEN X = 3 ELSE X = 4\n30 END',
    '10 IF A = 1 THEN 30 ELSE IF A = 2 THEN X = 25 ELSE IF B = 7 THEN 30\n30 END',
    '10 IF A = 1 THEN X = 1.5 ELSE IF A = 2 THEN X = &HF ELSE X = 1E2', '10 FOR I = 1 TO 2 STEP 1 : PRINT I : NEXT',
    '10 ON A + 1 GOTO 10 : ON B GOSUB 10', '10 HCOLOR 1 : HSCREEN 1 : HCLS 1 : CLS 1 : WIDTH 40', '10 RGB : CMP : PALETTE RGB',
    '10 A$ = "HELLO"\n20 PRINT "A  B" ; "  C  "\n30 B$ = "X  Y"', '10 LET Q$ ( 1 ) = "AB"\n20 REM  TWO  BLANKS\n30 DATA A  B , "C  D"',
    # a string literal without its closing quote at the end of a line, in every statement that takes one (PRINT is also spelled ?)
    '10 PRINT "HELLO', '10 IF A THEN PRINT "NO', '10 PRINT "A";B;"TOTAL  ', '10 PRINT @ 5, "X', '10 A = 1 : PRINT "Y', '10 PRINT A$;"',
    '10 HPRINT ( 1 , 2 ) , "HI', '10 PLAY "CDE', '10 HDRAW "U1', '10 INPUT "WHO', '10 LINE INPUT "L', '10 A$ = B$ + "X', '10 PRINT "A" : PRINT "B',
    '10 IF A = 1 THEN PRINT "Y" ELSE PRINT "N', '10 PRINT "ONE"\n20 PRINT "TWO\n30 PRINT "THREE"',
    '10 PRINT TAB ( 5 ) ; "X" ; HEX$ ( 255 ) ; STR$ ( 1 ) ; VAL ( "1" ) ; ASC ( "A" ) ; CHR$ ( 65 ) ; LEN ( A$ )',
]


def base_programs(tier):
    r = rng("layout-suite")
    progs = [(p, "probe") for p in PROBES]
    for t in G.example_programs()[: (2 if tier != "thorough" else 50)]:
        progs.append((t, "example"))
    for t in G.test_suite_programs()[: (40 if tier != "thorough" else 400)]:
        progs.append((t, "test-program"))
    for _ in range(40 if tier != "thorough" else 400):
        progs.append((G.Gen(r, spaces=False).program(r.choice([2, 3, 5, 8])), "generated"))
    # (added last, so that the draws of everything above stay what they were) a literal that is spelled in code and in a DATA
    # statement with an empty item: the tool rewrites DATA numbers in place
    for p in ['10 DATA -1,,2E1\n20 X=-1:Y=2E1', '10 X=25:DATA 25,,1E2\n20 Y=1E2:Z=25', '10 DATA 5,,7\n20 READ A,B,C\n30 SOUND 5,7:X=5+7']:
        progs.append((p, "probe"))
    return r, progs


def variants(r, lines, tier, kind0):
    base = L.canonical(lines)
    out = []

    def add(kind, text, detail=""):
        if text != base:
            out.append((kind, text, detail))

    bnd = L.boundaries(lines)
    nsingle = len(bnd) if (tier == "thorough" and len(bnd) <= 40) or kind0 == "probe" else min(len(bnd), 10)
    for li, k, ch in (bnd if nsingle == len(bnd) else r.sample(bnd, nsingle)):
        for v in ch:
            if v != lines[li][1][k]:
                toks = lines[li][0]
                add("single", L.render_program(L.with_gap(lines, li, k, v)),
                    f"{v} blanks between {toks[k - 1][0]!r} and {toks[k][0] if k < len(toks) else '<end of line>'!r}")
    dense = [(t, list(g)) for t, g in lines]
    wide = [(t, list(g)) for t, g in lines]
    rnd = [(t, list(g)) for t, g in lines]
    for li, k, ch in bnd:
        dense[li][1][k] = min(ch)
        wide[li][1][k] = max(ch)
        rnd[li][1][k] = r.choice(ch)
    add("dense", L.render_program(dense))
    add("wide", L.render_program(wide))
    add("random", L.render_program(rnd))
    q = L.qmark(lines)
    if q:
        add("qmark", L.render_program(q))
    bl = base.split("\n")[:-1]
    k = r.randrange(len(bl) + 1)
    add("blanklines", "\n".join(bl[:k] + [""] + bl[k:]) + "\n", f"an empty line before line {k}")
    add("blanklines", "\n" + base + "\n\n", "an empty line first and two last")
    k = r.randrange(len(bl) + 1)
    add("spacelines", "\n".join(bl[:k] + [r.choice([" ", "  "])] + bl[k:]) + "\n", f"a line of blanks before line {k}")
    add("crlf", L.render_program(lines, eol="\r\n"))
    add("cr", L.render_program(lines, eol="\r"))
    add("nofinal", L.render_program(lines, final=False))
    add("nul", base + "\0")
    nb = L.number_blanks(lines, r, False)
    if nb:
        add("numblank", L.render_program(nb[0]), f"{nb[1]!r} spelled {nb[2]!r}")
    if kind0 == "probe":        # a probe gets (nearly) every one of its literals spelled with a blank - from a stream of its own
        import random as _random
        r_own = _random.Random(len(base) * 7919 + sum(map(ord, base)))
        for _ in range(7):
            nb = L.number_blanks(lines, r_own, False)
            if nb:
                add("numblank", L.render_program(nb[0]), f"{nb[1]!r} spelled {nb[2]!r}")
    nb = L.number_blanks(lines, r, True)
    if nb:
        add("digitblank", L.render_program(nb[0]), f"{nb[1]!r} spelled {nb[2]!r}")
    for _ in range(3):
        db = L.data_blanks(lines, r)
        if db:
            add("datablank", L.render_program(db[0]), db[1])
    for li, (toks, gaps) in enumerate(lines):
        # ... [LET] X$ = "text"  /  X$( ... ) = "text"   at the very end of a line
        if (len(toks) >= 3 and toks[-1][1] == "str" and toks[-1][0].endswith('"') and len(toks[-1][0]) >= 2
                and toks[-2][0] == "=" and gaps[-1] == 0
                and (toks[-3][0].endswith("$") or toks[-3][0] == ")")
                and not any(k in ("rem", "data") for _, k in toks)):
            oq = [(list(t), list(g)) for t, g in lines]
            oq[li][0][-1] = (toks[-1][0][:-1], "str")
            add("openquote", L.render_program(oq), f"line {li}: {toks[-1][0]} without its closing quote")
    lead = [(t, list(g)) for t, g in lines]
    li = r.randrange(len(lead))
    lead[li][1][0] = r.choice([1, 2])
    add("lead", L.render_program(lead))
    return base, out


def cases(tier):
    r, progs = base_programs(tier)
    out, skipped = [], 0
    for text, kind0 in progs:
        lines = L.lex_program(text.replace("\r\n", "\n").replace("\r", "\n").rstrip("\0\n"))
        if not lines:
            skipped += 1
            continue
        base, vs = variants(r, lines, tier, kind0)
        for kind, vtext, detail in vs:
            out.append({"fmt": "layout", "kind": kind, "text": vtext, "base": base, "detail": detail, "opts": OPTS,
                        "source": kind0, "req": "layout " + hexs(vtext.encode()) + " " + hexs(base.encode())})
    return out


def _work(item):
    import impl_b09
    text, base = item
    sx = impl_b09.sexp(text)
    impl = impl_b09.convert(text, OPTS)
    return (impl_b09.convast_request(sx, OPTS) if sx is not None else None), impl, impl_b09.convert(base, OPTS)


def run(tier):
    import impl_b09
    cs = cases(tier)
    with mp.Pool(16) as pool:
        res = pool.map(_work, [(c["text"], c["base"]) for c in cs], chunksize=8)
    reqs, idx = ["setlib " + hexs(impl_b09.lib_text().encode())], []
    for k, (req, _, _) in enumerate(res):
        if req is not None:
            idx.append(k)
            reqs.append(req)
    outs = run_driver(reqs)[1:]
    impl = [i for _, i, _ in res]
    for k, (_, _, b) in enumerate(res):
        cs[k]["aux"] = {"base": b}
    model = list(impl)
    for k, o in zip(idx, outs):
        model[k] = o
    dis = [{"req": cs[k]["text"], "kind": cs[k]["kind"], "model": model[k][:160], "impl": impl[k][:160]}
           for k in range(len(cs)) if model[k] != impl[k]]
    return {"cases": cs, "model": model, "impl": impl, "disagreements": dis}


def status(o):
    return "ok" if o.startswith("ok ") else "rejected"


def oracle(case, impl):
    base = case["aux"]["base"]
    note(f"layout: {case['kind']} variant compared with its base spelling ({status(base)})")
    if case["kind"] == "openquote" and status(base) == "ok" and status(impl) != "ok":
        # the tool documents the open literal only for a plain assignment; elsewhere it refuses (no output, nothing wrong in it)
        note("layout: openquote variant refused (the target is not a plain string variable / element)")
        return None
    if status(base) != status(impl):
        return (f"the base spelling is {status(base)} ({base[:40]}) but the {case['kind']} variant is {status(impl)} "
                f"({impl[:60]}) {case['detail']}")
    if status(base) == "ok" and base != impl:
        from common import unhex
        a, b = unhex(base[3:]).decode(), unhex(impl[3:]).decode()
        la, lb = a.split("\n"), b.split("\n")
        k = next((i for i in range(min(len(la), len(lb))) if la[i] != lb[i]), min(len(la), len(lb)))
        return (f"the {case['kind']} variant converts differently {case['detail']}: line {k} is "
                f"{la[k] if k < len(la) else '<missing>'!r} for the base spelling and {lb[k] if k < len(lb) else '<missing>'!r} for the variant")
    return None


def has_tail(text):
    """does the program have a REM / ' comment or a DATA statement (whose text runs to the line end)"""
    lines = L.lex_program(text.rstrip("\n")) or []
    return any(kind in ("rem", "data") for toks, _ in lines for _, kind in toks)


def classify(case, impl, why):
    k = case["kind"]
    if k == "lead" and "variant is rejected" in why:
        return "blank-before-line-number"
    if k == "spacelines" and "variant is rejected" in why:
        return "line-of-blanks"
    if k == "digitblank":
        return "blank-between-digits"
    if k in ("cr", "crlf") and has_tail(case["base"]):
        return "cr-kept-in-line-tail"
    if "(* CLEAR" in why and "converts differently" in why:
        return "clear-text-copied"
    return None


if __name__ == "__main__":
    import sys
    from collections import Counter
    res = run(sys.argv[1] if len(sys.argv) > 1 else "quick")
    print(len(res["cases"]), "cases", len(res["disagreements"]), "disagreements")
    for d in res["disagreements"][:5]:
        print(d)
    cnt = Counter()
    kinds = Counter(c["kind"] for c in res["cases"])
    for c, i in zip(res["cases"], res["impl"]):
        w = oracle(c, i)
        if w:
            k = classify(c, i, w)
            cnt[(c["kind"], k)] += 1
            if cnt[(c["kind"], k)] <= (6 if k is None else 1):
                print("----", c["kind"], k, "|", w[:400])
                print("   base:", c["base"][:200].replace("\n", " / "))
    print(cnt)
    print(kinds, Counter(status(i) for i in res["impl"]), Counter(status(c["aux"]["base"]) for c in res["cases"]))
