"""Serialise the object graph built by `BasicVisitor().visit(tree)` (coco.b09.elements classes)
into the S-expression the Lean model reads (`Model.Sexp` / `Model.Ast.ofSexp`).

Format: nodes `( Tag field … )`, lists `[ … ]`, strings `s:<hex utf-8>` (`s:` alone is the
empty string), integers `i:<decimal>`, `T`/`F`, `N` for None.  Everything is separated by
single blanks.  Anything that is not one of the expected classes (a leaked parsimonious node,
a stray str) is dumped as `( Raw s:<text> )` so that the model sees it too.
"""
from coco.b09 import elements as E
from coco.b09.prog import BasicProg


def s(x):
    return "s:" + str(x).encode("utf-8").hex()


def b(x):
    return "T" if x else "F"


def lst(xs, f):
    return "[ " + " ".join(f(x) for x in xs) + " ]" if xs else "[ ]"


def lit(v):
    if isinstance(v, bool):
        return f"( LInt i:{int(v)} )"
    if isinstance(v, int):
        return f"( LInt i:{v} )"
    if isinstance(v, float):
        return f"( LFlt {s(repr(v))} )"
    if isinstance(v, str):
        return f"( LStr {s(v)} )"
    return f"( LStr {s(repr(v))} )"


def explist(el):
    """BasicExpressionList -> ( EL parens [ … ] )"""
    if not isinstance(el, E.BasicExpressionList):
        return f"( Raw {s(getattr(el, 'text', repr(el)))} )"
    return f"( EL {b(el._parens)} {lst(list(el._exp_list), expr)} )"


def expr(e):
    t = type(e)
    if t is E.BasicLiteral:
        return f"( Lit {lit(e._literal)} {b(e._is_str_expr)} )"
    if t is E.HexLiteral:
        return f"( Hex i:{e._literal} {b(e._is_float)} )"
    if t is E.BasicVar:
        return f"( Var {s(e._name)} {b(e._is_str_expr)} )"
    if t is E.BasicArrayRef:
        return f"( Arr {expr(e._var)} {explist(e._indices)} {b(e._is_str_expr)} )"
    if t in (E.BasicBinaryExp, E.BasicBooleanBinaryExp):
        return f"( Bin {b(t is E.BasicBooleanBinaryExp)} {expr(e._exp1)} {s(e._op)} {expr(e._exp2)} )"
    if t in (E.BasicOpExp, E.BasicBooleanOpExp):
        return f"( Un {b(t is E.BasicBooleanOpExp)} {s(e._operator)} {expr(e._exp)} )"
    if t in (E.BasicParenExp, E.BasicBooleanParenExp):
        return f"( Paren {b(t is E.BasicBooleanParenExp)} {expr(e._exp)} {b(e._is_str_expr)} )"
    if t is E.BasicFunctionCall:
        return f"( Call {s(e._func)} {explist(e._args)} {b(e._is_str_expr)} )"
    if t in (E.BasicFunctionalExpression, E.BasicJoystkExpression):
        var = "N" if e._var is None else expr(e._var)
        return f"( FExp {b(t is E.BasicJoystkExpression)} {s(e._func)} {explist(e._args)} {b(e._is_str_expr)} {var} )"
    if t is E.BasicVarptrExpression:
        return f"( Varptr {expr(e._var)} )"
    if t is E.BasicPrintControl:
        return f"( Ctl {s(e._control_char)} )"
    if isinstance(e, E.AbstractBasicStatement):
        return f"( StmtExp {stmt(e)} )"
    if t is E.BasicOperator:
        return f"( Op {s(e._operator)} )"
    return f"( Raw {s(getattr(e, 'text', repr(e)))} )"


def pre(st):
    return lst(getattr(st, "_pre_assignment_statements", []), stmt)


def stmt_or_goto(x):
    return "N" if x is None else stmt(x)


def stmt(st):
    t = type(st)
    if t is E.BasicStatements:
        return f"( Stmts {b(st._multi_line)} {lst(st._statements, stmt)} {pre(st)} )"
    if t is E.BasicAssignment:
        return f"( Assign {b(bool(st._let_kw))} {expr(st._var)} {expr(st._exp)} {pre(st)} )"
    if isinstance(st, E.BasicRunCall):
        kind = "hbuff" if t is E.BasicHbuffStatement else "run"
        return f"( Run {s(kind)} {s(st._run_invocation)} {explist(st._arguments)} {pre(st)} )"
    if t is E.BasicGoto:
        return f"( Goto i:{st._linenum} {b(st._implicit)} {b(st._is_gosub)} {pre(st)} )"
    if t is E.BasicOnErrGoStatement:
        return f"( OnErr i:{st._linenum} {pre(st)} )"
    if t is E.BasicOnBrkGoStatement:
        return f"( OnBrk i:{st._linenum} {pre(st)} )"
    if t is E.BasicOnGoStatement:
        return f"( OnGo {expr(st._exp)} {lst(st._linenums, lambda n: f'i:{n}')} {b(st._is_gosub)} {pre(st)} )"
    if t is E.BasicIf:
        return f"( If {expr(st._exp)} {stmt(st._statements)} {pre(st)} )"
    if t is E.BasicIfElse:
        return (f"( IfElse {expr(st._exp)} {stmt(st._statements)} {lst(st._else_if_statements, stmt)} "
                f"{stmt_or_goto(st._else_statements)} {pre(st)} )")
    if t is E.BasicComment:
        return f"( Comment {s(st._comment)} )"
    if t is E.BasicPrintStatement:
        return f"( Print {lst(st._print_args._args, expr)} {pre(st)} )"
    if t is E.BasicSound:
        return f"( Sound {expr(st._exp1)} {expr(st._exp2)} {pre(st)} )"
    if t is E.BasicPoke:
        return f"( Poke {expr(st._exp1)} {expr(st._exp2)} {pre(st)} )"
    if t is E.BasicCls:
        return f"( Cls {'N' if st._exp is None else expr(st._exp)} {pre(st)} )"
    if t is E.BasicDataStatement:
        return f"( Data {explist(st._exp_list)} {pre(st)} )"
    if t is E.BasicKeywordStatement:
        return f"( Kw {s(st._keyword)} {pre(st)} )"
    if t is E.BasicForStatement:
        step = "N" if st._step_exp is None else expr(st._step_exp)
        return f"( For {expr(st._var)} {expr(st._start_exp)} {expr(st._end_exp)} {step} {pre(st)} )"
    if t is E.BasicNextStatement:
        return f"( Next {explist(st._var_list)} {pre(st)} )"
    if t is E.BasicDimStatement:
        sizes = lst(sorted(st._strname_to_size.items()), lambda kv: f"( KV {s(kv[0])} i:{kv[1]} )")
        return (f"( Dim {lst(st._dim_vars, expr)} {b(st._initialize_vars)} i:{st._default_str_storage} "
                f"{sizes} {pre(st)} )")
    if t is E.BasicReadStatement:
        return f"( Read {lst(st._rhs_list, expr)} {pre(st)} )"
    if t is E.BasicInputStatement:
        return f"( Input {'N' if st._message is None else expr(st._message)} {lst(st._rhs_list, expr)} )"
    if t is E.BasicWidthStatement:
        return f"( Width {expr(st._expr)} {pre(st)} )"
    if t is E.Basic09CodeStatement:
        return f"( Code {s(st._basic09_code)} {pre(st)} )"
    if isinstance(st, E.AbstractBasicExpression) or isinstance(st, (E.BasicOpExp, E.BasicPrintControl)):
        return f"( ExpStmt {expr(st)} )"
    return f"( RawStmt {s(getattr(st, 'text', repr(st)))} )"


def line(ln):
    num = "N" if ln._num is None else f"i:{ln._num}"
    return f"( Line {num} {stmt(ln._statements)} {b(ln._is_referenced)} )"


def prog(p: BasicProg):
    return (f"( Prog {lst(p._prefix_lines, line)} {lst(p._lines, line)} {lst(p._suffix_lines, line)} "
            f"{s(p._procname)} )")


def parse_to_sexp(text: str) -> str:
    """text -> S-expression of the AST as built by the real grammar + visitor"""
    from coco.b09.grammar import grammar
    from coco.b09.parser import BasicVisitor
    tree = grammar.parse(text)
    return prog(BasicVisitor().visit(tree))
