namespace Ladder

inductive Tok | id (s : String) | op (s : String) | lp | rp
deriving DecidableEq, Repr

inductive BExpr
| atom (s : String) | bin (o : String) (l r : BExpr) | neg (e : BExpr) | paren (e : BExpr)
deriving DecidableEq, Repr

/-- binary operator level: 0 sum, 1 prod, 2 pow -/
def lvl : String → Option Nat
  | "+" => some 0 | "-" => some 0 | "*" => some 1 | "/" => some 1 | "^" => some 2 | _ => none

/-- BASIC09 ladder: level 3 = unary, 4 = atom. Left associative at every binary level. -/
inductive ExprAt : Nat → List Tok → BExpr → Prop
| atom (s) : ExprAt 4 [.id s] (.atom s)
| paren {ts e} : ExprAt 0 ts e → ExprAt 4 (.lp :: ts ++ [.rp]) (.paren e)
| neg {ts e} : ExprAt 3 ts e → ExprAt 3 (.op "-" :: ts) (.neg e)
| up {k ts e} : k < 4 → ExprAt (k+1) ts e → ExprAt k ts e
| bin {k o ts1 ts2 l r} : lvl o = some k → ExprAt k ts1 l → ExprAt (k+1) ts2 r →
    ExprAt k (ts1 ++ .op o :: ts2) (.bin o l r)

theorem ExprAt.lower {k ts e} (h : ExprAt k ts e) : ∀ j, j ≤ k → k ≤ 4 → ExprAt j ts e := by
  intro j hj hk
  obtain ⟨d, rfl⟩ : ∃ d, k = j + d := ⟨k - j, by omega⟩
  induction d generalizing ts e with
  | zero => simpa using h
  | succ d ih =>
    have : ExprAt (j + d) ts e := ExprAt.up (by omega) (by simpa [Nat.add_assoc] using h)
    exact ih this (by omega) (by omega)

/-- tool AST: a chain at a level, operands are arbitrary tool expressions (the tool's own nesting) -/
inductive TExpr
| var (s : String)
| paren (e : TExpr)
| neg (e : TExpr)
| chain (k : Nat) (e0 : TExpr) (rest : List (String × TExpr))

def TExpr.level : TExpr → Nat
  | .var _ => 4 | .paren _ => 4 | .neg _ => 3 | .chain k _ _ => k

mutual
def emit : TExpr → List Tok
  | .var s => [.id s]
  | .paren e => .lp :: emit e ++ [.rp]
  | .neg e => .op "-" :: emit e
  | .chain _ e0 rest => emit e0 ++ emitRest rest
def emitRest : List (String × TExpr) → List Tok
  | [] => []
  | (o, e) :: r => .op o :: emit e ++ emitRest r
end

mutual
def lowerE : TExpr → BExpr
  | .var s => .atom s
  | .paren e => .paren (lowerE e)
  | .neg e => .neg (lowerE e)
  | .chain _ e0 rest => lowerRest (lowerE e0) rest
def lowerRest (acc : BExpr) : List (String × TExpr) → BExpr
  | [] => acc
  | (o, e) :: r => lowerRest (.bin o acc (lowerE e)) r
end

-- what the grammar guarantees about a tool tree (decidable)
mutual
def wf : TExpr → Bool
  | .var _ => true
  | .paren e => wf e
  | .neg e => wf e && decide (3 ≤ e.level)
  | .chain k e0 rest => decide (k ≤ 2) && wf e0 && decide (k < e0.level) && wfRest k rest
def wfRest (k : Nat) : List (String × TExpr) → Bool
  | [] => true
  | (o, e) :: r => decide (lvl o = some k) && wf e && decide (k < e.level) && wfRest k r
end

theorem level_le (t : TExpr) (h : wf t = true) : t.level ≤ 4 := by
  cases t <;> simp [TExpr.level, wf] at * <;> omega

mutual
theorem emit_parses : ∀ (t : TExpr), wf t = true → ExprAt t.level (emit t) (lowerE t)
  | .var s, _ => by simpa [emit, lowerE, TExpr.level] using ExprAt.atom s
  | .paren e, h => by
      have he : wf e = true := by simpa [wf] using h
      have ih := emit_parses e he
      have : ExprAt 0 (emit e) (lowerE e) := ih.lower 0 (Nat.zero_le _) (level_le e he)
      simpa [emit, lowerE, TExpr.level] using ExprAt.paren this
  | .neg e, h => by
      have ⟨he, hl⟩ : wf e = true ∧ 3 ≤ e.level := by simpa [wf] using h
      have ih := emit_parses e he
      have : ExprAt 3 (emit e) (lowerE e) := ih.lower 3 hl (level_le e he)
      simpa [emit, lowerE, TExpr.level] using ExprAt.neg this
  | .chain k e0 rest, h => by
      have ⟨⟨⟨hk, h0⟩, hl⟩, hr⟩ : ((k ≤ 2 ∧ wf e0 = true) ∧ k < e0.level) ∧ wfRest k rest = true := by
        simpa [wf] using h
      have ih0 := emit_parses e0 h0
      have h0' : ExprAt k (emit e0) (lowerE e0) := ih0.lower k (by omega) (level_le e0 h0)
      simpa [emit, lowerE, TExpr.level] using rest_ok k hk rest hr (emit e0) (lowerE e0) h0'
theorem rest_ok (k : Nat) (hk : k ≤ 2) : ∀ (rest : List (String × TExpr)), wfRest k rest = true →
    ∀ (ts : List Tok) (acc : BExpr), ExprAt k ts acc →
      ExprAt k (ts ++ emitRest rest) (lowerRest acc rest)
  | [], _, ts, acc, h => by simpa [emitRest, lowerRest] using h
  | (o, e) :: r, hw, ts, acc, h => by
      have ⟨⟨⟨ho, he⟩, hl⟩, hr⟩ : ((lvl o = some k ∧ wf e = true) ∧ k < e.level) ∧ wfRest k r = true := by
        simpa [wfRest] using hw
      have ihe : ExprAt (k+1) (emit e) (lowerE e) := (emit_parses e he).lower (k+1) hl (level_le e he)
      have hstep : ExprAt k (ts ++ .op o :: emit e) (.bin o acc (lowerE e)) := ExprAt.bin ho h ihe
      have := rest_ok k hk r hr (ts ++ .op o :: emit e) (.bin o acc (lowerE e)) hstep
      simpa [emitRest, lowerRest, List.append_assoc] using this
end

-- non-vacuity: A - B - C * D parses as ((A-B) - (C*D))
example : ExprAt 0 (emit (.chain 0 (.var "A") [("-", .var "B"), ("-", .chain 1 (.var "C") [("*", .var "D")])]))
    (.bin "-" (.bin "-" (.atom "A") (.atom "B")) (.bin "*" (.atom "C") (.atom "D"))) := by
  have := emit_parses (.chain 0 (.var "A") [("-", .var "B"), ("-", .chain 1 (.var "C") [("*", .var "D")])]) (by decide)
  simpa [lowerE, lowerRest, TExpr.level] using this
#print axioms emit_parses
end Ladder
