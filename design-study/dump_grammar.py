# throwaway prototype of the translator's grammar dump
import re, sys
import re._parser as P
from coco.b09.grammar import grammar
from parsimonious import expressions as E

def lstr(s):
    out = '"'
    for ch in s:
        o = ord(ch)
        if ch == '"': out += '\\"'
        elif ch == '\\': out += '\\\\'
        elif ch == '\n': out += '\\n'
        elif ch == '\r': out += '\\r'
        elif ch == '\t': out += '\\t'
        elif 32 <= o < 127: out += ch
        else: out += '\\u{%x}' % o
    return out + '"'

def rx(tree):
    # tree: SubPattern (list of (op, av))
    items = [rx1(op, av) for op, av in tree]
    if len(items) == 1: return items[0]
    return '(.seq [' + ', '.join(items) + '])'
def cls_item(o, a):
    o = str(o)
    if o == 'LITERAL': return f'(.ch {a})'
    if o == 'RANGE': return f'(.range {a[0]} {a[1]})'
    if o == 'CATEGORY': return f'(.cat {lstr(str(a))})'
    raise Exception(o)
def rx1(op, av):
    op = str(op)
    if op == 'LITERAL': return f'(.lit {av})'
    if op == 'NOT_LITERAL': return f'(.set true [(.ch {av})])'
    if op == 'ANY': return '.any'
    if op == 'IN':
        neg = False; items=[]
        for o,a in av:
            if str(o)=='NEGATE': neg=True
            else: items.append(cls_item(o,a))
        return f'(.set {"true" if neg else "false"} [' + ', '.join(items) + '])'
    if op in ('MAX_REPEAT',):
        lo, hi, sub = av
        his = 'none' if str(hi)=='MAXREPEAT' else f'(some {hi})'
        return f'(.rep {lo} {his} {rx(sub)})'
    if op == 'SUBPATTERN':
        return rx(av[3])
    if op == 'BRANCH':
        return '(.alt [' + ', '.join(rx(b) for b in av[1]) + '])'
    if op == 'ASSERT_NOT': return f'(.nlook {rx(av[1])})'
    if op == 'ASSERT': return f'(.look {rx(av[1])})'
    if op == 'AT': return f'(.at {lstr(str(av))})'
    raise Exception(op)

names = {}
def pe(e, top=False):
    t = type(e).__name__
    if not top and e.name:
        return f'(.ref {lstr(e.name)})'
    if t == 'Literal': return f'(.lit {lstr(e.literal)})'
    if t == 'Regex': return f'(.regex {rx(P.parse(e.re.pattern))})'
    if t == 'Sequence': return '(.seq [' + ', '.join(pe(m) for m in e.members) + '])'
    if t == 'OneOf': return '(.alt [' + ', '.join(pe(m) for m in e.members) + '])'
    if t == 'Quantifier':
        hi = 'none' if e.max == float('inf') else f'(some {int(e.max)})'
        return f'(.quant {e.min} {hi} {pe(e.members[0])})'
    if t == 'Lookahead': return f'(.look {"true" if e.negativity else "false"} {pe(e.members[0])})'
    if t == 'Not': return f'(.look true {pe(e.members[0])})'
    raise Exception(t)
print('import Proto.Peg\nnamespace Proto\nopen PExpr Rx\ndef rules : List (String × PExpr) := [')
rows=[]
for name, e in grammar.items():
    if e.name != name: continue
    rows.append(f'  ({lstr(name)}, {pe(e, top=True)})')
print(',\n'.join(rows))
print(']\nend Proto')
