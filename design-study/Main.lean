import Proto.Grammar
open Proto
def main (args : List String) : IO Unit := do
  let txt ← IO.FS.readFile args[0]!
  let inp := (txt.toList.map Char.toNat).toArray
  let tbl := rules
  let g := fun n => (tbl.find? (·.1 == n)).map (·.2)
  let t0 ← IO.monoMsNow
  match parse ⟨g, inp⟩ (.ref "aaa_prog") "" 0 with
  | some t => IO.println s!"ok end={t.e} of {inp.size} nodes={t.count}"
  | none => IO.println "reject"
  let t1 ← IO.monoMsNow
  IO.println s!"{t1 - t0} ms"
