namespace Proto

inductive ClsItem | ch (c : Nat) | range (lo hi : Nat) | cat (name : String)
deriving Repr, DecidableEq

inductive Rx
| lit (c : Nat) | any | set (neg : Bool) (items : List ClsItem)
| seq (rs : List Rx) | alt (rs : List Rx) | rep (lo : Nat) (hi : Option Nat) (r : Rx)
| look (r : Rx) | nlook (r : Rx) | at (what : String)
deriving Repr

inductive PExpr
| lit (s : String) | regex (r : Rx) | seq (es : List PExpr) | alt (es : List PExpr)
| quant (lo : Nat) (hi : Option Nat) (e : PExpr) | look (neg : Bool) (e : PExpr) | ref (name : String)
deriving Repr

def ClsItem.matches (c : Nat) : ClsItem → Bool
  | .ch d => c == d
  | .range lo hi => lo ≤ c && c ≤ hi
  | .cat "CATEGORY_DIGIT" => 48 ≤ c && c ≤ 57
  | .cat "CATEGORY_SPACE" => c == 32 || (9 ≤ c && c ≤ 13)
  | .cat "CATEGORY_WORD" => (48 ≤ c && c ≤ 57) || (65 ≤ c && c ≤ 90) || (97 ≤ c && c ≤ 122) || c == 95
  | .cat _ => false

/-- backtracking matcher, continuation-passing: returns first end position accepted by k -/
partial def Rx.m (inp : Array Nat) : Rx → Nat → (Nat → Option Nat) → Option Nat
  | .lit c, i, k => if h : i < inp.size then (if inp[i] == c then k (i+1) else none) else none
  | .any, i, k => if h : i < inp.size then (if inp[i] != 10 then k (i+1) else none) else none
  | .set neg items, i, k =>
      if h : i < inp.size then
        let hit := items.any (·.matches inp[i])
        if hit != neg then k (i+1) else none
      else none
  | .seq rs, i, k => go rs i k
  | .alt rs, i, k => rs.findSome? (fun r => r.m inp i k)
  | .rep lo hi r, i, k => rep r lo hi i k
  | .look r, i, k => match r.m inp i some with | some _ => k i | none => none
  | .nlook r, i, k => match r.m inp i some with | some _ => none | none => k i
  | .at "AT_END", i, k => if i == inp.size || (i + 1 == inp.size && inp[i]! == 10) then k i else none
  | .at _, _, _ => none
where
  go : List Rx → Nat → (Nat → Option Nat) → Option Nat
    | [], i, k => k i
    | r :: rs, i, k => r.m inp i (fun j => go rs j k)
  rep (r : Rx) : Nat → Option Nat → Nat → (Nat → Option Nat) → Option Nat
    | lo, hi, i, k =>
      let canMore := match hi with | some 0 => false | _ => true
      let more := if canMore then
          r.m inp i (fun j => if j == i then none else rep r (lo - 1) (hi.map (· - 1)) j k)
        else none
      match more with
      | some e => some e
      | none => if lo == 0 then k i else none

inductive PTree
| node (name : String) (s e : Nat) (kids : List PTree)
deriving Repr

def PTree.e : PTree → Nat | .node _ _ e _ => e
partial def PTree.count : PTree → Nat | .node _ _ _ ks => 1 + (ks.map PTree.count).foldl (·+·) 0


structure Ctx where
  g : String → Option PExpr
  inp : Array Nat

mutual
partial def parse (c : Ctx) : PExpr → String → Nat → Option PTree
  | .lit s, nm, i =>
      let a := s.toList.map Char.toNat
      if (List.range a.length).all (fun j => c.inp.getD (i+j) 0x110000 == a[j]!) then some (.node nm i (i + a.length) []) else none
  | .regex r, nm, i => (r.m c.inp i some).map (fun e => .node nm i e [])
  | .seq es, nm, i => parseSeq c nm i es i []
  | .alt es, nm, i => es.findSome? (fun e => (parse c e "" i).map (fun t => .node nm i t.e [t]))
  | .quant lo hi e, nm, i => parseQuant c nm i lo hi e i []
  | .look neg e, nm, i => match parse c e "" i with
      | some _ => if neg then none else some (.node nm i i [])
      | none => if neg then some (.node nm i i []) else none
  | .ref n, _, i => match c.g n with
      | some e => parse c e n i
      | none => none
partial def parseSeq (c : Ctx) (nm : String) (i : Nat) : List PExpr → Nat → List PTree → Option PTree
  | [], j, acc => some (.node nm i j acc.reverse)
  | e :: es, j, acc => match parse c e "" j with
      | some t => parseSeq c nm i es t.e (t :: acc)
      | none => none
partial def parseQuant (c : Ctx) (nm : String) (i : Nat) (lo : Nat) (hi : Option Nat) (e : PExpr) (j : Nat) (acc : List PTree) : Option PTree :=
  let fin := if acc.length ≥ lo then some (PTree.node nm i j acc.reverse) else none
  let full := match hi with | some h => acc.length ≥ h | none => false
  if j < c.inp.size && !full then
    match parse c e "" j with
    | none => fin
    | some t =>
      let acc' := t :: acc
      if acc'.length ≥ lo && t.e == j then
        some (PTree.node nm i j acc'.reverse)
      else parseQuant c nm i lo hi e t.e acc'
  else fin
end
end Proto
