/-
Line-protocol driver: runs the executable models/specs on requests read from stdin.
One request per line, fields separated by one blank, byte payloads hex-encoded.
Answers: `ok …` / `fail <kind>` / `bad-op`.
-/
import CocoVerif.Model.Img

open CocoVerif.Model

def hexVal (c : Char) : Option Nat :=
  if '0' ≤ c && c ≤ '9' then some (c.toNat - 48)
  else if 'a' ≤ c && c ≤ 'f' then some (c.toNat - 87)
  else if 'A' ≤ c && c ≤ 'F' then some (c.toNat - 55)
  else none

def unhex (s : String) : Option (List Nat) :=
  let rec go : List Char → List Nat → Option (List Nat)
    | [], acc => some acc.reverse
    | [_], _ => none
    | a :: b :: r, acc => do
        let x ← hexVal a
        let y ← hexVal b
        go r ((x * 16 + y) :: acc)
  if s == "-" then some [] else go s.toList []

def hexDigit (n : Nat) : Char := if n < 10 then Char.ofNat (48 + n) else Char.ofNat (87 + n)

def hex (bs : List Nat) : String :=
  if bs.isEmpty then "-" else
  String.ofList (bs.foldr (fun b acc => hexDigit (b / 16 % 16) :: hexDigit (b % 16) :: acc) [])

def showRes (r : Except String (List Nat)) : String :=
  match r with
  | .ok out => s!"ok {hex out}"
  | .error k => s!"fail {k}"

def handleImg (args : List String) : String :=
  match args with
  | ["hrs", w, h, skip, payload] =>
      match w.toNat?, h.toNat?, skip.toNat?, unhex payload with
      | some w, some h, some sk, some bs => showRes (Img.hrs w h sk bs)
      | _, _, _, _ => "bad-op"
  | ["pix", payload] =>
      match unhex payload with
      | some bs => showRes (Img.pix bs)
      | none => "bad-op"
  | ["max", arte, news, cols, rows, skip, ign, payload] =>
      match arte.toNat?, news.toNat?, cols.toNat?, skip.toNat?, ign.toNat?, unhex payload with
      | some a, some n, some c, some sk, some ig, some bs =>
          let rows := if rows == "-" then none else rows.toNat?
          showRes (Img.max { arte := a, newsroom := n != 0, cols := c, rows := rows, skip := sk,
                             ignore := ig != 0 } bs)
      | _, _, _, _, _, _ => "bad-op"
  | ["mge", payload] => match unhex payload with | some bs => showRes (Img.mge bs) | none => "bad-op"
  | ["rat", payload] => match unhex payload with | some bs => showRes (Img.rat bs) | none => "bad-op"
  | ["cm3", payload] => match unhex payload with | some bs => showRes (Img.cm3 bs) | none => "bad-op"
  | ["vef", payload] =>
      match unhex payload with
      | some bs =>
          match Img.vef bs with
          | .ok o => s!"ok {o.width} {o.height} {hex o.bitmap}"
          | .error k => s!"fail {k}"
      | none => "bad-op"
  | _ => "bad-op"

def handle (line : String) : String :=
  match (line.trimAscii.toString.splitOn " ") with
  | "img" :: args => handleImg args
  | ["ping"] => "ok pong"
  | _ => "bad-op"

partial def loop (h : IO.FS.Stream) (out : IO.FS.Stream) : IO Unit := do
  let line ← h.getLine
  if line.isEmpty then return ()
  out.putStrLn (handle line)
  loop h out

def main : IO Unit := do
  let out ← IO.getStdout
  loop (← IO.getStdin) out
  out.flush
