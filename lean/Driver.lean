/-
Line-protocol driver: runs the executable models/specs on requests read from stdin.
One request per line, fields separated by one blank, byte payloads hex-encoded.
Answers: `ok …` / `fail <kind>` / `bad-op`.
-/
import CocoVerif.Model.Img
import CocoVerif.Model.Compile
import CocoVerif.Model.ProcBank
import CocoVerif.Model.Cli
import CocoVerif.Model.Names
import CocoVerif.Props.C07
import CocoVerif.Spec.Device
import CocoVerif.Props.C14
import CocoVerif.Gen.EcbHelpers
import CocoVerif.Model.Peg
import CocoVerif.Gen.Grammar
import CocoVerif.Gen.FrontTables
import CocoVerif.Model.Front
import CocoVerif.Model.AstPrint
import CocoVerif.Model.Tool

open CocoVerif.Model CocoVerif.Model.Tool

def hexVal (c : Char) : Option Nat :=
  if '0' ≤ c && c ≤ '9' then some (c.toNat - 48)
  else if 'a' ≤ c && c ≤ 'f' then some (c.toNat - 87)
  else if 'A' ≤ c && c ≤ 'F' then some (c.toNat - 55)
  else none

def unhex (s : String) : Option (List Nat) :=
  let rec go : List Char → List Nat → Option (List Nat)
    | [], acc => some acc.reverse
    | [_], _ => none
    | a :: b :: r, acc => do
        let x ← hexVal a
        let y ← hexVal b
        go r ((x * 16 + y) :: acc)
  if s == "-" then some [] else go s.toList []

def hexDigit (n : Nat) : Char := if n < 10 then Char.ofNat (48 + n) else Char.ofNat (87 + n)

def hex (bs : List Nat) : String :=
  if bs.isEmpty then "-" else
  String.ofList (bs.foldr (fun b acc => hexDigit (b / 16 % 16) :: hexDigit (b % 16) :: acc) [])

def showRes (r : Except String (List Nat)) : String :=
  match r with
  | .ok out => s!"ok {hex out}"
  | .error k => s!"fail {k}"

def handleImg (args : List String) : String :=
  match args with
  | ["hrs", w, h, skip, payload] =>
      match w.toNat?, h.toNat?, skip.toNat?, unhex payload with
      | some w, some h, some sk, some bs => showRes (Img.hrs w h sk bs)
      | _, _, _, _ => "bad-op"
  | ["pix", payload] =>
      match unhex payload with
      | some bs => showRes (Img.pix bs)
      | none => "bad-op"
  | ["max", arte, news, cols, rows, skip, ign, payload] =>
      match arte.toNat?, news.toNat?, cols.toNat?, skip.toNat?, ign.toNat?, unhex payload with
      | some a, some n, some c, some sk, some ig, some bs =>
          let rows := if rows == "-" then none else rows.toNat?
          showRes (Img.max { arte := a, newsroom := n != 0, cols := c, rows := rows, skip := sk,
                             ignore := ig != 0 } bs)
      | _, _, _, _, _, _ => "bad-op"
  | ["mge", payload] => match unhex payload with | some bs => showRes (Img.mge bs) | none => "bad-op"
  | ["rat", payload] => match unhex payload with | some bs => showRes (Img.rat bs) | none => "bad-op"
  | ["cm3", payload] => match unhex payload with | some bs => showRes (Img.cm3 bs) | none => "bad-op"
  | ["vef", payload] =>
      match unhex payload with
      | some bs =>
          match Img.vef bs with
          | .ok o => s!"ok {o.width} {o.height} {hex o.bitmap}"
          | .error k => s!"fail {k}"
      | none => "bad-op"
  | _ => "bad-op"

def unhexStr (s : String) : Option String :=
  match unhex s with
  | some bs => String.fromUTF8? (ByteArray.mk (bs.map UInt8.ofNat).toArray)
  | none => none

def hexStr (s : String) : String := hex (s.toUTF8.toList.map UInt8.toNat)

def parseSizes (s : String) : List (String × Int) :=
  if s.isEmpty then [] else
  (s.splitOn ",").filterMap (fun kv => match kv.splitOn "=" with
    | [k, v] => v.toInt?.map (fun n => (k, n))
    | _ => none)

def parseOpts (flags storage procname sizes : String) : Option Compile.Options := do
  let f := flags.toList.map (· == '1')
  guard (f.length == 7)
  let st ← storage.toInt?
  let pn ← unhexStr procname
  let sz ← unhexStr sizes
  pure { addStandardPrefix := f[0]!, addSuffix := f[1]!, defaultWidth32 := f[2]!,
         filterUnusedLinenum := f[3]!, initializeVars := f[4]!, outputDependencies := f[5]!,
         skipProcedureHeaders := f[6]!, defaultStrStorage := st, procname := pn,
         strSizes := parseSizes sz }

def handleConvAst (lib : String) (args : List String) : String :=
  match args with
  | [flags, storage, procname, sizes, sx] =>
    match parseOpts flags storage procname sizes, unhexStr sx with
    | some o, some sxText =>
      match Sx.parse sxText with
      | none => "bad-op sexp"
      | some t =>
        match Ast.progOf t with
        | none => "bad-op ast"
        | some p =>
          match Compile.convertAst o p with
          | (.ok text, procname) =>
              (match ProcBank.finish lib text procname o.outputDependencies o.defaultStrStorage with
               | some out => s!"ok {hexStr out}"
               | none => "internal UnboundLocalError")
          | (.refused k, _) => s!"refused {k}"
          | (.internal k, _) => s!"internal {k}"
    | _, _ => "bad-op"
  | _ => "bad-op"

def handleProcBank (args : List String) : String :=
  match args with
  | ["invoked", l] => match unhexStr l with
      | some s => "ok " ++ hexStr ("\n".intercalate (ProcBank.invoked s.toList))
      | none => "bad-op"
  | ["header", l] => match unhexStr l with
      | some s => "ok " ++ hexStr ((ProcBank.headerName s.toList).getD "")
      | none => "bad-op"
  | ["subst", st, l] => match st.toInt?, unhexStr l with
      | some n, some s =>
          let repl := ": STRING" ++ (if n == 32 then "" else "[" ++ toString n ++ "]")
          "ok " ++ hexStr (String.ofList (ProcBank.substTags repl.toList s.toList))
      | _, _ => "bad-op"
  | ["bundle", st, name, text] => match st.toInt?, unhexStr name, unhexStr text with
      | some n, some nm, some t =>
          (match ProcBank.addFromStr {} t with
           | some b => (match ProcBank.bundle b nm n with
               | some t => "ok " ++ hexStr t
               | none => "internal fuel")
           | none => "internal UnboundLocalError")
      | _, _, _ => "bad-op"
  | _ => "bad-op"

/-- integer value of a numeric spelling (sign, digits; anything after the digits is ignored) -/
def valOf (cs : List Char) : Int :=
  let cs := cs.dropWhile (· == ' ')
  let (neg, ds) := match cs with
    | '-' :: r => (true, r)
    | '+' :: r => (false, r)
    | r => (false, r)
  let n : Nat := (ds.takeWhile Char.isDigit).foldl (fun acc c => acc * 10 + (c.toNat - 48)) 0
  if neg then -(n : Int) else (n : Int)

def showLibRes (r : Option B09Lib.Res) (outIdx : Nat) : String :=
  match r with
  | none => "fuel"
  | some (.err c) => s!"err {c}"
  | some .stuck => "stuck"
  | some (.ok env) => match env[outIdx]? with
      | some (.n x) => s!"ok n {x}"
      | some (.s cs) => "ok s " ++ hexStr (String.ofList cs)
      | _ => "stuck"

/-- initial environment: the given parameter values, then a default for every `dim` -/
def libEnv (p : B09Lib.Proc) (params : List B09Lib.V) : List B09Lib.V :=
  params ++ (p.kinds.drop params.length).map (fun k => if k == "string" then B09Lib.V.s [] else if k == "boolean" then B09Lib.V.b false else B09Lib.V.n 0)

/-- run one of the helper procedures *as translated from /repo just now* -/
def handleLib (args : List String) : String :=
  match args with
  | ["instr", st, s, p] => match st.toInt?, unhexStr s, unhexStr p with
      | some n, some s, some p =>
          showLibRes (B09Lib.exec valOf 100000 CocoVerif.Gen.EcbHelpers.ecb_instr.body
            (libEnv CocoVerif.Gen.EcbHelpers.ecb_instr [.n n, .s s.toList, .s p.toList, .n 77])) 3
      | _, _, _ => "bad-op"
  | ["string", c, s] => match c.toInt?, unhexStr s with
      | some n, some s =>
          showLibRes (B09Lib.exec valOf 100000 CocoVerif.Gen.EcbHelpers.ecb_string.body
            (libEnv CocoVerif.Gen.EcbHelpers.ecb_string [.n n, .s s.toList, .s "junk".toList])) 2
      | _, _ => "bad-op"
  | ["readfilter", s] => match unhexStr s with
      | some s => showLibRes (B09Lib.exec valOf 1000 CocoVerif.Gen.EcbHelpers.ecb_read_filter.body
          (libEnv CocoVerif.Gen.EcbHelpers.ecb_read_filter [.s s.toList, .n 77])) 1
      | _ => "bad-op"
  | _ => "bad-op"

/-- `cli <l z D w> <storage> <pathHex> <sizesHex> <sexpHex>`: the command line from the parsed program on -/
def handleCli (lib : String) (args : List String) : String :=
  match args with
  | [flags, storage, path, sizes, sx] =>
    let f := flags.toList.map (· == '1')
    match storage.toInt?, unhexStr path, unhexStr sizes, unhexStr sx with
    | some st, some path, some sz, some sxText =>
      if f.length != 4 then "bad-op" else
      let o := Cli.options { l := f[0]!, z := f[1]!, D := f[2]!, w := f[3]!, s := st, sizes := parseSizes sz } path
      match (Sx.parse sxText).bind Ast.progOf with
      | none => "bad-op ast"
      | some p =>
        match Compile.convertAst o p with
        | (.ok text, procname) =>
            (match ProcBank.finish lib text procname o.outputDependencies o.defaultStrStorage with
             | some out => s!"ok {hexStr (String.ofList (Cli.os9LineEnds out.toList))}"
             | none => "internal UnboundLocalError")
        | (.refused k, _) => s!"refused {k}"
        | (.internal k, _) => s!"internal {k}"
    | _, _, _, _ => "bad-op"
  | ["nl", t] => match unhexStr t with
      | some s => "ok " ++ hexStr (String.ofList (Cli.universalNewlines s.toList))
      | none => "bad-op"
  | _ => "bad-op"

/-- block keywords read back from emitted text (one keyword per line that is a block keyword line) -/
def scanKw (text : String) : List CocoVerif.Props.C07.Kw :=
  (text.splitOn "\n").filterMap (fun l =>
    let t := l.trimAscii.toString
    -- a label in front of the keyword
    let t := if t.toList.head?.map Char.isDigit == some true then
        (String.ofList ((t.toList.dropWhile Char.isDigit).dropWhile (· == ' '))) else t
    -- hoisted calls in front of an IF
    let t := match (t.splitOn " \\ ").getLast? with | some x => x | none => t
    if t == "ELSE" then some .else_ else if t == "ENDIF" then some .endif else if t == "LOOP" then some .loop
    else if t == "ENDLOOP" then some .endloop else if t == "ENDEXIT" then some .endexit
    else if t.startsWith "EXITIF " && t.endsWith " THEN" then some .exitif
    else if t.startsWith "IF " && t.endsWith " THEN" then some .if_
    else none)

/-- `skel <sexpHex>`: does `Props.C07.skel` describe the block keywords `Emit` writes for this AST? -/
def handleSkel (args : List String) : String :=
  match args with
  | [sx] =>
    match (unhexStr sx).bind Sx.parse |>.bind Ast.progOf with
    | none => "bad-op ast"
    | some p =>
      let bodies := p.lines.map (·.body)
      let text := "\n".intercalate (bodies.map (Emit.stmt 0 true))
      if scanKw text == CocoVerif.Props.C07.skels bodies then "ok same" else "ok differ"
  | _ => "bad-op"

/-! the front end: parse with the regenerated grammar, answer with a digest of the whole tree -/

def ruleIndex : Std.HashMap String Nat :=
  (List.range CocoVerif.Gen.Grammar.rules.size).foldl
    (fun m k => m.insert CocoVerif.Gen.Grammar.rules[k]!.name k) {}

def mix (h x : Nat) : Nat := (h * 1000003 + x + 1) % 2305843009213693951

mutual
  partial def treeDigest (t : Peg.PTree) (acc : Nat × Nat) : Nat × Nat :=
    match t with
    | .node name s e kids =>
        let k := (ruleIndex[name]?).getD CocoVerif.Gen.Grammar.rules.size
        let h := mix (mix (mix (mix acc.1 k) s) e) kids.length
        kidsDigest kids (h, acc.2 + 1)
  partial def kidsDigest (ts : List Peg.PTree) (acc : Nat × Nat) : Nat × Nat :=
    match ts with
    | [] => acc
    | t :: ts => kidsDigest ts (treeDigest t acc)
end

def handleParse (args : List String) : String :=
  match args with
  | [t] =>
    match unhexStr t with
    | none => "bad-op"
    | some text =>
      let cps := text.toList.map Char.toNat
      match Peg.parse CocoVerif.Gen.Grammar.rules CocoVerif.Gen.Grammar.start cps (cps.length * 64 + 100000) with
      | .ok tree => let (h, n) := treeDigest tree (0, 0); s!"ok {n} {h}"
      | .noMatch => "nomatch"
      | .incomplete k => s!"incomplete {k}"
      | .outOfFuel => "fuel"
  | _ => "bad-op"

def handleFront (args : List String) : String :=
  match args with
  | [t, f] =>
    match unhexStr t, unhexStr f with
    | some text, some ft =>
      (match frontProg text ft with
       | .ok p => "ok " ++ hexStr (AstPrint.prog p)
       | .error e => e)
    | _, _ => "bad-op"
  | _ => "bad-op"

/-- the whole tool in the model: source text -> BASIC09 text (front end, passes, emission, bundle) -/
def handleConvert (lib : String) (args : List String) : String :=
  match args with
  | [flags, storage, procname, sizes, t, f] =>
    match parseOpts flags storage procname sizes, unhexStr t, unhexStr f with
    | some o, some text, some ft =>
      (match frontProg text ft with
       | .error e =>
           if e == "nomatch" then "refused ParseError"
           else if e.startsWith "incomplete" then "refused IncompleteParseError"
           else if e.startsWith "raise " then "internal " ++ (e.drop 6).toString
           else e
       | .ok p =>
          match Compile.convertAst o p with
          | (.ok text, procname) =>
              (match ProcBank.finish lib text procname o.outputDependencies o.defaultStrStorage with
               | some out => s!"ok {hexStr out}"
               | none => "internal UnboundLocalError")
          | (.refused k, _) => s!"refused {k}"
          | (.internal k, _) => s!"internal {k}")
    | _, _, _ => "bad-op"
  | _ => "bad-op"

def handle (lib : String) (line : String) : String :=
  match (line.trimAscii.toString.splitOn " ") with
  | "img" :: args => handleImg args
  | "convast" :: args => handleConvAst lib args
  | "procbank" :: args => handleProcBank args
  | "lib" :: args => handleLib args
  | "cli" :: args => handleCli lib args
  | "skel" :: args => handleSkel args
  | "parse" :: args => handleParse args
  | "front" :: args => handleFront args
  | "convert" :: args => handleConvert lib args
  | ["c14table"] =>
      "ok " ++ ";".intercalate (CocoVerif.Props.C14.emittedCalls.map (fun c =>
        c.2.1 ++ "|" ++ ",".intercalate c.2.2.1 ++ "|" ++ (if c.2.2.2 then "1" else "0")))
  | ["xlname", k, n] =>
      (match unhexStr n with
       | some nm =>
          let kind := if k == "scalar" then Names.Kind.scalar else if k == "str" then Names.Kind.strScalar
            else if k == "array" then Names.Kind.array else Names.Kind.strArray
          "ok " ++ hexStr (String.ofList (Names.xl nm.toList kind))
       | none => "bad-op")
  | ["devforms"] =>
      "ok " ++ hexStr ("\n".intercalate (CocoVerif.Spec.Device.forms.map (fun f =>
        f.name ++ "\t" ++ f.template ++ "\t" ++ f.proc)))
  | ["devexpect", name, ops] =>
      (match unhexStr name, unhexStr ops with
       | some n, some o =>
          (match CocoVerif.Spec.Device.forms.find? (fun f => f.name == n) with
           | some f => "ok " ++ hexStr (CocoVerif.Spec.Device.expected f (if o.isEmpty then [] else o.splitOn "\t"))
           | none => "bad-op form")
       | _, _ => "bad-op")
  | ["ping"] => "ok pong"
  | _ => "bad-op"

partial def loop (h : IO.FS.Stream) (out : IO.FS.Stream) (lib : String) : IO Unit := do
  let line ← h.getLine
  if line.isEmpty then return ()
  match line.trimAscii.toString.splitOn " " with
  | ["setlib", l] =>
      let lib' := (unhexStr l).getD ""
      out.putStrLn "ok lib"
      loop h out lib'
  | _ =>
      out.putStrLn (handle lib line)
      loop h out lib

def main : IO Unit := do
  let out ← IO.getStdout
  loop (← IO.getStdin) out ""
  out.flush
