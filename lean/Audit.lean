/-
`lake env lean --run Audit.lean <module> …` — lists every theorem declared in the given
modules (e.g. CocoVerif.Props.C16 CocoVerif.Tie.ImgTables) with the axioms it depends on.
Output: one line per theorem  `thm <module> <name> | <axiom> <axiom> …`.
-/
import Lean
open Lean

def axiomsOf (env : Environment) (n : Name) : Array Name :=
  let rec go (fuel : Nat) (todo : List Name) (seen : NameSet) (acc : Array Name) : Array Name :=
    match fuel, todo with
    | 0, _ => acc
    | _, [] => acc
    | fuel + 1, c :: rest =>
      if seen.contains c then go fuel rest seen acc else
      let seen := seen.insert c
      match env.find? c with
      | some (.axiomInfo _) => go fuel rest seen (acc.push c)
      | some ci =>
          let deps := (ci.type.getUsedConstants ++ (match ci.value? (allowOpaque := true) with | some v => v.getUsedConstants | none => #[])).toList
          go fuel (deps ++ rest) seen acc
      | none => go fuel rest seen acc
  go 10000000 [n] {} #[]

unsafe def main (args : List String) : IO Unit := do
  initSearchPath (← findSysroot)
  let mods := args.map (fun s => s.toName)
  let env ← importModules (mods.toArray.map (fun m => { module := m })) {} (loadExts := false)
  for m in mods do
    match env.getModuleIdx? m with
    | none => IO.println s!"missing {m}"
    | some idx =>
      let names := env.header.moduleData[idx.toNat]!.constNames
      for n in names do
        match env.find? n with
        | some (.thmInfo _) =>
            if n.isInternal || !(m.isPrefixOf n) then continue
            let last := n.getString!
            if last.startsWith "eq_" || last.startsWith "match_" || last.startsWith "proof_" then continue
            let ax := (axiomsOf env n).qsort (fun a b => a.toString < b.toString)
            IO.println s!"thm {m} {n} | {" ".intercalate (ax.toList.map toString)}"
        | _ => pure ()
