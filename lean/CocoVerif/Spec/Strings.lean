/-
What Color BASIC defines for the three string helpers (C20), on lists of characters.
-/
namespace CocoVerif.Spec.Strings

/-- pattern `p` occurs in `s` at the 1-based position `i` -/
def MatchAt (s p : List Char) (i : Nat) : Prop :=
  1 ≤ i ∧ i + p.length ≤ s.length + 1 ∧ (s.drop (i - 1)).take p.length = p

instance (s p : List Char) (i : Nat) : Decidable (MatchAt s p i) := by
  unfold MatchAt; exact inferInstance

/-- `r` is the value of `INSTR(start, s, p)`: the first position at or after `start` where `p`
occurs in `s`, and 0 if there is none -/
def IsInstr (start : Nat) (s p : List Char) (r : Nat) : Prop :=
  (r = 0 ∧ ∀ i, start ≤ i → ¬ MatchAt s p i)
  ∨ (start ≤ r ∧ MatchAt s p r ∧ ∀ i, start ≤ i → i < r → ¬ MatchAt s p i)

/-- `STRING$(n, s)`: the first character of `s`, `n` times -/
def stringRep (n : Nat) : List Char → List Char
  | [] => []
  | c :: _ => List.replicate n c

/-- reading a DATA item into a numeric variable: 0 for an empty item, its value otherwise -/
def readFilter (valFn : List Char → Int) (item : List Char) : Int :=
  if item = [] then 0 else valFn item

end CocoVerif.Spec.Strings
