/-
`Spec.Device` — for every supported device statement / function form (each presence/absence
pattern of optional operands is its own form): the runtime procedure that implements it and, for
every parameter of that procedure **by the name ecb.b09 declares**, where its value comes from —
a source operand or the documented default.  Written from the Extended / Super Extended Color
BASIC statement syntax and the parameter names of the library.

`template` is the source spelling with `#k` for the k-th numeric operand and `$k` for the k-th
string operand; the harness instantiates it with sentinel variables and with random expressions.
-/
namespace CocoVerif.Spec.Device

inductive Src
  | op (k : Nat)            -- the k-th source operand (1-based, in source order)
  | lit (text : String)     -- a constant the translation supplies (documented default or mode string)
  deriving Repr, DecidableEq

structure Form where
  name : String
  template : String
  run : String                       -- how RUN is spelled (`RUN` / `run`)
  proc : String                      -- the runtime procedure
  args : List (String × Src)         -- (parameter name in ecb.b09, source of the value), in call order
  deriving Repr

def Form.inv (f : Form) : String := f.run ++ " " ++ f.proc

private def dsp : String × Src := ("display", .lit "display")
private def d' : String × Src := ("d", .lit "display")
private def hfore : Src := .lit "float(display.hfore)"
private def hforeU : Src := .lit "FLOAT(display.hfore)"

def forms : List Form := [
  ⟨"cls", "CLS", "RUN", "ecb_cls", [("color", .lit "1.0"), dsp]⟩,
  ⟨"cls-n", "CLS #1", "RUN", "ecb_cls", [("color", .op 1), dsp]⟩,
  ⟨"print-at", "PRINT@#1,\"X\"", "RUN", "ecb_at", [("location", .op 1)]⟩,
  ⟨"print-at0", "PRINT@#1", "RUN", "ecb_at", [("location", .op 1)]⟩,
  ⟨"locate", "LOCATE #1,#2", "run", "ecb_locate", [("x", .op 1), ("y", .op 2)]⟩,
  ⟨"attr", "ATTR #1,#2", "run", "ecb_attr", [("f", .op 1), ("b", .op 2), ("bk", .lit "0.0"), ("undr", .lit "0.0"), dsp]⟩,
  ⟨"attr-b", "ATTR #1,#2,B", "run", "ecb_attr", [("f", .op 1), ("b", .op 2), ("bk", .lit "1.0"), ("undr", .lit "0.0"), dsp]⟩,
  ⟨"attr-u", "ATTR #1,#2,U", "run", "ecb_attr", [("f", .op 1), ("b", .op 2), ("bk", .lit "0.0"), ("undr", .lit "1.0"), dsp]⟩,
  ⟨"attr-bu", "ATTR #1,#2,B,U", "run", "ecb_attr", [("f", .op 1), ("b", .op 2), ("bk", .lit "1.0"), ("undr", .lit "1.0"), dsp]⟩,
  ⟨"attr-ub", "ATTR #1,#2,U,B", "run", "ecb_attr", [("f", .op 1), ("b", .op 2), ("bk", .lit "1.0"), ("undr", .lit "1.0"), dsp]⟩,
  ⟨"width", "WIDTH #1", "run", "_ecb_width", [("width", .op 1), dsp]⟩,
  ⟨"palette", "PALETTE #1,#2", "run", "ecb_set_palette", [("pr", .op 1), ("cc", .op 2), dsp]⟩,
  ⟨"palette-rgb", "PALETTE RGB", "run", "ecb_set_palette_rgb", [dsp]⟩,
  ⟨"palette-cmp", "PALETTE CMP", "run", "ecb_set_palette_cmp", [dsp]⟩,
  ⟨"rgb", "RGB", "run", "ecb_set_palette_rgb", [dsp]⟩,
  ⟨"cmp", "CMP", "run", "ecb_set_palette_cmp", [dsp]⟩,
  ⟨"hscreen", "HSCREEN", "run", "ecb_hscreen", [("n", .lit "0"), dsp]⟩,
  ⟨"hscreen-n", "HSCREEN #1", "run", "ecb_hscreen", [("n", .op 1), dsp]⟩,
  ⟨"hcls", "HCLS", "run", "ecb_hcls", [("n", .lit "-1"), dsp]⟩,
  ⟨"hcls-n", "HCLS #1", "run", "ecb_hcls", [("n", .op 1), dsp]⟩,
  ⟨"hcolor1", "HCOLOR #1", "run", "ecb_hcolor", [("f", .op 1), ("b", .lit "-1.0"), dsp]⟩,
  ⟨"hcolor", "HCOLOR #1,#2", "run", "ecb_hcolor", [("f", .op 1), ("b", .op 2), dsp]⟩,
  ⟨"hcircle", "HCIRCLE(#1,#2),#3", "run", "ecb_hcircle",
    [("x", .op 1), ("y", .op 2), ("r", .op 3), ("c", hfore), ("rt", .lit "1.0"), dsp]⟩,
  ⟨"hcircle-c", "HCIRCLE(#1,#2),#3,#4", "run", "ecb_hcircle",
    [("x", .op 1), ("y", .op 2), ("r", .op 3), ("c", .op 4), ("rt", .lit "1.0"), dsp]⟩,
  ⟨"hellipse", "HCIRCLE(#1,#2),#3,#4,#5", "run", "ecb_hcircle",
    [("x", .op 1), ("y", .op 2), ("r", .op 3), ("c", .op 4), ("rt", .op 5), dsp]⟩,
  ⟨"hellipse-nc", "HCIRCLE(#1,#2),#3,,#4", "run", "ecb_hcircle",
    [("x", .op 1), ("y", .op 2), ("r", .op 3), ("c", hfore), ("rt", .op 4), dsp]⟩,
  ⟨"harc", "HCIRCLE(#1,#2),#3,#4,#5,#6,#7", "run", "ecb_harc",
    [("x", .op 1), ("y", .op 2), ("r", .op 3), ("c", .op 4), ("rt", .op 5), ("sp", .op 6), ("ep", .op 7), dsp]⟩,
  ⟨"harc-nc", "HCIRCLE(#1,#2),#3,,#4,#5,#6", "run", "ecb_harc",
    [("x", .op 1), ("y", .op 2), ("r", .op 3), ("c", hfore), ("rt", .op 4), ("sp", .op 5), ("ep", .op 6), dsp]⟩,
  ⟨"hline-pset", "HLINE(#1,#2)-(#3,#4),PSET", "run", "ecb_hline",
    [("rd", .lit "\"d\""), ("x0", .op 1), ("y0", .op 2), ("x1", .op 3), ("y1", .op 4), ("m", .lit "\"PSET\""), ("t", .lit "\"L\""), dsp]⟩,
  ⟨"hline-preset-b", "HLINE(#1,#2)-(#3,#4),PRESET,B", "run", "ecb_hline",
    [("rd", .lit "\"d\""), ("x0", .op 1), ("y0", .op 2), ("x1", .op 3), ("y1", .op 4), ("m", .lit "\"PRESET\""), ("t", .lit "\"B\""), dsp]⟩,
  ⟨"hline-pset-bf", "HLINE(#1,#2)-(#3,#4),PSET,BF", "run", "ecb_hline",
    [("rd", .lit "\"d\""), ("x0", .op 1), ("y0", .op 2), ("x1", .op 3), ("y1", .op 4), ("m", .lit "\"PSET\""), ("t", .lit "\"BF\""), dsp]⟩,
  ⟨"hline-rel", "HLINE-(#1,#2),PSET", "run", "ecb_hline",
    [("rd", .lit "\"r\""), ("x0", .lit "0.0"), ("y0", .lit "0.0"), ("x1", .op 1), ("y1", .op 2), ("m", .lit "\"PSET\""), ("t", .lit "\"L\""), dsp]⟩,
  ⟨"hline-rel-bf", "HLINE-(#1,#2),PRESET,BF", "run", "ecb_hline",
    [("rd", .lit "\"r\""), ("x0", .lit "0.0"), ("y0", .lit "0.0"), ("x1", .op 1), ("y1", .op 2), ("m", .lit "\"PRESET\""), ("t", .lit "\"BF\""), dsp]⟩,
  ⟨"hset", "HSET(#1,#2)", "run", "ecb_hset", [("x", .op 1), ("y", .op 2), dsp]⟩,
  ⟨"hset3", "HSET(#1,#2,#3)", "run", "ecb_hset3", [("x", .op 1), ("y", .op 2), ("c", .op 3), dsp]⟩,
  ⟨"hreset", "HRESET(#1,#2)", "run", "ecb_hreset", [("x", .op 1), ("y", .op 2), dsp]⟩,
  ⟨"hpaint", "HPAINT(#1,#2)", "run", "ecb_hpaint", [("x", .op 1), ("y", .op 2), ("c", hforeU), ("c0", hforeU), d']⟩,
  ⟨"hpaint-c", "HPAINT(#1,#2),#3", "run", "ecb_hpaint", [("x", .op 1), ("y", .op 2), ("c", .op 3), ("c0", hforeU), d']⟩,
  ⟨"hpaint-cs", "HPAINT(#1,#2),#3,#4", "run", "ecb_hpaint", [("x", .op 1), ("y", .op 2), ("c", .op 3), ("c0", .op 4), d']⟩,
  ⟨"hprint", "HPRINT(#1,#2),$1", "run", "ecb_hprint", [("x", .op 1), ("y", .op 2), ("txt", .op 3), dsp]⟩,
  ⟨"hdraw", "HDRAW $1", "run", "ecb_hdraw", [("s", .op 1), d']⟩,
  ⟨"hbuff", "HBUFF #1,#2", "run", "_ecb_hbuff", [("b", .op 1), ("s", .op 2), ("pid", .lit "pid"), d']⟩,
  ⟨"hget", "HGET(#1,#2)-(#3,#4),#5", "run", "ecb_hget",
    [("x0", .op 1), ("y0", .op 2), ("x1", .op 3), ("y1", .op 4), ("b", .op 5), ("p", .lit "pid"), d']⟩,
  ⟨"hput", "HPUT(#1,#2)-(#3,#4),#5,XOR", "run", "ecb_hput",
    [("x0", .op 1), ("y0", .op 2), ("x1", .op 3), ("y1", .op 4), ("b", .op 5), ("a", .lit "\"XOR\""), ("p", .lit "pid"), d']⟩,
  ⟨"hput-pset", "HPUT(#1,#2)-(#3,#4),#5,PSET", "run", "ecb_hput",
    [("x0", .op 1), ("y0", .op 2), ("x1", .op 3), ("y1", .op 4), ("b", .op 5), ("a", .lit "\"PSET\""), ("p", .lit "pid"), d']⟩,
  ⟨"set", "SET(#1,#2,#3)", "RUN", "ecb_set", [("x", .op 1), ("y", .op 2), ("c", .op 3)]⟩,
  ⟨"reset", "RESET(#1,#2)", "RUN", "ecb_reset", [("x", .op 1), ("y", .op 2)]⟩,
  ⟨"sound", "SOUND #1,#2", "RUN", "ecb_sound", [("f", .op 1), ("d", .op 2), ("v", .lit "31.0"), ("o", .lit "FIX(play.octo)")]⟩,
  ⟨"play", "PLAY $1", "run", "ecb_play", [("s", .op 1), ("p", .lit "play")]⟩,
  ⟨"button", "ZZ=BUTTON(#1)", "RUN", "ecb_button", [("button", .op 1), ("retval", .lit "ZZ")]⟩,
  ⟨"point", "ZZ=POINT(#1,#2)", "RUN", "ecb_point", [("x", .op 1), ("y", .op 2), ("c0", .lit "ZZ")]⟩,
  ⟨"inkey", "ZZ$=INKEY$", "RUN", "inkey", [("key", .lit "ZZ$")]⟩,
  ⟨"joystk", "ZZ=JOYSTK(#1)", "RUN", "ecb_joystk",
    [("joystk", .op 1), ("joy0x", .lit "joy0x"), ("joy0y", .lit "joy0y"), ("joy1x", .lit "joy1x"),
     ("joy1y", .lit "joy1y"), ("retval", .lit "ZZ")]⟩
]

/-- the call text the property demands for a form, given the BASIC09 text of each source operand -/
def expected (f : Form) (ops : List String) : String :=
  f.inv ++ "(" ++ ", ".intercalate (f.args.map (fun a => match a.2 with
    | .op k => ops.getD (k - 1) "?"
    | .lit t => t)) ++ ")"

end CocoVerif.Spec.Device
