/-
`Spec.Ladder` — a left-associative precedence ladder as a declarative derivation relation
(`ExprAt`), flat operator chains, and the generic regrouping theorem: for ANY precedence table
(a list of binary operator levels, lowest first; prefix minus on atoms, as in BASIC09) the tokens
of a flat chain derive, in the ladder, exactly the tree obtained by level-wise splitting.
-/
namespace CocoVerif.Spec.Ladder

inductive Tok | id (s : String) | op (s : String) | lp | rp
deriving DecidableEq, Repr

inductive Tree
| leaf (s : String) | bin (o : String) (l r : Tree) | neg (t : Tree) | grp (t : Tree)
deriving DecidableEq, Repr

/-- `levels` lists the binary operator groups, lowest precedence first. -/
abbrev Levels := List (List String)

/-- Declarative ladder, indexed by the levels still above us. All binary levels left-associative;
    below the last binary level sit prefix minus and atoms. Atoms are abstract:
    `Atom ts t` is supplied by the caller (identifiers, parenthesised expressions, calls). -/
inductive ExprAt (Atom : List Tok → Tree → Prop) : Levels → List Tok → Tree → Prop
| atom {ts t} : Atom ts t → ExprAt Atom [] ts t
| neg {ts t} : ExprAt Atom [] ts t → ExprAt Atom [] (.op "-" :: ts) (.neg t)
| up {ops hi ts t} : ExprAt Atom hi ts t → ExprAt Atom (ops :: hi) ts t
| bin {ops hi o ts1 ts2 l r} : o ∈ ops → ExprAt Atom (ops :: hi) ts1 l → ExprAt Atom hi ts2 r →
    ExprAt Atom (ops :: hi) (ts1 ++ .op o :: ts2) (.bin o l r)

/-- an operand of a flat chain: prefix minus count, the atom's tokens and the atom's tree -/
structure Operand where
  negs : Nat
  toks : List Tok
  tree : Tree

structure Chain where
  first : Operand
  rest : List (String × Operand)

def negToks : Nat → List Tok → List Tok
  | 0, ts => ts
  | n+1, ts => .op "-" :: negToks n ts
def negTree : Nat → Tree → Tree
  | 0, t => t
  | n+1, t => .neg (negTree n t)

def Operand.allToks (o : Operand) : List Tok := negToks o.negs o.toks
def restToks : List (String × Operand) → List Tok
  | [] => []
  | (o, x) :: r => .op o :: x.allToks ++ restToks r
def Chain.toks (c : Chain) : List Tok := c.first.allToks ++ restToks c.rest

/-- split `rest` at the first operator belonging to `ops`:
    returns the prefix (staying in the current segment) and the remainder starting at that operator -/
def cut (ops : List String) : List (String × Operand) → List (String × Operand) × List (String × Operand)
  | [] => ([], [])
  | (o, x) :: r => if o ∈ ops then ([], (o, x) :: r) else
      let (a, b) := cut ops r; ((o, x) :: a, b)

theorem cut_toks (ops) : ∀ r, restToks r = restToks (cut ops r).1 ++ restToks (cut ops r).2
  | [] => by simp [cut, restToks]
  | (o, x) :: r => by
      by_cases h : o ∈ ops
      · simp [cut, h, restToks]
      · have := cut_toks ops r
        simp [cut, h, restToks, this, List.append_assoc]

theorem cut_len (ops) : ∀ r, (cut ops r).2.length ≤ r.length
  | [] => by simp [cut]
  | (o, x) :: r => by
      by_cases h : o ∈ ops
      · simp [cut, h]
      · have := cut_len ops r
        simp [cut, h]; omega

/-- segments of a chain at one level: first segment, then (operator, segment) pairs -/
def segs (ops : List String) (fuel : Nat) (first : Operand) (rest : List (String × Operand)) :
    Chain × List (String × Chain) :=
  let (a, b) := cut ops rest
  match fuel, b with
  | _, [] => (⟨first, a⟩, [])
  | 0, _ => (⟨first, a⟩, [])
  | f+1, (o, x) :: r =>
      let (s, more) := segs ops f x r
      (⟨first, a⟩, (o, s) :: more)

def regroup : Levels → Chain → Tree
  | [], c => negTree c.first.negs c.first.tree      -- (well-formed chains have no rest here)
  | ops :: hi, c =>
      let (s0, more) := segs ops c.rest.length c.first c.rest
      more.foldl (fun acc p => .bin p.1 acc (regroup hi p.2)) (regroup hi s0)

def segsToks : List (String × Chain) → List Tok
  | [] => []
  | (o, s) :: r => .op o :: s.toks ++ segsToks r

theorem segs_toks (ops) : ∀ fuel first rest, rest.length ≤ fuel →
    (⟨first, rest⟩ : Chain).toks = (segs ops fuel first rest).1.toks ++ segsToks (segs ops fuel first rest).2
  | fuel, first, rest, hf => by
    have hc := cut_toks ops rest
    have hl := cut_len ops rest
    unfold segs
    generalize hcut : cut ops rest = ab at hc hl
    obtain ⟨a, b⟩ := ab
    cases b with
    | nil => cases fuel <;> simp_all [Chain.toks, segsToks, restToks]
    | cons p r =>
      obtain ⟨o, x⟩ := p
      cases fuel with
      | zero => simp at hl; omega
      | succ f =>
        have ih := segs_toks ops f x r (by simp at hl; omega)
        simp only [Chain.toks] at ih ⊢
        simp only [segsToks, restToks, hc, Chain.toks, List.append_assoc, List.cons_append] at ih ⊢
        rw [ih]


/-- well-formedness of a rest list relative to the levels: every operator is in some level,
    every operand's atom is derivable -/
def RestOK (Atom : List Tok → Tree → Prop) (lv : Levels) (r : List (String × Operand)) : Prop :=
  ∀ p ∈ r, (∃ ops ∈ lv, p.1 ∈ ops) ∧ Atom p.2.toks p.2.tree

theorem cut_fst_sub (ops) : ∀ r p, p ∈ (cut ops r).1 → p ∈ r ∧ p.1 ∉ ops
  | [], p, h => by simp [cut] at h
  | (o, x) :: r, p, h => by
      by_cases ho : o ∈ ops
      · simp [cut, ho] at h
      · simp [cut, ho] at h
        rcases h with rfl | h
        · exact ⟨by simp, ho⟩
        · have := cut_fst_sub ops r p h
          exact ⟨by simp [this.1], this.2⟩

theorem cut_snd (ops) : ∀ r, (∀ p ∈ (cut ops r).2, p ∈ r) ∧
    (∀ o x t, (cut ops r).2 = (o, x) :: t → o ∈ ops)
  | [] => by simp [cut]
  | (o, x) :: r => by
      by_cases ho : o ∈ ops
      · simp [cut, ho]
      · have ih := cut_snd ops r
        simp [cut, ho]
        exact ⟨fun a b h => Or.inr (ih.1 (a, b) h), ih.2⟩

/-- what we need to know about every segment produced by `segs` -/
theorem segs_ok (Atom) (ops hi) : ∀ fuel first rest, rest.length ≤ fuel →
    Atom first.toks first.tree → RestOK Atom (ops :: hi) rest →
    (Atom (segs ops fuel first rest).1.first.toks (segs ops fuel first rest).1.first.tree ∧
      RestOK Atom hi (segs ops fuel first rest).1.rest) ∧
    ∀ p ∈ (segs ops fuel first rest).2, p.1 ∈ ops ∧ Atom p.2.first.toks p.2.first.tree ∧ RestOK Atom hi p.2.rest
  | fuel, first, rest, hf, hfirst, hrest => by
    have hsub := cut_fst_sub ops rest
    have hsnd := cut_snd ops rest
    have hl := cut_len ops rest
    have hseg0 : RestOK Atom hi (cut ops rest).1 := by
      intro p hp
      obtain ⟨hin, hno⟩ := hsub p hp
      obtain ⟨⟨lv, hlv, hmem⟩, hat⟩ := hrest p hin
      refine ⟨?_, hat⟩
      simp at hlv
      rcases hlv with rfl | hlv
      · exact absurd hmem hno
      · exact ⟨lv, hlv, hmem⟩
    unfold segs
    generalize hcut : cut ops rest = ab at hsub hsnd hl hseg0
    obtain ⟨a, b⟩ := ab
    cases b with
    | nil => cases fuel <;> simp_all
    | cons p r =>
      obtain ⟨o, x⟩ := p
      cases fuel with
      | zero => simp at hl; omega
      | succ f =>
        have hx : Atom x.toks x.tree := (hrest (o, x) (hsnd.1 _ (by simp))).2
        have hr : RestOK Atom (ops :: hi) r := fun q hq => hrest q (hsnd.1 _ (by simp [hq]))
        have ih := segs_ok Atom ops hi f x r (by simp at hl; omega) hx hr
        have ho : o ∈ ops := hsnd.2 o x r rfl
        refine ⟨⟨hfirst, hseg0⟩, ?_⟩
        intro q hq
        simp at hq
        rcases hq with rfl | hq
        · exact ⟨ho, ih.1.1, ih.1.2⟩
        · exact ih.2 q hq

theorem neg_parses (Atom) (ts t) (h : Atom ts t) : ∀ n, ExprAt Atom [] (negToks n ts) (negTree n t)
  | 0 => ExprAt.atom h
  | n+1 => ExprAt.neg (neg_parses Atom ts t h n)

theorem fold_parses (Atom) (ops hi) (f : Chain → Tree) :
    ∀ (more : List (String × Chain)) (ts : List Tok) (acc : Tree),
      ExprAt Atom (ops :: hi) ts acc →
      (∀ p ∈ more, p.1 ∈ ops ∧ ExprAt Atom hi p.2.toks (f p.2)) →
      ExprAt Atom (ops :: hi) (ts ++ segsToks more) (more.foldl (fun acc p => .bin p.1 acc (f p.2)) acc)
  | [], ts, acc, h, _ => by simpa [segsToks] using h
  | (o, s) :: r, ts, acc, h, hm => by
      have h1 := hm (o, s) (by simp)
      have hstep : ExprAt Atom (ops :: hi) (ts ++ .op o :: s.toks) (.bin o acc (f s)) :=
        ExprAt.bin h1.1 h h1.2
      have := fold_parses Atom ops hi f r _ _ hstep (fun q hq => hm q (by simp [hq]))
      simpa [segsToks, List.append_assoc] using this

theorem regroup_parses (Atom) : ∀ (lv : Levels) (c : Chain),
    Atom c.first.toks c.first.tree → RestOK Atom lv c.rest →
    ExprAt Atom lv c.toks (regroup lv c)
  | [], c, hfirst, hrest => by
      have : c.rest = [] := by
        cases hc : c.rest with
        | nil => rfl
        | cons p r =>
          have := (hrest p (by simp [hc])).1
          simp at this
      simp [Chain.toks, this, restToks, regroup, Operand.allToks]
      exact neg_parses Atom _ _ hfirst _
  | ops :: hi, c, hfirst, hrest => by
      have hs := segs_ok Atom ops hi c.rest.length c.first c.rest (Nat.le_refl _) hfirst hrest
      have ht := segs_toks ops c.rest.length c.first c.rest (Nat.le_refl _)
      have h0 : ExprAt Atom (ops :: hi) (segs ops c.rest.length c.first c.rest).1.toks
          (regroup hi (segs ops c.rest.length c.first c.rest).1) :=
        ExprAt.up (regroup_parses Atom hi _ hs.1.1 hs.1.2)
      have hm : ∀ p ∈ (segs ops c.rest.length c.first c.rest).2,
          p.1 ∈ ops ∧ ExprAt Atom hi p.2.toks (regroup hi p.2) :=
        fun p hp => ⟨(hs.2 p hp).1, regroup_parses Atom hi p.2 (hs.2 p hp).2.1 (hs.2 p hp).2.2⟩
      have := fold_parses Atom ops hi (regroup hi) _ _ _ h0 hm
      have hc : c.toks = (⟨c.first, c.rest⟩ : Chain).toks := rfl
      rw [hc, ht]
      simpa [regroup] using this

end CocoVerif.Spec.Ladder
