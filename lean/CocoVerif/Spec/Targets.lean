/-
`Spec.Targets` — every syntactic position of the AST that can hold a line number, written as a
plain structural recursion from the statement syntax (independently of the visitors).
-/
import CocoVerif.Model.Ast

namespace CocoVerif.Spec.Targets
open CocoVerif.Model

mutual
  def expr : Expr → List Int
    | .arr _ idx _ => elist idx
    | .bin _ l _ r => expr l ++ expr r
    | .un _ _ e => expr e
    | .paren _ e _ => expr e
    | .call _ args _ => elist args
    | .fexp _ _ args _ v => elist args ++ optExpr v ++ optExpr v
    | .stmtExp s => stmt s
    | _ => []
  def exprs : List Expr → List Int
    | [] => []
    | e :: es => expr e ++ exprs es
  def elist : EList → List Int
    | .mk _ es => exprs es
    | .raw _ => []
  def optExpr : Option Expr → List Int
    | some e => expr e
    | none => []
  /-- GOTO / GOSUB n, ON … GOTO/GOSUB list, ON ERR / ON BRK GOTO n, THEN n / ELSE n (an implicit or
  explicit GOTO as branch), at every nesting depth -/
  def stmt : Stmt → List Int
    | .stmts _ ss _ => stmts ss
    | .assign _ v e _ => expr v ++ expr e
    | .run _ _ args _ => elist args
    | .goto n _ _ _ => [n]
    | .onErr n _ => [n]
    | .onBrk n _ => [n]
    | .onGo e ns _ _ => ns ++ expr e
    | .if_ c b _ => expr c ++ stmt b
    | .ifElse c b elifs els _ => expr c ++ stmt b ++ stmts elifs ++ optStmt els
    | .print args _ => exprs args
    | .sound a b _ => expr a ++ expr b
    | .poke a b _ => expr a ++ expr b
    | .cls e _ => optExpr e
    | .for_ v a b st _ => expr v ++ expr a ++ expr b ++ optExpr st
    | .next vars _ => elist vars
    | .width e _ => expr e
    | .expStmt e => expr e
    | _ => []
  def stmts : List Stmt → List Int
    | [] => []
    | s :: ss => stmt s ++ stmts ss
  def optStmt : Option Stmt → List Int
    | some s => stmt s
    | none => []
end

def prog (p : Prog) : List Int := p.lines.flatMap (fun l => stmt l.body)

end CocoVerif.Spec.Targets
