/-
Specification side of the image properties (C16–C19): what an image *is*, how each
format stores it, and which byte strings are valid encodings of it.  Written from the
file-format descriptions (DESIGN.md appendix A), not from the decoders.

Images are lists of palette indices in row-major order; `render` is the PPM payload the
property demands.  Nondeterministic encoders are inductive relations (every constructor
is one legal encoder choice).
-/
namespace CocoVerif.Spec.Img


/-- CoCo 3 six-bit colour `..RGBrgb`: component = (2·high bit + low bit) · 85 -/
def comp (c hi lo : Nat) : Nat := (2 * (c / 2 ^ hi % 2) + c / 2 ^ lo % 2) * 85

def colour (c : Nat) : List Nat := [comp c 5 2, comp c 4 1, comp c 3 0]

/-- the reference 64-colour RGB palette of the CoCo 3 (GIME, RGB monitor), committed here -/
def refTable : List (Nat × Nat × Nat) :=
  [(0,0,0),(0,0,85),(0,85,0),(0,85,85),(85,0,0),(85,0,85),(85,85,0),(85,85,85),
   (0,0,170),(0,0,255),(0,85,170),(0,85,255),(85,0,170),(85,0,255),(85,85,170),(85,85,255),
   (0,170,0),(0,170,85),(0,255,0),(0,255,85),(85,170,0),(85,170,85),(85,255,0),(85,255,85),
   (0,170,170),(0,170,255),(0,255,170),(0,255,255),(85,170,170),(85,170,255),(85,255,170),(85,255,255),
   (170,0,0),(170,0,85),(170,85,0),(170,85,85),(255,0,0),(255,0,85),(255,85,0),(255,85,85),
   (170,0,170),(170,0,255),(170,85,170),(170,85,255),(255,0,170),(255,0,255),(255,85,170),(255,85,255),
   (170,170,0),(170,170,85),(170,255,0),(170,255,85),(255,170,0),(255,170,85),(255,255,0),(255,255,85),
   (170,170,170),(170,170,255),(170,255,170),(170,255,255),(255,170,170),(255,170,255),(255,255,170),(255,255,255)]

/-- PPM payload of an indexed image under a 16-entry palette of colour codes -/
def render (pal : List Nat) (px : List Nat) : List Nat := px.flatMap (fun p => colour (pal.getD p 0))

/-- two 4-bit pixels per byte, left pixel in the high nibble -/
def packNib : List Nat → List Nat
  | a :: b :: r => (a * 16 + b) :: packNib r
  | _ => []

/-- four 2-bit pixels per byte, leftmost in the top bits -/
def packQuad : List Nat → List Nat
  | a :: b :: c :: d :: r => (a * 64 + b * 16 + c * 4 + d) :: packQuad r
  | _ => []

/-- eight 1-bit pixels per byte, leftmost in bit 7 -/
def packBits : List Nat → List Nat
  | a :: b :: c :: d :: e :: f :: g :: h :: r =>
      (a * 128 + b * 64 + c * 32 + d * 16 + e * 8 + f * 4 + g * 2 + h) :: packBits r
  | _ => []

/-! ### MAX pixel modes (what each mode shows for a 1-bit / 2-bit pixel) -/

def bw (b : Nat) : List Nat := if b = 0 then [0, 0, 0] else [255, 255, 255]

/-- colour of the two-bit pixel `(a, b)` (a = left bit) in the six PMODE-3 style modes -/
def maxColour (arte a b : Nat) : List Nat :=
  match arte, a, b with
  | 3, 0, 0 => [0,0,0] | 3, 0, 1 => [255,85,0] | 3, 1, 0 => [0,170,255] | 3, 1, 1 => [255,255,255]
  | 4, 0, 0 => [0,0,0] | 4, 1, 0 => [255,85,0] | 4, 0, 1 => [0,170,255] | 4, 1, 1 => [255,255,255]
  | 5, 0, 0 => [0,0,0] | 5, 0, 1 => [255,0,0] | 5, 1, 0 => [0,0,255] | 5, 1, 1 => [255,255,255]
  | 6, 0, 0 => [0,0,0] | 6, 1, 0 => [255,0,0] | 6, 0, 1 => [0,0,255] | 6, 1, 1 => [255,255,255]
  | 7, 0, 0 => [0,255,0] | 7, 1, 0 => [255,255,0] | 7, 0, 1 => [0,0,255] | 7, 1, 1 => [255,0,0]
  | 8, 0, 0 => [255,255,255] | 8, 1, 0 => [0,211,170] | 8, 0, 1 => [204,0,255] | 8, 1, 1 => [255,128,0]
  | _, _, _ => []

/-- payload of a row of bits: mode 0 one sample per bit; modes 3–8 each bit pair twice -/
def renderBits (arte : Nat) : List Nat → List Nat
  | bits =>
    if arte = 0 then bits.flatMap bw
    else pairs bits
where
  pairs : List Nat → List Nat
    | a :: b :: r => maxColour arte a b ++ maxColour arte a b ++ pairs r
    | _ => []

/-! ### Valid compressed encodings (C17) -/

/-- MGE run-length stream for a byte sequence: `(count, value)` pairs, 1 ≤ count ≤ 255,
any splitting of runs, then the terminator 0 -/
inductive MgeRle : List Nat → List Nat → Prop
  | done : MgeRle [] [0]
  | run (n v : Nat) (rest enc : List Nat) : 1 ≤ n → n ≤ 255 → MgeRle rest enc →
      MgeRle (List.replicate n v ++ rest) (n :: v :: enc)

/-- RAT escape coding for a byte sequence: a literal byte different from the escape, or
`esc n v` with 1 ≤ n ≤ 255 meaning `n` copies of `v` (runs may cross rows) -/
inductive RatEsc (esc : Nat) : List Nat → List Nat → Prop
  | done : RatEsc esc [] []
  | lit (v : Nat) (rest enc : List Nat) : v ≠ esc → RatEsc esc rest enc → RatEsc esc (v :: rest) (v :: enc)
  | run (n v : Nat) (rest enc : List Nat) : 1 ≤ n → n ≤ 255 → RatEsc esc rest enc →
      RatEsc esc (List.replicate n v ++ rest) (esc :: n :: v :: enc)

/-- squashed VEF record for one row: repeat groups `128+n, v` (1 ≤ n ≤ 127) and literal groups
`n, b₁ … bₙ` (1 ≤ n ≤ 128) -/
inductive VefGroups : List Nat → List Nat → Prop
  | done : VefGroups [] []
  | rep (n v : Nat) (rest enc : List Nat) : 1 ≤ n → n ≤ 127 → VefGroups rest enc →
      VefGroups (List.replicate n v ++ rest) ((128 + n) :: v :: enc)
  | lit (bs rest enc : List Nat) : 1 ≤ bs.length → bs.length ≤ 128 → VefGroups rest enc →
      VefGroups (bs ++ rest) (bs.length :: (bs ++ enc))

end CocoVerif.Spec.Img
