import CocoVerif.Gen.Consts
import CocoVerif.Pinned.Consts

/-!
# Tie: regular expressions and numeric constants of the back half

`Model.ProcBank` implements the three regular expressions of `procbank.py` by hand (the theorems of
`Props.C13` / `Props.C13Subst` are about those hand functions), `Model.Compile` / `Model.Emit` carry the
line-number limit 32699, the dispatcher line 32700, the two speed-poke addresses and the default string
size as literals.  The translator re-reads the *pattern text and flags* of every compiled expression, the
method it is used with, every `re.` call of `procbank.py` and the big integer literals of the modules on
every run; the theorems below say that they are what the models were written against.  An edit of one of
them in `/repo` makes this module fail to compile - a broken proof obligation - and the check then looks for
a failing input with the property's oracle.
-/
namespace CocoVerif.Tie.Consts
open CocoVerif

theorem regexes_pinned : Gen.Consts.regexes = Pinned.Consts.regexes := by decide
theorem regex_uses_pinned : Gen.Consts.regexUses = Pinned.Consts.regexUses := by decide
theorem re_calls_pinned : Gen.Consts.reCalls = Pinned.Consts.reCalls := by decide
theorem default_storage_pinned : Gen.Consts.defaultStrStorage = 32 := by decide
theorem big_literals_pinned : Gen.Consts.bigLiterals = Pinned.Consts.bigLiterals := by decide

end CocoVerif.Tie.Consts
