import CocoVerif.Gen.ImgTables
import CocoVerif.Model.Img
import CocoVerif.Spec.Img

/-!
Tie for the literal tables inside the decoders: what the translator read from /repo
just now is the data the models (and therefore the proofs) use.  An edit of one of these
tables in /repo makes this module fail to compile.
-/
namespace CocoVerif.Tie.ImgTables
open CocoVerif

theorem c2r_tie : Gen.Img.c2r = Model.Img.c2r := by decide
theorem br2_tie : Gen.Img.br2 = Model.Img.br2 := by decide
theorem br3_tie : Gen.Img.br3 = Model.Img.br3 := by decide
theorem semig_tie : Gen.Img.semig = Model.Img.semig := by decide
theorem pixel_modes_tie : Gen.Img.pixelModes = [0, 1, 2, 3, 4, 5, 6, 7, 8] := by decide

/-- the palette veftopng hands to pypng is the CoCo 3 reference palette, all 64 entries -/
theorem vef_palette_is_reference : Gen.Img.vefPalette = Spec.Img.refTable := by decide

/-- the composite→RGB table is a permutation of the 64 colour codes (no code lost or doubled) -/
theorem c2r_perm : (List.range 64).all (fun c => Gen.Img.c2r.count c == 1) = true
    ∧ Gen.Img.c2r.length = 64 := by decide

end CocoVerif.Tie.ImgTables
