import CocoVerif.Gen.EcbText
import CocoVerif.Pinned.EcbText

/-!
# Tie: the text of the runtime procedures that stand for Color BASIC functions

C01 and C03 speak about the *values* the translated program computes; for the functions the tool turns
into procedure calls these values are computed by procedures of `ecb.b09`.  Only three of them
(`ecb_instr`, `ecb_string`, `ecb_read_filter`) are interpreted from their text (`Tie.EcbHelpers`, C20);
for the others the reference machines of the harness implement what the procedure *is documented to
do*.  This tie pins the text those reference implementations were written against: an edit of one of
these procedures makes the theorem below fail to compile, i.e. it is reported (with a failing input when
the library interpreter of the harness finds one, else as `no-failing-input-found`).
-/
namespace CocoVerif.Tie.EcbText

def pick (names : List String) (ds : List (String × String)) : List (String × String) :=
  ds.filter (fun p => names.contains p.1)

/-- the procedures whose result is the value of a Color BASIC function or a PRINT / INPUT / READ item -/
def valueProcs : List String :=
  ["ecb_int", "ecb_val", "ecb_str", "ecb_hex", "_ecb_hex_digit", "ecb_instr", "ecb_string", "ecb_read_filter",
   "_ecb_input_prefix", "_ecb_input_suffix"]

theorem value_procedures_pinned :
    pick valueProcs CocoVerif.Gen.EcbText.procDigests = pick valueProcs CocoVerif.Pinned.EcbText.procDigests := by
  decide

/-- every one of them exists in the library as it is now -/
theorem value_procedures_present :
    (pick valueProcs CocoVerif.Gen.EcbText.procDigests).length = valueProcs.length := by
  decide

end CocoVerif.Tie.EcbText
