import CocoVerif.Gen.EcbHelpers
import CocoVerif.Pinned.EcbHelpers

/-! The helper procedures in /repo's ecb.b09 (as translated just now) are the ones the C20
theorems are about.  Any edit of their text that changes the AST breaks this module. -/
namespace CocoVerif.Tie.EcbHelpers
open CocoVerif

theorem ecb_instr_tie : Gen.EcbHelpers.ecb_instr = Pinned.EcbHelpers.ecb_instr := by rfl
theorem ecb_string_tie : Gen.EcbHelpers.ecb_string = Pinned.EcbHelpers.ecb_string := by rfl
theorem ecb_read_filter_tie : Gen.EcbHelpers.ecb_read_filter = Pinned.EcbHelpers.ecb_read_filter := by rfl

end CocoVerif.Tie.EcbHelpers
