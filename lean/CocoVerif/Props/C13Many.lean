import CocoVerif.Props.C13Subst
/-!
# C13 (third clause) — **every** placeholder of a text is replaced

`C13Subst.subst_placeholder` is about a text with one placeholder.  Here: a text built from any number
of pieces `pre : ws STRING<<>>` (several on one line or spread over many lines) followed by a tail -
every placeholder outside a literal is replaced by the size text, everything between them is kept.
The fuel of the model (`text.length + 1`) is shown to be irrelevant on the way (`go_fuel`).
-/
namespace CocoVerif.Props.C13Many
open CocoVerif.Model.ProcBank CocoVerif.Props.C13Subst

theorem strip_len (kw cs rest : List Char) (h : stripPrefixCI kw cs = some rest) : rest.length ≤ cs.length := by
  unfold stripPrefixCI at h
  split at h
  · simp only [Option.some.injEq] at h
    subst h
    simp
  · simp at h

theorem dropWhile_len {α} (p : α → Bool) : ∀ l : List α, (l.dropWhile p).length ≤ l.length
  | [] => by simp
  | a :: l => by
      simp only [List.dropWhile]
      split
      · have := dropWhile_len p l
        simp; omega
      · simp

/-- more fuel than characters changes nothing -/
theorem go_fuel (repl : List Char) : ∀ (n : Nat) (cs : List Char) (fuel : Nat), cs.length ≤ n → n ≤ fuel →
    go repl cs fuel = go repl cs n
  | 0, cs, fuel, h, _ => by
      have : cs = [] := by cases cs with | nil => rfl | cons _ _ => simp at h
      subst this
      cases fuel <;> simp [go, substTags.go]
  | n + 1, [], fuel, _, hf => by
      cases fuel with
      | zero => omega
      | succ f => simp [go, substTags.go]
  | n + 1, c :: cs, fuel, h, hf => by
      cases fuel with
      | zero => omega
      | succ f =>
          have hcs : cs.length ≤ n := by simp at h; omega
          have hnf : n ≤ f := by omega
          have ih1 := go_fuel repl n cs f hcs hnf
          simp only [go, substTags.go]
          by_cases hc : (c == ':') = true
          · simp only [hc, if_true]
            cases hs : stripPrefixCI "string<<>>".toList (List.dropWhile isSpace cs) with
            | none => simp only []; exact congrArg _ ih1
            | some rest =>
                have hl : rest.length ≤ n := by
                  have h1 := strip_len _ _ _ hs
                  have h2 := dropWhile_len isSpace cs
                  omega
                have ih2 := go_fuel repl n rest f hl hnf
                simp only []
                split
                · exact congrArg _ ih2
                · exact congrArg _ ih1
          · simp only [hc, Bool.false_eq_true, if_false]
            exact congrArg _ ih1

/-- the substitution with "enough" fuel -/
def G (repl cs : List Char) : List Char := go repl cs cs.length

theorem go_eq_G (repl cs : List Char) (fuel : Nat) (h : cs.length ≤ fuel) : go repl cs fuel = G repl cs :=
  go_fuel repl cs.length cs fuel (Nat.le_refl _) h

theorem substTags_eq_G (repl text : List Char) : substTags repl text = G repl text := by
  rw [substTags_eq]; exact go_eq_G repl text _ (Nat.le_succ _)

theorem G_prefix (repl pre rest : List Char) (h : ∀ c ∈ pre, c ≠ ':') : G repl (pre ++ rest) = pre ++ G repl rest := by
  have := go_prefix repl pre rest rest.length h
  unfold G
  rw [show (pre ++ rest).length = rest.length + pre.length by simp; omega]
  exact this

theorem G_tag (repl ws t post : List Char) (hws : ∀ c ∈ ws, isSpace c = true) (ht : lower t = tagLower)
    (hns : ∀ c, t.head? = some c → isSpace c = false) (hq : evenQuotes (rol post) = true) :
    G repl (':' :: (ws ++ (t ++ post))) = repl ++ G repl post := by
  unfold G
  rw [show (':' :: (ws ++ (t ++ post))).length = (ws ++ (t ++ post)).length + 1 by simp]
  rw [go_tag repl ws t post _ hws ht hns, if_pos hq]
  rw [go_eq_G repl post _ (by simp; omega)]
  rfl

/-- a stretch of text without a colon, then a placeholder: colon, white space, a spelling of `STRING<<>>` -/
structure Piece where
  pre : List Char
  ws : List Char
  t : List Char

def Piece.ok (p : Piece) : Prop :=
  (∀ c ∈ p.pre, c ≠ ':') ∧ (∀ c ∈ p.ws, isSpace c = true) ∧ lower p.t = tagLower ∧
    (∀ c, p.t.head? = some c → isSpace c = false)

/-- the text: the pieces one after the other, then the tail -/
def src : List Piece → List Char → List Char
  | [], tail => tail
  | p :: ps, tail => p.pre ++ ':' :: (p.ws ++ (p.t ++ src ps tail))

/-- what must come out: every placeholder replaced by the size text -/
def dst (repl : List Char) : List Piece → List Char → List Char
  | [], tail => tail
  | p :: ps, tail => p.pre ++ repl ++ dst repl ps tail

/-- every placeholder is outside a literal: an even number of quotes follows it on its line -/
def outside : List Piece → List Char → Prop
  | [], _ => True
  | _ :: ps, tail => evenQuotes (rol (src ps tail)) = true ∧ outside ps tail

/-- **every placeholder is replaced**: any number of placeholders, on one line or on many, each outside a
string literal; the text between them (which holds no colon) and a tail without placeholder are kept
character for character. -/
theorem subst_all_placeholders (repl : List Char) : ∀ (ps : List Piece) (tail : List Char),
    (∀ p ∈ ps, p.ok) → outside ps tail → NoPlaceholder tail →
    substTags repl (src ps tail) = dst repl ps tail := by
  intro ps tail hok hout htail
  rw [substTags_eq_G]
  induction ps with
  | nil =>
      simp only [src, dst]
      rw [← substTags_eq_G]
      exact subst_no_placeholder repl tail htail
  | cons p ps ih =>
      obtain ⟨h1, h2, h3, h4⟩ := hok p (by simp)
      simp only [src, dst]
      rw [G_prefix repl _ _ h1, G_tag repl p.ws p.t _ h2 h3 h4 hout.1,
        ih (fun q hq => hok q (by simp [hq])) hout.2, List.append_assoc]

/-- non-vacuity: two placeholders on one line and one on the next, a literal with a colon in the tail -/
example : substTags ": STRING[80]".toList "param a: STRING<<>>; b:string<<>>\ndim c :  String<<>>\nPRINT \"x:y\"".toList
    = "param a: STRING[80]; b: STRING[80]\ndim c : STRING[80]\nPRINT \"x:y\"".toList := by
  decide +kernel

end CocoVerif.Props.C13Many
