import CocoVerif.Model.Compile
import CocoVerif.Model.Names
/-!
# C09 — the initialisation block never treats a generated identifier as a user variable

With `--initialize-vars` the tool clears every variable it saw.  What it saw includes identifiers it wrote itself
(`pid` for HBUFF / HGET / HPUT, the `display` / `play` records, `erno` / `errnum`, temporaries, the joystick cells);
`Compile.isUserName` is the guard of `VarInitializerVisitor.assignment_lines` that keeps them out.

* `init_skips_generated` - every identifier of `Names.generated`, temporaries of both kinds and array identifiers are
  rejected by the guard;
* `init_keeps_every_scalar` - every identifier a user scalar or string scalar can have (`Names.xl` keeps the first two
  characters: 26 + 26·36 names, with and without `$`) is accepted.  Exhaustive over that finite set, by `decide +kernel`.
-/
namespace CocoVerif.Props.C09Init
open CocoVerif.Model CocoVerif.Model.Compile

theorem init_skips_generated :
    (Names.generated.map String.ofList).all (fun g => !isUserName g) = true
    ∧ ["tmp_1", "tmp_2$", "tmp_10", "tmp_12$", "arr_A", "arr_A$", "arr_AB", "arr_Z9$"].all (fun g => !isUserName g) = true := by
  decide +kernel

def letters : List Char := "ABCDEFGHIJKLMNOPQRSTUVWXYZ".toList
def alnum : List Char := "ABCDEFGHIJKLMNOPQRSTUVWXYZ0123456789".toList

/-- every identifier `Names.xl` can give a scalar: one letter, or a letter and a letter / digit -/
def allShort : List String :=
  letters.map (fun a => String.ofList [a]) ++ letters.flatMap (fun a => alnum.map (fun b => String.ofList [a, b]))

theorem allShort_count : allShort.length = 26 + 26 * 36 := by decide +kernel

theorem init_keeps_every_scalar :
    allShort.all (fun n => isUserName n && isUserName (n ++ "$")) = true := by
  decide +kernel

end CocoVerif.Props.C09Init
