import CocoVerif.Props.C07Expr

/-!
# C07 (statement clause) — every statement is written as keywords and complete expressions

`Emit.stmt` writes a statement as fixed pieces of text (keywords, `:=`, `\`, brackets, commas, line
breaks, indentation, labels and line numbers) around the texts of its expression objects.  `stmtT` is
`Emit.stmt` written a second time so that it produces tokens: the fixed pieces as tokens of kind `kw`,
every expression object through `C07Expr.exprT`.  Two theorems:

* `render_stmtT` — for **every** statement object the concatenation of the token spellings is the
  string `Emit.stmt` writes (so `stmtT` is the emitter's text, cut into pieces);
* `stmt_items` — for every statement object in scope (`wfS`, a decidable predicate; any nesting depth
  of IF / ELSE-IF chains / statement lists, any hoisted calls) the token kinds are a sequence of
  *fixed pieces* and *complete expressions* in the sense of `C07Expr.Exp`, and no token is `bad`:
  nowhere inside a statement is an operator or a call written without an operand, and no expression
  object is dropped or written as a marker.  Together with `C07.blocks_balanced` (the block keywords
nest) this is the structural content of the property for the emitter model.

Out of scope (`wfS = false`): DIM statements (their text is assembled by `dimText` from the entry
texts; see `Front.dim_source_to_text`), leaked parse nodes, and the expression shapes `C07Expr.wfE`
excludes (the listed findings).
-/
set_option linter.unusedSimpArgs false

namespace CocoVerif.Props.C07Stmt
open CocoVerif.Model CocoVerif.Props.C07Expr

/-- a sequence of fixed pieces and complete expressions -/
inductive Items : List K → Prop
  | nil : Items []
  | kw {r : List K} : Items r → Items (.kw :: r)
  | exp {e r : List K} : Exp e → Items r → Items (e ++ r)

theorem Items.append {a b : List K} (ha : Items a) (hb : Items b) : Items (a ++ b) := by
  induction ha with
  | nil => simpa using hb
  | kw _ ih => exact Items.kw ih
  | exp he _ ih => rw [List.append_assoc]; exact Items.exp he ih

/-! ### the emitter, producing tokens -/

def kwT (w : String) : List Tok := [⟨.kw, w⟩]

def joinT (sep : String) : List (List Tok) → List Tok
  | [] => []
  | [x] => x
  | x :: y :: r => x ++ kwT sep ++ joinT sep (y :: r)

def pretextT (i : Int) (pre : List (List Tok)) : List Tok :=
  kwT (Emit.ind i) ++ joinT " \\ " pre ++ (if pre.isEmpty then [] else kwT " \\ ")

def elistTT (i : Int) : EList → List (List Tok)
  | .mk _ es => es.map (exprT i)
  | .raw _ => [[⟨.bad, Emit.crashMark ++ "leak"⟩]]

/-- `Emit.elist`: like `C07Expr.elistT`, but an argument list of a statement may come without parentheses -/
def elistS (i : Int) : EList → List Tok
  | .mk parens es =>
      let t := joinT ", " (es.map (exprT i))
      if parens then (if (render t).isEmpty then [] else kwT "(" ++ t ++ kwT ")") else t
  | .raw _ => [⟨.bad, Emit.crashMark ++ "leak"⟩]

def optT (i : Int) : Option Expr → List Tok
  | some e => exprT i e
  | none => []

def printItemT (i : Int) (e : Expr) : Bool × List Tok :=
  (Emit.isCtl e, if Emit.isCtl e then kwT (Emit.expr i e) else exprT i e)

def printGoT : List (Bool × List Tok) → Option Bool → List Tok
  | [], _ => []
  | (isC, t) :: rest, prev =>
      (if isC && (prev.isNone || prev == some true) then [⟨.lit, "\"\""⟩] else []) ++
      (if !isC && prev == some false then kwT "; " else []) ++ t ++
      (if !rest.isEmpty && isC then kwT " " else []) ++ printGoT rest (some isC)

/-- the address test of `BasicPoke.basic09_text` -/
def pokeLoc : Expr → Option String
  | .lit (.flt r) _ => some r
  | .lit (.int n) _ => some (toString n ++ ".0")
  | .hex v _ => some (toString v ++ ".0")
  | _ => none

def exitT (i : Int) (c : List Tok) (body : List Tok) : List Tok :=
  kwT (Emit.ind (i + 1)) ++ kwT "EXITIF " ++ c ++ kwT " THEN\n" ++ body ++ kwT "\n" ++ kwT (Emit.ind (i + 1)) ++ kwT "ENDEXIT"

mutual
  def stmtT (i : Int) (preIndent : Bool) : Stmt → List Tok
    | .stmts multi ss _ =>
        (match ss with
          | s :: _ => if preIndent && Emit.isStmts s then kwT (Emit.ind i) else []
          | [] => []) ++ joinT (if multi then "\n" else " \\ ") (stmtsInT i (if multi then i else 0) ss)
    | .assign l v e pre =>
        match e with
        | .fexp _ f args _ fv =>
            pretextT i (pre.map (exprT 0)) ++
              (if fv.isNone then kwT (Emit.crashMark ++ "AttributeError") else
                let t := joinT ", " (elistTT i args ++ [optT i fv])
                kwT f ++ (if (render t).isEmpty then [] else kwT "(" ++ t ++ kwT ")"))
        | e => pretextT i (pre.map (exprT 0)) ++ (if l then kwT "LET " else []) ++ exprT i v ++ kwT " := " ++ exprT i e
    | .run _ inv args pre => pretextT i (pre.map (exprT 0)) ++ kwT inv ++ elistS i args
    | .goto n implicit gosub pre =>
        if gosub then pretextT i (pre.map (exprT 0)) ++ kwT "GOSUB " ++ kwT (toString n)
        else if implicit then kwT (toString n)
        else pretextT i (pre.map (exprT 0)) ++ kwT "GOTO " ++ kwT (toString n)
    | .onErr _ _ => kwT "ON ERROR GOTO 32700"
    | .onBrk _ _ => kwT "ON ERROR GOTO 32700"
    | .onGo e ns gosub pre =>
        pretextT i (pre.map (exprT 0)) ++ kwT "ON " ++ exprT i e ++ kwT (if gosub then " GOSUB " else " GOTO ")
          ++ kwT (Emit.join ", " (ns.map toString))
    | .if_ c body pre =>
        if Emit.isImplicitGoto body then
          pretextT i (pre.map (exprT 0)) ++ kwT "IF " ++ exprT i c ++ kwT " THEN " ++ stmtT 0 true body
        else pretextT i (pre.map (exprT 0)) ++ kwT "IF " ++ exprT i c ++ kwT " THEN\n" ++ stmtT (i + 1) true body
          ++ kwT "\nENDIF"
    | .ifElse c body elifs els _ =>
        if !elifs.isEmpty then
          kwT (Emit.ind i) ++ kwT "LOOP\n"
            ++ joinT "\n" (exitT i (exprT 0 c) (stmtT (i + 2) true body) :: elifT i elifs) ++ kwT "\n"
            ++ (match els with
                | none => []
                | some e => kwT (Emit.ind (i + 1)) ++ kwT "EXITIF TRUE THEN\n" ++ stmtT (i + 2) true e ++ kwT "\n"
                    ++ kwT (Emit.ind (i + 1)) ++ kwT "ENDEXIT\n")
            ++ kwT (Emit.ind i) ++ kwT "ENDLOOP"
        else
          kwT (Emit.ind i) ++ kwT "IF " ++ exprT 0 c ++ kwT " THEN\n" ++ stmtT (i + 1) true body ++ kwT "\n"
            ++ (match els with
                | none => []
                | some e => kwT (Emit.ind i) ++ kwT "ELSE\n" ++ stmtT (i + 1) true e ++ kwT "\n")
            ++ kwT (Emit.ind i) ++ kwT "ENDIF"
    | .comment c => kwT ("(*" ++ c ++ " *)")
    | .print args pre =>
        pretextT i (pre.map (exprT 0)) ++ kwT "PRINT " ++ printGoT (args.map (printItemT i)) none
    | .sound a b pre =>
        pretextT i (pre.map (exprT 0)) ++ kwT "RUN ecb_sound(" ++ exprT i a ++ kwT ", " ++ exprT i b
          ++ kwT ", 31.0, FIX(play.octo))"
    | .poke a b pre =>
        if pokeLoc a == some "65496.0" then pretextT i (pre.map (exprT 0)) ++ kwT "play.octo := 0"
        else if pokeLoc a == some "65497.0" then pretextT i (pre.map (exprT 0)) ++ kwT "play.octo := 1"
        else pretextT i (pre.map (exprT 0)) ++ kwT "POKE " ++ exprT i a ++ kwT ", " ++ exprT i b
    | .cls e pre =>
        pretextT i (pre.map (exprT 0)) ++ (match e with
          | some e => kwT "RUN ecb_cls(" ++ exprT i e ++ kwT ", display)"
          | none => kwT "RUN ecb_cls(1.0, display)")
    | .data items pre => pretextT i (pre.map (exprT 0)) ++ kwT "DATA " ++ elistS i items
    | .kw k pre => pretextT i (pre.map (exprT 0)) ++ kwT k
    | .for_ v a b step pre =>
        pretextT (i - 1) (pre.map (exprT 0)) ++ kwT "FOR " ++ exprT i v ++ kwT " = " ++ exprT i a ++ kwT " TO " ++ exprT i b
          ++ (match step with | some s => kwT " STEP " ++ exprT i s | none => [])
    | .next vars pre =>
        let vs := elistTT i vars
        pretextT i (pre.map (exprT 0)) ++ (if vs.isEmpty then kwT "NEXT" else joinT " \\ " (vs.map (fun v => kwT "NEXT " ++ v)))
    | .dim vars init dflt sizes pre =>
        [⟨.bad, Emit.dimText (Emit.pretextOf i (Emit.exprs 0 pre)) (Emit.dimItems vars (Emit.exprs i vars)) init dflt sizes⟩]
    | .read rhs _ _ => kwT (Emit.ind i) ++ kwT "READ " ++ joinT ", " (rhs.map (exprT i))
    | .input msg rhs =>
        (match msg with
         | some m => kwT (Emit.ind i) ++ kwT "INPUT " ++ exprT i m ++ kwT ", "
         | none => kwT "INPUT ") ++ joinT ", " (rhs.map (exprT i))
    | .width e pre => pretextT i (pre.map (exprT 0)) ++ kwT "run _ecb_width(" ++ exprT i e ++ kwT ", display)"
    | .code c pre => pretextT i (pre.map (exprT 0)) ++ kwT c
    | .expStmt e => exprT i e
    | .rawStmt _ => [⟨.bad, Emit.crashMark ++ "leak"⟩]
  def stmtsInT (i net : Int) : List Stmt → List (List Tok)
    | [] => []
    | s :: ss => (if Emit.isStmts s then stmtT i false s else stmtT net true s) :: stmtsInT i net ss
  def elifT (i : Int) : List Stmt → List (List Tok)
    | [] => []
    | s :: ss =>
        (match s with
         | .if_ c body _ => exitT i (exprT 0 c) (stmtT (i + 2) true body)
         | .ifElse c body _ _ _ => exitT i (exprT 0 c) (stmtT (i + 2) true body)
         | _ => [⟨.bad, Emit.crashMark ++ "AttributeError"⟩]) :: elifT i ss
end

def lineT (i : Int) (l : Line) : List Tok :=
  match l.num with
  | some n => if l.referenced then kwT (toString n) ++ kwT " " ++ stmtT i true l.body else stmtT i true l.body
  | none => stmtT i true l.body

/-! ### the token view is the emitter's text -/

@[simp] theorem render_kwT (w : String) : render (kwT w) = w := by simp [kwT]

theorem render_joinT (sep : String) : ∀ xs : List (List Tok),
    render (joinT sep xs) = Emit.join sep (xs.map render)
  | [] => by simp [joinT, Emit.join]
  | [x] => by simp [joinT, Emit.join]
  | x :: y :: r => by
      have ih := render_joinT sep (y :: r)
      simp only [Emit.join, List.map_cons] at ih ⊢
      simp [joinT, ih, String.intercalate_cons_cons, String.append_assoc]

theorem exprs_eq_map (i : Int) : ∀ es : List Expr, Emit.exprs i es = es.map (Emit.expr i)
  | [] => by simp [Emit.exprs]
  | e :: es => by simp [Emit.exprs, exprs_eq_map i es]

theorem map_render_exprT (i : Int) (es : List Expr) : (es.map (exprT i)).map render = Emit.exprs i es := by
  rw [exprs_eq_map]
  simp [render_exprT]

theorem map_render_exprT' (i : Int) (es : List Expr) : es.map (render ∘ exprT i) = Emit.exprs i es := by
  rw [← map_render_exprT]; simp

theorem render_pretextT (i : Int) (pre : List Expr) :
    render (pretextT i (pre.map (exprT 0))) = Emit.pretextOf i (Emit.exprs 0 pre) := by
  unfold pretextT Emit.pretextOf
  simp only [render_append, render_kwT, render_joinT, map_render_exprT]
  congr 1
  cases pre <;> simp [Emit.exprs]

theorem render_elistS (i : Int) : ∀ el : EList, render (elistS i el) = Emit.elist i el
  | .mk parens es => by
      unfold elistS Emit.elist
      simp only [render_joinT, map_render_exprT]
      cases parens
      · simp [render_joinT, map_render_exprT, map_render_exprT']
      · by_cases h : (Emit.join ", " (Emit.exprs i es)).isEmpty
        · simp [h]
        · simp [h, render_joinT, map_render_exprT, map_render_exprT', String.append_assoc]
  | .raw _ => by simp [elistS, Emit.elist]

theorem map_render_elistTT (i : Int) : ∀ el : EList, (elistTT i el).map render = Emit.elistTexts i el
  | .mk _ es => by simp [elistTT, Emit.elistTexts, map_render_exprT, map_render_exprT']
  | .raw _ => by simp [elistTT, Emit.elistTexts]

theorem render_optT (i : Int) : ∀ v : Option Expr, render (optT i v) = Emit.optExpr i v
  | some e => by simp [optT, Emit.optExpr, render_exprT]
  | none => by simp [optT, Emit.optExpr]

theorem render_printGoT : ∀ (xs : List (Bool × List Tok)) (prev : Option Bool),
    render (printGoT xs prev) = String.join (Emit.printArgs.go (xs.map (fun p => (p.1, render p.2))) prev)
  | [], _ => by simp [printGoT, Emit.printArgs.go]
  | (isC, t) :: rest, prev => by
      have ih := render_printGoT rest (some isC)
      simp only [printGoT, Emit.printArgs.go, List.map_cons, render_append, ih, List.isEmpty_map]
      simp only [String.join_append]
      congr 1
      congr 1
      · congr 1
        congr 1
        · split <;> simp
        · split <;> simp
      · split <;> simp

theorem printTexts_eq (i : Int) : ∀ es : List Expr,
    (es.map (printItemT i)).map (fun p => (p.1, render p.2)) = Emit.printTexts i es
  | [] => by simp [Emit.printTexts]
  | e :: es => by
      simp only [List.map_cons, Emit.printTexts, printTexts_eq i es, printItemT]
      congr 2
      split <;> simp [render_exprT]

theorem printTexts_eq' (i : Int) (es : List Expr) :
    es.map ((fun p => (p.1, render p.2)) ∘ printItemT i) = Emit.printTexts i es := by
  rw [← printTexts_eq]; simp

theorem emit_poke (i : Int) (p : Bool) (a b : Expr) (pre : List Expr) :
    Emit.stmt i p (.poke a b pre) =
      if pokeLoc a == some "65496.0" then Emit.pretextOf i (Emit.exprs 0 pre) ++ "play.octo := 0"
      else if pokeLoc a == some "65497.0" then Emit.pretextOf i (Emit.exprs 0 pre) ++ "play.octo := 1"
      else Emit.pretextOf i (Emit.exprs 0 pre) ++ "POKE " ++ Emit.expr i a ++ ", " ++ Emit.expr i b := by
  unfold Emit.stmt pokeLoc
  cases a <;> rfl

theorem render_exitT (i : Int) (c body : List Tok) :
    render (exitT i c body) = Emit.ind (i + 1) ++ "EXITIF " ++ render c ++ " THEN\n" ++ render body ++ "\n"
      ++ Emit.ind (i + 1) ++ "ENDEXIT" := by
  simp [exitT, String.append_assoc]

mutual
  theorem render_stmtT : ∀ (s : Stmt) (i : Int) (p : Bool), render (stmtT i p s) = Emit.stmt i p s
    | .stmts multi ss _, i, p => by
        unfold stmtT Emit.stmt
        simp only [render_append, render_joinT, render_stmtsInT ss _ _]
        congr 1
        cases ss with
        | nil => simp
        | cons s _ => simp only []; split <;> simp
    | .assign l v e pre, i, p => by
        cases e with
        | fexp j f args s fv =>
            unfold stmtT Emit.stmt
            simp only [Emit.fexpCall, render_append, render_pretextT]
            cases fv with
            | none => simp
            | some v' =>
                simp only [Option.isNone_some, Bool.false_eq_true, ↓reduceIte, render_append, render_kwT]
                simp only [render_joinT, List.map_append, map_render_elistTT, List.map_cons, List.map_nil, render_optT]
                congr 2
                split <;> simp [render_joinT, map_render_elistTT, render_optT, String.append_assoc]
        | _ =>
            unfold stmtT Emit.stmt
            simp only [Emit.fexpCall, render_append, render_pretextT, render_exprT, render_kwT]
            cases l <;> simp [String.append_assoc]
    | .run _ inv args pre, i, p => by
        unfold stmtT Emit.stmt
        simp [render_pretextT, render_elistS, String.append_assoc]
    | .goto n implicit gosub pre, i, p => by
        unfold stmtT Emit.stmt
        split
        · simp [render_pretextT, String.append_assoc]
        · split <;> simp [render_pretextT, String.append_assoc]
    | .onErr _ _, i, p => by unfold stmtT Emit.stmt; simp
    | .onBrk _ _, i, p => by unfold stmtT Emit.stmt; simp
    | .onGo e ns gosub pre, i, p => by
        unfold stmtT Emit.stmt
        simp [render_pretextT, render_exprT, String.append_assoc]
    | .if_ c body pre, i, p => by
        unfold stmtT Emit.stmt
        split
        · simp [render_pretextT, render_exprT, render_stmtT body, String.append_assoc]
        · simp [render_pretextT, render_exprT, render_stmtT body, String.append_assoc]
    | .ifElse c body elifs els _, i, p => by
        unfold stmtT Emit.stmt
        split
        · simp only [render_append, render_kwT, render_joinT, List.map_cons, render_exitT, render_exprT,
            render_stmtT body, render_elifT elifs i]
          cases els with
          | none => simp [String.append_assoc]
          | some e => simp [render_stmtT e, String.append_assoc]
        · simp only [render_append, render_kwT, render_exprT, render_stmtT body]
          cases els with
          | none => simp [String.append_assoc]
          | some e => simp [render_stmtT e, String.append_assoc]
    | .comment c, i, p => by unfold stmtT Emit.stmt; simp
    | .print args pre, i, p => by
        unfold stmtT Emit.stmt
        simp [render_pretextT, render_printGoT, printTexts_eq, printTexts_eq', Emit.printArgs, String.append_assoc]
    | .sound a b pre, i, p => by
        unfold stmtT Emit.stmt
        simp [render_pretextT, render_exprT, String.append_assoc]
    | .poke a b pre, i, p => by
        rw [emit_poke]
        unfold stmtT
        split
        · simp [render_pretextT]
        · split
          · simp [render_pretextT]
          · simp [render_pretextT, render_exprT, String.append_assoc]
    | .cls e pre, i, p => by
        unfold stmtT Emit.stmt
        cases e <;> simp [render_pretextT, render_exprT, String.append_assoc]
    | .data items pre, i, p => by
        unfold stmtT Emit.stmt
        simp [render_pretextT, render_elistS, String.append_assoc]
    | .kw k pre, i, p => by
        unfold stmtT Emit.stmt
        simp [render_pretextT]
    | .for_ v a b step pre, i, p => by
        unfold stmtT Emit.stmt
        cases step <;> simp [render_pretextT, render_exprT, String.append_assoc]
    | .next vars pre, i, p => by
        unfold stmtT Emit.stmt
        simp only [render_append, render_pretextT]
        congr 1
        have hm := map_render_elistTT i vars
        have he : (elistTT i vars).isEmpty = (Emit.elistTexts i vars).isEmpty := by
          rw [← hm]; simp
        simp only [he]
        split
        · simp
        · rw [render_joinT, ← hm]
          simp [List.map_map, Function.comp_def]
    | .dim .., i, p => by unfold stmtT Emit.stmt; simp
    | .read rhs _ _, i, p => by
        unfold stmtT Emit.stmt
        simp [render_joinT, map_render_exprT, map_render_exprT', String.append_assoc]
    | .input msg rhs, i, p => by
        unfold stmtT Emit.stmt
        cases msg <;> simp [render_joinT, map_render_exprT, map_render_exprT', render_exprT, String.append_assoc]
    | .width e pre, i, p => by
        unfold stmtT Emit.stmt
        simp [render_pretextT, render_exprT, String.append_assoc]
    | .code c pre, i, p => by
        unfold stmtT Emit.stmt
        simp [render_pretextT]
    | .expStmt e, i, p => by unfold stmtT Emit.stmt; simp [render_exprT]
    | .rawStmt _, i, p => by unfold stmtT Emit.stmt; simp
  theorem render_stmtsInT : ∀ (ss : List Stmt) (i net : Int), (stmtsInT i net ss).map render = Emit.stmtsIn i net ss
    | [], _, _ => by simp [stmtsInT, Emit.stmtsIn]
    | s :: ss, i, net => by
        simp only [stmtsInT, Emit.stmtsIn, List.map_cons, render_stmtsInT ss i net]
        congr 1
        split <;> exact render_stmtT s _ _
  theorem render_elifT : ∀ (ss : List Stmt) (i : Int), (elifT i ss).map render = Emit.elifTexts i ss
    | [], _ => by simp [elifT, Emit.elifTexts]
    | .if_ c body pre :: ss, i => by
        simp [elifT, Emit.elifTexts, render_elifT ss i, render_exitT, render_exprT, render_stmtT body]
    | .ifElse c body el e pre :: ss, i => by
        simp [elifT, Emit.elifTexts, render_elifT ss i, render_exitT, render_exprT, render_stmtT body]
    | .stmts .. :: ss, i | .assign .. :: ss, i | .run .. :: ss, i | .goto .. :: ss, i | .onErr .. :: ss, i
    | .onBrk .. :: ss, i | .onGo .. :: ss, i | .comment .. :: ss, i | .print .. :: ss, i | .sound .. :: ss, i
    | .poke .. :: ss, i | .cls .. :: ss, i | .data .. :: ss, i | .kw .. :: ss, i | .for_ .. :: ss, i
    | .next .. :: ss, i | .dim .. :: ss, i | .read .. :: ss, i | .input .. :: ss, i | .width .. :: ss, i
    | .code .. :: ss, i | .expStmt .. :: ss, i | .rawStmt .. :: ss, i => by
        simp [elifT, Emit.elifTexts, render_elifT ss i]
end

theorem render_lineT (i : Int) (l : Line) : render (lineT i l) = Emit.line i l := by
  unfold lineT Emit.line
  cases l.num with
  | none => simp [render_stmtT]
  | some n => simp only []; split <;> simp [render_stmtT, String.append_assoc]


/-! ### scope -/

def optOK (v : Option Expr) : Bool := match v with | some e => wfE e | none => true

/-- argument lists of statements: with or without parentheses -/
def wfL' : EList → Bool
  | .mk _ es => wfEs es
  | .raw _ => false

/-- a PRINT item is a control token (`;` `,` …) or a complete expression -/
def wfPrint : List Expr → Bool
  | [] => true
  | e :: es => (Emit.isCtl e || wfE e) && wfPrint es

mutual
  /-- the statement objects whose emission is claimed to be complete: every expression object in them
  is in the scope of `C07Expr.wfE` (the hoisted calls included), a direct assignment `X = FN(…)` has
  received its result variable, an ELSE-IF chain consists of IF statements.  DIM statements and leaked
  parse nodes are out of scope. -/
  def wfS : Stmt → Bool
    | .stmts _ ss _ => wfSs ss
    | .assign _ v e pre =>
        wfEs pre && (match e with
          | .fexp _ _ args _ (some fv) => wfL' args && wfE fv
          | .fexp _ _ _ _ none => false
          | e => wfE v && wfE e)
    | .run _ _ args pre => wfEs pre && wfL' args
    | .goto _ _ _ pre => wfEs pre
    | .onErr .. => true
    | .onBrk .. => true
    | .onGo e _ _ pre => wfEs pre && wfE e
    | .if_ c body pre => wfEs pre && wfE c && wfS body
    | .ifElse c body elifs els _ => wfE c && wfS body && wfElifs elifs && wfOptS els
    | .comment _ => true
    | .print args pre => wfEs pre && wfPrint args
    | .sound a b pre => wfEs pre && wfE a && wfE b
    | .poke a b pre => wfEs pre && wfE a && wfE b
    | .cls e pre => wfEs pre && optOK e
    | .data items pre => wfEs pre && wfL' items
    | .kw _ pre => wfEs pre
    | .for_ v a b step pre => wfEs pre && wfE v && wfE a && wfE b && optOK step
    | .next vars pre => wfEs pre && wfL' vars
    | .dim .. => false
    | .read rhs _ _ => wfEs rhs
    | .input msg rhs => optOK msg && wfEs rhs
    | .width e pre => wfEs pre && wfE e
    | .code _ pre => wfEs pre
    | .expStmt e => wfE e
    | .rawStmt _ => false
  def wfSs : List Stmt → Bool
    | [] => true
    | s :: ss => wfS s && wfSs ss
  def wfElifs : List Stmt → Bool
    | [] => true
    | .if_ c body _ :: ss => wfE c && wfS body && wfElifs ss
    | .ifElse c body _ _ _ :: ss => wfE c && wfS body && wfElifs ss
    | _ :: _ => false
  def wfOptS : Option Stmt → Bool
    | none => true
    | some s => wfS s
end

/-! ### good token lists: fixed pieces and complete expressions, every structural token spelled as itself -/

def SOK (t : Tok) : Prop := t.k = .kw ∨ TokOK t

def G (ts : List Tok) : Prop := Items (kinds ts) ∧ ∀ t ∈ ts, SOK t

theorem G.nil : G [] := ⟨Items.nil, by simp⟩

theorem G.kw (w : String) : G (kwT w) :=
  ⟨Items.kw Items.nil, by intro t ht; simp [C07Stmt.kwT] at ht; subst ht; exact Or.inl rfl⟩

theorem G.append {a b : List Tok} (ha : G a) (hb : G b) : G (a ++ b) :=
  ⟨by simpa using ha.1.append hb.1, by
    intro t ht
    rcases List.mem_append.mp ht with h | h
    · exact ha.2 t h
    · exact hb.2 t h⟩

theorem G.expr (i : Int) (e : Expr) (h : wfE e = true) : G (exprT i e) :=
  ⟨by simpa using Items.exp (exprT_wf i e h) Items.nil, fun t ht => Or.inr (exprT_tokOK i e h t ht)⟩

theorem G.join (sep : String) : ∀ xs : List (List Tok), (∀ x ∈ xs, G x) → G (joinT sep xs)
  | [], _ => by simpa [C07Stmt.joinT] using G.nil
  | [x], h => by simpa [C07Stmt.joinT] using h x (by simp)
  | x :: y :: r, h => by
      have ih := G.join sep (y :: r) (fun z hz => h z (by simp [hz]))
      simp only [C07Stmt.joinT]
      exact ((h x (by simp)).append (G.kw sep)).append ih

theorem G.mapExpr (i : Int) : ∀ es : List Expr, wfEs es = true → ∀ x ∈ es.map (exprT i), G x
  | [], _, x, hx => by simp at hx
  | e :: es, h, x, hx => by
      simp only [wfEs, Bool.and_eq_true] at h
      simp only [List.map_cons, List.mem_cons] at hx
      rcases hx with rfl | hx
      · exact G.expr i e h.1
      · exact G.mapExpr i es h.2 x hx

theorem G.pretext (i : Int) (pre : List Expr) (h : wfEs pre = true) : G (pretextT i (pre.map (exprT 0))) := by
  unfold C07Stmt.pretextT
  refine ((G.kw _).append (G.join _ _ (G.mapExpr 0 pre h))).append ?_
  split
  · exact G.nil
  · exact G.kw _

theorem G.elist (i : Int) (el : EList) (h : wfL' el = true) : G (elistS i el) := by
  cases el with
  | raw _ => simp [wfL'] at h
  | mk parens es =>
      simp only [wfL'] at h
      have hj := G.join ", " _ (G.mapExpr i es h)
      unfold C07Stmt.elistS
      simp only []
      cases parens
      · simpa using hj
      · simp only [↓reduceIte]
        split
        · exact G.nil
        · exact ((G.kw "(").append hj).append (G.kw ")")

theorem G.elistTexts (i : Int) (el : EList) (h : wfL' el = true) : ∀ x ∈ elistTT i el, G x := by
  cases el with
  | raw _ => simp [wfL'] at h
  | mk parens es =>
      simp only [wfL'] at h
      simpa [C07Stmt.elistTT] using G.mapExpr i es h

theorem optOK_spec {v : Option Expr} (h : optOK v = true) : ∀ e, v = some e → wfE e = true := by
  intro e he; subst he; simpa [optOK] using h

theorem G.printGo : ∀ (xs : List (Bool × List Tok)) (prev : Option Bool),
    (∀ p ∈ xs, G p.2) → G (printGoT xs prev)
  | [], _, _ => by simpa [C07Stmt.printGoT] using G.nil
  | (isC, t) :: rest, prev, h => by
      have ih := G.printGo rest (some isC) (fun p hp => h p (by simp [hp]))
      simp only [C07Stmt.printGoT]
      refine ((((?_ : G _).append ?_).append (h (isC, t) (by simp))).append ?_).append ih
      · split
        · exact ⟨by simpa using Items.exp Exp.lit Items.nil, by
            intro t ht; simp at ht; subst ht; exact Or.inr (by simp [TokOK])⟩
        · exact G.nil
      · split
        · exact G.kw _
        · exact G.nil
      · split
        · exact G.kw _
        · exact G.nil

theorem G.printItems (i : Int) : ∀ es : List Expr, wfPrint es = true → ∀ p ∈ es.map (printItemT i), G p.2
  | [], _, p, hp => by simp at hp
  | e :: es, h, p, hp => by
      simp only [wfPrint, Bool.and_eq_true, Bool.or_eq_true] at h
      simp only [List.map_cons, List.mem_cons] at hp
      rcases hp with rfl | hp
      · simp only [printItemT]
        split
        · exact G.kw _
        · rename_i hc
          rcases h.1 with h1 | h1
          · exact absurd h1 hc
          · exact G.expr i e h1
      · exact G.printItems i es h.2 p hp

theorem G.exit (i : Int) {c body : List Tok} (hc : G c) (hb : G body) : G (exitT i c body) := by
  unfold C07Stmt.exitT
  exact (((((((G.kw _).append (G.kw _)).append hc).append (G.kw _)).append hb).append (G.kw _)).append
    (G.kw _)).append (G.kw _)

/-! ### the theorem -/

mutual
  theorem stmtT_good : ∀ (s : Stmt) (i : Int) (p : Bool), wfS s = true → G (stmtT i p s)
    | .stmts multi ss _, i, p, h => by
        simp only [wfS] at h
        unfold stmtT
        refine G.append ?_ (G.join _ _ (stmtsInT_good ss i _ h))
        cases ss with
        | nil => exact G.nil
        | cons s _ => simp only []; split <;> first | exact G.kw _ | exact G.nil
    | .assign l v e pre, i, p, h => by
        simp only [wfS, Bool.and_eq_true] at h
        obtain ⟨hpre, hrest⟩ := h
        cases e with
        | fexp j f args s fv =>
            cases fv with
            | none => simp at hrest
            | some v' =>
                simp only [Bool.and_eq_true] at hrest
                unfold stmtT
                simp only [Option.isNone_some, Bool.false_eq_true, ↓reduceIte]
                refine (G.pretext i pre hpre).append ((G.kw f).append ?_)
                split
                · exact G.nil
                · refine ((G.kw _).append (G.join _ _ ?_)).append (G.kw _)
                  intro x hx
                  simp only [List.mem_append, List.mem_cons, List.not_mem_nil, or_false] at hx
                  rcases hx with hx | rfl
                  · exact G.elistTexts i args hrest.1 x hx
                  · simpa [optT] using G.expr i v' hrest.2
        | _ =>
            simp only [Bool.and_eq_true] at hrest
            unfold stmtT
            refine ((((G.pretext i pre hpre).append ?_).append (G.expr i v hrest.1)).append (G.kw _)).append
              (G.expr i _ hrest.2)
            split <;> first | exact G.kw _ | exact G.nil
    | .run _ inv args pre, i, p, h => by
        simp only [wfS, Bool.and_eq_true] at h
        unfold stmtT
        exact ((G.pretext i pre h.1).append (G.kw inv)).append (G.elist i args h.2)
    | .goto n implicit gosub pre, i, p, h => by
        simp only [wfS] at h
        unfold stmtT
        split
        · exact ((G.pretext i pre h).append (G.kw _)).append (G.kw _)
        · split
          · exact G.kw _
          · exact ((G.pretext i pre h).append (G.kw _)).append (G.kw _)
    | .onErr _ _, i, p, _ => by unfold stmtT; exact G.kw _
    | .onBrk _ _, i, p, _ => by unfold stmtT; exact G.kw _
    | .onGo e ns gosub pre, i, p, h => by
        simp only [wfS, Bool.and_eq_true] at h
        unfold stmtT
        exact ((((G.pretext i pre h.1).append (G.kw _)).append (G.expr i e h.2)).append (G.kw _)).append (G.kw _)
    | .if_ c body pre, i, p, h => by
        simp only [wfS, Bool.and_eq_true] at h
        obtain ⟨⟨hpre, hc⟩, hb⟩ := h
        unfold stmtT
        split
        · exact ((((G.pretext i pre hpre).append (G.kw _)).append (G.expr i c hc)).append (G.kw _)).append
            (stmtT_good body 0 true hb)
        · exact (((((G.pretext i pre hpre).append (G.kw _)).append (G.expr i c hc)).append (G.kw _)).append
            (stmtT_good body (i + 1) true hb)).append (G.kw _)
    | .ifElse c body elifs els _, i, p, h => by
        simp only [wfS, Bool.and_eq_true] at h
        obtain ⟨⟨⟨hc, hb⟩, hel⟩, hels⟩ := h
        unfold stmtT
        split
        · refine ((((((G.kw _).append (G.kw _)).append (G.join _ _ ?_)).append (G.kw _)).append ?_).append
            (G.kw _)).append (G.kw _)
          · intro x hx
            simp only [List.mem_cons] at hx
            rcases hx with rfl | hx
            · exact G.exit i (G.expr 0 c hc) (stmtT_good body (i + 2) true hb)
            · exact elifT_good elifs i hel x hx
          · cases els with
            | none => exact G.nil
            | some e =>
                simp only [wfOptS] at hels
                exact (((((G.kw _).append (G.kw _)).append (stmtT_good e (i + 2) true hels)).append (G.kw _)).append
                  (G.kw _)).append (G.kw _)
        · refine ((((((((G.kw _).append (G.kw _)).append (G.expr 0 c hc)).append (G.kw _)).append
            (stmtT_good body (i + 1) true hb)).append (G.kw _)).append ?_).append (G.kw _)).append (G.kw _)
          cases els with
          | none => exact G.nil
          | some e =>
              simp only [wfOptS] at hels
              exact (((G.kw _).append (G.kw _)).append (stmtT_good e (i + 1) true hels)).append (G.kw _)
    | .comment c, i, p, _ => by unfold stmtT; exact G.kw _
    | .print args pre, i, p, h => by
        simp only [wfS, Bool.and_eq_true] at h
        unfold stmtT
        exact ((G.pretext i pre h.1).append (G.kw _)).append (G.printGo _ none (G.printItems i args h.2))
    | .sound a b pre, i, p, h => by
        simp only [wfS, Bool.and_eq_true] at h
        unfold stmtT
        exact (((((G.pretext i pre h.1.1).append (G.kw _)).append (G.expr i a h.1.2)).append (G.kw _)).append
          (G.expr i b h.2)).append (G.kw _)
    | .poke a b pre, i, p, h => by
        simp only [wfS, Bool.and_eq_true] at h
        unfold stmtT
        split
        · exact (G.pretext i pre h.1.1).append (G.kw _)
        · split
          · exact (G.pretext i pre h.1.1).append (G.kw _)
          · exact ((((G.pretext i pre h.1.1).append (G.kw _)).append (G.expr i a h.1.2)).append (G.kw _)).append
              (G.expr i b h.2)
    | .cls e pre, i, p, h => by
        simp only [wfS, Bool.and_eq_true] at h
        unfold stmtT
        refine (G.pretext i pre h.1).append ?_
        cases e with
        | none => exact G.kw _
        | some e => exact ((G.kw _).append (G.expr i e (optOK_spec h.2 e rfl))).append (G.kw _)
    | .data items pre, i, p, h => by
        simp only [wfS, Bool.and_eq_true] at h
        unfold stmtT
        exact ((G.pretext i pre h.1).append (G.kw _)).append (G.elist i items h.2)
    | .kw k pre, i, p, h => by
        simp only [wfS] at h
        unfold stmtT
        exact (G.pretext i pre h).append (G.kw _)
    | .for_ v a b step pre, i, p, h => by
        simp only [wfS, Bool.and_eq_true] at h
        obtain ⟨⟨⟨⟨hpre, hv⟩, ha⟩, hb⟩, hs⟩ := h
        unfold stmtT
        refine (((((((G.pretext (i - 1) pre hpre).append (G.kw _)).append (G.expr i v hv)).append (G.kw _)).append
          (G.expr i a ha)).append (G.kw _)).append (G.expr i b hb)).append ?_
        cases step with
        | none => exact G.nil
        | some s => exact (G.kw _).append (G.expr i s (optOK_spec hs s rfl))
    | .next vars pre, i, p, h => by
        simp only [wfS, Bool.and_eq_true] at h
        unfold stmtT
        simp only []
        refine (G.pretext i pre h.1).append ?_
        split
        · exact G.kw _
        · refine G.join _ _ ?_
          intro x hx
          simp only [List.mem_map] at hx
          obtain ⟨v, hv, rfl⟩ := hx
          exact (G.kw _).append (G.elistTexts i vars h.2 v hv)
    | .dim .., _, _, h => by simp [wfS] at h
    | .read rhs _ _, i, p, h => by
        simp only [wfS] at h
        unfold stmtT
        exact ((G.kw _).append (G.kw _)).append (G.join _ _ (G.mapExpr i rhs h))
    | .input msg rhs, i, p, h => by
        simp only [wfS, Bool.and_eq_true] at h
        unfold stmtT
        refine G.append ?_ (G.join _ _ (G.mapExpr i rhs h.2))
        cases msg with
        | none => exact G.kw _
        | some m => exact (((G.kw _).append (G.kw _)).append (G.expr i m (optOK_spec h.1 m rfl))).append (G.kw _)
    | .width e pre, i, p, h => by
        simp only [wfS, Bool.and_eq_true] at h
        unfold stmtT
        exact (((G.pretext i pre h.1).append (G.kw _)).append (G.expr i e h.2)).append (G.kw _)
    | .code c pre, i, p, h => by
        simp only [wfS] at h
        unfold stmtT
        exact (G.pretext i pre h).append (G.kw _)
    | .expStmt e, i, p, h => by
        simp only [wfS] at h
        unfold stmtT
        exact G.expr i e h
    | .rawStmt _, _, _, h => by simp [wfS] at h
  theorem stmtsInT_good : ∀ (ss : List Stmt) (i net : Int), wfSs ss = true → ∀ x ∈ stmtsInT i net ss, G x
    | [], _, _, _, x, hx => by simp [stmtsInT] at hx
    | s :: ss, i, net, h, x, hx => by
        simp only [wfSs, Bool.and_eq_true] at h
        simp only [stmtsInT, List.mem_cons] at hx
        rcases hx with rfl | hx
        · split
          · exact stmtT_good s i false h.1
          · exact stmtT_good s net true h.1
        · exact stmtsInT_good ss i net h.2 x hx
  theorem elifT_good : ∀ (ss : List Stmt) (i : Int), wfElifs ss = true → ∀ x ∈ elifT i ss, G x
    | [], _, _, x, hx => by simp [elifT] at hx
    | .if_ c body pre :: ss, i, h, x, hx => by
        simp only [wfElifs, Bool.and_eq_true] at h
        simp only [elifT, List.mem_cons] at hx
        rcases hx with rfl | hx
        · exact G.exit i (G.expr 0 c h.1.1) (stmtT_good body (i + 2) true h.1.2)
        · exact elifT_good ss i h.2 x hx
    | .ifElse c body el e pre :: ss, i, h, x, hx => by
        simp only [wfElifs, Bool.and_eq_true] at h
        simp only [elifT, List.mem_cons] at hx
        rcases hx with rfl | hx
        · exact G.exit i (G.expr 0 c h.1.1) (stmtT_good body (i + 2) true h.1.2)
        · exact elifT_good ss i h.2 x hx
    | .stmts .. :: ss, i, h, _, _ | .assign .. :: ss, i, h, _, _ | .run .. :: ss, i, h, _, _ | .goto .. :: ss, i, h, _, _
    | .onErr .. :: ss, i, h, _, _ | .onBrk .. :: ss, i, h, _, _ | .onGo .. :: ss, i, h, _, _ | .comment .. :: ss, i, h, _, _
    | .print .. :: ss, i, h, _, _ | .sound .. :: ss, i, h, _, _ | .poke .. :: ss, i, h, _, _ | .cls .. :: ss, i, h, _, _
    | .data .. :: ss, i, h, _, _ | .kw .. :: ss, i, h, _, _ | .for_ .. :: ss, i, h, _, _ | .next .. :: ss, i, h, _, _
    | .dim .. :: ss, i, h, _, _ | .read .. :: ss, i, h, _, _ | .input .. :: ss, i, h, _, _ | .width .. :: ss, i, h, _, _
    | .code .. :: ss, i, h, _, _ | .expStmt .. :: ss, i, h, _, _ | .rawStmt .. :: ss, i, h, _, _ => by
        simp [wfElifs] at h
end

/-- **C07, statement clause.**  For every line whose statement object is in scope, the text the emitter
writes — label, hoisted calls, the statement, nested blocks at any depth — is the concatenation of the
tokens `lineT` lists; these are fixed pieces and complete BASIC09 expressions, every parenthesis, comma
and operator token is spelled as itself, and no token is a marker or a leaked object. -/
theorem line_wellformed (i : Int) (l : Line) (h : wfS l.body = true) :
    Emit.line i l = render (lineT i l) ∧ G (lineT i l) := by
  refine ⟨(render_lineT i l).symm, ?_⟩
  unfold lineT
  cases l.num with
  | none => exact stmtT_good l.body i true h
  | some n =>
      simp only []
      split
      · exact ((G.kw _).append (G.kw _)).append (stmtT_good l.body i true h)
      · exact stmtT_good l.body i true h

/-- the exclusions are needed: a leaked node is written as a marker token -/
theorem not_wf_witness : (stmtT 0 true (.rawStmt "x")).map (·.k) = [.bad] ∧ wfS (.rawStmt "x") = false := by
  constructor <;> rfl

/-- non-vacuity: `IF A > INT(B) THEN PRINT "X"; A ELSE IF B THEN 100` with its hoisted call is in scope -/
example : wfS (.ifElse (.bin true (.var "A" false) ">" (.fexp false "RUN ecb_int" (.mk true [.var "B" false]) false (some (.var "tmp_1" false))))
    (.stmts false [.print [.lit (.str "X") true, .ctl ";", .var "A" false] []] [])
    [.if_ (.var "B" false) (.goto 100 true false []) []] none
    [.call "RUN ecb_int" (.mk true [.var "B" false, .var "tmp_1" false]) false]) = true := by decide

end CocoVerif.Props.C07Stmt
