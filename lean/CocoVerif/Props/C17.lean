import CocoVerif.Props.Lemmas.Img

/-!
# C17 — compression is transparent: any valid encoding decodes to the original image

The valid encodings are the inductive relations of `Spec/Img.lean` (every constructor is one
legal encoder choice: run length, run splitting, literal versus repeat, escape use).
Proved: run-length MGE (`mge_rle_transparent`), squashed VEF 320x200x16 (`vef_squashed_transparent_16`,
through `unsq_groups` for one record and `vefRecords_rows` for the file), escape-coded RAT for the
images the decoder can show at all (`rat_transparent_partial`; the exclusion is the known finding,
with the kernel-checked witness `rat_low_nibble_witness`).  Not proved: CM3 line coding.
-/
namespace CocoVerif.Props.C17
open CocoVerif.Model.Img CocoVerif.Spec.Img CocoVerif.Props.Img

/-- MGE run-length: whatever splitting of runs the encoder chose (1..255 per pair, terminator 0),
the decoder yields the image — the same output as for the uncompressed form (`C16.mge_raw_roundtrip`). -/
theorem mge_rle_transparent (pal px title enc : List Nat) (flag c a : Nat)
    (hpal : pal.length = 16) (hpx : px.length = 64000) (hlt : ∀ p ∈ px, p < 16)
    (ht : title.length = 30) (hz : 0 ∈ title) (hcmp : flag ≠ 0 → ∀ p ∈ pal, p < 64)
    (henc : MgeRle (packNib px) enc) :
    mge ([0] ++ pal ++ [flag] ++ [0] ++ title ++ [c, a] ++ enc)
      = .ok (ppmHeader "P6" 320 200 ++ render (mgePalette flag pal) px) := by
  have hl := packNib_length 32000 px (by omega)
  have hr := mgeRle_valid (mgePalette flag pal) (mgePalette_length flag pal hpal) (packNib px) enc henc
    (packNib_lt 32000 px (by omega) hlt) 32000 (by rw [hl]; decide)
  rw [mge_header pal title enc flag 0 c a hpal ht hz hcmp]
  simp [hr, render_eq_bytesOut (mgePalette flag pal) 32000 px (by omega) hlt]

/-- the premises are satisfiable: a two-pair stream is a valid encoding of three bytes -/
example : MgeRle [7, 7, 9] [2, 7, 1, 9, 0] :=
  .run 2 7 [9] [1, 9, 0] (by decide) (by decide) (.run 1 9 [] [0] (by decide) (by decide) .done)

/-! ### squashed VEF -/


/-- one squashed record decodes to its row, whatever mixture of repeat and literal groups the
encoder chose -/
theorem unsq_groups (row enc : List Nat) (h : VefGroups row enc) : unsq enc enc.length = .ok row := by
  induction h with
  | done => rw [unsq.eq_def]; rfl
  | rep n v rest enc' h1 h2 _ ih =>
      rw [unsq.eq_def]
      simp only [List.length_cons]
      have : 128 + n > 128 := by omega
      simp only [this, if_true]
      have e : enc'.length + 1 - 1 = enc'.length := by omega
      simp only [e, ih, bind, Except.bind, pure, Except.pure]
      have : 128 + n - 128 = n := by omega
      rw [this]
  | lit bs rest enc' h1 h2 _ ih =>
      rw [unsq.eq_def]
      simp only [List.length_cons, List.length_append]
      have hnot : ¬ bs.length > 128 := by omega
      have hlen : ¬ (bs.length + enc'.length < bs.length) := by omega
      simp only [hnot, if_false, hlen]
      have e : bs.length + enc'.length - bs.length = enc'.length := by omega
      simp [e, ih, bind, Except.bind, pure, Except.pure]

/-- the records of a squashed file: each row's encoding preceded by its length -/
def encRecs : List (List Nat × List Nat) → List Nat
  | [] => []
  | (_, enc) :: rest => enc.length :: enc ++ encRecs rest

def RowsOK (origLen : Nat) (rows : List (List Nat × List Nat)) : Prop :=
  ∀ r ∈ rows, VefGroups r.1 r.2 ∧ r.1.length = origLen

theorem vefRecords_rows (origLen : Nat) (rows : List (List Nat × List Nat)) (h : RowsOK origLen rows) :
    ∀ pre : List Nat, vefRecords (pre ++ encRecs rows) origLen rows.length pre.length
      = .ok (rows.map (·.1)).flatten := by
  induction rows with
  | nil => intro pre; simp [vefRecords, pure, Except.pure]
  | cons r rest ih =>
      intro pre
      obtain ⟨row, enc⟩ := r
      have hr := h (row, enc) (by simp)
      have hrest : RowsOK origLen rest := fun x hx => h x (by simp [hx])
      have hget : (pre ++ encRecs ((row, enc) :: rest))[pre.length]? = some enc.length := by
        simp [encRecs]
      have hsl : ((pre ++ encRecs ((row, enc) :: rest)).drop (pre.length + 1)).take enc.length = enc := by
        have h1 : List.drop (pre.length + 1) (pre ++ (enc.length :: (enc ++ encRecs rest))) = enc ++ encRecs rest := by
          rw [List.drop_append]
          simp
        simp only [encRecs, List.cons_append]
        rw [h1]; simp
      have hdata : pre ++ encRecs ((row, enc) :: rest) = (pre ++ (enc.length :: enc)) ++ encRecs rest := by
        simp [encRecs]
      have hpos : pre.length + enc.length + 1 = (pre ++ (enc.length :: enc)).length := by simp; omega
      have hu := unsq_groups row enc hr.1
      simp only [List.length_cons, vefRecords, hget, hsl, hu, bind, Except.bind, pure, Except.pure]
      rw [hdata, hpos, ih hrest (pre ++ (enc.length :: enc))]
      simp only [List.map_cons, List.flatten_cons]
      have : List.take origLen row = row := by rw [← hr.2]; simp
      rw [this]

/-- **squashed VEF, 320x200x16**: 400 records, each any valid group encoding of one 80-byte row:
the decoder yields the same bitmap as for the uncompressed file (`C16.vef_raw_roundtrip_16`) -/
theorem vef_squashed_transparent_16 (pal px : List Nat) (rows : List (List Nat × List Nat))
    (hpal : pal.length = 16) (hpx : px.length = 64000) (hlt : ∀ p ∈ px, p < 16)
    (hn : rows.length = 400) (hrows : RowsOK 80 rows)
    (himg : (rows.map (·.1)).flatten = packNib px) :
    vef (128 :: 0 :: (pal ++ encRecs rows))
      = .ok { width := 320, height := 200, bitmap := px.map (fun p => pal.getD p 0) } := by
  have hb := vefBitmap8 pal hpal 32000 px (by omega) hlt
  have hrec := vefRecords_rows 80 rows hrows (128 :: 0 :: pal)
  have hl : (128 :: 0 :: pal).length = 18 := by simp [hpal]
  rw [hn, hl, himg] at hrec
  have htk : List.take 16 (pal ++ encRecs rows) = pal := by rw [← hpal]; simp
  have hd : (128 :: 0 :: pal) ++ encRecs rows = 128 :: 0 :: (pal ++ encRecs rows) := by simp
  rw [hd] at hrec
  simp [vef, htk, hrec, hb, bind, Except.bind, pure, Except.pure]

/-- non-vacuity: a row of 80 equal bytes as one repeat group, and as literal + repeat -/
example : VefGroups (List.replicate 80 5) [128 + 80, 5] := by
  have := VefGroups.rep 80 5 [] [] (by decide) (by decide) .done
  simpa using this


/-! ### RAT escape coding -/


/-- the bytes RAT decodes correctly: right-hand pixel (low nibble) below 8 -/
def lowNibbleOK (b : Nat) : Prop := b < 256 ∧ b % 16 < 8

theorem ratDump_byteOut (pal : List Nat) (v : Nat) (hpal : pal.length = 16) (hv : lowNibbleOK v) :
    ratDump pal v = .ok (byteOut pal v) := by
  obtain ⟨h1, h2⟩ := hv
  have e : v % 8 = v % 16 := by omega
  simp [ratDump, byteOut, e, dumpPal_ok pal (v / 16) (by omega), dumpPal_ok pal (v % 16) (by omega),
    bind, Except.bind, pure, Except.pure]

theorem replicateApp_flatMap (pal : List Nat) (n v : Nat) :
    replicateApp n (byteOut pal v) = bytesOut pal (List.replicate n v) := by
  induction n with
  | zero => simp [replicateApp, bytesOut]
  | succ n ih =>
      simp only [replicateApp, bytesOut, List.replicate_succ, List.flatten_cons, List.flatMap_cons] at ih ⊢
      rw [ih]

theorem bytesOut_append (pal a b : List Nat) : bytesOut pal (a ++ b) = bytesOut pal a ++ bytesOut pal b := by
  simp [bytesOut]

/-- the escape decoder on any valid encoding: every literal / run choice gives the same bytes -/
theorem ratLoop_valid (esc : Nat) (pal : List Nat) (hpal : pal.length = 16) (bytes enc : List Nat)
    (h : RatEsc esc bytes enc) (hb : ∀ b ∈ bytes, lowNibbleOK b) :
    ratLoop esc pal enc (bytes.length : Int) = .ok (bytesOut pal bytes) := by
  induction h with
  | done => rw [ratLoop.eq_def]; simp [bytesOut]; rfl
  | lit v rest enc' hne _ ih =>
      have hv := hb v (by simp)
      have hrest : ∀ b ∈ rest, lowNibbleOK b := fun b hb' => hb b (by simp [hb'])
      rw [ratLoop.eq_def]
      have hpos : ¬ ((↑(v :: rest).length : Int) ≤ 0) := by simp only [List.length_cons]; omega
      simp only [hpos, if_false, hne, ne_eq, not_false_eq_true, if_true, ratDump_byteOut pal v hpal hv]
      have e : (↑(v :: rest).length : Int) - 1 = ↑rest.length := by simp
      simp [e, ih hrest, bind, Except.bind, pure, Except.pure, bytesOut]
  | run n v rest enc' h1 h2 _ ih =>
      have hv : lowNibbleOK v := hb v (by
        have : 0 < n := h1
        simp [List.mem_append, List.mem_replicate]; omega)
      have hrest : ∀ b ∈ rest, lowNibbleOK b := fun b hb' => hb b (by simp [hb'])
      rw [ratLoop.eq_def]
      have hpos : ¬ ((↑(List.replicate n v ++ rest).length : Int) ≤ 0) := by
        simp only [List.length_append, List.length_replicate]; omega
      have hn0 : n ≠ 0 := by omega
      simp only [hpos, if_false, ne_eq, not_true_eq_false, hn0, ratDump_byteOut pal v hpal hv]
      have e : ((↑n : Int) + ↑rest.length - ↑n) = ↑rest.length := by omega
      simp [e, ih hrest, bind, Except.bind, pure, Except.pure, replicateApp_flatMap, bytesOut_append]

/-- **RAT, partial**: for every image whose right-hand pixels are below 8 and every valid escape
coding of it, the decoder yields the image.  The restriction is the known finding
`rat-low-nibble-bit3` (`dump(c & 7)`). -/
theorem rat_transparent_partial (esc packed border : Nat) (pal px enc : List Nat) (hpk : packed ≠ 0)
    (hpal : pal.length = 16) (hpx : px.length = 63680) (hlt : ∀ p ∈ px, p < 16)
    (hlow : ∀ b ∈ packNib px, lowNibbleOK b) (henc : RatEsc esc (packNib px) enc) :
    rat (esc :: packed :: border :: (pal ++ enc))
      = .ok (ppmHeader "P6" 320 199 ++ render pal px) := by
  have hl := packNib_length 31840 px (by omega)
  have hv := ratLoop_valid esc pal hpal (packNib px) enc henc hlow
  rw [hl] at hv
  have htk : List.take 16 (pal ++ enc) = pal := by rw [← hpal]; simp
  have hdr : List.drop 16 (pal ++ enc) = enc := by rw [← hpal]; simp
  simp only [rat, read1, List.drop, bind, Except.bind, pure, Except.pure, hpk, if_false, htk, hdr]
  have : (199 * 160 : Int) = ((31840 : Nat) : Int) := by decide
  rw [this, hv]
  simp [render_eq_bytesOut pal 31840 px (by omega) hlt]

/-- the excluded case, kernel-checked: a byte with right-hand pixel 9 is written as pixel 1 -/
theorem rat_low_nibble_witness :
    ratDump (List.range 16) 0x19 = .ok (colour 1 ++ colour 1) ∧ byteOut (List.range 16) 0x19 = colour 1 ++ colour 9 := by
  constructor <;> rfl


end CocoVerif.Props.C17
