import CocoVerif.Props.Lemmas.Img

/-!
# C17 — compression is transparent: any valid encoding decodes to the original image

The valid encodings are the inductive relations of `Spec/Img.lean` (every constructor is one
legal encoder choice: run length, run splitting, literal versus repeat, escape use).
-/
namespace CocoVerif.Props.C17
open CocoVerif.Model.Img CocoVerif.Spec.Img CocoVerif.Props.Img

/-- MGE run-length: whatever splitting of runs the encoder chose (1..255 per pair, terminator 0),
the decoder yields the image — the same output as for the uncompressed form (`C16.mge_raw_roundtrip`). -/
theorem mge_rle_transparent (pal px title enc : List Nat) (flag c a : Nat)
    (hpal : pal.length = 16) (hpx : px.length = 64000) (hlt : ∀ p ∈ px, p < 16)
    (ht : title.length = 30) (hz : 0 ∈ title) (hcmp : flag ≠ 0 → ∀ p ∈ pal, p < 64)
    (henc : MgeRle (packNib px) enc) :
    mge ([0] ++ pal ++ [flag] ++ [0] ++ title ++ [c, a] ++ enc)
      = .ok (ppmHeader "P6" 320 200 ++ render (mgePalette flag pal) px) := by
  have hl := packNib_length 32000 px (by omega)
  have hr := mgeRle_valid (mgePalette flag pal) (mgePalette_length flag pal hpal) (packNib px) enc henc
    (packNib_lt 32000 px (by omega) hlt) 32000 (by rw [hl]; decide)
  rw [mge_header pal title enc flag 0 c a hpal ht hz hcmp]
  simp [hr, render_eq_bytesOut (mgePalette flag pal) 32000 px (by omega) hlt]

/-- the premises are satisfiable: a two-pair stream is a valid encoding of three bytes -/
example : MgeRle [7, 7, 9] [2, 7, 1, 9, 0] :=
  .run 2 7 [9] [1, 9, 0] (by decide) (by decide) (.run 1 9 [] [0] (by decide) (by decide) .done)

end CocoVerif.Props.C17
