import CocoVerif.Props.Lemmas.Img

/-!
# C17 — compression is transparent: any valid encoding decodes to the original image

The valid encodings are the inductive relations of `Spec/Img.lean` (every constructor is one
legal encoder choice: run length, run splitting, literal versus repeat, escape use).
Proved: run-length MGE (`mge_rle_transparent`), squashed VEF 320x200x16 (`vef_squashed_transparent_16`,
through `unsq_groups` for one record and `vefRecords_rows` for the file), escape-coded RAT for the
images the decoder can show at all (`rat_transparent_partial`; the exclusion is the known finding,
with the kernel-checked witness `rat_low_nibble_witness`), and CM3 (`cm3Line_packed`: one line coded
with any mixture of left / up / literal bytes; `cm3_compressed_transparent`: whole files, raw and
coded lines mixed, the line buffer carried across lines and pages).
-/
namespace CocoVerif.Props.C17
open CocoVerif.Model.Img CocoVerif.Spec.Img CocoVerif.Props.Img

/-- MGE run-length: whatever splitting of runs the encoder chose (1..255 per pair, terminator 0),
the decoder yields the image — the same output as for the uncompressed form (`C16.mge_raw_roundtrip`). -/
theorem mge_rle_transparent (pal px title enc : List Nat) (flag c a : Nat)
    (hpal : pal.length = 16) (hpx : px.length = 64000) (hlt : ∀ p ∈ px, p < 16)
    (ht : title.length = 30) (hz : 0 ∈ title) (hcmp : flag ≠ 0 → ∀ p ∈ pal, p < 64)
    (henc : MgeRle (packNib px) enc) :
    mge ([0] ++ pal ++ [flag] ++ [0] ++ title ++ [c, a] ++ enc)
      = .ok (ppmHeader "P6" 320 200 ++ render (mgePalette flag pal) px) := by
  have hl := packNib_length 32000 px (by omega)
  have hr := mgeRle_valid (mgePalette flag pal) (mgePalette_length flag pal hpal) (packNib px) enc henc
    (packNib_lt 32000 px (by omega) hlt) 32000 (by rw [hl]; decide)
  rw [mge_header pal title enc flag 0 c a hpal ht hz hcmp]
  simp [hr, render_eq_bytesOut (mgePalette flag pal) 32000 px (by omega) hlt]

/-- the premises are satisfiable: a two-pair stream is a valid encoding of three bytes -/
example : MgeRle [7, 7, 9] [2, 7, 1, 9, 0] :=
  .run 2 7 [9] [1, 9, 0] (by decide) (by decide) (.run 1 9 [] [0] (by decide) (by decide) .done)

/-! ### squashed VEF -/


/-- one squashed record decodes to its row, whatever mixture of repeat and literal groups the
encoder chose -/
theorem unsq_groups (row enc : List Nat) (h : VefGroups row enc) : unsq enc enc.length = .ok row := by
  induction h with
  | done => rw [unsq.eq_def]; rfl
  | rep n v rest enc' h1 h2 _ ih =>
      rw [unsq.eq_def]
      simp only [List.length_cons]
      have : 128 + n > 128 := by omega
      simp only [this, if_true]
      have e : enc'.length + 1 - 1 = enc'.length := by omega
      simp only [e, ih, bind, Except.bind, pure, Except.pure]
      have : 128 + n - 128 = n := by omega
      rw [this]
  | lit bs rest enc' h1 h2 _ ih =>
      rw [unsq.eq_def]
      simp only [List.length_cons, List.length_append]
      have hnot : ¬ bs.length > 128 := by omega
      have hlen : ¬ (bs.length + enc'.length < bs.length) := by omega
      simp only [hnot, if_false, hlen]
      have e : bs.length + enc'.length - bs.length = enc'.length := by omega
      simp [e, ih, bind, Except.bind, pure, Except.pure]

/-- the records of a squashed file: each row's encoding preceded by its length -/
def encRecs : List (List Nat × List Nat) → List Nat
  | [] => []
  | (_, enc) :: rest => enc.length :: enc ++ encRecs rest

def RowsOK (origLen : Nat) (rows : List (List Nat × List Nat)) : Prop :=
  ∀ r ∈ rows, VefGroups r.1 r.2 ∧ r.1.length = origLen

theorem vefRecords_rows (origLen : Nat) (rows : List (List Nat × List Nat)) (h : RowsOK origLen rows) :
    ∀ pre : List Nat, vefRecords (pre ++ encRecs rows) origLen rows.length pre.length
      = .ok (rows.map (·.1)).flatten := by
  induction rows with
  | nil => intro pre; simp [vefRecords, pure, Except.pure]
  | cons r rest ih =>
      intro pre
      obtain ⟨row, enc⟩ := r
      have hr := h (row, enc) (by simp)
      have hrest : RowsOK origLen rest := fun x hx => h x (by simp [hx])
      have hget : (pre ++ encRecs ((row, enc) :: rest))[pre.length]? = some enc.length := by
        simp [encRecs]
      have hsl : ((pre ++ encRecs ((row, enc) :: rest)).drop (pre.length + 1)).take enc.length = enc := by
        have h1 : List.drop (pre.length + 1) (pre ++ (enc.length :: (enc ++ encRecs rest))) = enc ++ encRecs rest := by
          rw [List.drop_append]
          simp
        simp only [encRecs, List.cons_append]
        rw [h1]; simp
      have hdata : pre ++ encRecs ((row, enc) :: rest) = (pre ++ (enc.length :: enc)) ++ encRecs rest := by
        simp [encRecs]
      have hpos : pre.length + enc.length + 1 = (pre ++ (enc.length :: enc)).length := by simp; omega
      have hu := unsq_groups row enc hr.1
      simp only [List.length_cons, vefRecords, hget, hsl, hu, bind, Except.bind, pure, Except.pure]
      rw [hdata, hpos, ih hrest (pre ++ (enc.length :: enc))]
      simp only [List.map_cons, List.flatten_cons]
      have : List.take origLen row = row := by rw [← hr.2]; simp
      rw [this]

/-- **squashed VEF, 320x200x16**: 400 records, each any valid group encoding of one 80-byte row:
the decoder yields the same bitmap as for the uncompressed file (`C16.vef_raw_roundtrip_16`) -/
theorem vef_squashed_transparent_16 (pal px : List Nat) (rows : List (List Nat × List Nat))
    (hpal : pal.length = 16) (hpx : px.length = 64000) (hlt : ∀ p ∈ px, p < 16)
    (hn : rows.length = 400) (hrows : RowsOK 80 rows)
    (himg : (rows.map (·.1)).flatten = packNib px) :
    vef (128 :: 0 :: (pal ++ encRecs rows))
      = .ok { width := 320, height := 200, bitmap := px.map (fun p => pal.getD p 0) } := by
  have hb := vefBitmap8 pal hpal 32000 px (by omega) hlt
  have hrec := vefRecords_rows 80 rows hrows (128 :: 0 :: pal)
  have hl : (128 :: 0 :: pal).length = 18 := by simp [hpal]
  rw [hn, hl, himg] at hrec
  have htk : List.take 16 (pal ++ encRecs rows) = pal := by rw [← hpal]; simp
  have hd : (128 :: 0 :: pal) ++ encRecs rows = 128 :: 0 :: (pal ++ encRecs rows) := by simp
  rw [hd] at hrec
  simp [vef, htk, hrec, hb, bind, Except.bind, pure, Except.pure]

/-- non-vacuity: a row of 80 equal bytes as one repeat group, and as literal + repeat -/
example : VefGroups (List.replicate 80 5) [128 + 80, 5] := by
  have := VefGroups.rep 80 5 [] [] (by decide) (by decide) .done
  simpa using this


/-- **squashed VEF, the two 4-colour types** (640x200x4: 80-byte rows; 320x200x4: 40-byte rows) -/
theorem vef_squashed_transparent_4 (t : Nat) (pal px : List Nat) (rows : List (List Nat × List Nat))
    (ht : t = 1 ∨ t = 3) (hpal : pal.length = 16)
    (hpx : px.length = if t = 1 then 128000 else 64000) (hlt : ∀ p ∈ px, p < 4)
    (hn : rows.length = 400) (hrows : RowsOK (if t = 1 then 80 else 40) rows)
    (himg : (rows.map (·.1)).flatten = packQuad px) :
    vef (128 :: t :: (pal ++ encRecs rows))
      = .ok { width := if t = 1 then 640 else 320, height := 200, bitmap := px.map (fun p => pal.getD p 0) } := by
  have hl : (128 :: t :: pal).length = 18 := by simp [hpal]
  have htk : List.take 16 (pal ++ encRecs rows) = pal := by rw [← hpal]; simp
  have hd : (128 :: t :: pal) ++ encRecs rows = 128 :: t :: (pal ++ encRecs rows) := by simp
  rcases ht with rfl | rfl
  · have hb := vefBitmap4 pal hpal 7 (Or.inl rfl) 32000 px (by simp at hpx; omega) hlt
    have hrec := vefRecords_rows 80 rows (by simpa using hrows) (128 :: 1 :: pal)
    rw [hn, hl, himg, hd] at hrec
    simp [vef, htk, hrec, hb, bind, Except.bind, pure, Except.pure]
  · have hb := vefBitmap4 pal hpal 6 (Or.inr rfl) 16000 px (by simp at hpx; omega) hlt
    have hrec := vefRecords_rows 40 rows (by simpa using hrows) (128 :: 3 :: pal)
    rw [hn, hl, himg, hd] at hrec
    simp [vef, htk, hrec, hb, bind, Except.bind, pure, Except.pure]

/-! ### RAT escape coding -/


/-- the bytes RAT decodes correctly: right-hand pixel (low nibble) below 8 -/
def lowNibbleOK (b : Nat) : Prop := b < 256 ∧ b % 16 < 8

theorem ratDump_byteOut (pal : List Nat) (v : Nat) (hpal : pal.length = 16) (hv : lowNibbleOK v) :
    ratDump pal v = .ok (byteOut pal v) := by
  obtain ⟨h1, h2⟩ := hv
  have e : v % 8 = v % 16 := by omega
  simp [ratDump, byteOut, e, dumpPal_ok pal (v / 16) (by omega), dumpPal_ok pal (v % 16) (by omega),
    bind, Except.bind, pure, Except.pure]

theorem replicateApp_flatMap (pal : List Nat) (n v : Nat) :
    replicateApp n (byteOut pal v) = bytesOut pal (List.replicate n v) := by
  induction n with
  | zero => simp [replicateApp, bytesOut]
  | succ n ih =>
      simp only [replicateApp, bytesOut, List.replicate_succ, List.flatten_cons, List.flatMap_cons] at ih ⊢
      rw [ih]

theorem bytesOut_append (pal a b : List Nat) : bytesOut pal (a ++ b) = bytesOut pal a ++ bytesOut pal b := by
  simp [bytesOut]

/-- the escape decoder on any valid encoding: every literal / run choice gives the same bytes -/
theorem ratLoop_valid (esc : Nat) (pal : List Nat) (hpal : pal.length = 16) (bytes enc : List Nat)
    (h : RatEsc esc bytes enc) (hb : ∀ b ∈ bytes, lowNibbleOK b) :
    ratLoop esc pal enc (bytes.length : Int) = .ok (bytesOut pal bytes) := by
  induction h with
  | done => rw [ratLoop.eq_def]; simp [bytesOut]; rfl
  | lit v rest enc' hne _ ih =>
      have hv := hb v (by simp)
      have hrest : ∀ b ∈ rest, lowNibbleOK b := fun b hb' => hb b (by simp [hb'])
      rw [ratLoop.eq_def]
      have hpos : ¬ ((↑(v :: rest).length : Int) ≤ 0) := by simp only [List.length_cons]; omega
      simp only [hpos, if_false, hne, ne_eq, not_false_eq_true, if_true, ratDump_byteOut pal v hpal hv]
      have e : (↑(v :: rest).length : Int) - 1 = ↑rest.length := by simp
      simp [e, ih hrest, bind, Except.bind, pure, Except.pure, bytesOut]
  | run n v rest enc' h1 h2 _ ih =>
      have hv : lowNibbleOK v := hb v (by
        have : 0 < n := h1
        simp [List.mem_append, List.mem_replicate]; omega)
      have hrest : ∀ b ∈ rest, lowNibbleOK b := fun b hb' => hb b (by simp [hb'])
      rw [ratLoop.eq_def]
      have hpos : ¬ ((↑(List.replicate n v ++ rest).length : Int) ≤ 0) := by
        simp only [List.length_append, List.length_replicate]; omega
      have hn0 : n ≠ 0 := by omega
      simp only [hpos, if_false, ne_eq, not_true_eq_false, hn0, ratDump_byteOut pal v hpal hv]
      have e : ((↑n : Int) + ↑rest.length - ↑n) = ↑rest.length := by omega
      simp [e, ih hrest, bind, Except.bind, pure, Except.pure, replicateApp_flatMap, bytesOut_append]

/-- **RAT, partial**: for every image whose right-hand pixels are below 8 and every valid escape
coding of it, the decoder yields the image.  The restriction is the known finding
`rat-low-nibble-bit3` (`dump(c & 7)`). -/
theorem rat_transparent_partial (esc packed border : Nat) (pal px enc : List Nat) (hpk : packed ≠ 0)
    (hpal : pal.length = 16) (hpx : px.length = 63680) (hlt : ∀ p ∈ px, p < 16)
    (hlow : ∀ b ∈ packNib px, lowNibbleOK b) (henc : RatEsc esc (packNib px) enc) :
    rat (esc :: packed :: border :: (pal ++ enc))
      = .ok (ppmHeader "P6" 320 199 ++ render pal px) := by
  have hl := packNib_length 31840 px (by omega)
  have hv := ratLoop_valid esc pal hpal (packNib px) enc henc hlow
  rw [hl] at hv
  have htk : List.take 16 (pal ++ enc) = pal := by rw [← hpal]; simp
  have hdr : List.drop 16 (pal ++ enc) = enc := by rw [← hpal]; simp
  simp only [rat, read1, List.drop, bind, Except.bind, pure, Except.pure, hpk, if_false, htk, hdr]
  have : (199 * 160 : Int) = ((31840 : Nat) : Int) := by decide
  rw [this, hv]
  simp [render_eq_bytesOut pal 31840 px (by omega) hlt]

/-- the excluded case, kernel-checked: a byte with right-hand pixel 9 is written as pixel 1 -/
theorem rat_low_nibble_witness :
    ratDump (List.range 16) 0x19 = .ok (colour 1 ++ colour 1) ∧ byteOut (List.range 16) 0x19 = colour 1 ++ colour 9 := by
  constructor <;> rfl


/-! ### CM3 compressed lines -/

/-- how the encoder codes one byte of a line: copy of the byte to its left (the buffer wraps: for the
first byte that is the last byte of the previous line), copy of the byte above, or a literal -/
inductive Choice | left | up | lit
  deriving DecidableEq

/-- the line buffer while byte `x` is decoded: the new line up to `x`, the line above from `x` on -/
def curBuf (row lin : List Nat) (x : Nat) : List Nat := row.take x ++ lin.drop x

def notLeft (ch : Nat → Choice) (i : Nat) : Bool := ch i != Choice.left

/-- number of bytes before `x` that are not coded as `left` (each takes one bit of the second mask) -/
def rank (ch : Nat → Choice) (x : Nat) : Nat := ((List.range x).filter (notLeft ch)).length

/-- the literal bytes of the line from byte `x` on, in stream order -/
def litsFrom (ch : Nat → Choice) (row : List Nat) (x : Nat) : Nat → List Nat
  | 0 => []
  | k + 1 => (if ch x = Choice.lit then [row.getD x 0] else []) ++ litsFrom ch row (x + 1) k

/-- a valid coding of `row` over the previous line `lin`: every `left` / `up` choice is a true copy,
the first mask has bit `x` clear exactly for `left`, the second mask has one bit per other byte,
clear exactly for `up` -/
structure ValidLine (ch : Nat → Choice) (row lin b1 b2 : List Nat) : Prop where
  rowLen : row.length = 160
  linLen : lin.length = 160
  bytes : ∀ v ∈ row, v < 256
  copyLeft : ∀ x, x < 160 → ch x = Choice.left → row.getD x 0 = (curBuf row lin x).getD ((x + 159) % 160) 0
  copyUp : ∀ x, x < 160 → ch x = Choice.up → row.getD x 0 = lin.getD x 0
  mask1 : ∀ x, x < 160 → bufBit b1 x = some (if ch x = Choice.left then 0 else 1)
  mask2 : ∀ x, x < 160 → ch x ≠ Choice.left → bufBit b2 (rank ch x) = some (if ch x = Choice.up then 0 else 1)

theorem rank_succ (ch : Nat → Choice) (x : Nat) :
    rank ch (x + 1) = rank ch x + (if ch x = Choice.left then 0 else 1) := by
  simp only [rank, List.range_succ, List.filter_append, List.length_append]
  by_cases h : ch x = Choice.left
  · simp [List.filter, notLeft, h]
  · have hb : (ch x == Choice.left) = false := by simpa using h
    simp [List.filter, notLeft, h, bne, hb]

theorem curBuf_step (row lin : List Nat) (x : Nat) (hr : row.length = 160) (hl : lin.length = 160) (hx : x < 160) :
    (curBuf row lin x).set x (row.getD x 0) = curBuf row lin (x + 1) := by
  apply List.ext_getElem?
  intro i
  simp only [curBuf, List.getElem?_set, List.length_append, List.length_take, List.length_drop]
  by_cases hi : x = i
  · subst hi
    have h1 : x < min x row.length + (lin.length - x) := by omega
    simp only [if_true, h1]
    rw [List.getElem?_append_left (by simp; omega), List.getElem?_take]
    simp [List.getD_eq_getElem?_getD, List.getElem?_eq_getElem (by omega : x < row.length)]
  · simp only [hi, if_false]
    by_cases hlt : i < x
    · rw [List.getElem?_append_left (by simp; omega), List.getElem?_append_left (by simp; omega)]
      simp [List.getElem?_take, hlt, (by omega : i < x + 1)]
    · have hgt : x < i := by omega
      rw [List.getElem?_append_right (by simp; omega), List.getElem?_append_right (by simp; omega)]
      simp only [List.length_take, List.getElem?_drop]
      have e1 : min x row.length = x := by omega
      have e2 : min (x + 1) row.length = x + 1 := by omega
      rw [e1, e2]
      congr 1
      omega

/-- the decoder on bytes `x .. 159` of a validly coded line -/
theorem cm3Packed_valid (pal : List Nat) (hpal : pal.length = 16) (ch : Nat → Choice) (row lin b1 b2 : List Nat)
    (hv : ValidLine ch row lin b1 b2) :
    ∀ (k x : Nat) (rest : List Nat), x + k = 160 →
      cm3Packed pal b1 b2 k x (rank ch x) (curBuf row lin x) (litsFrom ch row x k ++ rest)
        = .ok (bytesOut pal (row.drop x), row, rest)
  | 0, x, rest, hk => by
      have hx : x = 160 := by omega
      subst hx
      have h1 : curBuf row lin 160 = row := by
        unfold curBuf
        rw [List.take_of_length_le (by rw [hv.rowLen]; exact Nat.le_refl _),
            List.drop_of_length_le (by rw [hv.linLen]; exact Nat.le_refl _), List.append_nil]
      have h2 : row.drop 160 = [] := List.drop_of_length_le (by rw [hv.rowLen]; exact Nat.le_refl _)
      simp [cm3Packed, litsFrom, h1, h2, bytesOut, pure, Except.pure]
  | k + 1, x, rest, hk => by
      have hx : x < 160 := by omega
      have hrx : x < row.length := by rw [hv.rowLen]; exact hx
      have hbyte : row.getD x 0 < 256 := by
        rw [List.getD_eq_getElem?_getD, List.getElem?_eq_getElem hrx]
        exact hv.bytes _ (List.getElem_mem hrx)
      have hdump := dumpByte_byteOut pal (row.getD x 0) hpal hbyte
      have ih := cm3Packed_valid pal hpal ch row lin b1 b2 hv k (x + 1) rest (by omega)
      have hdrop : row.drop x = row.getD x 0 :: row.drop (x + 1) := by
        rw [List.getD_eq_getElem?_getD, List.getElem?_eq_getElem hrx, List.drop_eq_getElem_cons hrx]
        rfl
      have hstep := curBuf_step row lin x hv.rowLen hv.linLen hx
      have hm1 := hv.mask1 x hx
      rw [hdrop]
      simp only [bytesOut, List.flatMap_cons]
      rcases hc : ch x with _ | _ | _
      · -- left
        have hcopy := hv.copyLeft x hx hc
        simp only [cm3Packed, hm1, hc, if_true, litsFrom, rank_succ, Nat.add_zero] at ih ⊢
        simp only [reduceCtorEq, if_false, List.nil_append] at ih ⊢
        simp only [bind, Except.bind, pure, Except.pure, ← hcopy, hdump, hstep, ih, bytesOut, ↓reduceIte, Nat.one_ne_zero]
      · -- up
        have hcopy := hv.copyUp x hx hc
        have hm2 := hv.mask2 x hx (by rw [hc]; decide)
        have hcur : (curBuf row lin x).getD x 0 = lin.getD x 0 := by
          simp only [curBuf, List.getD_eq_getElem?_getD]
          rw [List.getElem?_append_right (by simp; omega)]
          simp [hv.rowLen, (by omega : min x 160 = x)]
        simp only [cm3Packed, hm1, hm2, hc, litsFrom, rank_succ] at ih ⊢
        simp only [reduceCtorEq, if_false, if_true, List.nil_append, Nat.one_ne_zero] at ih ⊢
        simp only [bind, Except.bind, pure, Except.pure, hcur, ← hcopy, hdump, hstep, ih, bytesOut, ↓reduceIte, Nat.one_ne_zero]
      · -- literal
        have hm2 := hv.mask2 x hx (by rw [hc]; decide)
        simp only [cm3Packed, hm1, hm2, hc, litsFrom, rank_succ] at ih ⊢
        simp only [reduceCtorEq, if_false, if_true, Nat.one_ne_zero, List.cons_append, List.nil_append, read1] at ih ⊢
        simp only [bind, Except.bind, pure, Except.pure, hdump, hstep, ih, bytesOut, ↓reduceIte, Nat.one_ne_zero]

/-- **one compressed CM3 line**: control byte `contr < 128`, the 20-byte first mask, `contr` bytes of
second mask, then the literals: whatever mixture of left / up / literal the encoder chose, the decoder
yields the line's pixels and leaves the line as the new line buffer -/
theorem cm3Line_packed (pal : List Nat) (hpal : pal.length = 16) (ch : Nat → Choice) (row lin b1 b2 rest : List Nat)
    (hv : ValidLine ch row lin b1 b2) (h1 : b1.length = 20) (h2 : b2.length < 128) :
    cm3Line pal lin (b2.length :: (b1 ++ b2 ++ litsFrom ch row 0 160 ++ rest))
      = .ok (bytesOut pal row, row, rest) := by
  have hr1 : readN 20 (b1 ++ (b2 ++ (litsFrom ch row 0 160 ++ rest))) = .ok (b1, b2 ++ (litsFrom ch row 0 160 ++ rest)) := by
    rw [← h1]; exact readN_append b1 _
  have hr2 : readN b2.length (b2 ++ (litsFrom ch row 0 160 ++ rest)) = .ok (b2, litsFrom ch row 0 160 ++ rest) :=
    readN_append b2 _
  have hp := cm3Packed_valid pal hpal ch row lin b1 b2 hv 160 0 rest (by omega)
  have hc0 : curBuf row lin 0 = lin := by simp [curBuf]
  have hr0 : rank ch 0 = 0 := by simp [rank]
  rw [hc0, hr0] at hp
  simp only [List.drop_zero] at hp
  simp only [cm3Line, read1, h2, if_true, List.append_assoc, hr1, hr2, bind, Except.bind, pure, Except.pure, hp]


/-! ### whole files: raw and compressed lines mixed, the line buffer carried across lines and pages -/

inductive CLine
  | raw (ctl : Nat) (px : List Nat)                                   -- control byte ≥ 128, 320 pixels
  | packed (ch : Nat → Choice) (row b1 b2 : List Nat)                 -- the 160 bytes of the line and its masks

/-- the 160 bytes a line stands for -/
def CLine.bytes : CLine → List Nat
  | .raw _ px => packNib px
  | .packed _ row _ _ => row

def CLine.enc : CLine → List Nat
  | .raw ctl px => ctl :: packNib px
  | .packed ch row b1 b2 => b2.length :: (b1 ++ b2 ++ litsFrom ch row 0 160)

def CLine.ok (lin : List Nat) : CLine → Prop
  | .raw ctl px => 128 ≤ ctl ∧ RowOK px
  | .packed ch row b1 b2 => ValidLine ch row lin b1 b2 ∧ b1.length = 20 ∧ b2.length < 128

def linesOK : List Nat → List CLine → Prop
  | _, [] => True
  | lin, l :: ls => l.ok lin ∧ linesOK l.bytes ls

def lastBuf : List Nat → List CLine → List Nat
  | lin, [] => lin
  | _, l :: ls => lastBuf l.bytes ls

def encLines (ls : List CLine) : List Nat := ls.flatMap CLine.enc
def linesBytes (ls : List CLine) : List Nat := ls.flatMap CLine.bytes

theorem cm3Line_any (pal : List Nat) (hpal : pal.length = 16) (lin rest : List Nat) (l : CLine) (h : l.ok lin) :
    cm3Line pal lin (l.enc ++ rest) = .ok (bytesOut pal l.bytes, l.bytes, rest) := by
  cases l with
  | raw ctl px =>
      have := cm3Line_raw pal lin px rest ctl hpal h.1 h.2
      simp only [CLine.enc, CLine.bytes, List.cons_append]
      rw [this, render_eq_bytesOut pal 160 px (by rw [h.2.1]) h.2.2]
  | packed ch row b1 b2 =>
      have := cm3Line_packed pal hpal ch row lin b1 b2 rest h.1 h.2.1 h.2.2
      simpa [CLine.enc, CLine.bytes, List.append_assoc] using this

theorem cm3Lines_valid (pal : List Nat) (hpal : pal.length = 16) :
    ∀ (ls : List CLine) (lin rest : List Nat), linesOK lin ls →
      cm3Lines pal ls.length lin (encLines ls ++ rest) = .ok (bytesOut pal (linesBytes ls), lastBuf lin ls, rest)
  | [], lin, rest, _ => by simp [cm3Lines, encLines, linesBytes, lastBuf, bytesOut, pure, Except.pure]
  | l :: ls, lin, rest, h => by
      have h1 := cm3Line_any pal hpal lin (encLines ls ++ rest) l h.1
      have ih := cm3Lines_valid pal hpal ls l.bytes rest h.2
      simp only [encLines, List.flatMap_cons, List.append_assoc] at h1 ih ⊢
      simp only [List.length_cons, cm3Lines, h1, ih, bind, Except.bind, pure, Except.pure, linesBytes, lastBuf,
        List.flatMap_cons, bytesOut, List.flatMap_append]

def pagesOK : List Nat → List (List CLine) → Prop
  | _, [] => True
  | lin, p :: ps => linesOK lin p ∧ pagesOK (lastBuf lin p) ps

def encPages : List (List CLine) → List Nat
  | [] => []
  | p :: ps => p.length :: (encLines p ++ encPages ps)

def pagesBytes (ps : List (List CLine)) : List Nat := ps.flatMap linesBytes

theorem cm3Pages_valid (pal : List Nat) (hpal : pal.length = 16) :
    ∀ (ps : List (List CLine)) (lin : List Nat), pagesOK lin ps →
      cm3Pages pal ps.length lin (encPages ps) = .ok (bytesOut pal (pagesBytes ps))
  | [], lin, _ => by simp [cm3Pages, pagesBytes, bytesOut, pure, Except.pure]
  | p :: ps, lin, h => by
      have h1 := cm3Lines_valid pal hpal p lin (encPages ps) h.1
      have ih := cm3Pages_valid pal hpal ps (lastBuf lin p) h.2
      simp only [encPages, List.length_cons, cm3Pages, read1, h1, ih, bind, Except.bind, pure, Except.pure,
        pagesBytes, List.flatMap_cons, bytesOut, List.flatMap_append]

/-- **CM3, any valid coding**: one or two pages, with or without pattern block, every line raw or
coded against the byte to its left and the line above (the first line of a page against the last
line of the page before), in any mixture: the decoder writes the pixels of the lines' bytes - the
output of the raw form of the same picture (`C16.cm3_raw_roundtrip`). -/
theorem cm3_compressed_transparent (typ : Nat) (pal anim pat : List Nat) (pages : List (List CLine))
    (hpal : pal.length = 16) (hanim : anim.length = 12)
    (hpat : pat.length = if getbit typ 0 ≠ 0 then 0 else 243)
    (hpages : pages.length = getbit typ 7 + 1)
    (hok : pagesOK (List.replicate 160 0) pages) :
    cm3 (typ :: (pal ++ (anim ++ (pat ++ encPages pages))))
      = .ok (ppmHeader "P6" 320 (pages.length * 192) ++ bytesOut pal (pagesBytes pages)) := by
  have h16 := readN_append pal (anim ++ (pat ++ encPages pages))
  rw [hpal] at h16
  have h12 := readN_append anim (pat ++ encPages pages)
  rw [hanim] at h12
  have hpg := cm3Pages_valid pal hpal pages (List.replicate 160 0) hok
  rw [hpages] at hpg
  have hdrop : (if getbit typ 0 ≠ 0 then pat ++ encPages pages
      else List.drop 243 (pat ++ encPages pages)) = encPages pages := by
    split
    · next h => simp [h] at hpat; simp [hpat]
    · next h => simp [h] at hpat; rw [← hpat]; simp
  simp only [cm3, read1, h16, h12, bind, Except.bind, pure, Except.pure, hdrop, hpg, hpages]


/-- the premises are satisfiable: coding every byte as a literal is valid for every line (both masks
all ones); `left` and `up` are valid wherever the copied byte happens to be equal -/
theorem all_literals_valid (row lin : List Nat) (hr : row.length = 160) (hl : lin.length = 160) (hb : ∀ v ∈ row, v < 256) :
    ValidLine (fun _ => Choice.lit) row lin (List.replicate 20 255) (List.replicate 20 255) := by
  have hrank : ∀ x, rank (fun _ => Choice.lit) x = x := by
    intro x
    induction x with
    | zero => rfl
    | succ n ih => rw [rank_succ, ih]; simp
  have hbit : ∀ x, x < 160 → bufBit (List.replicate 20 255) x = some 1 := by
    intro x hx
    have h8 : x / 8 < 20 := by omega
    have hm : 7 - x % 8 = 0 ∨ 7 - x % 8 = 1 ∨ 7 - x % 8 = 2 ∨ 7 - x % 8 = 3 ∨ 7 - x % 8 = 4 ∨ 7 - x % 8 = 5
        ∨ 7 - x % 8 = 6 ∨ 7 - x % 8 = 7 := by omega
    simp only [bufBit, List.getElem?_replicate, h8, if_true, Option.map_some]
    rcases hm with h | h | h | h | h | h | h | h <;> rw [h] <;> rfl
  exact { rowLen := hr, linLen := hl, bytes := hb
          copyLeft := fun _ _ h => by cases h
          copyUp := fun _ _ h => by cases h
          mask1 := fun x hx => by simpa using hbit x hx
          mask2 := fun x hx _ => by rw [hrank]; simpa using hbit x hx }

end CocoVerif.Props.C17
