import CocoVerif.Model.Front
import CocoVerif.Props.C01

/-!
# C01, front-end half: the tool's grouping of an operator chain never reaches the output

For a chain `e₀ op₁ e₁ op₂ e₂ …` at one precedence level the visitor builds, through
`BasicBinaryExp.from_exp_op_and_fragments`, an object nested to the **right**
(`e₀ op₁ (e₁ op₂ (e₂ …))`) — not the left-associative tree Color BASIC means.  `emit_chain_flat`
shows why this does no harm: emission writes any such object as the flat sequence
`e₀ op₁ e₁ op₂ e₂ …`, for every chain and every operand, so the grouping the output *has* is the
one the reader's precedence ladder gives it (`C01.b09_reads_flat_chain`), which for the binary
operators is Color BASIC's.  (Numeric AND / OR are excluded: they are written as `LAND(…)`/`LOR(…)`
calls whose parentheses do carry the tool's grouping.)
-/
namespace CocoVerif.Props.C01Front
open CocoVerif.Model CocoVerif.Model.Front

abbrev Frag := String × Expr

def fragVal (f : Frag) : Val := .frag (.e (.op f.1)) (.e f.2)
def partVal (f : Frag) : String × Val := (f.1, .e f.2)

theorem parts_of_frags (fs : List Frag) :
    (fs.map fragVal).mapM fragPart = .ok (fs.map partVal) := by
  induction fs with
  | nil => rfl
  | cons f fs ih => simp only [List.map_cons, List.mapM_cons, ih]; rfl

/-- the object the loop builds: nested to the right -/
def rnest : Frag → List Frag → Frag
  | f, [] => f
  | f, g :: rest => (f.1, .bin false f.2 (rnest g rest).1 (rnest g rest).2)

theorem nestStep_partVal (c p : Frag) :
    nestStep (partVal c) (partVal p) = partVal (p.1, .bin false p.2 c.1 c.2) := rfl

/-- the loop over the reversed fragment list computes `rnest` -/
theorem loop_is_rnest (f : Frag) (rest : List Frag) :
    ∃ last before, ((f :: rest).map partVal).reverse = last :: before
      ∧ before.foldl nestStep last = partVal (rnest f rest) := by
  induction rest generalizing f with
  | nil => exact ⟨partVal f, [], rfl, rfl⟩
  | cons g rest ih =>
      obtain ⟨last, before, hrev, hfold⟩ := ih g
      refine ⟨last, before ++ [partVal f], ?_, ?_⟩
      · simp only [List.map_cons, List.reverse_cons] at hrev ⊢
        rw [hrev]; rfl
      · rw [List.foldl_append, hfold]
        simp only [List.foldl_cons, List.foldl_nil, rnest]
        exact nestStep_partVal (rnest g rest) f

/-- **what `from_exp_op_and_fragments` returns**, for every first operand and every non-empty list
of fragments -/
theorem from_fragments_value (exp : Expr) (f : Frag) (rest : List Frag) :
    fromFragments (.e exp) ((f :: rest).map fragVal) =
      .ok (.e (.bin false exp (rnest f rest).1 (rnest f rest).2)) := by
  obtain ⟨last, before, hrev, hfold⟩ := loop_is_rnest f rest
  simp only [fromFragments, parts_of_frags, bind, Except.bind, hrev, hfold]
  rfl

/-- the flat text of a chain: the first operand, then ` op operand` for every fragment -/
def flatTail (i : Int) : List Frag → String
  | [] => ""
  | f :: rest => " " ++ f.1 ++ " " ++ Emit.expr i f.2 ++ flatTail i rest

def plainOps (fs : List Frag) : Prop := ∀ f ∈ fs, f.1 ≠ "AND" ∧ f.1 ≠ "OR"

theorem emit_rnest (i : Int) (f : Frag) (rest : List Frag) (h : plainOps (f :: rest)) :
    " " ++ (rnest f rest).1 ++ " " ++ Emit.expr i (rnest f rest).2 = flatTail i (f :: rest) := by
  induction rest generalizing f with
  | nil => simp [rnest, flatTail]
  | cons g rest ih =>
      have hg : plainOps (g :: rest) := fun x hx => h x (by simp [List.mem_cons] at hx ⊢; right; exact hx)
      have hgop := (hg (rnest g rest) |> fun _ => (h g (by simp)))
      have hn : (rnest g rest).1 = g.1 := by cases rest <;> rfl
      have key := ih g hg
      simp only [rnest, flatTail]
      have hop : ¬ ((rnest g rest).1 = "AND" ∨ (rnest g rest).1 = "OR") := by
        rw [hn]; exact fun hh => hh.elim hgop.1 hgop.2
      have : Emit.expr i (.bin false f.2 (rnest g rest).1 (rnest g rest).2) =
          Emit.expr i f.2 ++ " " ++ (rnest g rest).1 ++ " " ++ Emit.expr i (rnest g rest).2 := by
        have h1 : (rnest g rest).1 ≠ "AND" := fun hh => hop (Or.inl hh)
        have h2 : (rnest g rest).1 ≠ "OR" := fun hh => hop (Or.inr hh)
        simp [Emit.expr, h1, h2]
      rw [this]
      simp only [flatTail] at key
      simp only [String.append_assoc] at key ⊢
      rw [key]

/-- **the chain is emitted flat**: whatever object the visitor built for `e₀ op₁ e₁ … op_n e_n`
(no numeric AND/OR), its text is the operands and operators in source order with nothing added -/
theorem emit_chain_flat (i : Int) (exp : Expr) (f : Frag) (rest : List Frag) (h : plainOps (f :: rest)) :
    ∃ e, fromFragments (.e exp) ((f :: rest).map fragVal) = .ok (.e e)
      ∧ Emit.expr i e = Emit.expr i exp ++ flatTail i (f :: rest) := by
  refine ⟨_, from_fragments_value exp f rest, ?_⟩
  have hn : (rnest f rest).1 = f.1 := by cases rest <;> rfl
  have hf := h f (by simp)
  have h1 : (rnest f rest).1 ≠ "AND" := by rw [hn]; exact hf.1
  have h2 : (rnest f rest).1 ≠ "OR" := by rw [hn]; exact hf.2
  have := emit_rnest i f rest h
  simp only [Emit.expr, String.append_assoc] at this ⊢
  simp [h1, h2, this]

-- A - B - C : built as A - (B - C), written as `A - B - C`
example : (rnest ("-", .var "B" false) [("-", .var "C" false)]) = ("-", .bin false (.var "B" false) "-" (.var "C" false)) := rfl
example : Emit.expr 0 (.bin false (.var "A" false) "-" (.bin false (.var "B" false) "-" (.var "C" false))) = "A - B - C" := by
  decide

end CocoVerif.Props.C01Front
