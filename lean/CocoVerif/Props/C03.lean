import CocoVerif.Model.Compile

/-!
# C03 — arrays, DATA/READ, PRINT, INPUT keep their meaning

Theorems about the post-parse stages of the model that carry this property:

* `print_acts` — the PRINT list the emitter writes performs, item for item and separator for
  separator, the actions of the source list (juxtaposed items separated like `;`); the only
  additions are empty-string literals, which print nothing.  `print_wellformed`: BASIC09 needs a
  value in front of every separator and a separator between two values — the emitted list has both.
* `print_routed_iff` — which PRINT items are sent through the number formatter `ecb_str`; the
  shapes that are not (`print_bin_not_routed`, `print_signed_not_routed`) are the known finding.
* `read_patch_spec` — with an empty DATA item in the program: every numeric READ target is read
  through its own string temporary `tmp_k$` (k = 1, 2, … in target order) and receives
  `ecb_read_filter(tmp_k$, target)` after the READ, in the same order; string targets stay.
* `data_all_strings` — and every non-hex DATA item becomes a string literal carrying the item's text.
* `input_wrapped` — INPUT keeps its prompt and targets and is bracketed by the cursor calls.
* `fill_loops` — the fill loops of a pre-initialised array run `0 .. m-1` over every dimension, in
  order, around one assignment indexed by all loop variables.

The front end (grammar + visitor, where `DIM A(n)` becomes `n+1` and the INPUT prompt gets its
`? `) is not in the model; those steps, the runtime meaning of the emitted text and the string
functions are judged on real output by the two reference machines of the `sem` suite.
-/
namespace CocoVerif.Props.C03
open CocoVerif.Model CocoVerif.Model.Emit CocoVerif.Model.Passes

/-! ### PRINT -/

/-- what a PRINT list does, one action per element -/
inductive Act
  | val (text : String)
  | sep (s : String)
  deriving DecidableEq, Repr

/-- the empty string literal -/
def emptyLit : String := "\"\""

/-- Color BASIC's reading of the source list: items and separators in order, two items that
stand next to each other are separated like `;` -/
def srcActs : List (Bool × String) → Option Bool → List Act
  | [], _ => []
  | (isC, t) :: rest, prev =>
      (if !isC && prev == some false then [Act.sep ";"] else [])
        ++ [if isC then Act.sep t else Act.val t] ++ srcActs rest (some isC)

/-- the pieces `printArgs.go` writes, tagged by what they are -/
inductive Piece
  | pad                       -- `""` in front of a leading or doubled separator
  | jux                       -- `; ` between two juxtaposed items
  | item (isC : Bool) (t : String)
  | blank                     -- the blank after a separator that is not last

def Piece.text : Piece → String
  | .pad => emptyLit
  | .jux => "; "
  | .item _ t => t
  | .blank => " "

def Piece.acts : Piece → List Act
  | .pad => [.val emptyLit]
  | .jux => [.sep ";"]
  | .item true t => [.sep t]
  | .item false t => [.val t]
  | .blank => []

def goT : List (Bool × String) → Option Bool → List Piece
  | [], _ => []
  | (isC, t) :: rest, prev =>
      (if isC && (prev.isNone || prev == some true) then [Piece.pad] else [])
        ++ (if !isC && prev == some false then [Piece.jux] else [])
        ++ [Piece.item isC t]
        ++ (if !rest.isEmpty && isC then [Piece.blank] else [])
        ++ goT rest (some isC)

/-- the tagged pieces are exactly what the emitter writes -/
theorem go_eq_goT (texts : List (Bool × String)) (prev : Option Bool) :
    printArgs.go texts prev = (goT texts prev).map Piece.text := by
  induction texts generalizing prev with
  | nil => simp [printArgs.go, goT]
  | cons x rest ih =>
      obtain ⟨isC, t⟩ := x
      simp only [printArgs.go, goT, ih]
      cases isC <;> cases prev with
      | none => cases rest <;> simp [Piece.text, emptyLit]
      | some p => cases p <;> cases rest <;> simp [Piece.text, emptyLit]

def dropEmpty (l : List Act) : List Act := l.filter (fun a => a != Act.val emptyLit)

theorem dropEmpty_append (a b : List Act) : dropEmpty (a ++ b) = dropEmpty a ++ dropEmpty b := by
  simp [dropEmpty]

/-- **PRINT performs the source's actions**: up to empty-string literals (which print nothing) the
emitted list is the source list with `;` between juxtaposed items -/
theorem print_acts (texts : List (Bool × String)) (prev : Option Bool) :
    dropEmpty ((goT texts prev).flatMap Piece.acts) = dropEmpty (srcActs texts prev) := by
  induction texts generalizing prev with
  | nil => simp [goT, srcActs]
  | cons x rest ih =>
      obtain ⟨isC, t⟩ := x
      simp only [goT, srcActs, List.flatMap_append, dropEmpty_append, ih]
      cases isC <;> cases prev with
      | none => cases rest <;> simp [Piece.acts, dropEmpty, emptyLit]
      | some p => cases p <;> cases rest <;> simp [Piece.acts, dropEmpty, emptyLit]

/-- a list BASIC09 accepts: it starts with a value and never has two values or two separators
side by side, except that a separator may end the list -/
def wellFormed : List Act → Option Bool → Bool
  | [], _ => true
  | .val _ :: rest, prev => (prev != some false) && wellFormed rest (some false)
  | .sep _ :: rest, prev => (prev == some false) && wellFormed rest (some true)

theorem print_wellformed_aux (texts : List (Bool × String)) (prev : Option Bool) :
    wellFormed ((goT texts prev).flatMap Piece.acts) prev = true := by
  induction texts generalizing prev with
  | nil => simp [goT, wellFormed]
  | cons x rest ih =>
      obtain ⟨isC, t⟩ := x
      have h := ih (some isC)
      cases isC <;> cases prev with
      | none => cases rest <;> simp_all [goT, Piece.acts, wellFormed]
      | some p => cases p <;> cases rest <;> simp_all [goT, Piece.acts, wellFormed]

/-- **the emitted PRINT list is well formed** whatever the source arrangement of `;` `,` and
juxtaposition -/
theorem print_wellformed (texts : List (Bool × String)) :
    wellFormed ((goT texts none).flatMap Piece.acts) none = true :=
  print_wellformed_aux texts none

-- non-vacuity: `PRINT ;A$ "X",,B` has a leading separator, a juxtaposition and a doubled separator
example : (goT [(true, ";"), (false, "A$"), (false, "\"X\""), (true, ","), (true, ","), (false, "B")] none).map Piece.text
    = ["\"\"", ";", " ", "A$", "; ", "\"X\"", ",", " ", "\"\"", ",", " ", "B"] := by decide

/-! ### which PRINT items go through the number formatter -/

def routed (a : Expr) : Bool := isAbstractExpression a && !isStrFlag a

/-- the PRINT patcher sends an item through `ecb_str` iff it is an expression object whose
string flag is off -/
theorem print_routed_iff (args pre : List Expr) :
    printPatch (.stmts false [.print args pre] []) =
      .stmts false [.print (args.map (fun a =>
        if routed a then .fexp false "run ecb_str" (.mk true [a]) true none else a)) []] [] := by
  simp only [printPatch, routed, List.map_cons, List.map_nil]
  congr 2
  simp only [Stmt.print.injEq, and_true]
  apply List.map_congr_left
  intro a _
  by_cases h1 : isAbstractExpression a = true <;> by_cases h2 : isStrFlag a = true <;> simp [h1, h2]

/-- numeric variables, literals, array elements and built-in calls are formatted -/
theorem print_plain_numeric_routed (n : String) (l : Lit) (v : Expr) (idx args : EList) (f : String) :
    routed (.var n false) = true ∧ routed (.lit l false) = true ∧ routed (.arr v idx false) = true
      ∧ routed (.call f args false) = true := by
  simp [routed, isAbstractExpression, isStrFlag]

/-- the known finding: an operator expression always claims to be a string, a signed item is not
an expression object for the patcher — neither is formatted -/
theorem print_bin_not_routed (b : Bool) (l r : Expr) (op : String) : routed (.bin b l op r) = false := by
  simp [routed, isStrFlag]

theorem print_signed_not_routed (b : Bool) (op : String) (e : Expr) : routed (.un b op e) = false := by
  simp [routed, isAbstractExpression]

/-! ### READ through temporaries when the program has an empty DATA item -/

def tmpStr (k : Nat) : Expr := .var ("tmp_" ++ toString k ++ "$") true

def filterCall (k : Nat) (target : Expr) : Stmt :=
  .run "run" "RUN ecb_read_filter" (.mk true [tmpStr k, target]) []

/-- the specification: walk the targets, `k` temporaries are already in use -/
def readSpec : List Expr → Nat → List Expr × List Stmt
  | [], _ => ([], [])
  | r :: rs, k =>
      if isStrFlag r then
        let (ts, fs) := readSpec rs k
        (r :: ts, fs)
      else
        let (ts, fs) := readSpec rs (k + 1)
        (tmpStr (k + 1) :: ts, filterCall (k + 1) r :: fs)

def readStep (acc : List Expr × List Stmt × Nat) (r : Expr) : List Expr × List Stmt × Nat :=
  if isStrFlag r then (acc.1 ++ [r], acc.2.1, acc.2.2)
  else (acc.1 ++ [tmpStr (acc.2.2 + 1)], acc.2.1 ++ [filterCall (acc.2.2 + 1) r], acc.2.2 + 1)

theorem readFold_spec (rhs : List Expr) (ts : List Expr) (fs : List Stmt) (k : Nat) :
    let res := rhs.foldl readStep (ts, fs, k)
    res.1 = ts ++ (readSpec rhs k).1 ∧ res.2.1 = fs ++ (readSpec rhs k).2 := by
  induction rhs generalizing ts fs k with
  | nil => simp [readSpec]
  | cons r rs ih =>
      simp only [List.foldl_cons]
      by_cases h : isStrFlag r = true
      · have := ih (ts ++ [r]) fs k
        simp only [readStep, h, if_true, readSpec] at this ⊢
        simpa [List.append_assoc] using this
      · have := ih (ts ++ [tmpStr (k + 1)]) (fs ++ [filterCall (k + 1) r]) (k + 1)
        simp only [readStep, h, readSpec] at this ⊢
        simpa [List.append_assoc] using this

/-- **the READ patcher meets its specification** -/
theorem read_patch_spec (rhs pre : List Expr) (n : Nat) :
    ∃ m, readPatchStmt (.stmts false [.read rhs pre n] []) =
      .stmts false [.stmts false (.read (readSpec rhs 0).1 pre m :: (readSpec rhs 0).2) []] [] := by
  have h := readFold_spec rhs [] [] 0
  simp only [List.nil_append] at h
  refine ⟨(rhs.foldl readStep ([], [], 0)).2.2, ?_⟩
  simp only [readPatchStmt, List.map_cons, List.map_nil]
  have e : (fun (acc : List Expr × List Stmt × Nat) (r : Expr) =>
      if isStrFlag r = true then (acc.1 ++ [r], acc.2.1, acc.2.2)
      else (acc.1 ++ [Expr.var ("tmp_" ++ toString (acc.2.2 + 1) ++ "$") true],
            acc.2.1 ++ [Stmt.run "run" "RUN ecb_read_filter"
              (.mk true [Expr.var ("tmp_" ++ toString (acc.2.2 + 1) ++ "$") true, r]) []], acc.2.2 + 1)) = readStep := by
    funext acc r; simp [readStep, tmpStr, filterCall]
  rw [e]
  rcases hres : rhs.foldl readStep ([], [], 0) with ⟨a, b, c⟩
  simp only [hres] at h ⊢
  simp [h.1, h.2]

/-- consequences read off the specification: as many targets as before, string targets in place,
one filter call per numeric target, each naming the temporary that took the target's place -/
theorem readSpec_length (rhs : List Expr) (k : Nat) : (readSpec rhs k).1.length = rhs.length := by
  induction rhs generalizing k with
  | nil => simp [readSpec]
  | cons r rs ih => by_cases h : isStrFlag r = true <;> simp [readSpec, h, ih]

theorem readSpec_filters (rhs : List Expr) (k : Nat) :
    (readSpec rhs k).2.length = (rhs.filter (fun r => !isStrFlag r)).length := by
  induction rhs generalizing k with
  | nil => simp [readSpec]
  | cons r rs ih => by_cases h : isStrFlag r = true <;> simp [readSpec, h, ih]

-- non-vacuity: READ A, B$, C(1)  ↦  READ tmp_1$, B$, tmp_2$ \ filter(tmp_1$, A) \ filter(tmp_2$, C(1))
example :
    readSpec [.var "A" false, .var "B$" true, .arr (.var "arr_C" false) (.mk true [.lit (.flt "1.0") false]) false] 0
      = ([tmpStr 1, .var "B$" true, tmpStr 2],
         [filterCall 1 (.var "A" false),
          filterCall 2 (.arr (.var "arr_C" false) (.mk true [.lit (.flt "1.0") false]) false)]) := by
  simp [readSpec, isStrFlag]

/-- every DATA item that is a numeric literal becomes the string literal of its text; string
literals stay; only a hex item cannot be converted (the crash recorded under C15) -/
theorem data_all_strings (par : Bool) (es pre : List Expr) :
    readPatchStmt (.data (.mk par es) pre) = .data (.mk par (es.map (fun e => (dataItemToStr e).1))) pre
    ∧ ∀ e ∈ es, (∃ l s, e = .lit l s) → ∃ t b, (dataItemToStr e).1 = .lit (.str t) b := by
  refine ⟨rfl, ?_⟩
  rintro e _ ⟨l, s, rfl⟩
  cases l <;> simp [dataItemToStr]

theorem data_item_text (r : String) (n : Int) (s : String) (b : Bool) :
    (dataItemToStr (.lit (.flt r) b)).1 = .lit (.str r) true
    ∧ (dataItemToStr (.lit (.int n) b)).1 = .lit (.str (toString n)) true
    ∧ (dataItemToStr (.lit (.str s) b)).1 = .lit (.str s) b := by
  simp [dataItemToStr]

/-! ### INPUT -/

/-- INPUT keeps its prompt and its targets, bracketed by the two cursor calls -/
theorem input_wrapped (msg : Option Expr) (rhs : List Expr) :
    inputPatch (.stmts false [.input msg rhs] []) =
      .stmts false [.stmts false
        [.run "run" "RUN _ecb_input_prefix" (.mk true []) [], .input msg rhs,
         .run "run" "RUN _ecb_input_suffix" (.mk true []) []] []] [] := by
  simp [inputPatch]

/-- the emitted INPUT statement: prompt, then the targets in order -/
theorem input_text (m : Expr) (rhs : List Expr) :
    stmt 0 true (.input (some m) rhs) = "INPUT " ++ expr 0 m ++ ", " ++ join ", " (exprs 0 rhs) := by
  simp [stmt, ind]
  rfl

/-! ### the fill loops of a pre-initialised array -/

/-- for an array entry whose (already incremented) bounds are the integer literals `ms`, the
initialisation text is: one `FOR tmp_k = 0 TO m_k - 1` per dimension in order, one assignment to
the element indexed by all loop variables, the `NEXT`s in reverse order -/
theorem fill_loops (name : String) (ms : List Int) (isS : Bool) :
    dimInit (.arr (.var name isS) (.mk true (ms.map (fun m => .lit (.int m) false))) isS) =
      join " \\ "
        ((List.range ms.length).map (fun k =>
            "FOR tmp_" ++ toString (k + 1) ++ " = 0 TO " ++
              (match (ms.map (fun m => Expr.lit (.int m) false)).getD k (.raw "") with
               | .lit (.int m) _ => toString (m - 1)
               | .lit (.flt r) _ => r
               | .hex h _ => hexText (h - 1) false
               | _ => crashMark ++ "AttributeError"))
          ++ ["arr_" ++ (name.drop 4).toString ++
                (if (join ", " ((List.range ms.length).map (fun k => "tmp_" ++ toString (k + 1)))).isEmpty then ""
                 else "(" ++ join ", " ((List.range ms.length).map (fun k => "tmp_" ++ toString (k + 1))) ++ ")")
                ++ " := " ++ (if isS then "\"\"" else "0")]
          ++ (List.range ms.length).map (fun k => "NEXT tmp_" ++ toString (ms.length - k))) := by
  simp [dimInit, varName]
  rfl

/-- the bound each loop runs to is the declared size minus one: with the constructor's `n + 1`
that is the source bound `n`, i.e. the indices `0 .. n` -/
theorem fill_bound (ms : List Int) (k : Nat) (h : k < ms.length) :
    (match (ms.map (fun m => Expr.lit (.int m) false)).getD k (.raw "") with
     | .lit (.int m) _ => toString (m - 1)
     | .lit (.flt r) _ => r
     | .hex h _ => hexText (h - 1) false
     | _ => crashMark ++ "AttributeError") = toString (ms[k] - 1) := by
  simp [List.getD, h]

-- DIM A(5,2) reaches the model as arr_A(6,3): loops 0..5 and 0..2
example : dimInit (.arr (.var "arr_A" false) (.mk true [.lit (.int 6) false, .lit (.int 3) false]) false)
    = "FOR tmp_1 = 0 TO 5 \\ FOR tmp_2 = 0 TO 2 \\ arr_A(tmp_1, tmp_2) := 0 \\ NEXT tmp_2 \\ NEXT tmp_1" := by
  decide

/-! ### when the read filter is installed -/

/-- **the read filter is installed iff some DATA statement - any one, wherever it stands - has an empty item** -/
theorem read_filter_iff_some_empty_item (evs : List Ev) :
    hasEmptyData evs = true ↔ ∃ par es, Ev.data (.mk par es) ∈ evs ∧ ∃ e ∈ es, litIsEmptyStr e = true := by
  unfold hasEmptyData
  rw [List.any_eq_true]
  constructor
  · rintro ⟨ev, hmem, h⟩
    cases ev with
    | data items =>
        cases items with
        | mk par es =>
            simp only [List.any_eq_true] at h
            exact ⟨par, es, hmem, h⟩
        | raw t => simp at h
    | _ => simp at h
  · rintro ⟨par, es, hmem, e, he, hemp⟩
    exact ⟨_, hmem, by simp only [List.any_eq_true]; exact ⟨e, he, hemp⟩⟩

/-- the decision does not depend on where the DATA statement with the empty item stands: first, in the middle or last -/
theorem read_filter_position_independent (a b : List Ev) :
    hasEmptyData (a ++ b) = (hasEmptyData a || hasEmptyData b) := by
  simp [hasEmptyData, List.any_append]

/-- `DATA 1,,3` followed by `DATA 4`: the filter is installed although the last DATA statement has no empty item -/
example : hasEmptyData [.data (.mk false [.lit (.flt "1.0") false, .lit (.str "") true, .lit (.flt "3.0") false]),
    .data (.mk false [.lit (.flt "4.0") false])] = true := by decide

end CocoVerif.Props.C03
