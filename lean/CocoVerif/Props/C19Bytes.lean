import CocoVerif.Props.Lemmas.Img
import CocoVerif.Props.C18

/-!
# C19 — arbitrary byte strings: what a *successful* run has written

For PIX, MAX (all nine pixel modes), CM3, RAT and raw VEF the theorems below take **any** byte string and any
successful run of the decoder model and give the exact number of samples written, as a function of
the input.  Each statement isolates the listed finding of that format as an explicit arithmetic
condition: where the condition holds the file is complete, where it fails the decoder "succeeds"
with a short or long file (the finding; a kernel-checked witness is next to each theorem).

Nothing here assumes that the input is well formed.
-/
namespace CocoVerif.Props.C19Bytes
open CocoVerif.Model.Img CocoVerif.Spec.Img CocoVerif.Props.Img

/-! ### PIX -/

theorem pixSet_length (side : Nat) (s : List Nat) (x y v : Nat) :
    (pixSet side s x y v).length = s.length := by simp [pixSet]

theorem pixRow_length (side y : Nat) : ∀ (k x : Nat) (s bs s' bs' : List Nat),
    pixRow side y k x s bs = .ok (s', bs') → s'.length = s.length
  | 0, _, s, bs, s', bs', h => by
      simp [pixRow, pure, Except.pure] at h
      rw [← h.1]
  | _ + 1, _, _, [], _, _, h => by simp [pixRow, throw, throwThe, MonadExceptOf.throw] at h
  | k + 1, x, s, v :: rest, s', bs', h => by
      simp only [pixRow] at h
      rw [pixRow_length side y k (x + 1) _ rest s' bs' h, pixSet_length]

theorem pixRows_length (side : Nat) : ∀ (k y : Nat) (s bs out : List Nat),
    pixRows side k y s bs = .ok out → out.length = s.length
  | 0, _, s, _, out, h => by
      simp [pixRows, pure, Except.pure] at h
      rw [← h]
  | k + 1, y, s, bs, out, h => by
      simp only [pixRows, bind, Except.bind] at h
      split at h
      · simp at h
      · next v hv =>
        obtain ⟨s', bs'⟩ := v
        rw [pixRows_length side k (y + 1) s' bs' out h, pixRow_length side y _ _ _ _ _ _ hv]

/-- PIX, arbitrary bytes: a successful run announces `side × side` with `side = ⌊√(2·size)⌋` and
writes exactly `2·size` samples. -/
theorem pix_size (bs out : List Nat) (hok : pix bs = .ok out) :
    ∃ payload, out = ppmHeader "P5" (Nat.sqrt (bs.length * 2)) (Nat.sqrt (bs.length * 2)) ++ payload
      ∧ payload.length = bs.length * 2 := by
  simp only [pix, bind, Except.bind] at hok
  split at hok
  · simp at hok
  · next s hs =>
    simp [pure, Except.pure] at hok
    refine ⟨s, hok.symm, ?_⟩
    rw [pixRows_length _ _ _ _ _ _ hs]
    simp

/-- … so the file is complete exactly when the size is half a square (the listed finding
`pix-size-not-even-square` is the complement) -/
theorem pix_complete_partial (bs out : List Nat) (hok : pix bs = .ok out)
    (hsq : Nat.sqrt (bs.length * 2) * Nat.sqrt (bs.length * 2) = bs.length * 2) :
    ∃ side payload, out = ppmHeader "P5" side side ++ payload ∧ payload.length = side * side := by
  obtain ⟨payload, h1, h2⟩ := pix_size bs out hok
  exact ⟨_, payload, h1, by rw [h2, hsq]⟩

/-- the finding: three bytes are "decoded" to six samples under a 2 × 2 header -/
theorem pix_not_square_witness :
    pix [0, 0, 0] = .ok (ppmHeader "P5" 2 2 ++ [255, 255, 255, 255, 97, 97]) := by
  have hs : Nat.sqrt 6 = 2 := by decide +kernel
  simp [pix, hs, pixRows, pixRow, pixSet, bind, Except.bind, pure, Except.pure, List.replicate]

/-! ### MAX / ART, table modes -/

theorem maxByteTable_length : ∀ arte ∈ tableModes, ∀ v, v < 256 → (maxByteTable arte v).length = 24 := by
  decide +kernel

theorem flatMap_table_length (arte : Nat) (harte : arte ∈ tableModes) :
    ∀ bs : List Nat, (∀ b ∈ bs, b < 256) → (bs.flatMap (maxByteTable arte)).length = 24 * bs.length
  | [], _ => rfl
  | b :: bs, h => by
      have hb := maxByteTable_length arte harte b (h b (by simp))
      have ih := flatMap_table_length arte harte bs (fun x hx => h x (by simp [hx]))
      simp [hb, ih]
      omega

/-! the two artifact modes (`-br`, `-rb`): the filter carries state from pixel to pixel, but writes three
samples per pixel whatever the state -/

theorem artPixel_length (st : ArtState) (bit : Nat) : (artPixel st bit).1.length = 3 := by
  simp [artPixel]

theorem artFold_length : ∀ (bits : List Nat) (acc : Bytes × ArtState),
    (bits.foldl (fun (acc : Bytes × ArtState) bit =>
        let (o, s') := artPixel acc.2 bit
        (acc.1 ++ o, s')) acc).1.length = acc.1.length + 3 * bits.length
  | [], acc => by simp
  | b :: bs, acc => by
      simp only [List.foldl_cons]
      rw [artFold_length bs]
      simp [artPixel_length]
      omega

theorem artByte_length (arte : Nat) (st : ArtState) (v : Nat) : (artByte arte st v).1.length = 24 := by
  unfold artByte
  rw [artFold_length]
  simp [artBits]

theorem artRowFold_length (arte : Nat) : ∀ (row : List Nat) (acc : Bytes × ArtState),
    (row.foldl (fun (acc : Bytes × ArtState) v =>
        let (o, s') := artByte arte acc.2 v
        (acc.1 ++ o, s')) acc).1.length = acc.1.length + 24 * row.length
  | [], acc => by simp
  | b :: bs, acc => by
      simp only [List.foldl_cons]
      rw [artRowFold_length arte bs]
      simp [artByte_length]
      omega

def allModes : List Nat := [0, 1, 2, 3, 4, 5, 6, 7, 8]

/-- one row, any of the nine pixel modes: 24 samples per data byte -/
theorem maxRow_length (arte : Nat) (harte : arte ∈ allModes) (row : List Nat) (hb : ∀ b ∈ row, b < 256) :
    (maxRow arte row).length = 24 * row.length := by
  unfold maxRow
  split
  · rw [artRowFold_length]; simp
  · next h =>
    have ht : arte ∈ tableModes := by
      simp only [Bool.or_eq_true, beq_iff_eq, not_or] at h
      simp [allModes] at harte
      simp [tableModes]
      omega
    exact flatMap_table_length arte ht row hb

/-- the number of samples MAX writes for `rows` rows of `cols` pixels from **any** data, in any mode -/
theorem maxRows_length (arte cols : Nat) (harte : arte ∈ allModes) : ∀ (rows : Nat) (bs : List Nat),
    (∀ b ∈ bs, b < 256) → (maxRows arte cols rows bs).length = 24 * min (rows * (cols / 8)) bs.length
  | 0, bs, _ => by simp [maxRows]
  | k + 1, bs, hb => by
      have ih := maxRows_length arte cols harte k (bs.drop (cols / 8)) (fun x hx => hb x (List.mem_of_mem_drop hx))
      have hr := maxRow_length arte harte (bs.take (cols / 8)) (fun x hx => hb x (List.mem_of_mem_take hx))
      simp only [maxRows, List.length_append, ih, hr, List.length_take, List.length_drop]
      generalize cols / 8 = q
      generalize bs.length = n
      have : (k + 1) * q = k * q + q := Nat.succ_mul k q
      rw [this]
      generalize k * q = x
      omega

/-- MAX with a standard header, arbitrary bytes: a successful run announces the height the length
field dictates; it has written all `3·cols·rows` samples **iff** the file holds at least
`rows · cols/8` data bytes (the listed finding `max-short-row-read` is the complement; widths that
are not a multiple of 8 are the listed finding `max-width-not-multiple-of-8`). -/
theorem max_header_complete_iff (arte cols : Nat) (bs out : List Nat)
    (harte : arte ∈ allModes) (hcols : cols % 8 = 0) (hb : ∀ b ∈ bs, b < 256)
    (hok : CocoVerif.Model.Img.max { arte := arte, cols := cols } bs = .ok out) :
    ∃ h1 h2 payload, bs[1]? = some h1 ∧ bs[2]? = some h2 ∧
      out = ppmHeader "P6" cols (8 * (h1 * 256 + h2) / cols) ++ payload ∧
      (payload.length = 3 * cols * (8 * (h1 * 256 + h2) / cols)
        ↔ 8 * (h1 * 256 + h2) / cols * (cols / 8) ≤ (bs.drop 5).length) := by
  simp only [CocoVerif.Model.Img.max, List.drop_zero, Bool.false_eq_true, ↓reduceIte, bind, Except.bind,
    pure, Except.pure] at hok
  split at hok
  · simp [throw, throwThe, MonadExceptOf.throw] at hok
  · next h0 hh0 =>
    split at hok
    · simp [throw, throwThe, MonadExceptOf.throw] at hok
    · split at hok
      · next a b ha hb' =>
        split at hok
        · simp [throw, throwThe, MonadExceptOf.throw] at hok
        · simp only [Except.ok.injEq] at hok
          have ha' : bs[1]? = some a := by
            rw [List.getElem?_take] at ha; split at ha <;> simp_all
          have hb'' : bs[2]? = some b := by
            rw [List.getElem?_take] at hb'; split at hb' <;> simp_all
          refine ⟨a, b, _, ha', hb'', hok.symm, ?_⟩
          rw [maxRows_length arte cols harte _ _ (fun x hx => hb x (List.mem_of_mem_drop hx))]
          obtain ⟨q, hq⟩ : ∃ q, cols = 8 * q := ⟨cols / 8, by omega⟩
          generalize 8 * (a * 256 + b) / cols = rows
          have hq8 : cols / 8 = q := by omega
          rw [hq8, hq]
          have : 3 * (8 * q) * rows = 24 * (rows * q) := by
            rw [Nat.mul_comm rows q, ← Nat.mul_assoc, ← Nat.mul_assoc]
          rw [this]
          constructor
          · intro h; omega
          · intro h; rw [Nat.min_eq_left h]
      · simp [throw, throwThe, MonadExceptOf.throw] at hok

/-- the same for an explicit `-r rows` (the header's length field is not consulted) -/
theorem max_rows_complete_iff (arte cols rows : Nat) (bs out : List Nat)
    (harte : arte ∈ allModes) (hcols : cols % 8 = 0) (hb : ∀ b ∈ bs, b < 256)
    (hok : CocoVerif.Model.Img.max { arte := arte, cols := cols, rows := some rows } bs = .ok out) :
    ∃ payload, out = ppmHeader "P6" cols rows ++ payload ∧
      (payload.length = 3 * cols * rows ↔ rows * (cols / 8) ≤ (bs.drop 5).length) := by
  simp only [CocoVerif.Model.Img.max, List.drop_zero, Bool.false_eq_true, ↓reduceIte, bind, Except.bind,
    pure, Except.pure] at hok
  split at hok
  · simp [throw, throwThe, MonadExceptOf.throw] at hok
  · split at hok
    · simp [throw, throwThe, MonadExceptOf.throw] at hok
    · simp only [Except.ok.injEq] at hok
      refine ⟨_, hok.symm, ?_⟩
      rw [maxRows_length arte cols harte _ _ (fun x hx => hb x (List.mem_of_mem_drop hx))]
      obtain ⟨q, hq⟩ : ∃ q, cols = 8 * q := ⟨cols / 8, by omega⟩
      have hq8 : cols / 8 = q := by omega
      rw [hq8, hq]
      have : 3 * (8 * q) * rows = 24 * (rows * q) := by
        rw [Nat.mul_comm rows q, ← Nat.mul_assoc, ← Nat.mul_assoc]
      rw [this]
      constructor
      · intro h; omega
      · intro h; rw [Nat.min_eq_left h]

/-- Newsroom header, arbitrary bytes -/
theorem max_newsroom_complete_iff (arte : Nat) (bs out : List Nat)
    (harte : arte ∈ allModes) (hb : ∀ b ∈ bs, b < 256)
    (hok : CocoVerif.Model.Img.max { arte := arte, newsroom := true } bs = .ok out) :
    ∃ c r payload, bs[0]? = some c ∧ bs[1]? = some r ∧ out = ppmHeader "P6" (c * 8) r ++ payload ∧
      (payload.length = 3 * (c * 8) * r ↔ r * c ≤ (bs.drop 2).length) := by
  simp only [CocoVerif.Model.Img.max, List.drop_zero, ↓reduceIte, bind, Except.bind, pure, Except.pure] at hok
  split at hok
  · next c r hcr =>
    simp only [Except.ok.injEq] at hok
    have h0 : bs[0]? = some c := by
      have := congrArg (fun l => l[0]?) hcr
      simpa [List.getElem?_take] using this
    have h1 : bs[1]? = some r := by
      have := congrArg (fun l => l[1]?) hcr
      simpa [List.getElem?_take] using this
    refine ⟨c, r, _, h0, h1, hok.symm, ?_⟩
    rw [maxRows_length arte _ harte _ _ (fun x hx => hb x (List.mem_of_mem_drop hx))]
    have hq8 : c * 8 / 8 = c := by omega
    rw [hq8]
    have : 3 * (c * 8) * r = 24 * (r * c) := by
      rw [Nat.mul_comm r c, Nat.mul_comm c 8, ← Nat.mul_assoc, ← Nat.mul_assoc]
    rw [this]
    constructor
    · intro h; omega
    · intro h; rw [Nat.min_eq_left h]
  · simp [throw, throwThe, MonadExceptOf.throw] at hok

/-! ### CM3: whole lines -/

theorem cm3Packed_length (pal b1 b2 : List Nat) : ∀ (k x j : Nat) (lin bs out lin' bs' : List Nat),
    cm3Packed pal b1 b2 k x j lin bs = .ok (out, lin', bs') → out.length = 6 * k
  | 0, _, _, lin, bs, out, lin', bs', h => by
      simp [cm3Packed, pure, Except.pure] at h
      rw [h.1]; rfl
  | k + 1, x, j, lin, bs, out, lin', bs', h => by
      simp only [cm3Packed, bind, Except.bind] at h
      repeat' (split at h <;> try (simp [throw, throwThe, MonadExceptOf.throw] at h; done))
      all_goals (
        simp only [pure, Except.pure, Except.ok.injEq, Prod.mk.injEq] at h
        rename_i v hv
        obtain ⟨o, l2, b2'⟩ := v
        have ih := cm3Packed_length pal b1 b2 k _ _ _ _ _ _ _ hv
        rename_i d hd _
        have hdl := dumpByte_len pal _ d hd
        rw [← h.1]
        simp [hdl, ih]
        omega)

theorem cm3Line_length (pal lin bs out lin' bs' : List Nat)
    (h : cm3Line pal lin bs = .ok (out, lin', bs')) : out.length = 960 := by
  simp only [cm3Line, bind, Except.bind] at h
  repeat' (split at h <;> try (simp [throw, throwThe, MonadExceptOf.throw] at h; done))
  · exact cm3Packed_length pal _ _ 160 0 0 _ _ _ _ _ h
  · simp only [pure, Except.pure, Except.ok.injEq, Prod.mk.injEq] at h
    rename_i v hv
    obtain ⟨o, rd, r⟩ := v
    have := (readDump_spec pal 160 _ o rd r hv).1
    rw [← h.1, this]

theorem cm3Lines_length (pal : List Nat) : ∀ (k : Nat) (lin bs out lin' bs' : List Nat),
    cm3Lines pal k lin bs = .ok (out, lin', bs') → out.length = 960 * k
  | 0, lin, bs, out, lin', bs', h => by
      simp [cm3Lines, pure, Except.pure] at h
      rw [h.1]; rfl
  | k + 1, lin, bs, out, lin', bs', h => by
      simp only [cm3Lines, bind, Except.bind] at h
      split at h
      · simp at h
      · next v hv =>
        obtain ⟨o, l1, b1⟩ := v
        split at h
        · simp at h
        · next v2 hv2 =>
          obtain ⟨o2, l2, b2⟩ := v2
          simp only [pure, Except.pure, Except.ok.injEq, Prod.mk.injEq] at h
          rw [← h.1]
          simp [cm3Line_length pal lin bs o l1 b1 hv, cm3Lines_length pal k l1 b1 o2 l2 b2 hv2]
          omega

/-- the line counts a successful page loop has read -/
theorem cm3Pages_length (pal : List Nat) : ∀ (k : Nat) (lin bs out : List Nat),
    cm3Pages pal k lin bs = .ok out →
      ∃ counts : List Nat, counts.length = k ∧ out.length = 960 * counts.sum
  | 0, _, _, out, h => by
      simp [cm3Pages, pure, Except.pure] at h
      exact ⟨[], rfl, by rw [h]; rfl⟩
  | k + 1, lin, bs, out, h => by
      simp only [cm3Pages, bind, Except.bind] at h
      split at h
      · simp at h
      · next v hv =>
        obtain ⟨lines, b0⟩ := v
        split at h
        · simp at h
        · next v1 hv1 =>
          obtain ⟨o, l1, b1⟩ := v1
          split at h
          · simp at h
          · next o2 hv2 =>
            simp only [pure, Except.pure, Except.ok.injEq] at h
            obtain ⟨counts, hc, hl⟩ := cm3Pages_length pal k l1 b1 o2 hv2
            refine ⟨lines :: counts, by simp [hc], ?_⟩
            rw [← h]
            simp [cm3Lines_length pal lines lin b0 o l1 b1 hv1, hl]
            omega

/-- CM3, arbitrary bytes: a successful run announces `320 × 192·pages` and has written a whole
number of complete 320-pixel lines, namely as many as the page headers it read announce; the file
is complete **iff** those counts add up to `192·pages` (the listed finding
`cm3-line-count-not-192` is the complement). -/
theorem cm3_whole_lines (bs out : List Nat) (hok : cm3 bs = .ok out) :
    ∃ (pages : Nat) (counts : List Nat) (payload : List Nat), (pages = 1 ∨ pages = 2) ∧ counts.length = pages ∧
      out = ppmHeader "P6" 320 (pages * 192) ++ payload ∧ payload.length = 3 * 320 * counts.sum := by
  simp only [cm3, bind, Except.bind] at hok
  repeat' (split at hok <;> try (simp at hok; done))
  simp only [pure, Except.pure, Except.ok.injEq] at hok
  rename_i body hbody
  obtain ⟨counts, hc, hl⟩ := cm3Pages_length _ _ _ _ _ hbody
  refine ⟨_, counts, body, ?_, hc, hok.symm, by rw [hl]⟩
  unfold getbit; omega

/-! ### RAT: never short -/

theorem ratDump_len (pal : List Nat) (c : Nat) (d : List Nat) (h : ratDump pal c = .ok d) : d.length = 6 := by
  simp only [ratDump, bind, Except.bind] at h
  split at h
  · simp at h
  · next a ha =>
    split at h
    · simp at h
    · next b hb =>
      simp [pure, Except.pure] at h
      rw [← h]
      simp [dumpPal_len pal _ a ha, dumpPal_len pal _ b hb]

theorem replicateApp_length (n : Nat) (d : List Nat) : (replicateApp n d).length = n * d.length := by
  simp [replicateApp]

/-- the escape loop: on success `6·ii` samples or more, and a whole number of byte pairs -/
theorem ratLoop_length (esc : Nat) (pal : List Nat) : ∀ (n : Nat) (bs : List Nat) (ii : Int) (out : List Nat),
    bs.length ≤ n → ratLoop esc pal bs ii = .ok out → 6 * ii ≤ out.length ∧ out.length % 6 = 0
  | n, bs, ii, out, hn, h => by
      unfold ratLoop at h
      split at h
      · simp [pure, Except.pure] at h
        subst h
        simp; omega
      · split at h
        · simp [throw, throwThe, MonadExceptOf.throw] at h
        · next c rest =>
          split at h
          · simp only [bind, Except.bind] at h
            split at h
            · simp at h
            · next d hd =>
              split at h
              · simp at h
              · next r hr =>
                simp [pure, Except.pure] at h
                have hdl := ratDump_len pal c d hd
                cases n with
                | zero => simp at hn
                | succ n =>
                  have ih := ratLoop_length esc pal n rest (ii - 1) r (by simp at hn; omega) hr
                  subst h
                  simp [hdl]
                  omega
          · split at h
            · next rep c' rest' =>
              split at h
              · cases n with
                | zero => simp at hn
                | succ n =>
                  exact ratLoop_length esc pal n rest' ii out (by simp at hn; omega) h
              · simp only [bind, Except.bind] at h
                split at h
                · simp at h
                · next d hd =>
                  split at h
                  · simp at h
                  · next r hr =>
                    simp [pure, Except.pure] at h
                    have hdl := ratDump_len pal c' d hd
                    cases n with
                    | zero => simp at hn
                    | succ n =>
                      have ih := ratLoop_length esc pal n rest' (ii - rep) r (by simp at hn; omega) hr
                      subst h
                      simp [replicateApp_length, hdl]
                      omega
            · simp [throw, throwThe, MonadExceptOf.throw] at h

/-- RAT, arbitrary bytes: a successful run announces 320 × 199 and has written **at least** the
`3·320·199` samples of a complete image, in whole byte pairs - it is never short; it is long exactly
when a run overshoots the end of the picture (the listed finding `rat-run-overruns-end`). -/
theorem rat_never_short (bs out : List Nat) (hok : rat bs = .ok out) :
    ∃ payload, out = ppmHeader "P6" 320 199 ++ payload ∧ 3 * 320 * 199 ≤ payload.length
      ∧ payload.length % 6 = 0 := by
  simp only [rat, bind, Except.bind] at hok
  repeat' (split at hok <;> try (simp [throw, throwThe, MonadExceptOf.throw] at hok; done))
  simp only [pure, Except.pure, Except.ok.injEq] at hok
  rename_i body hbody
  have := ratLoop_length _ _ _ _ _ _ (Nat.le_refl _) hbody
  exact ⟨body, hok.symm, by omega, this.2⟩

/-- the finding: a final run of 255 pairs where one is missing still "succeeds" -/
theorem rat_overrun_witness (pal : List Nat) (hpal : pal.length = 16) (out : List Nat)
    (h : ratLoop 7 pal [7, 255, 0x11] 1 = .ok out) : out.length = 6 * 255 := by
  have hd : ∃ d, ratDump pal 0x11 = .ok d := by
    simp only [ratDump, bind, Except.bind]
    rw [dumpPal_ok pal 1 (by omega)]
    exact ⟨_, rfl⟩
  obtain ⟨d, hd⟩ := hd
  have hdl := ratDump_len pal _ d hd
  unfold ratLoop at h
  simp [hd, bind, Except.bind, pure, Except.pure] at h
  unfold ratLoop at h
  simp [pure, Except.pure] at h
  subst h
  simp [replicateApp_length, hdl]

/-! ### VEF, not squashed -/

theorem vefBitmap_length8 (pal : List Nat) : ∀ (img out : List Nat),
    vefBitmap 8 pal img = .ok out → out.length = 2 * img.length
  | [], out, h => by
      simp [vefBitmap, pure, Except.pure] at h
      subst h; simp
  | b :: rest, out, h => by
      simp only [vefBitmap, ↓reduceIte, bind, Except.bind, pure, Except.pure] at h
      cases h1 : palAt pal (b / 16) with
      | error e => simp [h1] at h
      | ok a =>
        cases h2 : palAt pal (b % 16) with
        | error e => simp [h1, h2] at h
        | ok c =>
          cases h3 : vefBitmap 8 pal rest with
          | error e => simp [h1, h2, h3] at h
          | ok r =>
            simp [h1, h2, h3] at h
            have ih := vefBitmap_length8 pal rest r h3
            subst h
            simp [ih]; omega

theorem vefBitmap_length4 (t : Nat) (ht : t = 7 ∨ t = 6) (pal : List Nat) : ∀ (img out : List Nat),
    vefBitmap t pal img = .ok out → out.length = 4 * img.length
  | [], out, h => by
      simp [vefBitmap, pure, Except.pure] at h
      subst h; simp
  | b :: rest, out, h => by
      have h8 : t ≠ 8 := by omega
      have h76 : (decide (t = 7) || decide (t = 6)) = true := by
        rcases ht with rfl | rfl <;> simp
      simp only [vefBitmap, h8, ↓reduceIte, h76, bind, Except.bind, pure, Except.pure] at h
      cases h1 : palAt pal (b / 64) with
      | error e => simp [h1] at h
      | ok a =>
        cases h2 : palAt pal (b / 16 % 4) with
        | error e => simp [h1, h2] at h
        | ok c =>
          cases h4 : palAt pal (b / 4 % 4) with
          | error e => simp [h1, h2, h4] at h
          | ok d =>
            cases h5 : palAt pal (b % 4) with
            | error e => simp [h1, h2, h4, h5] at h
            | ok e' =>
              cases h3 : vefBitmap t pal rest with
              | error e => simp [h1, h2, h4, h5, h3] at h
              | ok r =>
                simp [h1, h2, h4, h5, h3] at h
                have ih := vefBitmap_length4 t ht pal rest r h3
                subst h
                simp [ih]; omega

theorem vefBitmap_length5 (pal : List Nat) : ∀ (img out : List Nat),
    vefBitmap 5 pal img = .ok out → out = []
  | [], out, h => by
      simp [vefBitmap, pure, Except.pure] at h
      exact h
  | b :: rest, out, h => by
      simp only [vefBitmap, show (5 : Nat) ≠ 8 by decide, ↓reduceIte, bind, Except.bind, pure, Except.pure,
        show (decide ((5 : Nat) = 7) || decide ((5 : Nat) = 6)) = false by decide, Bool.false_eq_true] at h
      cases h3 : vefBitmap 5 pal rest with
      | error e => simp [h3] at h
      | ok r =>
        simp [h3] at h
        rw [← h, vefBitmap_length5 pal rest r h3]

/-- raw VEF, arbitrary bytes: a successful run on a file that is not marked squashed has produced
`2` (16-colour type) or `4` (4-colour types) pixels per data byte after the 18-byte header, so the
bitmap holds the announced `width × 200` pixels **iff** the file holds exactly 32000 / 32000 / 16000
data bytes (the listed finding `vef-data-length` is the complement); for type 4 (640x200x2) the bitmap
is empty whatever the file holds (the listed finding `vef-type-640x200x2`). -/
theorem vef_raw_size (data : List Nat) (o : VefOut) (hraw : data[0]? ≠ some 128)
    (hok : vef data = .ok o) :
    o.height = 200 ∧ ((o.width = 320 ∧ o.bitmap.length = 2 * (data.length - 18))
      ∨ (o.width = 640 ∧ o.bitmap.length = 4 * (data.length - 18))
      ∨ (o.width = 320 ∧ o.bitmap.length = 4 * (data.length - 18))
      ∨ (o.width = 640 ∧ o.bitmap = [])) := by
  unfold vef at hok
  by_cases he : data.isEmpty = true
  · simp [he, bind, Except.bind, throw, throwThe, MonadExceptOf.throw] at hok
  · cases h1 : data[1]? with
    | none => simp [he, h1, bind, Except.bind, throw, throwThe, MonadExceptOf.throw] at hok
    | some t =>
      simp only [he, h1, hraw, bind, Except.bind, pure, Except.pure, Bool.false_eq_true, ↓reduceIte] at hok
      by_cases t0 : t = 0
      · subst t0
        simp only [↓reduceIte] at hok
        cases hb : vefBitmap 8 (List.take 16 (List.drop 2 data)) (List.drop 18 data) with
        | error e => simp [hb] at hok
        | ok bm =>
          simp [hb] at hok
          subst hok
          exact ⟨rfl, Or.inl ⟨rfl, by simp [vefBitmap_length8 _ _ _ hb]⟩⟩
      · by_cases t1 : t = 1
        · subst t1
          simp only [show (1 : Nat) ≠ 0 by decide, ↓reduceIte] at hok
          cases hb : vefBitmap 7 (List.take 16 (List.drop 2 data)) (List.drop 18 data) with
          | error e => simp [hb] at hok
          | ok bm =>
            simp [hb] at hok
            subst hok
            exact ⟨rfl, Or.inr (Or.inl ⟨rfl, by simp [vefBitmap_length4 7 (Or.inl rfl) _ _ _ hb]⟩)⟩
        · by_cases t3 : t = 3
          · subst t3
            simp only [show (3 : Nat) ≠ 0 by decide, show (3 : Nat) ≠ 1 by decide, ↓reduceIte] at hok
            cases hb : vefBitmap 6 (List.take 16 (List.drop 2 data)) (List.drop 18 data) with
            | error e => simp [hb] at hok
            | ok bm =>
              simp [hb] at hok
              subst hok
              exact ⟨rfl, Or.inr (Or.inr (Or.inl ⟨rfl, by simp [vefBitmap_length4 6 (Or.inr rfl) _ _ _ hb]⟩))⟩
          · by_cases t4 : t = 4
            · subst t4
              simp only [show (4 : Nat) ≠ 0 by decide, show (4 : Nat) ≠ 1 by decide,
                show (4 : Nat) ≠ 3 by decide, ↓reduceIte] at hok
              cases hb : vefBitmap 5 (List.take 16 (List.drop 2 data)) (List.drop 18 data) with
              | error e => simp [hb] at hok
              | ok bm =>
                simp [hb] at hok
                subst hok
                exact ⟨rfl, Or.inr (Or.inr (Or.inr ⟨rfl, vefBitmap_length5 _ _ _ hb⟩))⟩
            · simp [t0, t1, t3, t4, throw, throwThe, MonadExceptOf.throw] at hok

end CocoVerif.Props.C19Bytes
