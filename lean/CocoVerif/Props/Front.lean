import CocoVerif.Model.Front
import CocoVerif.Model.Emit

/-!
# Theorems about the front-end model (`Model.Front`), used by C03, C04, C08, C09

Each is a statement about one visitor method for **all** inputs of that method (all node texts, all
child values).  The model is tied to parser.py by the `front` and `e2e` suites.
-/
namespace CocoVerif.Props.Front
open CocoVerif.Model CocoVerif.Model.Front

/-! ### C03: DIM bounds and the INPUT prompt -/

theorem mapM_bounds (ms : List Int) :
    (ms.map (fun m => Expr.lit (.int m) false)).mapM bumpBound
      = .ok (ms.map (fun m => Expr.lit (.int (m + 1)) false)) := by
  induction ms with
  | nil => rfl
  | cons m ms ih =>
      simp only [List.map_cons, List.mapM_cons, ih]
      rfl

/-- **DIM A(n₁,…,n_k) declares n_i + 1 elements in every dimension** (with `base 0`: the indices
0..n_i): the statement constructor adds one to each decimal bound, for every list of bounds -/
theorem dim_bounds (name : String) (v0 : Bool) (p : Bool) (ms : List Int) (isS : Bool) :
    dimEntry (.e (.arr (.var name v0) (.mk p (ms.map (fun m => .lit (.int m) false))) isS)) =
      .ok (.arr (.var ("arr_" ++ (name.drop 4).toString) isS) (.mk true (ms.map (fun m => .lit (.int (m + 1)) false))) isS) := by
  simp only [dimEntry]
  rw [mapM_bounds]
  rfl

/-- the same for a hex bound -/
theorem dim_bound_hex (name : String) (v0 p : Bool) (h : Nat) (f : Bool) (isS : Bool) :
    dimEntry (.e (.arr (.var name v0) (.mk p [.hex h f]) isS)) =
      .ok (.arr (.var ("arr_" ++ (name.drop 4).toString) isS) (.mk true [.hex (h + 1) false]) isS) := by
  rfl

section
open CocoVerif.Model.Emit
/-- a DIM statement with one numeric entry (a name that does not end in `$`), no pre-initialisation:
the text is `DIM ` followed by the entry as emission writes it - whatever the default string size
and the size map -/
theorem dim_text_numeric (v : Expr) (d : Int) (sz : List (String × Int))
    (h : (dimName v).endsWith "$" = false) :
    stmt 0 true (.dim [v] false d sz []) = "DIM " ++ expr 0 v := by
  simp [stmt, dimText, dimItems, exprs, pretextOf, ind, join, h]
  rfl

/-- **source bound to emitted text**: `DIM A(n1,…,nk)` (decimal bounds, numeric array) comes out as
`DIM arr_A(n1+1, …, nk+1)` - the constructor's `+1` (`dim_bounds`) followed by emission -/
theorem dim_source_to_text (name : String) (v0 p : Bool) (ms : List Int) (d : Int) (sz : List (String × Int))
    (h : ("arr_" ++ (name.drop 4).toString).endsWith "$" = false) :
    ∃ e, dimEntry (.e (.arr (.var name v0) (.mk p (ms.map (fun m => .lit (.int m) false))) false)) = .ok e
      ∧ stmt 0 true (.dim [e] false d sz []) =
          "DIM arr_" ++ (name.drop 4).toString ++ elist 0 (.mk true (ms.map (fun m => .lit (.int (m + 1)) false))) := by
  refine ⟨_, dim_bounds name v0 p ms false, ?_⟩
  rw [dim_text_numeric _ d sz (by simpa [dimName, varName] using h)]
  simp [expr, String.append_assoc]
  rfl

end

/-- a scalar in a DIM list is kept as it is -/
theorem dim_scalar (n : String) (b : Bool) : dimEntry (.e (.var n b)) = .ok (.var n b) := rfl

theorem dispatch_input (env : Env) (text : String) (vs : List Val) :
    visitNamed env "input_statement" text vs = visitInputStatement vs := by rfl

/-- **INPUT prompt**: `INPUT "P";…` asks `P? `, `LINE INPUT "P";…` asks `P`; without a prompt
`? ` and the empty string; the targets follow in source order -/
theorem input_prompt (s : String) (b : Bool) (c1 c2 c3 c5 c7 t0 rest : Val) :
    visitInputStatement [.str "", c1, c2, c3, .e (.lit (.str s) b), c5, t0, c7, rest] =
      .ok (.stmt (.input (some (.lit (.str (s ++ "? ")) true)) (toExprs (t0 :: listOf rest)))) := by
  simp [visitInputStatement, kid, pure, Except.pure]

theorem line_input_prompt (s : String) (b : Bool) (c1 c2 c3 c5 c7 t0 rest : Val) :
    visitInputStatement [.node "LINE", c1, c2, c3, .e (.lit (.str s) b), c5, t0, c7, rest] =
      .ok (.stmt (.input (some (.lit (.str s) true)) (toExprs (t0 :: listOf rest)))) := by
  simp [visitInputStatement, kid, pure, Except.pure]

theorem input_no_prompt (c1 c2 c3 c5 c7 t0 rest : Val) :
    visitInputStatement [.str "", c1, c2, c3, .str "", c5, t0, c7, rest] =
      .ok (.stmt (.input (some (.lit (.str "? ") true)) (toExprs (t0 :: listOf rest)))) := by
  simp [visitInputStatement, kid, pure, Except.pure]

/-! ### C02 / C01: the condition of the plain IF form is always a BOOLEAN expression -/

def boolRoot : Expr → Bool
  | .bin true .. | .un true .. | .paren true .. => true
  | _ => false

theorem dispatch_if (env : Env) (text : String) (c0 c1 c3 c4 c5 cond body : Val) :
    visitNamed env "if_stmnt" text [c0, c1, cond, c3, c4, c5, body] = .ok (visitIfStmnt cond body) := by rfl

/-- `IF c THEN …` (no ELSE): whatever the condition is, the emitted IF tests a boolean-class
expression - the condition itself when the grammar read it as boolean, `c <> 0.0` otherwise.  (The
two IF…ELSE forms have no such step: the known finding `numeric-condition-in-if-else`.) -/
theorem if_condition_boolean (cond body : Val) :
    ∃ c b, visitIfStmnt cond body = .stmt (.if_ c b []) ∧ boolRoot c = true := by
  unfold visitIfStmnt
  by_cases h : isBoolExp cond = true
  · refine ⟨toExpr cond, toStmt body, by simp [h], ?_⟩
    cases cond with
    | e x =>
        cases x with
        | bin b l op r => cases b <;> simp_all [isBoolExp, toExpr, boolRoot]
        | un b op e => cases b <;> simp_all [isBoolExp, toExpr, boolRoot]
        | paren b e s => cases b <;> simp_all [isBoolExp, toExpr, boolRoot]
        | _ => simp [isBoolExp] at h
    | _ => simp [isBoolExp] at h
  · exact ⟨.bin true (toExpr cond) "<>" (.lit (.flt "0.0") false), toStmt body, by simp [h], rfl⟩

/-! ### C08: blanks never reach the object graph -/

/-- a node whose text is only blanks and line ends becomes the empty string, however long it is -/
theorem blank_node_is_empty (text : String) (vs : List Val) (h : isBlank text = true) :
    genericVisit text vs = .ok (.str "") := by
  simp [genericVisit, h]
  rfl

theorem dispatch_literals (env : Env) (text : String) (vs : List Val) :
    visitNamed env "num_literal" text vs = visitNumLiteral env text
    ∧ visitNamed env "int_literal" text vs = visitIntLiteral text
    ∧ visitNamed env "hex_literal" text vs = visitHexLiteral true text
    ∧ visitNamed env "int_hex_literal" text vs = visitHexLiteral false text
    ∧ visitNamed env "str_literal" text vs = .ok (visitStrLiteral text)
    ∧ visitNamed env "clear_statement" text vs = .ok (visitClear text)
    ∧ visitNamed env "var" text vs = .ok (visitVar text)
    ∧ visitNamed env "str_var" text vs = .ok (visitStrVar text) := by
  refine ⟨by rfl, by rfl, by rfl, by rfl, by rfl, by rfl, by rfl, by rfl⟩

/-- a numeric literal is read from its text without blanks: two spellings that differ only in
blanks give the same literal -/
theorem num_literal_ignores_blanks (env : Env) (t1 t2 : String) (h : noBlanks t1 = noBlanks t2) :
    visitNumLiteral env t1 = visitNumLiteral env t2 ∧ visitIntLiteral t1 = visitIntLiteral t2 := by
  simp [visitNumLiteral, visitIntLiteral, h]

/-- a hex literal is read from what follows its `H`, blanks removed -/
theorem hex_literal_ignores_blanks (f : Bool) (t1 t2 : String) (h : afterH t1 = afterH t2) :
    visitHexLiteral f t1 = visitHexLiteral f t2 := by
  simp [visitHexLiteral, h]

example : afterH "& H F F" = afterH "&HFF" ∧ noBlanks "1 E + 5" = noBlanks "1E+5" := by decide

/-- string literals keep every character between their quotes; the one method that copies
layout is CLEAR, which keeps its source text (the known finding) -/
theorem str_literal_verbatim (text : String) :
    visitStrLiteral text = .e (.lit (.str ((text.drop 1).toString.dropEnd 1).toString) true) := rfl

theorem clear_copies_text (text : String) : visitClear text = .stmt (.comment (" " ++ pyStrip text)) := rfl

/-! ### C09: identifiers are cut to two characters where they enter the object graph -/

theorem var_truncated (text : String) : visitVar text = .e (.var (text.take 2).toString false) := rfl

theorem str_var_truncated (text : String) :
    visitStrVar text = .e (.var (((text.dropEnd 1).toString.take 2).toString ++ "$") true) := rfl

/-- an array reference prefixes the (already cut) name with `arr_` and takes the string flag of
its kind -/
theorem array_ref_name (n : String) (b isStr : Bool) (idx : Val) :
    arrayRef (.e (.var n b)) idx isStr = .ok (.e (.arr (.var ("arr_" ++ n) isStr) (toEList idx) isStr)) := by
  rfl

/-! ### C04: optional operands of CLS / HSCREEN / HCLS -/

theorem dispatch_cls (env : Env) (text : String) (vs : List Val) :
    visitNamed env "cls" text vs = visitCls vs ∧ visitNamed env "hscreen_statement" text vs = visitHscreen vs
    ∧ visitNamed env "hcls_statement" text vs = visitHcls vs := by
  refine ⟨by rfl, by rfl, by rfl⟩

/-- an operand that is an expression object is used; a signed operand (`BasicOpExp` is not an
`AbstractBasicExpression`) is replaced by the default — the known finding, for every operand -/
theorem cls_signed_operand_dropped (op : String) (b : Bool) (x : Expr) (c0 c1 c3 : Val) :
    visitCls [c0, c1, .e (.un b op x), c3] = .ok (.stmt (.cls none []))
    ∧ visitHscreen [c0, c1, .e (.un b op x), c3] =
        .ok (.stmt (.run "run" "run ecb_hscreen" (.mk true [.lit (.int 0) false, .var "display" false]) []))
    ∧ visitHcls [c0, c1, .e (.un b op x), c3] =
        .ok (.stmt (.run "run" "run ecb_hcls" (.mk true [.lit (.int (-1)) false, .var "display" false]) [])) := by
  refine ⟨by rfl, by rfl, by rfl⟩

theorem cls_plain_operand_used (n : String) (b : Bool) (c0 c1 c3 : Val) :
    visitCls [c0, c1, .e (.var n b), c3] = .ok (.stmt (.cls (some (.var n b)) [])) := by rfl

theorem hscreen_default (c0 c1 c3 : Val) :
    visitHscreen [c0, c1, .str "", c3] =
      .ok (.stmt (.run "run" "run ecb_hscreen" (.mk true [.lit (.int 0) false, .var "display" false]) [])) := by rfl

end CocoVerif.Props.Front
