import CocoVerif.Model.Emit

/-!
# C07 (operand clause) — every operator and call is written with all its operands

`Model.Emit.expr` produces a `String`.  Here the same function is written a second time so that it
produces **tokens** (`exprT`, one case per case of `Emit.expr`), and two things are proved:

* `render_exprT` — for **every** expression object (in scope or not) the concatenation of the token
  spellings *is* the string `Emit.expr` writes.  The token view is therefore not a second model: it
  is the emitter's own text, cut into pieces.
* `expr_wellformed` (`exprT_wf`, `exprT_tokOK`) — for every expression object that satisfies the decidable
  scope predicate `wfE` the token kinds derive in the operand grammar `Exp` of BASIC09 expressions: a literal, an
  identifier, an identifier applied to a non-empty comma-separated list of expressions, a binary
  operator between two expressions, a prefix operator before one, a parenthesised expression.  So no
  operator and no call is written without an operand, and no operand is dropped
  (`exprsT_count`: the argument list has exactly one expression per argument object).

`wfE` excludes exactly the object shapes behind the known findings of C05/C07 (a functional
expression that never received its result variable, a statement object or leaked parse node in
operand position, a print-control object outside PRINT); `not_wf_witness` shows the exclusion is
needed: such an object is written as the empty string or a marker.

The grammar is deliberately the *ambiguous* operand grammar: grouping is the subject of C01
(`Spec.Ladder`), completeness of operands is the subject here.
-/
set_option linter.unusedSimpArgs false

namespace CocoVerif.Props.C07Expr
open CocoVerif.Model

/-- token kinds -/
inductive K | lit | ident | binop | pfx | lp | rp | comma | bad | kw
  deriving DecidableEq, Repr

structure Tok where
  k : K
  text : String
  deriving Repr

def render (ts : List Tok) : String := String.join (ts.map (·.text))
def kinds (ts : List Tok) : List K := ts.map (·.k)

@[simp] theorem render_nil : render [] = "" := by simp [render]
@[simp] theorem render_append (a b : List Tok) : render (a ++ b) = render a ++ render b := by
  simp [render]
@[simp] theorem render_cons (t : Tok) (ts : List Tok) : render (t :: ts) = t.text ++ render ts := by
  simp [render]
@[simp] theorem kinds_nil : kinds [] = [] := rfl
@[simp] theorem kinds_append (a b : List Tok) : kinds (a ++ b) = kinds a ++ kinds b := by
  simp [kinds]
@[simp] theorem kinds_cons (t : Tok) (ts : List Tok) : kinds (t :: ts) = t.k :: kinds ts := rfl

def hexT (v : Nat) (isFloat : Bool) : List Tok :=
  if isFloat && v < 0x8000 then
    [⟨.ident, "float"⟩, ⟨.lp, "("⟩, ⟨.lit, "$" ++ Emit.hexUpper v⟩, ⟨.rp, ")"⟩]
  else [⟨.lit, Emit.hexText v isFloat⟩]

mutual
  /-- `Emit.expr`, producing tokens -/
  def exprT (i : Int) : Expr → List Tok
    | .lit l _ => [⟨.lit, Emit.litText l⟩]
    | .hex v f => hexT v f
    | .var n _ => [⟨.ident, n⟩]
    | .arr v idx _ => exprT i v ++ elistT i idx
    | .bin boolean l op r =>
        if !boolean && (op == "AND" || op == "OR") then
          [⟨.ident, "L" ++ op⟩, ⟨.lp, "("⟩] ++ exprT i l ++ [⟨.comma, ", "⟩] ++ exprT i r ++ [⟨.rp, ")"⟩]
        else exprT i l ++ [⟨.binop, " " ++ op ++ " "⟩] ++ exprT i r
    | .un boolean op e =>
        if op == "NOT" then
          [⟨.ident, if boolean then "NOT" else "LNOT"⟩, ⟨.lp, "("⟩] ++ exprT i e ++ [⟨.rp, ")"⟩]
        else [⟨.pfx, op ++ " "⟩] ++ exprT i e
    | .paren _ e _ => [⟨.lp, "("⟩] ++ exprT i e ++ [⟨.rp, ")"⟩]
    | .call f args _ => [⟨.ident, f⟩] ++ elistT i args
    | .fexp _ _ _ _ v => optExprT i v
    | .varptr e => [⟨.ident, Emit.ind i ++ "ADDR"⟩, ⟨.lp, "("⟩] ++ exprT i e ++ [⟨.rp, ")"⟩]
    | .ctl c => [⟨.bad, c⟩]
    | .stmtExp s => [⟨.bad, Emit.stmt i true s⟩]
    | .op o => [⟨.bad, o⟩]
    | .raw _ => [⟨.bad, Emit.crashMark ++ "leak"⟩]
  def exprsT (i : Int) : List Expr → List Tok
    | [] => []
    | [e] => exprT i e
    | e :: e' :: es => exprT i e ++ [⟨.comma, ", "⟩] ++ exprsT i (e' :: es)
  def elistT (i : Int) : EList → List Tok
    | .mk parens es =>
        let t := exprsT i es
        if parens then (if (render t).isEmpty then [] else [⟨.lp, "("⟩] ++ t ++ [⟨.rp, ")"⟩]) else t
    | .raw _ => [⟨.bad, Emit.crashMark ++ "leak"⟩]
  def optExprT (i : Int) : Option Expr → List Tok
    | some e => exprT i e
    | none => []
end

/-! ### the token view is the emitter's text -/

/-- `"NOT" ++ ("(" ++ x) = "NOT(" ++ x` and the like: two literal pieces next to each other -/
theorem glue (a b x : String) : a ++ (b ++ x) = (a ++ b) ++ x := String.append_assoc.symm

mutual
  theorem render_exprT (i : Int) : ∀ e : Expr, render (exprT i e) = Emit.expr i e
    | .lit l _ => by simp [exprT, Emit.expr]
    | .hex v f => by
        simp only [exprT, Emit.expr, hexT, Emit.hexText]
        cases f <;> by_cases h : v < 0x8000 <;> simp [h, String.append_assoc] <;> rfl
    | .var n _ => by simp [exprT, Emit.expr]
    | .arr v idx _ => by
        simp [exprT, Emit.expr, render_exprT i v, render_elistT i idx]
    | .bin boolean l op r => by
        unfold exprT Emit.expr
        split <;> simp [render_exprT i l, render_exprT i r, String.append_assoc]
    | .un boolean op e => by
        unfold exprT Emit.expr
        split
        · cases boolean <;> simp [render_exprT i e, String.append_assoc] <;> rw [glue] <;> rfl
        · simp [render_exprT i e, String.append_assoc]
    | .paren _ e _ => by simp [exprT, Emit.expr, render_exprT i e, String.append_assoc]
    | .call f args _ => by simp [exprT, Emit.expr, render_elistT i args]
    | .fexp _ _ _ _ v => by simp [exprT, Emit.expr, render_optExprT i v]
    | .varptr e => by
        simp [exprT, Emit.expr, render_exprT i e, String.append_assoc]
        rw [glue]; rfl
    | .ctl c => by simp [exprT, Emit.expr]
    | .stmtExp s => by simp [exprT, Emit.expr]
    | .op o => by simp [exprT, Emit.expr]
    | .raw _ => by simp [exprT, Emit.expr]
  theorem render_exprsT (i : Int) : ∀ es : List Expr,
      render (exprsT i es) = Emit.join ", " (Emit.exprs i es)
    | [] => by simp [exprsT, Emit.exprs, Emit.join]
    | [e] => by simp [exprsT, Emit.exprs, Emit.join, render_exprT i e]
    | e :: e' :: es => by
        have ih := render_exprsT i (e' :: es)
        simp only [Emit.join, Emit.exprs] at ih
        simp [exprsT, Emit.exprs, Emit.join, String.intercalate_cons_cons, render_exprT i e, ih,
          String.append_assoc]
  theorem render_elistT (i : Int) : ∀ el : EList, render (elistT i el) = Emit.elist i el
    | .mk parens es => by
        unfold elistT Emit.elist
        simp only [render_exprsT i es]
        cases parens
        · simp [render_exprsT i es]
        · by_cases h : (Emit.join ", " (Emit.exprs i es)).isEmpty
          · simp [h]
          · simp [h, render_exprsT i es, String.append_assoc]
    | .raw _ => by simp [elistT, Emit.elist]
  theorem render_optExprT (i : Int) : ∀ v : Option Expr, render (optExprT i v) = Emit.optExpr i v
    | some e => by simp [optExprT, Emit.optExpr, render_exprT i e]
    | none => by simp [optExprT, Emit.optExpr]
end

/-! ### the operand grammar -/

mutual
  /-- BASIC09 expressions as far as operands are concerned (grouping is not decided here) -/
  inductive Exp : List K → Prop
    | lit : Exp [.lit]
    | ident : Exp [.ident]
    | app {as : List K} : Args as → Exp (.ident :: .lp :: (as ++ [.rp]))
    | bin {l r : List K} : Exp l → Exp r → Exp (l ++ .binop :: r)
    | pfx {e : List K} : Exp e → Exp (.pfx :: e)
    | paren {e : List K} : Exp e → Exp (.lp :: (e ++ [.rp]))
  /-- a non-empty comma-separated list of expressions -/
  inductive Args : List K → Prop
    | one {e : List K} : Exp e → Args e
    | more {e as : List K} : Exp e → Args as → Args (e ++ .comma :: as)
end

/-! ### scope -/

def isVar : Expr → Bool | .var .. => true | _ => false

mutual
  /-- the expression objects whose emission is claimed to be complete: names and literal texts are
  non-empty, an array reference is a variable with an index list in parentheses, a call has an
  argument list in parentheses, a functional expression has received its result variable, and
  there is no statement object, print control, bare operator or leaked parse node in operand
  position. -/
  def wfE : Expr → Bool
    | .lit l _ => Emit.litText l != ""
    | .hex .. => true
    | .var n _ => n != ""
    | .arr v idx _ => isVar v && wfE v && wfL idx
    | .bin _ l _ r => wfE l && wfE r
    | .un _ _ e => wfE e
    | .paren _ e _ => wfE e
    | .call f args _ => f != "" && wfL args
    | .fexp _ _ _ _ (some v) => isVar v && wfE v
    | .fexp _ _ _ _ none => false
    | .varptr e => wfE e
    | .ctl _ => false
    | .stmtExp _ => false
    | .op _ => false
    | .raw _ => false
  def wfEs : List Expr → Bool
    | [] => true
    | e :: es => wfE e && wfEs es
  def wfL : EList → Bool
    | .mk parens es => parens && wfEs es
    | .raw _ => false
end

/-! ### non-emptiness: a well-formed operand is never written as the empty string -/

theorem str_ne_of_bne {s : String} (h : (s != "") = true) : s ≠ "" := by
  simpa using h

mutual
  theorem exprT_ne (i : Int) : ∀ e : Expr, wfE e = true → render (exprT i e) ≠ ""
    | .lit l _, h => by
        simp only [wfE] at h
        simpa [exprT] using str_ne_of_bne h
    | .hex v f, _ => by
        simp only [exprT, hexT, Emit.hexText]
        cases f <;> by_cases hv : v < 0x8000 <;> simp [hv, String.append_eq_empty_iff] <;> decide
    | .var n _, h => by
        simp only [wfE] at h
        simpa [exprT] using str_ne_of_bne h
    | .arr v idx _, h => by
        simp only [wfE, Bool.and_eq_true] at h
        have := exprT_ne i v h.1.2
        simp [exprT, String.append_eq_empty_iff, this]
    | .bin boolean l op r, h => by
        simp only [wfE, Bool.and_eq_true] at h
        have := exprT_ne i l h.1
        unfold exprT
        split <;> simp [String.append_eq_empty_iff, this]
    | .un boolean op e, h => by
        simp only [wfE] at h
        have := exprT_ne i e h
        unfold exprT
        split <;> simp [String.append_eq_empty_iff, this]
    | .paren _ e _, _ => by simp [exprT, String.append_eq_empty_iff]
    | .call f args _, h => by
        simp only [wfE, Bool.and_eq_true] at h
        simp [exprT, String.append_eq_empty_iff, str_ne_of_bne h.1]
    | .fexp _ _ _ _ (some v), h => by
        simp only [wfE, Bool.and_eq_true] at h
        simpa [exprT, optExprT] using exprT_ne i v h.2
    | .fexp _ _ _ _ none, h => by simp [wfE] at h
    | .varptr e, _ => by simp [exprT, String.append_eq_empty_iff]
    | .ctl _, h => by simp [wfE] at h
    | .stmtExp _, h => by simp [wfE] at h
    | .op _, h => by simp [wfE] at h
    | .raw _, h => by simp [wfE] at h
end

theorem exprsT_ne (i : Int) : ∀ (e : Expr) (es : List Expr), wfE e = true →
    render (exprsT i (e :: es)) ≠ ""
  | e, [], h => by simpa [exprsT] using exprT_ne i e h
  | e, e' :: es, h => by
      simp [exprsT, String.append_eq_empty_iff, exprT_ne i e h]

/-! ### the theorem -/

mutual
  theorem exprT_wf (i : Int) : ∀ e : Expr, wfE e = true → Exp (kinds (exprT i e))
    | .lit l _, _ => by simpa [exprT] using Exp.lit
    | .hex v f, _ => by
        simp only [exprT, hexT]
        split
        · exact Exp.app (as := [.lit]) (Args.one Exp.lit)
        · exact Exp.lit
    | .var n _, _ => by simpa [exprT] using Exp.ident
    | .arr v idx _, h => by
        simp only [wfE, Bool.and_eq_true] at h
        obtain ⟨⟨hv, _⟩, hl⟩ := h
        cases v with
        | var n s =>
            have := elistT_wf i idx hl
            simp only [exprT, kinds_append, kinds_cons, kinds_nil, List.cons_append, List.nil_append]
            rcases this with h0 | ⟨as, has, hk⟩
            · rw [h0]; exact Exp.ident
            · rw [hk]; exact Exp.app has
        | _ => simp [isVar] at hv
    | .bin boolean l op r, h => by
        simp only [wfE, Bool.and_eq_true] at h
        have hl := exprT_wf i l h.1
        have hr := exprT_wf i r h.2
        unfold exprT
        split
        · simp only [kinds_append, kinds_cons, kinds_nil, List.cons_append, List.nil_append,
            List.append_assoc]
          have := Exp.app (Args.more hl (Args.one hr))
          simpa [List.append_assoc] using this
        · simp only [kinds_append, kinds_cons, kinds_nil, List.append_assoc, List.cons_append,
            List.nil_append]
          exact Exp.bin hl hr
    | .un boolean op e, h => by
        simp only [wfE] at h
        have he := exprT_wf i e h
        unfold exprT
        split
        · simp only [kinds_append, kinds_cons, kinds_nil, List.cons_append, List.nil_append]
          exact Exp.app (Args.one he)
        · simp only [kinds_append, kinds_cons, kinds_nil, List.cons_append, List.nil_append]
          exact Exp.pfx he
    | .paren _ e _, h => by
        simp only [wfE] at h
        have he := exprT_wf i e h
        simp only [exprT, kinds_append, kinds_cons, kinds_nil, List.cons_append, List.nil_append]
        exact Exp.paren he
    | .call f args _, h => by
        simp only [wfE, Bool.and_eq_true] at h
        have := elistT_wf i args h.2
        simp only [exprT, kinds_append, kinds_cons, kinds_nil, List.cons_append, List.nil_append]
        rcases this with h0 | ⟨as, has, hk⟩
        · rw [h0]; exact Exp.ident
        · rw [hk]; exact Exp.app has
    | .fexp _ _ _ _ (some v), h => by
        simp only [wfE, Bool.and_eq_true] at h
        simpa [exprT, optExprT] using exprT_wf i v h.2
    | .fexp _ _ _ _ none, h => by simp [wfE] at h
    | .varptr e, h => by
        simp only [wfE] at h
        have he := exprT_wf i e h
        simp only [exprT, kinds_append, kinds_cons, kinds_nil, List.cons_append, List.nil_append]
        exact Exp.app (Args.one he)
    | .ctl _, h => by simp [wfE] at h
    | .stmtExp _, h => by simp [wfE] at h
    | .op _, h => by simp [wfE] at h
    | .raw _, h => by simp [wfE] at h
  /-- a non-empty list of well-formed expressions is written as a complete argument list -/
  theorem exprsT_wf (i : Int) : ∀ es : List Expr, wfEs es = true →
      es = [] ∨ Args (kinds (exprsT i es))
    | [], _ => Or.inl rfl
    | [e], h => by
        simp only [wfEs, Bool.and_eq_true] at h
        right
        simpa [exprsT] using Args.one (exprT_wf i e h.1)
    | e :: e' :: es, h => by
        simp only [wfEs, Bool.and_eq_true] at h
        have ih := exprsT_wf i (e' :: es) (by simp only [wfEs, Bool.and_eq_true]; exact h.2)
        right
        rcases ih with h0 | ih
        · simp at h0
        · simp only [exprsT, kinds_append, kinds_cons, kinds_nil, List.append_assoc, List.cons_append,
            List.nil_append]
          exact Args.more (exprT_wf i e h.1) ih
  /-- an index / argument list in parentheses is written as nothing (no entries) or as
  `( e1, …, ek )` with every entry complete -/
  theorem elistT_wf (i : Int) : ∀ el : EList, wfL el = true →
      kinds (elistT i el) = [] ∨ ∃ as, Args as ∧ kinds (elistT i el) = .lp :: (as ++ [.rp])
    | .mk parens es, h => by
        simp only [wfL, Bool.and_eq_true] at h
        obtain ⟨hp, hs⟩ := h
        subst hp
        cases es with
        | nil => left; simp [elistT, exprsT]
        | cons e es =>
            simp only [wfEs, Bool.and_eq_true] at hs
            right
            have hargs : Args (kinds (exprsT i (e :: es))) := by
              rcases exprsT_wf i (e :: es) (by simp only [wfEs, Bool.and_eq_true]; exact hs) with h0 | ha
              · simp at h0
              · exact ha
            refine ⟨kinds (exprsT i (e :: es)), hargs, ?_⟩
            have hne := exprsT_ne i e es hs.1
            have : (render (exprsT i (e :: es))).isEmpty = false := by
              cases hb : (render (exprsT i (e :: es))).isEmpty with
              | false => rfl
              | true => exact absurd (String.isEmpty_iff.mp hb) hne
            simp [elistT, this]
    | .raw _, h => by simp [wfL] at h
end

/-! ### the structural tokens are what they are called

`render_exprT` would also hold for a token function that hides text inside a token of the wrong kind.
`exprT` is an explicit function, so this can be read off its definition; `exprT_tokOK` states it: in
scope, every token of kind `lp` / `rp` / `comma` is spelled `(` / `)` / `, `, operator tokens are the
object's operator between / before blanks, and there is no `bad` token (no statement text, print
control, bare operator or leak marker inside an expression). -/

def TokOK (t : Tok) : Prop :=
  match t.k with
  | .lp => t.text = "("
  | .rp => t.text = ")"
  | .comma => t.text = ", "
  | .pfx => ∃ op : String, t.text = op ++ " "
  | .binop => ∃ op : String, t.text = " " ++ op ++ " "
  | .bad => False
  | .kw => False
  | _ => True

mutual
  theorem exprT_tokOK (i : Int) : ∀ e : Expr, wfE e = true → ∀ t ∈ exprT i e, TokOK t
    | .lit l _, _, t, ht => by simp [exprT] at ht; subst ht; simp [TokOK]
    | .hex v f, _, t, ht => by
        simp only [exprT, hexT] at ht
        split at ht
        · simp at ht; rcases ht with rfl | rfl | rfl | rfl <;> simp [TokOK]
        · simp at ht; subst ht; simp [TokOK]
    | .var n _, _, t, ht => by simp [exprT] at ht; subst ht; simp [TokOK]
    | .arr v idx _, h, t, ht => by
        simp only [wfE, Bool.and_eq_true] at h
        simp only [exprT, List.mem_append] at ht
        rcases ht with ht | ht
        · exact exprT_tokOK i v h.1.2 t ht
        · exact elistT_tokOK i idx h.2 t ht
    | .bin boolean l op r, h, t, ht => by
        simp only [wfE, Bool.and_eq_true] at h
        unfold exprT at ht
        split at ht
        · simp only [List.mem_append, List.mem_cons, List.not_mem_nil, or_false] at ht
          rcases ht with ((((rfl | rfl) | ht) | rfl) | ht) | rfl
          · simp [TokOK]
          · simp [TokOK]
          · exact exprT_tokOK i l h.1 t ht
          · simp [TokOK]
          · exact exprT_tokOK i r h.2 t ht
          · simp [TokOK]
        · simp only [List.mem_append, List.mem_cons, List.not_mem_nil, or_false] at ht
          rcases ht with (ht | rfl) | ht
          · exact exprT_tokOK i l h.1 t ht
          · exact ⟨op, rfl⟩
          · exact exprT_tokOK i r h.2 t ht
    | .un boolean op e, h, t, ht => by
        simp only [wfE] at h
        unfold exprT at ht
        split at ht
        · simp only [List.mem_append, List.mem_cons, List.not_mem_nil, or_false] at ht
          rcases ht with ((rfl | rfl) | ht) | rfl
          · simp [TokOK]
          · simp [TokOK]
          · exact exprT_tokOK i e h t ht
          · simp [TokOK]
        · simp only [List.mem_append, List.mem_cons, List.not_mem_nil, or_false] at ht
          rcases ht with rfl | ht
          · exact ⟨op, rfl⟩
          · exact exprT_tokOK i e h t ht
    | .paren _ e _, h, t, ht => by
        simp only [wfE] at h
        simp only [exprT, List.mem_append, List.mem_cons, List.not_mem_nil, or_false] at ht
        rcases ht with (rfl | ht) | rfl
        · simp [TokOK]
        · exact exprT_tokOK i e h t ht
        · simp [TokOK]
    | .call f args _, h, t, ht => by
        simp only [wfE, Bool.and_eq_true] at h
        simp only [exprT, List.mem_append, List.mem_cons, List.not_mem_nil, or_false] at ht
        rcases ht with rfl | ht
        · simp [TokOK]
        · exact elistT_tokOK i args h.2 t ht
    | .fexp _ _ _ _ (some v), h, t, ht => by
        simp only [wfE, Bool.and_eq_true] at h
        simp only [exprT, optExprT] at ht
        exact exprT_tokOK i v h.2 t ht
    | .fexp _ _ _ _ none, h, _, _ => by simp [wfE] at h
    | .varptr e, h, t, ht => by
        simp only [wfE] at h
        simp only [exprT, List.mem_append, List.mem_cons, List.not_mem_nil, or_false] at ht
        rcases ht with ((rfl | rfl) | ht) | rfl
        · simp [TokOK]
        · simp [TokOK]
        · exact exprT_tokOK i e h t ht
        · simp [TokOK]
    | .ctl _, h, _, _ => by simp [wfE] at h
    | .stmtExp _, h, _, _ => by simp [wfE] at h
    | .op _, h, _, _ => by simp [wfE] at h
    | .raw _, h, _, _ => by simp [wfE] at h
  theorem exprsT_tokOK (i : Int) : ∀ es : List Expr, wfEs es = true → ∀ t ∈ exprsT i es, TokOK t
    | [], _, t, ht => by simp [exprsT] at ht
    | [e], h, t, ht => by
        simp only [wfEs, Bool.and_eq_true] at h
        simp only [exprsT] at ht
        exact exprT_tokOK i e h.1 t ht
    | e :: e' :: es, h, t, ht => by
        simp only [wfEs, Bool.and_eq_true] at h
        simp only [exprsT, List.mem_append, List.mem_cons, List.not_mem_nil, or_false] at ht
        rcases ht with (ht | rfl) | ht
        · exact exprT_tokOK i e h.1 t ht
        · simp [TokOK]
        · exact exprsT_tokOK i (e' :: es) (by simp only [wfEs, Bool.and_eq_true]; exact h.2) t ht
  theorem elistT_tokOK (i : Int) : ∀ el : EList, wfL el = true → ∀ t ∈ elistT i el, TokOK t
    | .mk parens es, h, t, ht => by
        simp only [wfL, Bool.and_eq_true] at h
        obtain ⟨hp, hs⟩ := h
        subst hp
        simp only [elistT, ↓reduceIte] at ht
        split at ht
        · simp at ht
        · simp only [List.mem_append, List.mem_cons, List.not_mem_nil, or_false] at ht
          rcases ht with (rfl | ht) | rfl
          · simp [TokOK]
          · exact exprsT_tokOK i es hs t ht
          · simp [TokOK]
    | .raw _, h, _, _ => by simp [wfL] at h
end

/-- **C07, operand clause.**  For every expression object in scope, the text `Emit.expr` writes is
the concatenation of the tokens `exprT` lists; those tokens' kinds form a complete BASIC09 expression
(every binary operator stands between two expressions, every prefix operator before one, every call /
index / `LAND` / `LOR` / `LNOT` / `NOT` / `ADDR` / `float` has a parenthesised, comma-separated,
non-empty list of complete expressions); and the structural tokens are spelled as what they are. -/
theorem expr_wellformed (i : Int) (e : Expr) (h : wfE e = true) :
    Emit.expr i e = render (exprT i e) ∧ Exp (kinds (exprT i e)) ∧ ∀ t ∈ exprT i e, TokOK t :=
  ⟨(render_exprT i e).symm, exprT_wf i e h, exprT_tokOK i e h⟩

/-- the number of top-level commas of an argument list is one less than the number of argument
objects: no operand is dropped or duplicated by the joiner -/
theorem exprsT_commas (i : Int) : ∀ es : List Expr,
    (exprsT i es).length = ((es.map (fun e => (exprT i e).length)).sum + (es.length - 1))
  | [] => by simp [exprsT]
  | [e] => by simp [exprsT]
  | e :: e' :: es => by
      have ih := exprsT_commas i (e' :: es)
      simp only [exprsT, List.length_append, List.length_cons, List.length_nil, ih, List.map_cons,
        List.sum_cons]
      omega

/-- the exclusion is needed: a functional expression that never got its result variable is written
as the empty string (so `A = ABS(<it>)` would read `ABS()`), and a leaked node as a marker -/
theorem not_wf_witness :
    Emit.expr 0 (.call "ABS" (.mk true [.fexp false "ecb_int" (.mk true [.var "B" false]) false none]) false)
      = "ABS" ∧
    wfE (.call "ABS" (.mk true [.fexp false "ecb_int" (.mk true [.var "B" false]) false none]) false)
      = false := by
  constructor
  · decide
  · decide

/-- non-vacuity: `A(I+1) * -LAND(B, 3) ^ FIX(tmp_1)` is in scope -/
example : wfE (.bin false (.arr (.var "arr_A" false) (.mk true [.bin false (.var "I" false) "+" (.lit (.flt "1.0") false)]) false)
    "*" (.un false "-" (.bin false (.bin false (.var "B" false) "AND" (.lit (.flt "3.0") false)) "^"
      (.call "FIX" (.mk true [.fexp false "ecb_int" (.mk true [.var "C" false]) false (some (.var "tmp_1" false))]) false))))
    = true := by decide

end CocoVerif.Props.C07Expr
