import CocoVerif.Props.C19Bytes
/-!
# C19 — the two run-length paths, for **arbitrary bytes**

`C19Bytes` gives, for every format, the exact number of samples a successful run wrote as a function of
the input - except for run-length MGE and squashed VEF.  Here they are:

* `mgeRun_count`, `mgeRle_size` — run-length MGE: a successful run wrote `6 · mgeDumps counts 32000` samples,
  where `mgeDumps` is the explicit arithmetic of the decoder's budget (`y` counts down from 32000; a run
  is cut where the budget reaches 0, **but the loop goes on**: every later run still writes one byte).
  `mge_rle_complete_iff`: the picture is complete iff that number is 32000 - the listed finding
  `mge-rle-total-not-32000` is exactly the complement; `mge_rle_short_witness`, `mge_rle_long_witness`.
* `vefRecords_size`, `vef_squashed_rows` — squashed VEF: every one of the 400 records contributes
  `min(row length, bytes the record unsquashes to)` bytes; the image is complete iff every record
  unsquashes to at least a row (`vef_squashed_complete_iff`) - the complement is the listed finding
  `vef-data-length`.
-/
namespace CocoVerif.Props.C19Rle
open CocoVerif.Model.Img CocoVerif.Props.Img

/-! ### run-length MGE -/

/-- number of bytes one `(count, value)` run dumps under budget `y`, and the budget afterwards -/
def runDumps : Nat → Int → Nat × Int
  | 0, y => (0, y)
  | k + 1, y => if y - 1 ≤ 0 then (1, y - 1) else let (n, y') := runDumps k (y - 1); (n + 1, y')

theorem mgeRun_count (d : List Nat) : ∀ (k : Nat) (y : Int),
    (mgeRun d k y).1.length = (runDumps k y).1 * d.length ∧ (mgeRun d k y).2 = (runDumps k y).2
  | 0, y => by simp [mgeRun, runDumps]
  | k + 1, y => by
      by_cases hy : y - 1 ≤ 0
      · simp [mgeRun, runDumps, hy]
      · have ih := mgeRun_count d k (y - 1)
        simp only [mgeRun, runDumps, hy, if_false]
        refine ⟨?_, ih.2⟩
        simp only [List.length_append, ih.1]
        rw [Nat.add_mul]; omega

/-- closed form: a run of `k ≥ 1` bytes under a budget `y` dumps `min k (max y 1)` bytes -/
theorem runDumps_closed : ∀ (k : Nat) (y : Int), 0 < k →
    ((runDumps k y).1 : Int) = min (k : Int) (max y 1) ∧ (runDumps k y).2 = y - (runDumps k y).1
  | 0, _, h => by omega
  | k + 1, y, _ => by
      by_cases hy : y - 1 ≤ 0
      · simp only [runDumps, hy, if_true]
        constructor <;> omega
      · simp only [runDumps, hy, if_false]
        by_cases hk : k = 0
        · subst hk
          simp only [runDumps]
          constructor <;> omega
        · have ih := runDumps_closed k (y - 1) (by omega)
          constructor
          · have := ih.1
            push_cast
            omega
          · have := ih.2
            push_cast
            omega

/-- bytes dumped by the whole `(count, value)` loop, read off the count bytes alone -/
def mgeDumps : List Nat → Int → Nat
  | [], _ => 0
  | b :: rest, y =>
      if b = 0 then 0 else
      match rest with
      | [] => 0
      | _ :: rest' => (runDumps b y).1 + mgeDumps rest' (runDumps b y).2

/-- **run-length MGE, arbitrary bytes**: a successful run of the loop wrote six samples per dumped byte -/
theorem mgeRle_size (pal : List Nat) : ∀ (bs : List Nat) (y : Int) (out : List Nat),
    mgeRle pal bs y = .ok out → out.length = 6 * mgeDumps bs y
  | [], _, out, h => by simp [mgeRle, throw, throwThe, MonadExceptOf.throw] at h
  | [b], y, out, h => by
      by_cases hb : b = 0
      · simp [mgeRle, hb, pure, Except.pure] at h
        subst h; simp [mgeDumps, hb]
      · simp [mgeRle, hb, throw, throwThe, MonadExceptOf.throw] at h
  | b :: a :: rest, y, out, h => by
      by_cases hb : b = 0
      · simp [mgeRle, hb, pure, Except.pure] at h
        subst h; simp [mgeDumps, hb]
      · simp only [mgeRle, hb, if_false, bind, Except.bind] at h
        cases hd : dumpByte pal a with
        | error e => simp [hd] at h
        | ok d =>
          simp only [hd] at h
          cases hr : mgeRle pal rest (mgeRun d b y).2 with
          | error e => simp [hr] at h
          | ok r =>
            simp only [hr, pure, Except.pure, Except.ok.injEq] at h
            subst h
            have hc := mgeRun_count d b y
            have ih := mgeRle_size pal rest _ r hr
            have hd6 := dumpByte_len pal a d hd
            simp only [mgeDumps, hb, if_false, List.length_append, hc.1, hd6, ih, hc.2]
            omega

/-- **run-length MGE file, arbitrary bytes**: a successful run through the run-length branch has written
`6 · mgeDumps …` samples under the 320 × 200 header; it is a complete picture **iff** the loop dumped
exactly 32000 bytes.  (`mge-rle-total-not-32000` is the complement.) -/
theorem mge_rle_complete_iff (pal rest body : List Nat) (h : mgeRle pal rest 32000 = .ok body) :
    body.length = 3 * 320 * 200 ↔ mgeDumps rest 32000 = 32000 := by
  rw [mgeRle_size pal rest 32000 body h]; omega

/-- a stream that ends early is "decoded" short: one run of 10 bytes, then the end marker -/
theorem mge_rle_short_witness : mgeDumps [10, 0, 0] 32000 = 10 := by decide
/-- and once the budget is used up every further run still writes a byte (shown with a budget of 4: three runs
of 3 bytes dump 3 + 1 + 1 bytes; with the real budget the same happens after 32000 bytes) -/
theorem mge_rle_long_witness : mgeDumps [3, 0, 3, 0, 3, 0, 0] 4 = 5 := by decide

/-! ### squashed VEF -/

/-- per record: how many bytes the record unsquashes to (`none`: the decoder raises) -/
def recLens (data : List Nat) : Nat → Nat → Option (List Nat)
  | 0, _ => some []
  | k + 1, pos =>
    match data[pos]? with
    | none => none
    | some count =>
      match unsq ((data.drop (pos + 1)).take count) count with
      | .error _ => none
      | .ok d => (recLens data k (pos + count + 1)).map (fun r => d.length :: r)

/-- **squashed VEF, arbitrary bytes**: the image assembled from `k` records holds `min(row, unsquashed length)`
bytes per record -/
theorem vefRecords_size (data : List Nat) (origLen : Nat) : ∀ (k pos : Nat) (img : List Nat),
    vefRecords data origLen k pos = .ok img →
    ∃ lens, recLens data k pos = some lens ∧ lens.length = k ∧
      img.length = (lens.map (fun l => min origLen l)).sum
  | 0, _, img, h => by
      simp [vefRecords, pure, Except.pure] at h
      subst h
      exact ⟨[], rfl, rfl, rfl⟩
  | k + 1, pos, img, h => by
      unfold vefRecords at h
      cases hc : data[pos]? with
      | none => simp [hc, throw, throwThe, MonadExceptOf.throw] at h
      | some count =>
        simp only [hc, bind, Except.bind] at h
        cases hu : unsq ((data.drop (pos + 1)).take count) count with
        | error e => simp [hu] at h
        | ok d =>
          simp only [hu] at h
          cases hr : vefRecords data origLen k (pos + count + 1) with
          | error e => simp [hr] at h
          | ok r =>
            simp only [hr, pure, Except.pure, Except.ok.injEq] at h
            subst h
            obtain ⟨lens, h1, h2, h3⟩ := vefRecords_size data origLen k _ r hr
            refine ⟨d.length :: lens, ?_, by simp [h2], ?_⟩
            · simp [recLens, hc, hu, h1]
            · simp [List.length_append, List.length_take, h3]

theorem sum_min_le (n : Nat) : ∀ lens : List Nat, (lens.map (fun l => min n l)).sum ≤ lens.length * n
  | [] => by simp
  | l :: lens => by
      have := sum_min_le n lens
      simp only [List.map_cons, List.sum_cons, List.length_cons, Nat.add_mul]
      have : min n l ≤ n := Nat.min_le_left _ _
      omega

theorem sum_min_full (n : Nat) : ∀ lens : List Nat,
    (lens.map (fun l => min n l)).sum = lens.length * n ↔ ∀ l ∈ lens, n ≤ l
  | [] => by simp
  | l :: lens => by
      have hle := sum_min_le n lens
      have ih := sum_min_full n lens
      simp only [List.map_cons, List.sum_cons, List.length_cons, Nat.add_mul, List.mem_cons, forall_eq_or_imp]
      have h1 : min n l ≤ n := Nat.min_le_left _ _
      constructor
      · intro h
        have hl : min n l = n := by omega
        have hs : (lens.map (fun l => min n l)).sum = lens.length * n := by omega
        exact ⟨by omega, ih.mp hs⟩
      · intro ⟨hl, hrest⟩
        have := ih.mpr hrest
        have : min n l = n := by omega
        omega

/-- **the squashed image is never longer than 400 rows, and complete iff every record unsquashes to at
least a row** - whatever the bytes.  The complement (a record that unsquashes short) is `vef-data-length`. -/
theorem vef_squashed_complete_iff (data : List Nat) (origLen : Nat) (img : List Nat)
    (h : vefRecords data origLen 400 18 = .ok img) :
    img.length ≤ 400 * origLen ∧
    ∃ lens, recLens data 400 18 = some lens ∧ (img.length = 400 * origLen ↔ ∀ l ∈ lens, origLen ≤ l) := by
  obtain ⟨lens, h1, h2, h3⟩ := vefRecords_size data origLen 400 18 img h
  have hle := sum_min_le origLen lens
  have hfull := sum_min_full origLen lens
  rw [h2] at hle hfull
  refine ⟨by omega, lens, h1, ?_⟩
  rw [h3]; exact hfull

end CocoVerif.Props.C19Rle
