import CocoVerif.Model.Compile
import CocoVerif.Props.C07

/-!
# C02 — control flow of the translated program follows the source program

Proved here (model level):
* the NEXT patcher: a FOR pushes its variable, a bare NEXT takes the variable of the innermost open
  FOR and closes it, a NEXT with variables is left alone (`next_patch_*`);
* the ELSE-IF translation: the emitted `LOOP / EXITIF … ENDEXIT / ENDLOOP` takes the branch of the
  first true guard exactly like the source's IF / ELSE IF chain, and the final `EXITIF TRUE` is the
  ELSE branch (`elseif_loop_equiv`); **without** a final ELSE and with all guards false the loop
  never exits (`elseif_without_else_diverges`, for every fuel) — a known finding;
* block structure is balanced (`C07.blocks_balanced`).

Not proved: a simulation between the two languages' small-step semantics.  It is replaced by the
trace comparison of the control-flow suite on the real output (reference machines for Color BASIC
and BASIC09 in harness/ctlsem.py); four known-finding classes.
-/
namespace CocoVerif.Props.C02
open CocoVerif.Model CocoVerif.Model.Compile

/-- a FOR opens a loop: its variable goes on the stack -/
theorem next_patch_for (v a b : Expr) (stp : Option Expr) (p : List Expr) (st : List Expr) :
    nextPatch (.for_ v a b stp p) st = (.for_ v a b stp p, v :: st) := by
  simp [nextPatch]

/-- a bare NEXT closes the innermost open FOR and is given its variable -/
theorem next_patch_innermost (par : Bool) (p : List Expr) (v : Expr) (st : List Expr) :
    nextPatch (.next (.mk par []) p) (v :: st) = (.next (.mk par [v]) p, st) := by
  simp [nextPatch]

/-- with no open FOR a bare NEXT stays bare (the C07 finding `bare-next`) -/
theorem next_patch_no_open_for (par : Bool) (p : List Expr) :
    nextPatch (.next (.mk par []) p) [] = (.next (.mk par []) p, []) := by
  simp [nextPatch]

/-- a NEXT that names its variables is not touched and closes as many open loops as it names
(before the repair eb3f0fe it closed none: `FOR I:FOR J:NEXT J:NEXT` gave the bare NEXT `J` again) -/
theorem next_patch_named (par : Bool) (e : Expr) (es : List Expr) (p : List Expr) (st : List Expr) :
    nextPatch (.next (.mk par (e :: es)) p) st = (.next (.mk par (e :: es)) p, st.drop (es.length + 1)) := by
  cases st <;> simp [nextPatch]

/-- lexically nested loops closed by name, then a bare NEXT: it receives the outer variable -/
theorem next_after_named_next (i j : Expr) (a b : Expr) (p : List Expr) (par : Bool) :
    let s1 := (nextPatch (.for_ i a b none p) []).2
    let s2 := (nextPatch (.for_ j a b none p) s1).2
    let s3 := (nextPatch (.next (.mk par [j]) p) s2).2
    (nextPatch (.next (.mk par []) p) s3).1 = .next (.mk par [i]) p := by
  simp [nextPatch]

/-! ### the ELSE-IF chain as a loop -/

/-- index of the first true guard -/
def firstTrue : List Bool → Option Nat
  | [] => none
  | true :: _ => some 0
  | false :: gs => (firstTrue gs).map (· + 1)

/-- what the source does: branch of the first true guard, else the ELSE branch if there is one,
else fall through to the next line -/
inductive Taken | branch (k : Nat) | elseBranch | fallThrough
  deriving DecidableEq, Repr

def chainRun (guards : List Bool) (hasElse : Bool) : Taken :=
  match firstTrue guards with
  | some k => .branch k
  | none => if hasElse then .elseBranch else .fallThrough

/-- the emitted loop: one pass tries the EXITIFs in order (the last one is `EXITIF TRUE` when the
source has an ELSE); when none fires, ENDLOOP jumps back to LOOP.  `none` = still looping when
the fuel is used up. -/
def loopRun (guards : List Bool) (hasElse : Bool) : Nat → Option Taken
  | 0 => none
  | fuel + 1 =>
    match firstTrue guards with
    | some k => some (.branch k)
    | none => if hasElse then some .elseBranch else loopRun guards hasElse fuel

/-- whenever some branch applies (a guard is true or there is an ELSE) the loop performs exactly
that branch, in its first pass, and leaves -/
theorem elseif_loop_equiv (guards : List Bool) (hasElse : Bool) (fuel : Nat)
    (h : chainRun guards hasElse ≠ .fallThrough) :
    loopRun guards hasElse (fuel + 1) = some (chainRun guards hasElse) := by
  unfold chainRun at h ⊢
  unfold loopRun
  cases hf : firstTrue guards with
  | some k => simp
  | none =>
      cases hasElse with
      | true => simp
      | false => simp [hf] at h

/-- no ELSE and every guard false: the source falls through to the next line, the emitted loop
never exits — for every amount of fuel -/
theorem elseif_without_else_diverges (guards : List Bool) (h : firstTrue guards = none) :
    chainRun guards false = .fallThrough ∧ ∀ fuel, loopRun guards false fuel = none := by
  refine ⟨by simp [chainRun, h], ?_⟩
  intro fuel
  induction fuel with
  | zero => rfl
  | succ f ih => simp [loopRun, h, ih]

/-- non-vacuity: `IF A=1 … ELSE IF A=2 …` with A=3 -/
example : loopRun [false, false] false 50 = none ∧ chainRun [false, false] false = .fallThrough := by decide

end CocoVerif.Props.C02
