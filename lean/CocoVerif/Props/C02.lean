import CocoVerif.Model.Compile
import CocoVerif.Props.C07

/-!
# C02 — control flow of the translated program follows the source program

Proved here (model level):
* the NEXT patcher: a FOR pushes its variable, a bare NEXT takes the variable of the innermost open
  FOR and closes it, a NEXT with variables closes the loops it names (`next_patch_*`); for **every**
  lexically nested statement list the patched list has no bare NEXT left and every NEXT names exactly
  the innermost open loop(s) it closes (`next_patch_explicit`, induction over the list);
* the ELSE-IF translation: the emitted `LOOP / EXITIF … ENDEXIT / ENDLOOP` takes the branch of the
  first true guard exactly like the source's IF / ELSE IF chain, and the final `EXITIF TRUE` is the
  ELSE branch (`elseif_loop_equiv`); **without** a final ELSE and with all guards false the loop
  never exits (`elseif_without_else_diverges`, for every fuel) — a known finding;
* block structure is balanced (`C07.blocks_balanced`).

Not proved: a simulation between the two languages' small-step semantics.  It is replaced by the
trace comparison of the control-flow suite on the real output (reference machines for Color BASIC
and BASIC09 in harness/ctlsem.py); four known-finding classes.
-/
namespace CocoVerif.Props.C02
open CocoVerif.Model CocoVerif.Model.Compile

/-- a FOR opens a loop: its variable goes on the stack -/
theorem next_patch_for (v a b : Expr) (stp : Option Expr) (p : List Expr) (st : List Expr) :
    nextPatch (.for_ v a b stp p) st = (.for_ v a b stp p, v :: st) := by
  simp [nextPatch]

/-- a bare NEXT closes the innermost open FOR and is given its variable -/
theorem next_patch_innermost (par : Bool) (p : List Expr) (v : Expr) (st : List Expr) :
    nextPatch (.next (.mk par []) p) (v :: st) = (.next (.mk par [v]) p, st) := by
  simp [nextPatch]

/-- with no open FOR a bare NEXT stays bare (the C07 finding `bare-next`) -/
theorem next_patch_no_open_for (par : Bool) (p : List Expr) :
    nextPatch (.next (.mk par []) p) [] = (.next (.mk par []) p, []) := by
  simp [nextPatch]

/-- a NEXT that names its variables is not touched and closes as many open loops as it names
(before the repair eb3f0fe it closed none: `FOR I:FOR J:NEXT J:NEXT` gave the bare NEXT `J` again) -/
theorem next_patch_named (par : Bool) (e : Expr) (es : List Expr) (p : List Expr) (st : List Expr) :
    nextPatch (.next (.mk par (e :: es)) p) st = (.next (.mk par (e :: es)) p, st.drop (es.length + 1)) := by
  cases st <;> simp [nextPatch]

/-- lexically nested loops closed by name, then a bare NEXT: it receives the outer variable -/
theorem next_after_named_next (i j : Expr) (a b : Expr) (p : List Expr) (par : Bool) :
    let s1 := (nextPatch (.for_ i a b none p) []).2
    let s2 := (nextPatch (.for_ j a b none p) s1).2
    let s3 := (nextPatch (.next (.mk par [j]) p) s2).2
    (nextPatch (.next (.mk par []) p) s3).1 = .next (.mk par [i]) p := by
  simp [nextPatch]

/-! ### a whole statement list: after the patcher every NEXT names the loop(s) it closes -/

inductive Kind | for_ (v : Expr) | next (vars : List Expr) | other

/-- what the patcher sees of a statement that has no statements inside it -/
def kindOf : Stmt → Option Kind
  | .for_ v _ _ _ _ => some (.for_ v)
  | .next (.mk _ vs) _ => some (.next vs)
  | .next (.raw _) _ => none
  | .stmts .. | .if_ .. | .ifElse .. => none
  | _ => some .other

/-- lexically nested loops: a bare NEXT needs an open loop, a NEXT with names must name the innermost
open loops, innermost first; `explicit` additionally forbids bare NEXTs -/
def nested (explicit : Bool) : List Stmt → List Expr → Prop
  | [], _ => True
  | s :: ss, st =>
    match kindOf s with
    | none => False
    | some (.for_ v) => nested explicit ss (v :: st)
    | some .other => nested explicit ss st
    | some (.next []) => explicit = false ∧ (match st with | _ :: st' => nested explicit ss st' | [] => False)
    | some (.next (v :: vs)) => (v :: vs) = st.take (vs.length + 1) ∧ nested explicit ss (st.drop (vs.length + 1))

theorem nextPatch_other (s : Stmt) (st : List Expr) (h : kindOf s = some .other) : nextPatch s st = (s, st) := by
  cases s <;> simp_all [kindOf, nextPatch]
  all_goals (rename_i vars p; cases vars <;> simp_all [kindOf])

/-- **for every lexically nested statement list**: the patched list is lexically nested too, with no
bare NEXT left — each NEXT names exactly the innermost open loop(s) it closes, so BASIC09's block
pairing closes the loop the source's NEXT closed -/
theorem next_patch_explicit : ∀ (ss : List Stmt) (st : List Expr), nested false ss st →
    nested true (nextPatchList ss st).1 st
  | [], st, _ => by simp [nextPatchList, nested]
  | s :: ss, st, h => by
      simp only [nested] at h
      cases hk : kindOf s with
      | none => simp [hk] at h
      | some k =>
        simp only [hk] at h
        cases k with
        | other =>
            have := nextPatch_other s st hk
            simp only [nextPatchList, this, nested, hk]
            exact next_patch_explicit ss st h
        | for_ v =>
            cases s with
            | for_ v' a b stp p =>
                simp only [kindOf, Option.some.injEq, Kind.for_.injEq] at hk
                subst hk
                simp only [nextPatchList, nextPatch, nested, kindOf]
                exact next_patch_explicit ss (v' :: st) h
            | next el p => cases el <;> simp [kindOf] at hk
            | _ => simp [kindOf] at hk
        | next vars =>
            cases s with
            | next el p =>
              cases el with
              | raw t => simp [kindOf] at hk
              | mk par es =>
                simp only [kindOf, Option.some.injEq, Kind.next.injEq] at hk
                subst hk
                cases es with
                | nil =>
                    cases st with
                    | nil => exact absurd h.2 (by simp)
                    | cons v st' =>
                        simp only [nextPatchList, nextPatch, nested, kindOf, List.length_nil, Nat.zero_add, List.take_succ_cons,
                          List.take_zero, List.drop_succ_cons, List.drop_zero, true_and]
                        exact next_patch_explicit ss st' h.2
                | cons e es' =>
                    have hp : nextPatch (.next (.mk par (e :: es')) p) st = (.next (.mk par (e :: es')) p, st.drop (es'.length + 1)) :=
                      next_patch_named par e es' p st
                    simp only [nextPatchList, hp, nested, kindOf]
                    exact ⟨h.1, next_patch_explicit ss _ h.2⟩
            | _ => simp [kindOf] at hk

-- FOR I : FOR J : NEXT J : NEXT   is lexically nested; after the patcher it reads NEXT J : NEXT I
example : (nextPatchList [.for_ (.var "I" false) (.var "A" false) (.var "B" false) none [],
      .for_ (.var "J" false) (.var "A" false) (.var "B" false) none [], .next (.mk false [.var "J" false]) [],
      .next (.mk false []) []] []).1 =
    [.for_ (.var "I" false) (.var "A" false) (.var "B" false) none [],
      .for_ (.var "J" false) (.var "A" false) (.var "B" false) none [], .next (.mk false [.var "J" false]) [],
      .next (.mk false [.var "I" false]) []] := by
  simp [nextPatchList, nextPatch]

/-! ### the ELSE-IF chain as a loop -/

/-- index of the first true guard -/
def firstTrue : List Bool → Option Nat
  | [] => none
  | true :: _ => some 0
  | false :: gs => (firstTrue gs).map (· + 1)

/-- what the source does: branch of the first true guard, else the ELSE branch if there is one,
else fall through to the next line -/
inductive Taken | branch (k : Nat) | elseBranch | fallThrough
  deriving DecidableEq, Repr

def chainRun (guards : List Bool) (hasElse : Bool) : Taken :=
  match firstTrue guards with
  | some k => .branch k
  | none => if hasElse then .elseBranch else .fallThrough

/-- the emitted loop: one pass tries the EXITIFs in order (the last one is `EXITIF TRUE` when the
source has an ELSE); when none fires, ENDLOOP jumps back to LOOP.  `none` = still looping when
the fuel is used up. -/
def loopRun (guards : List Bool) (hasElse : Bool) : Nat → Option Taken
  | 0 => none
  | fuel + 1 =>
    match firstTrue guards with
    | some k => some (.branch k)
    | none => if hasElse then some .elseBranch else loopRun guards hasElse fuel

/-- whenever some branch applies (a guard is true or there is an ELSE) the loop performs exactly
that branch, in its first pass, and leaves -/
theorem elseif_loop_equiv (guards : List Bool) (hasElse : Bool) (fuel : Nat)
    (h : chainRun guards hasElse ≠ .fallThrough) :
    loopRun guards hasElse (fuel + 1) = some (chainRun guards hasElse) := by
  unfold chainRun at h ⊢
  unfold loopRun
  cases hf : firstTrue guards with
  | some k => simp
  | none =>
      cases hasElse with
      | true => simp
      | false => simp [hf] at h

/-- no ELSE and every guard false: the source falls through to the next line, the emitted loop
never exits — for every amount of fuel -/
theorem elseif_without_else_diverges (guards : List Bool) (h : firstTrue guards = none) :
    chainRun guards false = .fallThrough ∧ ∀ fuel, loopRun guards false fuel = none := by
  refine ⟨by simp [chainRun, h], ?_⟩
  intro fuel
  induction fuel with
  | zero => rfl
  | succ f ih => simp [loopRun, h, ih]

/-- non-vacuity: `IF A=1 … ELSE IF A=2 …` with A=3 -/
example : loopRun [false, false] false 50 = none ∧ chainRun [false, false] false = .fallThrough := by decide

end CocoVerif.Props.C02
