import CocoVerif.Model.Passes
set_option linter.unusedSimpArgs false

/-!
# C05 — functions turned into procedure calls are evaluated once, first, and in order

Theorems about `Model.Passes.pExpr` / `pStmt` (the model of `BasicFunctionalExpressionPatcherVisitor`
together with the `visit` methods that drive it):

* hoisted calls are only ever **appended** to the statement's list — never dropped, reordered or
  overwritten (`pre_prefix`);
* an expression yields **exactly one** hoisted call per convertible function in it (`hoist_count`):
  no call is lost, none is duplicated;
* the call of a function comes **after** the calls hoisted from its own arguments (innermost first)
  and operands are processed **left to right** (`hoist_innermost_first`, `hoist_left_to_right`);
* temporaries: the allocator hands out the next name of its kind and moves that counter on
  (`alloc_next`); an expression takes **exactly one** new temporary per pending function and the
  counters only grow (`hoist_temps`) - so no name is handed out twice within a statement.

Scope: expressions without a statement object in operand position (`noSE`).  The excluded case is
the known finding "hoisted call captured by the default-colour call" (HCIRCLE without colour).
-/
namespace CocoVerif.Props.C05
open CocoVerif.Model CocoVerif.Model.Passes

mutual
  /-- no statement object (and no leaked node) in operand position -/
  def noSE : Expr → Bool
    | .arr _ idx _ => noSEL idx
    | .bin _ l _ r => noSE l && noSE r
    | .un _ _ e => noSE e
    | .paren _ e _ => noSE e
    | .call _ args _ => noSEL args
    | .fexp _ _ args _ v => noSEL args && noSEO v
    | .stmtExp _ => false
    | .raw _ => false
    | _ => true
  def noSEs : List Expr → Bool
    | [] => true
    | e :: es => noSE e && noSEs es
  def noSEL : EList → Bool
    | .mk _ es => noSEs es
    | .raw _ => false
  def noSEO : Option Expr → Bool
    | some e => noSE e
    | none => true
end

mutual
  /-- the convertible functions of an expression that still need a result variable -/
  def pending : Expr → Nat
    | .arr _ idx _ => pendingL idx
    | .bin _ l _ r => pending l + pending r
    | .un _ _ e => pending e
    | .paren _ e _ => pending e
    | .call _ args _ => pendingL args
    | .fexp _ _ args _ v => pendingL args + (if v.isSome then pendingO v else 1)
    | _ => 0
  def pendings : List Expr → Nat
    | [] => 0
    | e :: es => pending e + pendings es
  def pendingL : EList → Nat
    | .mk _ es => pendings es
    | .raw _ => 0
  def pendingO : Option Expr → Nat
    | some e => pending e
    | none => 0
end

/-- innermost first: the call of a convertible function is appended after everything its own
arguments hoisted -/
theorem hoist_innermost_first (j : Bool) (f : String) (args : EList) (s : Bool) (r : Reg) :
    ∃ call, (pExpr (.fexp j f args s none) r).2.pre = (pEList args r).2.pre ++ [call] := by
  simp only [pExpr]
  cases h : pEList args r with
  | mk a' r1 =>
    simp only [Option.isSome_none, Bool.false_eq_true, ↓reduceIte]
    cases s <;> simp [Reg.alloc]

/-- left to right: the right operand is processed with the register the left operand left behind -/
theorem hoist_left_to_right (b : Bool) (l : Expr) (op : String) (r' : Expr) (r : Reg) :
    (pExpr (.bin b l op r') r).2 = (pExpr r' (pExpr l r).2).2 := by
  simp [pExpr]

theorem alloc_pre (r : Reg) (s : Bool) : (r.alloc s).2.pre = r.pre := by
  cases s <;> simp [Reg.alloc]

mutual
  /-- one hoisted call per pending function, appended to what was there -/
  theorem hoist_count : ∀ (e : Expr) (r : Reg), noSE e = true →
      ∃ new, (pExpr e r).2.pre = r.pre ++ new ∧ new.length = pending e ∧ (pExpr e r).2.crash = r.crash
    | .lit .., r, _ => ⟨[], by simp [pExpr, pending]⟩
    | .hex .., r, _ => ⟨[], by simp [pExpr, pending]⟩
    | .var .., r, _ => ⟨[], by simp [pExpr, pending]⟩
    | .varptr .., r, _ => ⟨[], by simp [pExpr, pending]⟩
    | .ctl .., r, _ => ⟨[], by simp [pExpr, pending]⟩
    | .op .., r, _ => ⟨[], by simp [pExpr, pending]⟩
    | .stmtExp .., r, h => by simp [noSE] at h
    | .raw .., r, h => by simp [noSE] at h
    | .arr v idx s, r, h => by
        obtain ⟨new, h1, h2, h3⟩ := hoist_countL idx r (by simpa [noSE] using h)
        exact ⟨new, by simp [pExpr, h1], by simp [pending, h2], by simp [pExpr, h3]⟩
    | .un b op e, r, h => by
        obtain ⟨new, h1, h2, h3⟩ := hoist_count e r (by simpa [noSE] using h)
        exact ⟨new, by simp [pExpr, h1], by simp [pending, h2], by simp [pExpr, h3]⟩
    | .paren b e s, r, h => by
        obtain ⟨new, h1, h2, h3⟩ := hoist_count e r (by simpa [noSE] using h)
        exact ⟨new, by simp [pExpr, h1], by simp [pending, h2], by simp [pExpr, h3]⟩
    | .call f args s, r, h => by
        obtain ⟨new, h1, h2, h3⟩ := hoist_countL args r (by simpa [noSE] using h)
        exact ⟨new, by simp [pExpr, h1], by simp [pending, h2], by simp [pExpr, h3]⟩
    | .bin b l op r', r, h => by
        simp only [noSE, Bool.and_eq_true] at h
        obtain ⟨n1, h1, l1, c1⟩ := hoist_count l r h.1
        obtain ⟨n2, h2, l2, c2⟩ := hoist_count r' (pExpr l r).2 h.2
        refine ⟨n1 ++ n2, ?_, by simp [pending, l1, l2], ?_⟩
        · simp only [pExpr]; rw [h2, h1, List.append_assoc]
        · simp only [pExpr]; rw [c2, c1]
    | .fexp j f args s v, r, h => by
        simp only [noSE, Bool.and_eq_true] at h
        obtain ⟨n1, h1, l1, c1⟩ := hoist_countL args r h.1
        cases v with
        | none =>
            obtain ⟨call, hc⟩ := hoist_innermost_first j f args s r
            refine ⟨n1 ++ [call], by rw [hc, h1, List.append_assoc], by simp [pending, l1], ?_⟩
            simp only [pExpr, Option.isSome_none, Bool.false_eq_true, ↓reduceIte]
            cases s <;> simp [Reg.alloc, c1]
        | some v' =>
            obtain ⟨n2, h2, l2, c2⟩ := hoist_countO (some v') (pEList args r).2 h.2
            refine ⟨n1 ++ n2, ?_, by simp [pending, pendingO, l1, l2], ?_⟩
            · simp only [pExpr, Option.isSome_some, ↓reduceIte]; rw [h2, h1, List.append_assoc]
            · simp only [pExpr, Option.isSome_some, ↓reduceIte]; rw [c2, c1]
  theorem hoist_counts : ∀ (es : List Expr) (r : Reg), noSEs es = true →
      ∃ new, (pExprs es r).2.pre = r.pre ++ new ∧ new.length = pendings es ∧ (pExprs es r).2.crash = r.crash
    | [], r, _ => ⟨[], by simp [pExprs, pendings]⟩
    | e :: es, r, h => by
        simp only [noSEs, Bool.and_eq_true] at h
        obtain ⟨n1, h1, l1, c1⟩ := hoist_count e r h.1
        obtain ⟨n2, h2, l2, c2⟩ := hoist_counts es (pExpr e r).2 h.2
        refine ⟨n1 ++ n2, ?_, by simp [pendings, l1, l2], ?_⟩
        · cases e with
          | stmtExp s => simp [noSE] at h
          | _ => simp only [pExprs]; rw [h2, h1, List.append_assoc]
        · cases e with
          | stmtExp s => simp [noSE] at h
          | _ => simp only [pExprs]; rw [c2, c1]
  theorem hoist_countL : ∀ (el : EList) (r : Reg), noSEL el = true →
      ∃ new, (pEList el r).2.pre = r.pre ++ new ∧ new.length = pendingL el ∧ (pEList el r).2.crash = r.crash
    | .mk p es, r, h => by
        obtain ⟨new, h1, h2, h3⟩ := hoist_counts es r (by simpa [noSEL] using h)
        exact ⟨new, by simp [pEList, h1], by simp [pendingL, h2], by simp [pEList, h3]⟩
    | .raw _, r, h => by simp [noSEL] at h
  theorem hoist_countO : ∀ (o : Option Expr) (r : Reg), noSEO o = true →
      ∃ new, (pOptExpr o r).2.pre = r.pre ++ new ∧ new.length = pendingO o ∧ (pOptExpr o r).2.crash = r.crash
    | some e, r, h => by
        obtain ⟨new, h1, h2, h3⟩ := hoist_count e r (by simpa [noSEO] using h)
        exact ⟨new, by simp [pOptExpr, h1], by simp [pendingO, h2], by simp [pOptExpr, h3]⟩
    | none, r, _ => ⟨[], by simp [pOptExpr, pendingO]⟩
end

/-- hoisted calls are only appended: what a statement already hoisted stays in place, in order -/
theorem pre_prefix (e : Expr) (r : Reg) (h : noSE e = true) : r.pre <+: (pExpr e r).2.pre := by
  obtain ⟨new, h1, _⟩ := hoist_count e r h
  exact ⟨new, h1.symm⟩

/-- an assignment whose right-hand side is a convertible function calls it with the target itself:
no temporary and no extra call for the outermost function (`A=INT(B)` ↦ `RUN ecb_int(B, A)`); the
calls hoisted from the target's subscripts come first, then those of the arguments -/
theorem assign_top_level_reuses_target (l : Bool) (v : Expr) (j : Bool) (f : String) (args : EList) (s : Bool)
    (old : Option Expr) (p : List Expr) (hv : noSE v = true) (ha : noSEL args = true) :
    ∃ v' a' pre', pStmt (.assign l v (.fexp j f args s old) p) = .assign l v' (.fexp j f a' s (some v')) pre'
      ∧ pre'.length = p.length + pending v + pendingL args := by
  obtain ⟨n1, h1, l1, c1⟩ := hoist_count v { pre := p } hv
  obtain ⟨n2, h2, l2, c2⟩ := hoist_countL args (pExpr v { pre := p }).2 ha
  refine ⟨(pExpr v { pre := p }).1, (pEList args (pExpr v { pre := p }).2).1,
    (pEList args (pExpr v { pre := p }).2).2.pre, ?_, ?_⟩
  · have hcr : (pEList args (pExpr v { pre := p }).2).2.crash = none := by rw [c2, c1]
    simp [pStmt, Emit.isFexp, markCrash, hcr]
  · rw [h2, h1]; simp [l1, l2]; omega

/-! ### temporaries: one fresh name per hoisted call -/

/-- the allocator hands out the next name of its kind and moves that counter on: a name is never
handed out twice while the same register is in use -/
theorem alloc_next (r : Reg) (s : Bool) :
    (r.alloc s).1 = (if s then Expr.var ("tmp_" ++ toString (r.nStr + 1) ++ "$") true
                     else Expr.var ("tmp_" ++ toString (r.nNum + 1)) false)
    ∧ (r.alloc s).2.nNum = (if s then r.nNum else r.nNum + 1)
    ∧ (r.alloc s).2.nStr = (if s then r.nStr + 1 else r.nStr) := by
  cases s <;> simp [Reg.alloc]

def Grows (r r' : Reg) (k : Nat) : Prop :=
  r.nNum ≤ r'.nNum ∧ r.nStr ≤ r'.nStr ∧ r'.nNum + r'.nStr = r.nNum + r.nStr + k

theorem Grows.refl (r : Reg) : Grows r r 0 := ⟨Nat.le_refl _, Nat.le_refl _, rfl⟩

theorem Grows.trans {a b c : Reg} {m n : Nat} (h1 : Grows a b m) (h2 : Grows b c n) : Grows a c (m + n) :=
  ⟨Nat.le_trans h1.1 h2.1, Nat.le_trans h1.2.1 h2.2.1, by have := h1.2.2; have := h2.2.2; omega⟩

mutual
  /-- **exactly one new temporary per pending function, the counters only grow** -/
  theorem hoist_temps : ∀ (e : Expr) (r : Reg), noSE e = true → Grows r (pExpr e r).2 (pending e)
    | .lit .., r, _ => by simpa [pExpr, pending] using Grows.refl r
    | .hex .., r, _ => by simpa [pExpr, pending] using Grows.refl r
    | .var .., r, _ => by simpa [pExpr, pending] using Grows.refl r
    | .varptr .., r, _ => by simpa [pExpr, pending] using Grows.refl r
    | .ctl .., r, _ => by simpa [pExpr, pending] using Grows.refl r
    | .op .., r, _ => by simpa [pExpr, pending] using Grows.refl r
    | .stmtExp .., r, h => by simp [noSE] at h
    | .raw .., r, h => by simp [noSE] at h
    | .arr v idx s, r, h => by simpa [pExpr, pending] using hoist_tempsL idx r (by simpa [noSE] using h)
    | .un b op e, r, h => by simpa [pExpr, pending] using hoist_temps e r (by simpa [noSE] using h)
    | .paren b e s, r, h => by simpa [pExpr, pending] using hoist_temps e r (by simpa [noSE] using h)
    | .call f args s, r, h => by simpa [pExpr, pending] using hoist_tempsL args r (by simpa [noSE] using h)
    | .bin b l op r', r, h => by
        simp only [noSE, Bool.and_eq_true] at h
        have g1 := hoist_temps l r h.1
        have g2 := hoist_temps r' (pExpr l r).2 h.2
        simpa [pExpr, pending] using g1.trans g2
    | .fexp j f args s v, r, h => by
        simp only [noSE, Bool.and_eq_true] at h
        have g1 := hoist_tempsL args r h.1
        cases v with
        | none =>
            have ha := alloc_next (pEList args r).2 s
            simp only [pExpr, Option.isSome_none, Bool.false_eq_true, ↓reduceIte, pending]
            obtain ⟨a1, a2, a3⟩ := g1
            cases s <;> simp only [Grows, Reg.alloc] at * <;> refine ⟨?_, ?_, ?_⟩ <;> simp <;> omega
        | some v' =>
            have g2 := hoist_tempsO (some v') (pEList args r).2 h.2
            simpa [pExpr, pending, pendingO] using g1.trans g2
  theorem hoist_tempss : ∀ (es : List Expr) (r : Reg), noSEs es = true → Grows r (pExprs es r).2 (pendings es)
    | [], r, _ => by simpa [pExprs, pendings] using Grows.refl r
    | e :: es, r, h => by
        simp only [noSEs, Bool.and_eq_true] at h
        have g1 := hoist_temps e r h.1
        have g2 := hoist_tempss es (pExpr e r).2 h.2
        cases e with
        | stmtExp s => simp [noSE] at h
        | _ => simpa [pExprs, pendings] using g1.trans g2
  theorem hoist_tempsL : ∀ (el : EList) (r : Reg), noSEL el = true → Grows r (pEList el r).2 (pendingL el)
    | .mk p es, r, h => by simpa [pEList, pendingL] using hoist_tempss es r (by simpa [noSEL] using h)
    | .raw _, r, h => by simp [noSEL] at h
  theorem hoist_tempsO : ∀ (o : Option Expr) (r : Reg), noSEO o = true → Grows r (pOptExpr o r).2 (pendingO o)
    | some e, r, h => by simpa [pOptExpr, pendingO] using hoist_temps e r (by simpa [noSEO] using h)
    | none, r, _ => by simpa [pOptExpr, pendingO] using Grows.refl r
end

end CocoVerif.Props.C05
