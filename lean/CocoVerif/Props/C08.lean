import CocoVerif.Model.Cli
import CocoVerif.Model.Emit
import CocoVerif.Props.C11

/-!
# C08 — source layout does not change the translation

What the model can carry of this property:

* `line_ends_irrelevant` — through the command line, the LF, CR LF and bare CR spellings of the same
  lines reach the converter as the same text (for every program: induction over lines and
  characters of the text-mode read `universalNewlines`).
* `string_literal_verbatim`, `comment_verbatim`, `data_items_verbatim` — emission copies the
  content of string literals, comments and DATA items character for character: blanks inside them
  are preserved exactly.

That the grammar accepts every layout of a program with the same tree up to blanks is a statement
about parsimonious' backtracking over arbitrary strings; the front end is not in the model, and
this part is decided by the layout suite on the real code (single-boundary, dense, wide and random
blank variants, `?`, blank lines, line ends, NUL, blanks in literals against the base spelling).
-/
namespace CocoVerif.Props.C08
open CocoVerif.Model CocoVerif.Model.Cli

/-- lines, each followed by the line-end spelling `eol` -/
def spell (eol : List Char) : List (List Char) → List Char
  | [] => []
  | l :: ls => l ++ eol ++ spell eol ls

def plain (l : List Char) : Prop := ∀ c ∈ l, c ≠ '\r' ∧ c ≠ '\n'

theorem un_cons_plain (c : Char) (r : List Char) (h : c ≠ '\r') :
    universalNewlines (c :: r) = c :: universalNewlines r := by
  cases r with
  | nil => simp [universalNewlines]
  | cons d r => simp [universalNewlines, h]

theorem un_plain_append (l rest : List Char) (h : plain l) :
    universalNewlines (l ++ rest) = l ++ universalNewlines rest := by
  induction l with
  | nil => rfl
  | cons c l ih =>
      have hc := (h c (by simp)).1
      have hl : plain l := fun d hd => h d (by simp [hd])
      simp only [List.cons_append]
      rw [un_cons_plain _ _ hc, ih hl]

theorem un_lf (r : List Char) : universalNewlines ('\n' :: r) = '\n' :: universalNewlines r :=
  un_cons_plain _ _ (by decide)

theorem un_crlf (r : List Char) : universalNewlines ('\r' :: '\n' :: r) = '\n' :: universalNewlines r := by
  simp [universalNewlines]

/-- a CR that is not followed by LF (the next thing is a plain line or the end) -/
theorem un_cr_plain (l rest : List Char) (h : plain l) (hr : ∀ r', rest = '\n' :: r' → l ≠ []) :
    universalNewlines ('\r' :: (l ++ rest)) = '\n' :: universalNewlines (l ++ rest) := by
  cases l with
  | nil =>
      cases rest with
      | nil => simp [universalNewlines]
      | cons d r =>
          by_cases hd : d = '\n'
          · subst hd; exact absurd rfl (hr r rfl)
          · simp [universalNewlines, hd]
  | cons c l =>
      have hc := (h c (by simp)).2
      simp [universalNewlines, hc]

/-- **LF spelling is a fixed point** -/
theorem lf_spelling (ls : List (List Char)) (h : ∀ l ∈ ls, plain l) :
    universalNewlines (spell ['\n'] ls) = spell ['\n'] ls := by
  induction ls with
  | nil => rfl
  | cons l ls ih =>
      have hl := h l (by simp)
      have hls : ∀ l' ∈ ls, plain l' := fun l' hl' => h l' (by simp [hl'])
      simp only [spell, List.append_assoc, List.cons_append, List.nil_append]
      rw [un_plain_append _ _ hl, un_lf, ih hls]

/-- **CR LF spelling reads as the LF spelling** -/
theorem crlf_spelling (ls : List (List Char)) (h : ∀ l ∈ ls, plain l) :
    universalNewlines (spell ['\r', '\n'] ls) = spell ['\n'] ls := by
  induction ls with
  | nil => rfl
  | cons l ls ih =>
      have hl := h l (by simp)
      have hls : ∀ l' ∈ ls, plain l' := fun l' hl' => h l' (by simp [hl'])
      simp only [spell, List.append_assoc, List.cons_append, List.nil_append]
      rw [un_plain_append _ _ hl, un_crlf, ih hls]

/-- **bare CR spelling reads as the LF spelling** -/
theorem cr_spelling (ls : List (List Char)) (h : ∀ l ∈ ls, plain l) :
    universalNewlines (spell ['\r'] ls) = spell ['\n'] ls := by
  induction ls with
  | nil => rfl
  | cons l ls ih =>
      have hl := h l (by simp)
      have hls : ∀ l' ∈ ls, plain l' := fun l' hl' => h l' (by simp [hl'])
      simp only [spell, List.append_assoc, List.cons_append, List.nil_append]
      rw [un_plain_append _ _ hl]
      cases ls with
      | nil => simp [spell, universalNewlines]
      | cons l2 ls2 =>
          have hl2 := hls l2 (by simp)
          have key : universalNewlines ('\r' :: spell ['\r'] (l2 :: ls2)) = '\n' :: universalNewlines (spell ['\r'] (l2 :: ls2)) := by
            simp only [spell, List.append_assoc, List.cons_append, List.nil_append]
            refine un_cr_plain l2 ('\r' :: spell ['\r'] ls2) hl2 ?_
            intro r' hr'; cases hr'
          rw [key, ih hls]

/-- the three spellings of the same lines give the converter the same text -/
theorem line_ends_irrelevant (ls : List (List Char)) (h : ∀ l ∈ ls, plain l) :
    universalNewlines (spell ['\r', '\n'] ls) = universalNewlines (spell ['\n'] ls)
    ∧ universalNewlines (spell ['\r'] ls) = universalNewlines (spell ['\n'] ls) := by
  rw [lf_spelling ls h, crlf_spelling ls h, cr_spelling ls h]; exact ⟨rfl, rfl⟩

example : universalNewlines "10 A=1\r20 B=2\r".toList = "10 A=1\n20 B=2\n".toList
    ∧ universalNewlines "10 A=1\r\n20 B=2\r\n".toList = "10 A=1\n20 B=2\n".toList := by decide

/-! ### content is copied verbatim -/

theorem string_literal_verbatim (i : Int) (s : String) (b : Bool) :
    Emit.expr i (.lit (.str s) b) = "\"" ++ s ++ "\"" := by
  simp [Emit.expr, Emit.litText]

theorem comment_verbatim (i : Int) (p : Bool) (c : String) :
    Emit.stmt i p (.comment c) = "(*" ++ c ++ " *)" := by
  simp [Emit.stmt]

theorem data_items_verbatim (items : List String) :
    Emit.elist 0 (.mk false (items.map (fun s => .lit (.str s) true))) =
      Emit.join ", " (items.map (fun s => "\"" ++ s ++ "\"")) := by
  have : Emit.exprs 0 (items.map (fun s => Expr.lit (.str s) true)) = items.map (fun s => "\"" ++ s ++ "\"") := by
    induction items with
    | nil => simp [Emit.exprs]
    | cons s ss ih => simp [Emit.exprs, Emit.expr, Emit.litText, ih]
  simp [Emit.elist, this]

end CocoVerif.Props.C08
