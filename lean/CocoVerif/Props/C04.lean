import CocoVerif.Spec.Device
import CocoVerif.Gen.Ecb
import CocoVerif.Model.Compile

/-!
# C04 — device statements reach the runtime with the right operands

`Spec.Device.forms` says, per statement form, which procedure is called and which source operand
(or documented default) goes to which **named** parameter.  It is at the same time the pinned
description of what `parser.py` builds for device statements: the forms suite instantiates every
template with sentinel and random operands and compares the real output with `expected`.
-/
namespace CocoVerif.Props.C04
open CocoVerif CocoVerif.Spec.Device CocoVerif.Model

/-- Re-proved against the library in /repo on every run: for every form, the parameter names the
table uses are exactly the parameters the procedure declares, in that order (so "operand k goes
to parameter p" is a statement about the real `param` lines; swapping two `param`s breaks it). -/
theorem device_params_match :
    forms.all (fun f => match Gen.Ecb.sigs.find? (fun p => p.1 == f.proc) with
      | some sig => sig.2.map (·.1) == f.args.map (·.1)
      | none => f.proc == "inkey") = true := by
  decide +kernel

/-- every operand of the source form is used exactly once -/
theorem device_operands_used_once :
    forms.all (fun f =>
      let ks := f.args.filterMap (fun a => match a.2 with | .op k => some k | .lit _ => none)
      ks == List.range' 1 ks.length) = true := by
  decide +kernel

/-- the two speed pokes become assignments to the music state, for every spelling of the address
(decimal literal as the visitor stores it, or hex); any other address stays a POKE -/
theorem poke_speed (v : Expr) :
    Emit.stmt 0 true (.poke (.lit (.flt "65496.0") false) v []) = "play.octo := 0"
    ∧ Emit.stmt 0 true (.poke (.lit (.flt "65497.0") false) v []) = "play.octo := 1"
    ∧ Emit.stmt 0 true (.poke (.hex 65496 true) v []) = "play.octo := 0"
    ∧ Emit.stmt 0 true (.poke (.hex 65497 true) v []) = "play.octo := 1" := by
  refine ⟨?_, ?_, ?_, ?_⟩ <;> simp [Emit.stmt, Emit.pretextOf, Emit.exprs, Emit.ind, Emit.join] <;> rfl

/-- the buffer prologue is emitted exactly when some statement the visitors reach — at any nesting
depth — is an HBUFF statement -/
theorem hbuff_prologue_iff (evs : List Ev) :
    Compile.hasHbuff evs = true ↔ ∃ ev ∈ evs, ∃ inv args pre, ev = .stmt (.run "hbuff" inv args pre) := by
  unfold Compile.hasHbuff
  simp only [List.any_eq_true]
  constructor
  · rintro ⟨ev, hm, h⟩
    refine ⟨ev, hm, ?_⟩
    split at h
    · next inv args pre => exact ⟨inv, args, pre, rfl⟩
    · simp at h
  · rintro ⟨ev, hm, inv, args, pre, rfl⟩
    exact ⟨_, hm, rfl⟩

end CocoVerif.Props.C04
