import CocoVerif.Model.Front
import CocoVerif.Model.Emit
/-!
# C02 — jump statements in the front-end model: every target, in order

For **all** child values of the visitor methods concerned (all selectors, all lists of line numbers - line 0
included, in any position, repeated or not):

* `linenum_list_keeps_all` / `linenum_list0_keeps_all` / `linenum_list_elem_is_number`: the three methods that
  assemble the target list of `ON … GOTO / GOSUB` hand on every element they are given;
* `on_go_targets`: the statement object carries the selector and exactly the source's targets, in source order;
* `on_go_text`: emission writes `ON sel GOTO n₁, n₂, …` (or `GOSUB`) with every target, in order;
* `go_target`, `then_number_is_goto`: `GOTO n` / `GOSUB n` jump to `n`, a bare number after THEN / ELSE is an
  implicit `GOTO n`.

The model is tied to `parser.py` by the `front` / `e2e` suites (attached to C02), whose texts include the line-0 probes.
-/
namespace CocoVerif.Props.C02Front
open CocoVerif.Model CocoVerif.Model.Front

theorem linenum_list_keeps_all (env : Env) (text : String) (first sep : Val) (rest : List Val) :
    visitNamed env "linenum_list" text [first, sep, .list rest] = .ok (.list (first :: rest)) := by
  rfl

theorem linenum_list0_keeps_all (env : Env) (text : String) (vs : List Val) :
    visitNamed env "linenum_list0" text vs = .ok (.list vs) := by
  rfl

theorem linenum_list_elem_is_number (env : Env) (text : String) (a b n : Val) (more : List Val) :
    visitNamed env "linenum_list_elem" text (a :: b :: n :: more) = .ok n := by
  rfl

def intOf : Val → Except String Int
  | .int n => pure n
  | _ => throw "TypeError"

theorem mapM_ints : ∀ ns : List Int, (ns.map Val.int).mapM intOf = .ok ns
  | [] => rfl
  | n :: ns => by
      simp only [List.map_cons, List.mapM_cons, mapM_ints ns]
      rfl

/-- the method, for any list value in target position: every element must be a line number, the statement gets them all -/
theorem on_go_unfold (env : Env) (text kw : String) (a b sel c d e : Val) (vs : List Val) :
    visitNamed env "on_n_go_statement" text [a, b, sel, c, .node kw, d, .list vs, e]
      = (vs.mapM intOf).bind (fun ns => .ok (.stmt (.onGo (toExpr sel) ns (kw == "GOSUB") []))) := by
  rfl

/-- **`ON sel GOTO n₁,…,n_k` becomes a statement with exactly these targets, in this order** - for every selector
value and every list of line numbers (0 included, anywhere) -/
theorem on_go_targets (env : Env) (text kw : String) (a b sel c d e : Val) (ns : List Int) :
    visitNamed env "on_n_go_statement" text [a, b, sel, c, .node kw, d, .list (ns.map .int), e]
      = .ok (.stmt (.onGo (toExpr sel) ns (kw == "GOSUB") [])) := by
  rw [on_go_unfold, mapM_ints]
  rfl

/-- emission writes every target, in order, after the selector -/
theorem on_go_text (i : Int) (sel : Expr) (ns : List Int) (gosub : Bool) :
    Emit.stmt i true (.onGo sel ns gosub []) =
      Emit.ind i ++ "ON " ++ Emit.expr i sel ++ (if gosub then " GOSUB " else " GOTO ") ++ Emit.join ", " (ns.map toString) := by
  simp [Emit.stmt, Emit.pretextOf, Emit.exprs, Emit.join]

/-- `GOTO n` / `GOSUB n` jump to `n` -/
theorem go_target (env : Env) (text kw : String) (sp : Val) (n : Int) (more : List Val) :
    visitNamed env "go_statement" text (.node kw :: sp :: .int n :: more)
      = .ok (.stmt (.goto n false (kw == "GOSUB") [])) := by
  rfl

/-- a bare line number in statement position (after THEN / ELSE) is an implicit `GOTO` to that line -/
theorem then_number_is_goto (env : Env) (text : String) (n : Int) (more : List Val) :
    visitNamed env "line_or_stmnts" text (.int n :: more) = .ok (.stmt (.goto n true false [])) := by
  rfl

/-- **an ELSE-IF chain with an ELSE arm always gets its unconditional exit** - whatever the ELSE arm holds, an empty
statement list included: the emitted LOOP ends with `EXITIF TRUE THEN … ENDEXIT` before `ENDLOOP`, so the loop is left
when no guard holds (without an ELSE arm it is not: the finding `else-if-chain-without-else-never-exits`) -/
theorem else_arm_always_exits (i : Int) (c : Expr) (body e : Stmt) (f : Stmt) (elifs : List Stmt) (pre : List Expr) :
    Emit.stmt i true (.ifElse c body (f :: elifs) (some e) pre) =
      Emit.ind i ++ "LOOP\n"
        ++ Emit.join "\n" ((Emit.ind (i + 1) ++ "EXITIF " ++ Emit.expr 0 c ++ " THEN\n" ++ Emit.stmt (i + 2) true body ++ "\n"
              ++ Emit.ind (i + 1) ++ "ENDEXIT") :: Emit.elifTexts i (f :: elifs))
        ++ "\n" ++ (Emit.ind (i + 1) ++ "EXITIF TRUE THEN\n" ++ Emit.stmt (i + 2) true e ++ "\n" ++ Emit.ind (i + 1) ++ "ENDEXIT\n")
        ++ Emit.ind i ++ "ENDLOOP" := by
  simp [Emit.stmt]

/-- the theorem at an empty ELSE arm: `IF A THEN … ELSE IF B THEN … ELSE` (nothing after the last ELSE) -/
example := else_arm_always_exits 0 (.var "A" false) (.stmts false [] []) (.stmts false [] [])
  (.if_ (.var "B" false) (.stmts false [] []) []) [] []

/-- non-vacuity: `ON A GOTO 30,0,40` - line 0 in the middle stays -/
example (env : Env) :
    visitNamed env "on_n_go_statement" "" [.none, .none, varOf "A" false, .none, .node "GOTO", .none, .list [.int 30, .int 0, .int 40], .none]
      = .ok (.stmt (.onGo (.var "A" false) [30, 0, 40] false [])) := by
  rfl

end CocoVerif.Props.C02Front
