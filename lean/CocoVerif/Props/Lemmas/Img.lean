import CocoVerif.Model.Img
import CocoVerif.Spec.Img

/-! Helper lemmas shared by the image property files C16–C19. -/
namespace CocoVerif.Props.Img
open CocoVerif.Model.Img CocoVerif.Spec.Img

theorem rgb6_eq_colour (c : Nat) : rgb6 c = colour c := by
  simp [rgb6, colour, comp, getbit, Nat.mul_comm]

theorem dumpPal_ok (pal : Bytes) (x : Nat) (h : x < pal.length) :
    dumpPal pal x = .ok (colour (pal.getD x 0)) := by
  simp [dumpPal, List.getElem?_eq_getElem h, rgb6_eq_colour, List.getD_eq_getElem?_getD]

theorem dumpByte_ok (pal : Bytes) (a b : Nat) (hpal : pal.length = 16) (ha : a < 16) (hb : b < 16) :
    dumpByte pal (a * 16 + b) = .ok (colour (pal.getD a 0) ++ colour (pal.getD b 0)) := by
  have h1 : (a * 16 + b) / 16 = a := by omega
  have h2 : (a * 16 + b) % 16 = b := by omega
  simp [dumpByte, h1, h2, dumpPal_ok pal a (by omega), dumpPal_ok pal b (by omega), bind, Except.bind, pure, Except.pure]

theorem dumpPal_len (pal : List Nat) (x : Nat) (d : List Nat) (h : dumpPal pal x = .ok d) : d.length = 3 := by
  unfold dumpPal at h
  split at h
  · simp at h; subst h; simp [rgb6]
  · simp at h

theorem dumpByte_len (pal : List Nat) (c : Nat) (d : List Nat) (h : dumpByte pal c = .ok d) : d.length = 6 := by
  simp only [dumpByte, bind, Except.bind] at h
  split at h
  · simp at h
  · next a ha =>
    split at h
    · simp at h
    · next b hb =>
      simp [pure, Except.pure] at h
      subst h
      simp [dumpPal_len pal _ a ha, dumpPal_len pal _ b hb]

/-- reading the packed form of `2n` pixels yields their rendering, the bytes read and the rest -/
theorem readDump_pack (pal : Bytes) (hpal : pal.length = 16) :
    ∀ (n : Nat) (px rest : List Nat), px.length = 2 * n → (∀ p ∈ px, p < 16) →
      readDump pal n (packNib px ++ rest) = .ok (render pal px, packNib px, rest)
  | 0, px, rest, hl, _ => by
      have : px = [] := List.length_eq_zero_iff.mp (by omega)
      subst this; simp [readDump, packNib, render, pure, Except.pure]
  | n + 1, a :: b :: px, rest, hl, hlt => by
      have ha : a < 16 := hlt a (by simp)
      have hb : b < 16 := hlt b (by simp)
      have ih := readDump_pack pal hpal n px rest (by simp at hl; omega)
        (fun p hp => hlt p (by simp [hp]))
      simp [packNib, readDump, dumpByte_ok pal a b hpal ha hb, ih, render, bind, Except.bind, pure, Except.pure]
  | n + 1, [], _, hl, _ => by simp at hl
  | n + 1, [_], _, hl, _ => by simp at hl; omega

theorem packNib_length : ∀ (n : Nat) (px : List Nat), px.length = 2 * n → (packNib px).length = n
  | 0, px, hl => by
      have : px = [] := List.length_eq_zero_iff.mp (by omega)
      subst this; simp [packNib]
  | n + 1, a :: b :: px, hl => by
      simp [packNib, packNib_length n px (by simp at hl; omega)]
  | n + 1, [], hl => by simp at hl
  | n + 1, [_], hl => by simp at hl; omega

theorem render_length (pal : Bytes) : ∀ px : List Nat, (render pal px).length = 3 * px.length
  | [] => by simp [render]
  | p :: px => by
      have := render_length pal px
      simp [render, colour] at *
      omega

theorem readN_append : ∀ (l rest : List Nat), readN l.length (l ++ rest) = .ok (l, rest)
  | [], rest => by simp [readN, pure, Except.pure]
  | c :: l, rest => by simp [readN, readN_append l rest, bind, Except.bind, pure, Except.pure]

theorem mapM'_c2r : ∀ (pal : List Nat), (∀ p ∈ pal, p < 64) →
    mapM' c2rLookup pal
      = .ok (pal.map (fun p => c2r.getD p 0))
  | [], _ => by simp [mapM', pure, Except.pure]
  | p :: pal, h => by
      have hp : p < c2r.length := by have := h p (by simp); simp [c2r]; omega
      have ih := mapM'_c2r pal (fun q hq => h q (by simp [hq]))
      simp [mapM', c2rLookup, ih, List.getElem?_eq_getElem hp, bind, Except.bind, pure, Except.pure,
        List.getD_eq_getElem?_getD]

/-- what a successful `readDump` did: `6n` samples, `n` bytes consumed, the rest returned -/
theorem readDump_spec (pal : List Nat) : ∀ (n : Nat) (bs out rd rest : List Nat),
    readDump pal n bs = .ok (out, rd, rest) → out.length = 6 * n ∧ rd.length = n ∧ bs = rd ++ rest
  | 0, bs, out, rd, rest, h => by
      simp [readDump, pure, Except.pure] at h
      obtain ⟨h1, h2, h3⟩ := h
      subst h1 h2 h3; simp
  | n + 1, [], out, rd, rest, h => by simp [readDump, throw, throwThe, MonadExceptOf.throw] at h
  | n + 1, c :: bs, out, rd, rest, h => by
      simp only [readDump, bind, Except.bind] at h
      split at h
      · simp at h
      · next d hd =>
        split at h
        · simp at h
        · next v hv =>
          obtain ⟨o, r, rs⟩ := v
          simp [pure, Except.pure] at h
          obtain ⟨h1, h2, h3⟩ := h
          have ih := readDump_spec pal n bs o r rs hv
          have hdl : d.length = 6 := dumpByte_len pal c d hd
          subst h1 h2 h3
          simp [ih.1, ih.2.1, hdl]
          constructor
          · omega
          · exact ih.2.2

/-! ### byte-level rendering (for the compression theorems) -/

/-- the six samples of one byte: left pixel from the high nibble, right pixel from the low nibble -/
def byteOut (pal : List Nat) (v : Nat) : List Nat :=
  colour (pal.getD (v / 16) 0) ++ colour (pal.getD (v % 16) 0)

def bytesOut (pal : List Nat) (bs : List Nat) : List Nat := bs.flatMap (byteOut pal)

theorem dumpByte_byteOut (pal : List Nat) (v : Nat) (hpal : pal.length = 16) (hv : v < 256) :
    dumpByte pal v = .ok (byteOut pal v) := by
  simp [dumpByte, byteOut, dumpPal_ok pal (v / 16) (by omega), dumpPal_ok pal (v % 16) (by omega),
    bind, Except.bind, pure, Except.pure]

/-- rendering pixels = rendering their packed bytes -/
theorem render_eq_bytesOut (pal : List Nat) : ∀ (n : Nat) (px : List Nat), px.length = 2 * n →
    (∀ p ∈ px, p < 16) → render pal px = bytesOut pal (packNib px)
  | 0, px, hl, _ => by
      have : px = [] := List.length_eq_zero_iff.mp (by omega)
      subst this; simp [render, bytesOut, packNib]
  | n + 1, a :: b :: px, hl, hlt => by
      have ha : a < 16 := hlt a (by simp)
      have hb : b < 16 := hlt b (by simp)
      have h1 : (a * 16 + b) / 16 = a := by omega
      have h2 : (a * 16 + b) % 16 = b := by omega
      have ih := render_eq_bytesOut pal n px (by simp at hl; omega) (fun p hp => hlt p (by simp [hp]))
      simp only [render, bytesOut] at ih
      simp only [render, bytesOut, packNib, byteOut, List.flatMap_cons, h1, h2, ih, List.append_assoc]
  | n + 1, [], hl, _ => by simp at hl
  | n + 1, [_], hl, _ => by simp at hl; omega

theorem packNib_lt : ∀ (n : Nat) (px : List Nat), px.length = 2 * n → (∀ p ∈ px, p < 16) →
    ∀ v ∈ packNib px, v < 256
  | 0, px, hl, _ => by
      have : px = [] := List.length_eq_zero_iff.mp (by omega)
      subst this; simp [packNib]
  | n + 1, a :: b :: px, hl, hlt => by
      have ha : a < 16 := hlt a (by simp)
      have hb : b < 16 := hlt b (by simp)
      have ih := packNib_lt n px (by simp at hl; omega) (fun p hp => hlt p (by simp [hp]))
      intro v hv
      simp [packNib] at hv
      rcases hv with rfl | hv
      · omega
      · exact ih v hv
  | n + 1, [], hl, _ => by simp at hl
  | n + 1, [_], hl, _ => by simp at hl; omega

/-! ### MGE run-length -/

/-- a run that fits into the remaining budget is emitted in full -/
theorem mgeRun_full (d : List Nat) : ∀ (n : Nat) (y : Int), (n : Int) ≤ y →
    mgeRun d n y = ((List.replicate n d).flatten, y - n)
  | 0, y, _ => by simp [mgeRun]
  | k + 1, y, h => by
      by_cases hy : y - 1 ≤ 0
      · have hk : k = 0 := by omega
        subst hk
        simp [mgeRun, hy]
      · have ih := mgeRun_full d k (y - 1) (by omega)
        simp [mgeRun, hy, ih, List.replicate_succ]
        omega

theorem mgeRle_valid (pal : List Nat) (hpal : pal.length = 16) :
    ∀ (bs enc : List Nat), MgeRle bs enc → (∀ v ∈ bs, v < 256) →
      ∀ (y : Int), (bs.length : Int) ≤ y → mgeRle pal enc y = .ok (bytesOut pal bs) := by
  intro bs enc h
  induction h with
  | done => intro _ y _; simp [mgeRle, bytesOut, pure, Except.pure]
  | run n v rest enc hn1 hn2 _ ih =>
      intro hlt y hy
      have hv : v < 256 := hlt v (by
        simp only [List.mem_append, List.mem_replicate]
        exact Or.inl (by simp; omega))
      have hrest : ∀ w ∈ rest, w < 256 := fun w hw => hlt w (by simp [hw])
      have hlen : ((n : Int) + rest.length) ≤ y := by simpa using hy
      have hrun := mgeRun_full (byteOut pal v) n y (by omega)
      have ih' := ih hrest (y - n) (by omega)
      have hn0 : n ≠ 0 := by omega
      simp [mgeRle, hn0, dumpByte_byteOut pal v hpal hv, hrun, ih', bytesOut, bind, Except.bind, pure, Except.pure,
        List.flatMap_replicate]

/-- palette of an MGE file as the decoder must use it: RGB codes directly, composite codes
through the composite→RGB table -/
def mgePalette (flag : Nat) (pal : List Nat) : List Nat :=
  if flag = 0 then pal else pal.map (fun p => c2r.getD p 0)

theorem mgePalette_length (flag : Nat) (pal : List Nat) (hpal : pal.length = 16) :
    (mgePalette flag pal).length = 16 := by
  unfold mgePalette; split <;> simp [hpal]

/-- what `mge` does after a well-formed header: run-length loop or 32000 raw bytes -/
theorem mge_header (pal title body : List Nat) (flag pk c a : Nat)
    (hpal : pal.length = 16) (ht : title.length = 30) (hz : 0 ∈ title)
    (hcmp : flag ≠ 0 → ∀ p ∈ pal, p < 64) :
    mge ([0] ++ pal ++ [flag] ++ [pk] ++ title ++ [c, a] ++ body)
      = if pk = 0 then
          (match mgeRle (mgePalette flag pal) body 32000 with
           | .ok o => .ok (ppmHeader "P6" 320 200 ++ o) | .error e => .error e)
        else
          (match readDump (mgePalette flag pal) 32000 body with
           | .ok r => .ok (ppmHeader "P6" 320 200 ++ r.1) | .error e => .error e) := by
  have h16 := readN_append pal (flag :: pk :: (title ++ c :: a :: body))
  rw [hpal] at h16
  have htk : List.take 30 (title ++ c :: a :: body) = title := by rw [← ht]; simp
  have hdr : List.drop 30 (title ++ c :: a :: body) = c :: a :: body := by rw [← ht]; simp
  have h2 : readN 2 (c :: a :: body) = .ok ([c, a], body) := readN_append [c, a] body
  simp only [List.append_assoc, List.cons_append, List.nil_append]
  by_cases hf : flag = 0
  · subst hf
    simp only [mgePalette, if_true]
    simp [mge, read1, h16, htk, hdr, h2, hz, bind, Except.bind, pure, Except.pure]
    split <;> split <;> simp_all
  · have hm := mapM'_c2r pal (hcmp hf)
    simp only [mgePalette, hf, if_false]
    simp [mge, read1, h16, htk, hdr, h2, hz, hf, hm, bind, Except.bind, pure, Except.pure]
    split <;> split <;> simp_all

/-! ### CM3 raw lines -/

/-- a well-formed row of 320 palette indices -/
def RowOK (px : List Nat) : Prop := px.length = 320 ∧ ∀ p ∈ px, p < 16

/-- raw encoding of rows: control byte ≥ 128, then the 160 packed bytes -/
def encRawRows : List (Nat × List Nat) → List Nat
  | [] => []
  | (ctl, px) :: rows => ctl :: (packNib px ++ encRawRows rows)

def rowsPixels (rows : List (Nat × List Nat)) : List Nat := (rows.map (·.2)).flatten

theorem render_append (pal a b : List Nat) : render pal (a ++ b) = render pal a ++ render pal b := by
  simp [render]

theorem cm3Line_raw (pal lin px rest : List Nat) (ctl : Nat) (hpal : pal.length = 16)
    (hctl : 128 ≤ ctl) (hrow : RowOK px) :
    cm3Line pal lin (ctl :: (packNib px ++ rest)) = .ok (render pal px, packNib px, rest) := by
  have hrd := readDump_pack pal hpal 160 px rest (by rw [hrow.1]) hrow.2
  have : ¬ ctl < 128 := by omega
  simp [cm3Line, read1, this, hrd, bind, Except.bind, pure, Except.pure]

theorem cm3Lines_raw (pal : List Nat) (hpal : pal.length = 16) :
    ∀ (rows : List (Nat × List Nat)) (lin rest : List Nat),
      (∀ r ∈ rows, 128 ≤ r.1 ∧ RowOK r.2) →
      ∃ lin', cm3Lines pal rows.length lin (encRawRows rows ++ rest)
        = .ok (render pal (rowsPixels rows), lin', rest)
  | [], lin, rest, _ => ⟨lin, by simp [cm3Lines, encRawRows, rowsPixels, render, pure, Except.pure]⟩
  | (ctl, px) :: rows, lin, rest, h => by
      have h0 := h (ctl, px) (by simp)
      obtain ⟨lin', ih⟩ := cm3Lines_raw pal hpal rows (packNib px) rest
        (fun r hr => h r (by simp [hr]))
      refine ⟨lin', ?_⟩
      have hl := cm3Line_raw pal lin px (encRawRows rows ++ rest) ctl hpal h0.1 h0.2
      simp only [encRawRows, List.length_cons, List.cons_append, List.append_assoc, cm3Lines]
      simp [hl, ih, rowsPixels, render_append, bind, Except.bind, pure, Except.pure]

/-- pages: each a line-count byte followed by that many raw rows -/
def encRawPages : List (List (Nat × List Nat)) → List Nat
  | [] => []
  | rows :: pages => rows.length :: (encRawRows rows ++ encRawPages pages)

def pagesPixels (pages : List (List (Nat × List Nat))) : List Nat := (pages.map rowsPixels).flatten

theorem cm3Pages_raw (pal : List Nat) (hpal : pal.length = 16) :
    ∀ (pages : List (List (Nat × List Nat))) (lin : List Nat),
      (∀ rows ∈ pages, ∀ r ∈ rows, 128 ≤ r.1 ∧ RowOK r.2) →
      cm3Pages pal pages.length lin (encRawPages pages) = .ok (render pal (pagesPixels pages))
  | [], lin, _ => by simp [cm3Pages, pagesPixels, render, pure, Except.pure]
  | rows :: pages, lin, h => by
      obtain ⟨lin', hl⟩ := cm3Lines_raw pal hpal rows lin (encRawPages pages) (h rows (by simp))
      have ih := cm3Pages_raw pal hpal pages lin' (fun rs hrs => h rs (by simp [hrs]))
      simp only [encRawPages, List.length_cons, cm3Pages]
      simp [read1, hl, ih, pagesPixels, render_append, bind, Except.bind, pure, Except.pure]

/-! ### VEF bitmaps -/

theorem palAt_ok (pal : List Nat) (i : Nat) (h : i < pal.length) : palAt pal i = .ok (pal.getD i 0) := by
  simp [palAt, List.getElem?_eq_getElem h, List.getD_eq_getElem?_getD, pure, Except.pure]

theorem vefBitmap8 (pal : List Nat) (hpal : pal.length = 16) :
    ∀ (n : Nat) (px : List Nat), px.length = 2 * n → (∀ p ∈ px, p < 16) →
      vefBitmap 8 pal (packNib px) = .ok (px.map (fun p => pal.getD p 0))
  | 0, px, hl, _ => by
      have : px = [] := List.length_eq_zero_iff.mp (by omega)
      subst this; simp [packNib, vefBitmap, pure, Except.pure]
  | n + 1, a :: b :: px, hl, hlt => by
      have ha : a < 16 := hlt a (by simp)
      have hb : b < 16 := hlt b (by simp)
      have h1 : (a * 16 + b) / 16 = a := by omega
      have h2 : (a * 16 + b) % 16 = b := by omega
      have ih := vefBitmap8 pal hpal n px (by simp at hl; omega) (fun p hp => hlt p (by simp [hp]))
      simp [packNib, vefBitmap, h1, h2, palAt_ok pal a (by omega), palAt_ok pal b (by omega), ih,
        bind, Except.bind, pure, Except.pure]
  | n + 1, [], hl, _ => by simp at hl
  | n + 1, [_], hl, _ => by simp at hl; omega

theorem vefBitmap4 (pal : List Nat) (hpal : pal.length = 16) (t : Nat) (ht : t = 7 ∨ t = 6) :
    ∀ (n : Nat) (px : List Nat), px.length = 4 * n → (∀ p ∈ px, p < 4) →
      vefBitmap t pal (packQuad px) = .ok (px.map (fun p => pal.getD p 0))
  | 0, px, hl, _ => by
      have : px = [] := List.length_eq_zero_iff.mp (by omega)
      subst this; simp [packQuad, vefBitmap, pure, Except.pure]
  | n + 1, a :: b :: c :: d :: px, hl, hlt => by
      have ha : a < 4 := hlt a (by simp)
      have hb : b < 4 := hlt b (by simp)
      have hc : c < 4 := hlt c (by simp)
      have hd : d < 4 := hlt d (by simp)
      have h1 : (a * 64 + b * 16 + c * 4 + d) / 64 = a := by omega
      have h2 : (a * 64 + b * 16 + c * 4 + d) / 16 % 4 = b := by omega
      have h3 : (a * 64 + b * 16 + c * 4 + d) / 4 % 4 = c := by omega
      have h4 : (a * 64 + b * 16 + c * 4 + d) % 4 = d := by omega
      have ih := vefBitmap4 pal hpal t ht n px (by simp at hl; omega) (fun p hp => hlt p (by simp [hp]))
      have ht8 : t ≠ 8 := by omega
      have ht76 : (t = 7 ∨ t = 6) := ht
      simp [packQuad, vefBitmap, ht8, ht76, h1, h2, h3, h4, palAt_ok pal a (by omega), palAt_ok pal b (by omega),
        palAt_ok pal c (by omega), palAt_ok pal d (by omega), ih, bind, Except.bind, pure, Except.pure]
  | n + 1, [], hl, _ => by simp at hl
  | n + 1, [_], hl, _ => by simp at hl; omega
  | n + 1, [_, _], hl, _ => by simp at hl; omega
  | n + 1, [_, _, _], hl, _ => by simp at hl; omega

/-! ### MAX table modes -/

def bitsMSB (v : Nat) : List Nat :=
  [v / 128 % 2, v / 64 % 2, v / 32 % 2, v / 16 % 2, v / 8 % 2, v / 4 % 2, v / 2 % 2, v % 2]

def tableModes : List Nat := [0, 3, 4, 5, 6, 7, 8]

/-- all 256 byte values in all seven table-driven modes -/
theorem maxByteTable_bits : ∀ arte ∈ tableModes, ∀ v, v < 256 →
    maxByteTable arte v = renderBits arte (bitsMSB v) := by
  decide +kernel

theorem renderBits_pairs_append (arte : Nat) : ∀ (n : Nat) (a b : List Nat), a.length = 2 * n →
    renderBits.pairs arte (a ++ b) = renderBits.pairs arte a ++ renderBits.pairs arte b
  | 0, a, b, h => by
      have : a = [] := List.length_eq_zero_iff.mp (by omega)
      subst this; simp [renderBits.pairs]
  | n + 1, x :: y :: a, b, h => by
      simp [renderBits.pairs, renderBits_pairs_append arte n a b (by simp at h; omega)]
  | n + 1, [], _, h => by simp at h
  | n + 1, [_], _, h => by simp at h; omega

theorem renderBits_append (arte : Nat) (n : Nat) (a b : List Nat) (h : a.length = 2 * n) :
    renderBits arte (a ++ b) = renderBits arte a ++ renderBits arte b := by
  unfold renderBits
  split
  · simp
  · exact renderBits_pairs_append arte n a b h

theorem maxBytes_pack (arte : Nat) (harte : arte ∈ tableModes) :
    ∀ (n : Nat) (bits : List Nat), bits.length = 8 * n → (∀ b ∈ bits, b < 2) →
      (packBits bits).flatMap (maxByteTable arte) = renderBits arte bits
  | 0, bits, hl, _ => by
      have : bits = [] := List.length_eq_zero_iff.mp (by omega)
      subst this
      simp [packBits, renderBits, renderBits.pairs]
  | n + 1, a :: b :: c :: d :: e :: f :: g :: h :: bits, hl, hlt => by
      have ha : a < 2 := hlt a (by simp)
      have hb : b < 2 := hlt b (by simp)
      have hc : c < 2 := hlt c (by simp)
      have hd : d < 2 := hlt d (by simp)
      have he : e < 2 := hlt e (by simp)
      have hf : f < 2 := hlt f (by simp)
      have hg : g < 2 := hlt g (by simp)
      have hh : h < 2 := hlt h (by simp)
      have ih := maxBytes_pack arte harte n bits (by simp at hl; omega) (fun x hx => hlt x (by simp [hx]))
      have hv : a * 128 + b * 64 + c * 32 + d * 16 + e * 8 + f * 4 + g * 2 + h < 256 := by omega
      have hbits : bitsMSB (a * 128 + b * 64 + c * 32 + d * 16 + e * 8 + f * 4 + g * 2 + h)
          = [a, b, c, d, e, f, g, h] := by
        simp only [bitsMSB, List.cons.injEq, and_true]
        refine ⟨?_, ?_, ?_, ?_, ?_, ?_, ?_, ?_⟩ <;> omega
      have hbyte := maxByteTable_bits arte harte _ hv
      rw [hbits] at hbyte
      have happ := renderBits_append arte 4 [a, b, c, d, e, f, g, h] bits (by simp)
      simp only [packBits, List.flatMap_cons, hbyte, ih]
      exact happ.symm
  | n + 1, [], hl, _ => by simp at hl
  | n + 1, [_], hl, _ => by simp at hl; omega
  | n + 1, [_, _], hl, _ => by simp at hl; omega
  | n + 1, [_, _, _], hl, _ => by simp at hl; omega
  | n + 1, [_, _, _, _], hl, _ => by simp at hl; omega
  | n + 1, [_, _, _, _, _], hl, _ => by simp at hl; omega
  | n + 1, [_, _, _, _, _, _], hl, _ => by simp at hl; omega
  | n + 1, [_, _, _, _, _, _, _], hl, _ => by simp at hl; omega

theorem packBits_length : ∀ (n : Nat) (bits : List Nat), bits.length = 8 * n → (packBits bits).length = n
  | 0, bits, hl => by
      have : bits = [] := List.length_eq_zero_iff.mp (by omega)
      subst this; simp [packBits]
  | n + 1, _ :: _ :: _ :: _ :: _ :: _ :: _ :: _ :: bits, hl => by
      simp [packBits, packBits_length n bits (by simp at hl; omega)]
  | n + 1, [], hl => by simp at hl
  | n + 1, [_], hl => by simp at hl; omega
  | n + 1, [_, _], hl => by simp at hl; omega
  | n + 1, [_, _, _], hl => by simp at hl; omega
  | n + 1, [_, _, _, _], hl => by simp at hl; omega
  | n + 1, [_, _, _, _, _], hl => by simp at hl; omega
  | n + 1, [_, _, _, _, _, _], hl => by simp at hl; omega
  | n + 1, [_, _, _, _, _, _, _], hl => by simp at hl; omega

/-- in the table modes the row structure is irrelevant: rows × (cols/8) bytes, each shown by itself -/
theorem maxRows_table (arte cols : Nat) (harte : arte ∈ tableModes) :
    ∀ (rows : Nat) (bs : List Nat),
      maxRows arte cols rows bs = (bs.take (rows * (cols / 8))).flatMap (maxByteTable arte)
  | 0, bs => by simp [maxRows]
  | k + 1, bs => by
      have ih := maxRows_table arte cols harte k (bs.drop (cols / 8))
      have hrow : ∀ row, maxRow arte row = row.flatMap (maxByteTable arte) := by
        intro row
        have h1 : (arte == 1) = false := by simp [tableModes] at harte; rcases harte with h|h|h|h|h|h|h <;> simp [h]
        have h2 : (arte == 2) = false := by simp [tableModes] at harte; rcases harte with h|h|h|h|h|h|h <;> simp [h]
        simp [maxRow, h1, h2]
      have hsplit : bs.take ((k + 1) * (cols / 8))
          = bs.take (cols / 8) ++ (bs.drop (cols / 8)).take (k * (cols / 8)) := by
        have : (k + 1) * (cols / 8) = cols / 8 + k * (cols / 8) := by
          rw [Nat.add_mul, Nat.one_mul, Nat.add_comm]
        rw [this, List.take_add]
      simp [maxRows, hrow, ih, hsplit]

end CocoVerif.Props.Img
