import CocoVerif.Model.ProcBank

/-! Lemmas about the procedure-bank model: sorting a set of names, the dependency closure. -/
namespace CocoVerif.Props.ProcBank
open CocoVerif.Model.ProcBank

/-! ### `sorted(set)` -/

theorem mem_insertSorted (x y : String) : ∀ l : List String, y ∈ insertSorted x l ↔ y = x ∨ y ∈ l
  | [] => by simp [insertSorted]
  | z :: zs => by
      unfold insertSorted
      split
      · simp
      · split
        · next h =>
          have hxz : x = z := by simpa using h
          rw [hxz]; simp
        · simp [mem_insertSorted x y zs]; constructor
          · rintro (h | h | h) <;> simp [h]
          · rintro (h | h | h) <;> simp [h]

theorem mem_sortStrings (y : String) (xs : List String) : y ∈ sortStrings xs ↔ y ∈ xs := by
  unfold sortStrings
  suffices h : ∀ (acc : List String), y ∈ xs.foldl (fun acc x => insertSorted x acc) acc ↔ y ∈ xs ∨ y ∈ acc by
    simpa using h []
  induction xs with
  | nil => intro acc; simp
  | cons x xs ih =>
      intro acc
      simp only [List.foldl_cons, ih, mem_insertSorted, List.mem_cons]
      constructor
      · rintro (h | h | h) <;> simp [h]
      · rintro ((h | h) | h) <;> simp [h]

theorem sorted_insertSorted (x : String) : ∀ l : List String, l.Pairwise (· < ·) →
    (insertSorted x l).Pairwise (· < ·)
  | [], _ => by simp [insertSorted]
  | z :: zs, h => by
      have hz : ∀ w ∈ zs, z < w := (List.pairwise_cons.mp h).1
      have hzs : zs.Pairwise (· < ·) := (List.pairwise_cons.mp h).2
      unfold insertSorted
      split
      · next hxz =>
        refine List.pairwise_cons.mpr ⟨?_, h⟩
        intro w hw
        rcases List.mem_cons.mp hw with rfl | hw
        · exact hxz
        · exact String.lt_trans hxz (hz w hw)
      · next hxz =>
        split
        · exact h
        · next hne =>
          have hne' : x ≠ z := by simpa using hne
          have hzx : z < x := Std.lt_of_le_of_ne (String.not_lt.mp hxz) (Ne.symm hne')
          refine List.pairwise_cons.mpr ⟨?_, sorted_insertSorted x zs hzs⟩
          intro w hw
          rcases (mem_insertSorted x w zs).mp hw with rfl | hw
          · exact hzx
          · exact hz w hw

theorem sorted_sortStrings (xs : List String) : (sortStrings xs).Pairwise (· < ·) := by
  unfold sortStrings
  suffices h : ∀ (acc : List String), acc.Pairwise (· < ·) →
      (xs.foldl (fun acc x => insertSorted x acc) acc).Pairwise (· < ·) from h [] List.Pairwise.nil
  induction xs with
  | nil => intro acc h; simpa using h
  | cons x xs ih => intro acc h; exact ih _ (sorted_insertSorted x acc h)

theorem nodup_of_sorted (l : List String) (h : l.Pairwise (· < ·)) : l.Nodup := by
  refine List.Pairwise.imp ?_ h
  intro a b hab heq
  subst heq
  exact String.lt_irrefl a hab

/-- two strictly ascending lists with the same members are the same list -/
theorem sorted_ext (l₁ l₂ : List String) (h₁ : l₁.Pairwise (· < ·)) (h₂ : l₂.Pairwise (· < ·))
    (hm : ∀ x, x ∈ l₁ ↔ x ∈ l₂) : l₁ = l₂ := by
  have hp : l₁.Perm l₂ :=
    (List.perm_ext_iff_of_nodup (nodup_of_sorted l₁ h₁) (nodup_of_sorted l₂ h₂)).mpr hm
  exact List.Perm.eq_of_pairwise (le := (· < ·))
    (fun a b _ _ hab hba => absurd hba (String.lt_asymm hab)) h₁ h₂ hp

/-- `sorted(s)` depends only on which names are in the set, not on the order (or multiplicity)
in which the set hands them out -/
theorem sortStrings_order_independent (xs ys : List String) (h : ∀ x, x ∈ xs ↔ x ∈ ys) :
    sortStrings xs = sortStrings ys :=
  sorted_ext _ _ (sorted_sortStrings xs) (sorted_sortStrings ys)
    (fun x => by rw [mem_sortStrings, mem_sortStrings]; exact h x)

/-! ### dependency closure -/

/-- reachability through `RUN` edges -/
inductive Reach (deps : String → List String) (root : String) : String → Prop
  | root : Reach deps root root
  | step {m n : String} : Reach deps root m → n ∈ deps m → Reach deps root n

structure Inv (deps : String → List String) (root : String) (todo seen : List String) : Prop where
  reach : ∀ n, n ∈ seen ∨ n ∈ todo → Reach deps root n
  closed : ∀ m ∈ seen, ∀ n ∈ deps m, n ∈ seen ∨ n ∈ todo
  hasRoot : root ∈ seen ∨ root ∈ todo

theorem closure_inv (deps : String → List String) (root : String) :
    ∀ (fuel : Nat) (todo seen res : List String), Inv deps root todo seen →
      closure deps fuel todo seen = some res → Inv deps root [] res := by
  intro fuel
  induction fuel with
  | zero =>
      intro todo seen res hinv h
      cases todo with
      | nil => simp [closure] at h; subst h; exact hinv
      | cons n t => simp [closure] at h
  | succ fuel ih =>
      intro todo seen res hinv h
      cases todo with
      | nil => simp [closure] at h; subst h; exact hinv
      | cons n t =>
          simp only [closure] at h
          split at h
          · next hc =>
            have hn : n ∈ seen := by simpa using hc
            refine ih t seen res ⟨?_, ?_, ?_⟩ h
            · intro x hx; exact hinv.reach x (hx.elim Or.inl (fun hx => Or.inr (List.mem_cons_of_mem _ hx)))
            · intro m hm x hx
              rcases hinv.closed m hm x hx with h1 | h1
              · exact Or.inl h1
              · rcases List.mem_cons.mp h1 with rfl | h1
                · exact Or.inl hn
                · exact Or.inr h1
            · rcases hinv.hasRoot with h1 | h1
              · exact Or.inl h1
              · rcases List.mem_cons.mp h1 with h2 | h1
                · exact Or.inl (h2 ▸ hn)
                · exact Or.inr h1
          · next hc =>
            have hrn : Reach deps root n := hinv.reach n (Or.inr (List.mem_cons_self))
            refine ih (deps n ++ t) (seen ++ [n]) res ⟨?_, ?_, ?_⟩ h
            · intro x hx
              rcases hx with hx | hx
              · rcases List.mem_append.mp hx with hx | hx
                · exact hinv.reach x (Or.inl hx)
                · have : x = n := by simpa using hx
                  exact this ▸ hrn
              · rcases List.mem_append.mp hx with hx | hx
                · exact Reach.step hrn hx
                · exact hinv.reach x (Or.inr (List.mem_cons_of_mem _ hx))
            · intro m hm x hx
              rcases List.mem_append.mp hm with hm | hm
              · rcases hinv.closed m hm x hx with h1 | h1
                · exact Or.inl (List.mem_append.mpr (Or.inl h1))
                · rcases List.mem_cons.mp h1 with rfl | h1
                  · exact Or.inl (List.mem_append.mpr (Or.inr (by simp)))
                  · exact Or.inr (List.mem_append.mpr (Or.inr h1))
              · have : m = n := by simpa using hm
                subst this
                exact Or.inr (List.mem_append.mpr (Or.inl hx))
            · rcases hinv.hasRoot with h1 | h1
              · exact Or.inl (List.mem_append.mpr (Or.inl h1))
              · rcases List.mem_cons.mp h1 with h2 | h1
                · exact Or.inl (List.mem_append.mpr (Or.inr (by simp [h2])))
                · exact Or.inr (List.mem_append.mpr (Or.inr h1))

/-- The closure the bank computes is exactly the set of procedures reachable through RUN calls. -/
theorem closure_eq_reach (deps : String → List String) (root : String) (fuel : Nat) (res : List String)
    (h : closure deps fuel [root] [] = some res) : ∀ n, n ∈ res ↔ Reach deps root n := by
  have hinv : Inv deps root [root] [] :=
    ⟨fun n hn => by
        rcases hn with hn | hn
        · simp at hn
        · have : n = root := by simpa using hn
          exact this ▸ Reach.root,
     fun m hm => by simp at hm, Or.inr (by simp)⟩
  have hfin := closure_inv deps root fuel [root] [] res hinv h
  intro n
  constructor
  · intro hn; exact hfin.reach n (Or.inl hn)
  · intro hr
    induction hr with
    | root => rcases hfin.hasRoot with h1 | h1
              · exact h1
              · simp at h1
    | step _ hd ih =>
        rcases hfin.closed _ ih _ hd with h1 | h1
        · exact h1
        · simp at h1

end CocoVerif.Props.ProcBank
