import CocoVerif.Model.ProcBank
/-!
# C13 (third clause) — the string-size placeholders of the library

`substTags` is the model of `re.sub(STR_STORAGE_TAG, size_text, bundle)`; the tie is the `procbank` / `b09`
suites.  Theorems for every text: a placeholder outside a literal is replaced, one inside a literal is
not, and text without a placeholder is unchanged.
-/
namespace CocoVerif.Props.C13Subst
open CocoVerif.Model.ProcBank

abbrev rol : List Char → List Char := fun cs => List.takeWhile (fun x => x != '\n') cs
abbrev go (repl : List Char) := substTags.go repl rol

theorem substTags_eq (repl text : List Char) : substTags repl text = go repl text (text.length + 1) := rfl

/-- one step at a character that is not a colon -/
theorem go_cons_ne (repl : List Char) (c : Char) (cs : List Char) (fuel : Nat) (h : c ≠ ':') :
    go repl (c :: cs) (fuel + 1) = c :: go repl cs fuel := by
  simp [go, substTags.go, h]

/-- text without a colon passes through the substitution unchanged (any fuel) -/
theorem go_no_colon (repl : List Char) :
    ∀ (cs : List Char) (fuel : Nat), (∀ c ∈ cs, c ≠ ':') → go repl cs fuel = cs
  | cs, 0, _ => by cases cs <;> simp [go, substTags.go]
  | [], _ + 1, _ => by simp [go, substTags.go]
  | c :: cs, fuel + 1, h => by
      rw [go_cons_ne repl c cs fuel (h c (by simp))]
      rw [go_no_colon repl cs fuel (fun x hx => h x (by simp [hx]))]

theorem go_prefix (repl : List Char) :
    ∀ (pre rest : List Char) (fuel : Nat), (∀ c ∈ pre, c ≠ ':') →
      go repl (pre ++ rest) (fuel + pre.length) = pre ++ go repl rest fuel
  | [], rest, fuel, _ => by simp
  | c :: pre, rest, fuel, h => by
      have : fuel + (c :: pre).length = (fuel + pre.length) + 1 := by simp; omega
      rw [this, List.cons_append, go_cons_ne repl c _ _ (h c (by simp))]
      rw [go_prefix repl pre rest fuel (fun x hx => h x (by simp [hx]))]
      rfl


def tagLower : List Char := ['s','t','r','i','n','g','<','<','>','>']
theorem tagLower_eq : "string<<>>".toList = tagLower := by rfl

theorem strip_tag (t post : List Char) (ht : lower t = tagLower) :
    stripPrefixCI tagLower (t ++ post) = some post := by
  have hl : t.length = 10 := by
    have := congrArg List.length ht
    simpa [lower, tagLower] using this
  have hk : tagLower.length = 10 := rfl
  unfold stripPrefixCI
  rw [hk, ← hl, List.take_left', List.drop_left', ht]
  · simp
  · rfl
  · rfl

theorem dropWhile_ws (ws rest : List Char) (hws : ∀ c ∈ ws, isSpace c = true)
    (hr : ∀ c, rest.head? = some c → isSpace c = false) :
    (ws ++ rest).dropWhile isSpace = rest := by
  induction ws with
  | nil =>
      cases rest with
      | nil => rfl
      | cons c cs => simp [List.dropWhile, hr c rfl]
  | cons w ws ih =>
      simp only [List.cons_append, List.dropWhile, hws w (by simp)]
      exact ih (fun c hc => hws c (by simp [hc]))

/-- the step at a colon that starts a placeholder `: STRING<<>>` (any blanks, any letter case) -/
theorem go_tag (repl ws t post : List Char) (fuel : Nat)
    (hws : ∀ c ∈ ws, isSpace c = true) (ht : lower t = tagLower)
    (hns : ∀ c, t.head? = some c → isSpace c = false) :
    go repl (':' :: (ws ++ (t ++ post))) (fuel + 1)
      = if evenQuotes (rol post) then repl ++ go repl post fuel
        else ':' :: go repl (ws ++ (t ++ post)) fuel := by
  have hd : (ws ++ (t ++ post)).dropWhile isSpace = t ++ post := by
    apply dropWhile_ws ws (t ++ post) hws
    intro c hc
    cases t with
    | nil => simp [lower, tagLower] at ht
    | cons a as => simp at hc; subst hc; exact hns a rfl
  have hs := strip_tag t post ht
  simp only [go, substTags.go, tagLower_eq]
  simp [hd, hs]


/-- **A placeholder is replaced by the requested size text.**  For every line prefix `pre` and
suffix `post` without a colon, any white space `ws` after the colon, any spelling `t` of
`STRING<<>>` (letter case ignored) — when the rest of the line holds an even number of quotes (the
placeholder is not inside a string literal) the substitution yields `pre ++ repl ++ post`. -/
theorem subst_placeholder (repl pre ws t post : List Char)
    (hpre : ∀ c ∈ pre, c ≠ ':') (hws : ∀ c ∈ ws, isSpace c = true) (ht : lower t = tagLower)
    (hns : ∀ c, t.head? = some c → isSpace c = false)
    (hpost : ∀ c ∈ post, c ≠ ':') (hq : evenQuotes (rol post) = true) :
    substTags repl (pre ++ ':' :: (ws ++ (t ++ post))) = pre ++ repl ++ post := by
  rw [substTags_eq]
  have hlen : (pre ++ ':' :: (ws ++ (t ++ post))).length + 1
      = ((ws ++ (t ++ post)).length + 1 + 1) + pre.length := by simp; omega
  rw [hlen, go_prefix repl pre _ _ hpre, go_tag repl ws t post _ hws ht hns, if_pos hq,
    go_no_colon repl post _ hpost, List.append_assoc]

/-- **A placeholder spelled inside a string literal is left alone**: when an odd number of quotes
follows it on its line, the text is unchanged. -/
theorem subst_inside_literal (repl pre ws t post : List Char)
    (hpre : ∀ c ∈ pre, c ≠ ':') (hws : ∀ c ∈ ws, isSpace c = true) (ht : lower t = tagLower)
    (hns : ∀ c, t.head? = some c → isSpace c = false)
    (hrest : ∀ c ∈ ws ++ (t ++ post), c ≠ ':') (hq : evenQuotes (rol post) = false) :
    substTags repl (pre ++ ':' :: (ws ++ (t ++ post))) = pre ++ ':' :: (ws ++ (t ++ post)) := by
  rw [substTags_eq]
  have hlen : (pre ++ ':' :: (ws ++ (t ++ post))).length + 1
      = ((ws ++ (t ++ post)).length + 1 + 1) + pre.length := by simp; omega
  rw [hlen, go_prefix repl pre _ _ hpre, go_tag repl ws t post _ hws ht hns, hq]
  simp only [Bool.false_eq_true, if_false]
  rw [go_no_colon repl _ _ hrest]

/-- no colon of `cs` is followed (after white space) by `STRING<<>>` -/
def NoPlaceholder (cs : List Char) : Prop :=
  ∀ pre rest, cs = pre ++ ':' :: rest → stripPrefixCI tagLower (rest.dropWhile isSpace) = none

theorem go_no_placeholder (repl : List Char) :
    ∀ (cs : List Char) (fuel : Nat), NoPlaceholder cs → go repl cs fuel = cs
  | cs, 0, _ => by cases cs <;> simp [go, substTags.go]
  | [], _ + 1, _ => by simp [go, substTags.go]
  | c :: cs, fuel + 1, h => by
      have htail : NoPlaceholder cs := fun pre rest e => h (c :: pre) rest (by simp [e])
      by_cases hc : c = ':'
      · subst hc
        have h0 := h [] cs rfl
        have : go repl (':' :: cs) (fuel + 1) = ':' :: go repl cs fuel := by
          simp only [go, substTags.go, tagLower_eq]
          simp [h0]
        rw [this, go_no_placeholder repl cs fuel htail]
      · rw [go_cons_ne repl c cs fuel hc, go_no_placeholder repl cs fuel htail]

/-- **Text without a placeholder comes through unchanged** — whatever else it contains: string
literals, DATA items, comments, colons, `RUN` and `procedure` spelled inside literals.  This is the
user's program in the bundle (the tool's own output never contains `STRING<<>>`). -/
theorem subst_no_placeholder (repl text : List Char) (h : NoPlaceholder text) :
    substTags repl text = text := by
  rw [substTags_eq]; exact go_no_placeholder repl text _ h

/-- the two spellings the library uses / could use satisfy the hypotheses -/
example : lower "STRING<<>>".toList = tagLower ∧ lower "String<<>>".toList = tagLower := by decide
/-- non-vacuity: `param a: STRING<<>>; b: real` with the size text `: STRING[80]` -/
example : substTags ": STRING[80]".toList "param a: STRING<<>>; b".toList = "param a: STRING[80]; b".toList := by
  decide +kernel
example : substTags ": STRING[80]".toList "PRINT \": STRING<<>>\"".toList = "PRINT \": STRING<<>>\"".toList := by
  decide +kernel
/-- a decidable test for `NoPlaceholder` -/
def noPlaceholderB : List Char → Bool
  | [] => true
  | c :: cs => (c != ':' || (stripPrefixCI tagLower (cs.dropWhile isSpace)).isNone) && noPlaceholderB cs

theorem noPlaceholder_of_test : ∀ cs, noPlaceholderB cs = true → NoPlaceholder cs
  | [], _ => by intro pre rest e; simp at e
  | c :: cs, h => by
      simp only [noPlaceholderB, Bool.and_eq_true, Bool.or_eq_true, bne_iff_ne, ne_eq,
        Option.isNone_iff_eq_none] at h
      intro pre rest e
      cases pre with
      | nil =>
          simp only [List.nil_append, List.cons.injEq] at e
          rcases h.1 with h1 | h1
          · exact absurd e.1 h1
          · rw [← e.2]; exact h1
      | cons p pre =>
          simp only [List.cons_append, List.cons.injEq] at e
          exact noPlaceholder_of_test cs h.2 pre rest e.2

/-- non-vacuity: a program line with colons, a literal holding a colon and the word STRING -/
example : NoPlaceholder "10 A$ = \"X:Y\" \\ PRINT : STRING".toList :=
  noPlaceholder_of_test _ (by decide +kernel)

end CocoVerif.Props.C13Subst
