import CocoVerif.Props.Lemmas.Img

/-!
# C16 — decoders reproduce every pixel and palette entry of an uncompressed image

Property theorems only; helper lemmas live in `Props/Lemmas/Img.lean`.
-/
namespace CocoVerif.Props.C16
open CocoVerif.Model.Img CocoVerif.Spec.Img CocoVerif.Props.Img

/-- The colour formula used by hrs/mge/cm3/rat is the CoCo 3 colour code, for every byte. -/
theorem rgb6_is_colour_code (c : Nat) : rgb6 c = colour c := rgb6_eq_colour c

/-- …and on the 64 codes it is the committed reference palette. -/
theorem colour_code_reference_table :
    ∀ c, c < 64 → colour c = (match refTable.getD c (0,0,0) with | (r, g, b) => [r, g, b]) := by
  decide

/-- HRS: palette + packed nibbles decode to exactly the image, every pixel, both nibbles. -/
theorem hrs_roundtrip (w h : Nat) (pal px : List Nat)
    (hpal : pal.length = 16) (hw : w % 2 = 0) (hpx : px.length = w * h) (hlt : ∀ p ∈ px, p < 16) :
    hrs w h 0 (pal ++ packNib px) = .ok (ppmHeader "P6" w h ++ render pal px) := by
  have hn : px.length = 2 * (h * (w / 2)) := by
    rw [hpx]
    have : w = 2 * (w / 2) := by omega
    calc w * h = (2 * (w / 2)) * h := by rw [← this]
      _ = 2 * (h * (w / 2)) := by rw [Nat.mul_assoc, Nat.mul_comm (w / 2) h]
  have h1 : List.take 16 (pal ++ packNib px) = pal := by
    rw [← hpal]; simp
  have h2 : List.drop 16 (pal ++ packNib px) = packNib px := by
    rw [← hpal]; simp
  have := readDump_pack pal hpal (h * (w / 2)) px [] hn hlt
  simp only [List.append_nil] at this
  simp [hrs, h1, h2, this, bind, Except.bind, pure, Except.pure]

example : hrs 2 1 0 ([0,1,2,3,4,5,6,7,8,9,10,11,12,13,14,63] ++ packNib [15, 1])
    = .ok (ppmHeader "P6" 2 1 ++ [255,255,255, 0,0,85]) := by rfl

/-- Uncompressed MGE (RGB and composite): header, palette, flags, title, then 32000 packed bytes. -/
theorem mge_raw_roundtrip (pal px title : List Nat) (flag pk c a : Nat)
    (hpal : pal.length = 16) (hpx : px.length = 64000) (hlt : ∀ p ∈ px, p < 16)
    (hpk : pk ≠ 0) (ht : title.length = 30) (hz : 0 ∈ title)
    (hcmp : flag ≠ 0 → ∀ p ∈ pal, p < 64) :
    mge ([0] ++ pal ++ [flag] ++ [pk] ++ title ++ [c, a] ++ packNib px)
      = .ok (ppmHeader "P6" 320 200 ++ render (mgePalette flag pal) px) := by
  have hrd := readDump_pack (mgePalette flag pal) (mgePalette_length flag pal hpal) 32000 px []
    (by omega) hlt
  simp only [List.append_nil] at hrd
  rw [mge_header pal title (packNib px) flag pk c a hpal ht hz hcmp]
  simp [hpk, hrd]

/-- CM3 files made of raw lines: one or two pages, with or without the 243-byte pattern block.
`pages` lists, per page, the rows as (control byte ≥ 128, 320 palette indices). -/
theorem cm3_raw_roundtrip (typ : Nat) (pal anim pat : List Nat)
    (pages : List (List (Nat × List Nat)))
    (hpal : pal.length = 16) (hanim : anim.length = 12)
    (hpat : pat.length = if getbit typ 0 ≠ 0 then 0 else 243)
    (hpages : pages.length = getbit typ 7 + 1)
    (_h192 : ∀ rows ∈ pages, rows.length = 192)
    (hrows : ∀ rows ∈ pages, ∀ r ∈ rows, 128 ≤ r.1 ∧ RowOK r.2) :
    cm3 (typ :: (pal ++ (anim ++ (pat ++ encRawPages pages))))
      = .ok (ppmHeader "P6" 320 (pages.length * 192) ++ render pal (pagesPixels pages)) := by
  have h16 := readN_append pal (anim ++ (pat ++ encRawPages pages))
  rw [hpal] at h16
  have h12 := readN_append anim (pat ++ encRawPages pages)
  rw [hanim] at h12
  have hpg := cm3Pages_raw pal hpal pages (List.replicate 160 0) hrows
  rw [hpages] at hpg
  have hdrop : (if getbit typ 0 ≠ 0 then pat ++ encRawPages pages
      else List.drop 243 (pat ++ encRawPages pages)) = encRawPages pages := by
    split
    · next h => simp [h] at hpat; simp [hpat]
    · next h => simp [h] at hpat; rw [← hpat]; simp
  simp only [cm3, read1, h16, h12, bind, Except.bind, pure, Except.pure, hdrop, hpg, hpages]

/-- VEF type 320x200x16, not squashed: every byte yields its two pixels through the palette. -/
theorem vef_raw_roundtrip_16 (flag : Nat) (pal px : List Nat) (hflag : flag ≠ 128)
    (hpal : pal.length = 16) (hpx : px.length = 64000) (hlt : ∀ p ∈ px, p < 16) :
    vef (flag :: 0 :: (pal ++ packNib px))
      = .ok { width := 320, height := 200, bitmap := px.map (fun p => pal.getD p 0) } := by
  have hb := vefBitmap8 pal hpal 32000 px (by omega) hlt
  have htk : List.take 16 (pal ++ packNib px) = pal := by rw [← hpal]; simp
  have hdr : List.drop 16 (pal ++ packNib px) = packNib px := by rw [← hpal]; simp
  simp [vef, hflag, htk, hdr, hb, bind, Except.bind, pure, Except.pure]

/-- VEF types 640x200x4 (t = 1) and 320x200x4 (t = 3), not squashed: four pixels per byte. -/
theorem vef_raw_roundtrip_4 (flag t : Nat) (pal px : List Nat) (hflag : flag ≠ 128)
    (ht : t = 1 ∨ t = 3) (hpal : pal.length = 16)
    (hpx : px.length = if t = 1 then 128000 else 64000) (hlt : ∀ p ∈ px, p < 4) :
    vef (flag :: t :: (pal ++ packQuad px))
      = .ok { width := if t = 1 then 640 else 320, height := 200,
              bitmap := px.map (fun p => pal.getD p 0) } := by
  have htk : List.take 16 (pal ++ packQuad px) = pal := by rw [← hpal]; simp
  have hdr : List.drop 16 (pal ++ packQuad px) = packQuad px := by rw [← hpal]; simp
  rcases ht with rfl | rfl
  · have hb := vefBitmap4 pal hpal 7 (Or.inl rfl) 32000 px (by simp at hpx; omega) hlt
    simp [vef, hflag, htk, hdr, hb, bind, Except.bind, pure, Except.pure]
  · have hb := vefBitmap4 pal hpal 6 (Or.inr rfl) 16000 px (by simp at hpx; omega) hlt
    simp [vef, hflag, htk, hdr, hb, bind, Except.bind, pure, Except.pure]

/-- MAX/ART in the seven table-driven pixel modes (no artifact, br2, rb2, br3, rb3, s10, s11):
a 5-byte header announcing the length, then `rows × cols/8` bytes; every bit / bit pair of every
byte is shown with the colour its mode assigns (`renderBits`, written from the mode descriptions). -/
theorem max_roundtrip (arte cols rows x y : Nat) (bits : List Nat)
    (harte : arte ∈ tableModes) (hcols : cols % 8 = 0) (hc0 : 0 < cols)
    (hbits : bits.length = cols * rows) (hlt : ∀ b ∈ bits, b < 2)
    (hsize : cols / 8 * rows < 65536) :
    max { arte := arte, cols := cols }
        ([0, cols / 8 * rows / 256, cols / 8 * rows % 256, x, y] ++ packBits bits)
      = .ok (ppmHeader "P6" cols rows ++ renderBits arte bits) := by
  obtain ⟨k, hk⟩ : ∃ k, cols = 8 * k := ⟨cols / 8, by omega⟩
  subst hk
  have hk0 : 0 < k := by omega
  have h8 : 8 * k / 8 = k := by omega
  rw [h8] at hsize ⊢
  have hsz : k * rows / 256 * 256 + k * rows % 256 = k * rows := by omega
  have hrows : 8 * (k * rows) / (8 * k) = rows := by
    rw [show 8 * (k * rows) = (8 * k) * rows by rw [Nat.mul_assoc]]
    exact Nat.mul_div_cancel_left rows (by omega)
  have hchk : 8 * k * rows / 8 = k * rows := by
    rw [Nat.mul_assoc]; exact Nat.mul_div_cancel_left _ (by omega)
  have hlen : bits.length = 8 * (rows * k) := by
    rw [hbits, Nat.mul_assoc, Nat.mul_comm k rows]
  have hpl := packBits_length (rows * k) bits hlen
  have hrt := maxRows_table arte (8 * k) harte rows (packBits bits)
  rw [h8, ← hpl, List.take_length] at hrt
  have hmb := maxBytes_pack arte harte (rows * k) bits hlen hlt
  simp [CocoVerif.Model.Img.max, hsz, hrows, hchk, hrt, hmb, pure, Except.pure]

/-- the same for the two-byte Newsroom/.ART header (`cols/8`, `rows`) -/
theorem max_newsroom_roundtrip (arte k rows : Nat) (bits : List Nat)
    (harte : arte ∈ tableModes)
    (hbits : bits.length = 8 * k * rows) (hlt : ∀ b ∈ bits, b < 2) :
    max { arte := arte, newsroom := true } ([k, rows] ++ packBits bits)
      = .ok (ppmHeader "P6" (k * 8) rows ++ renderBits arte bits) := by
  have h8 : k * 8 / 8 = k := by omega
  have hlen : bits.length = 8 * (rows * k) := by
    rw [hbits, Nat.mul_assoc, Nat.mul_comm k rows]
  have hpl := packBits_length (rows * k) bits hlen
  have hrt := maxRows_table arte (k * 8) harte rows (packBits bits)
  rw [h8, ← hpl, List.take_length] at hrt
  have hmb := maxBytes_pack arte harte (rows * k) bits hlen hlt
  simp [CocoVerif.Model.Img.max, hrt, hmb, pure, Except.pure]

/-! ### PIX: square, stored column by column, two rows per byte -/

def grey (v : Nat) : Nat := 255 - v * 17

/-- the byte at (column y, row pair x) of an image given as a function row → column → 0..15 -/
def pixByte (img : Nat → Nat → Nat) (x y : Nat) : Nat := img (2 * x) y * 16 + img (2 * x + 1) y

def colBytes (img : Nat → Nat → Nat) (y : Nat) : Nat → Nat → List Nat
  | _, 0 => []
  | x, k + 1 => pixByte img x y :: colBytes img y (x + 1) k

def encPix (img : Nat → Nat → Nat) (h : Nat) : Nat → Nat → List Nat
  | _, 0 => []
  | y, k + 1 => colBytes img y 0 h ++ encPix img h (y + 1) k

def greyImage (img : Nat → Nat → Nat) (side : Nat) : List Nat :=
  (List.range (side * side)).map (fun i => grey (img (i / side) (i % side)))

def doneAt (y x r c : Nat) : Prop := c < y ∨ (c = y ∧ r < 2 * x)

def Good (img : Nat → Nat → Nat) (side : Nat) (s : List Nat) (y x : Nat) : Prop :=
  s.length = side * side ∧ ∀ r c, r < side → c < side → doneAt y x r c → s[r * side + c]? = some (grey (img r c))

theorem idx_lt (side r c : Nat) (hr : r < side) (hc : c < side) : r * side + c < side * side := by
  have : r * side + c < (r + 1) * side := by rw [Nat.add_mul]; omega
  have h2 : (r + 1) * side ≤ side * side := Nat.mul_le_mul_right side (by omega)
  omega

theorem idx_inj (side r c r' c' : Nat) (hc : c < side) (hc' : c' < side)
    (h : r * side + c = r' * side + c') : r = r' ∧ c = c' := by
  have hs : 0 < side := by omega
  have d1 : (side * r + c) / side = r := by rw [Nat.mul_add_div hs, Nat.div_eq_of_lt hc]; omega
  have d2 : (side * r' + c') / side = r' := by rw [Nat.mul_add_div hs, Nat.div_eq_of_lt hc']; omega
  have m1 : (side * r + c) % side = c := by rw [Nat.mul_add_mod, Nat.mod_eq_of_lt hc]
  have m2 : (side * r' + c') % side = c' := by rw [Nat.mul_add_mod, Nat.mod_eq_of_lt hc']
  rw [Nat.mul_comm r, Nat.mul_comm r'] at h
  rw [h] at d1 m1
  exact ⟨by omega, by omega⟩

/-- one byte: both of its pixels are placed, nothing already placed is disturbed -/
theorem pixSet_good (img : Nat → Nat → Nat) (side h : Nat) (hside : side = 2 * h) (s : List Nat) (y x : Nat)
    (hy : y < side) (hx : x < h) (himg : ∀ r c, img r c < 16) (hg : Good img side s y x) :
    Good img side (pixSet side s x y (pixByte img x y)) y (x + 1) := by
  obtain ⟨hl, hd⟩ := hg
  have ha := himg (2 * x) y
  have hb := himg (2 * x + 1) y
  have hdiv : pixByte img x y / 16 = img (2 * x) y := by unfold pixByte; omega
  have hmod : pixByte img x y % 16 = img (2 * x + 1) y := by unfold pixByte; omega
  have e1 : x + x = 2 * x := by omega
  have e2 : x + x + 1 = 2 * x + 1 := by omega
  have i1 : 2 * x * side + y < s.length := by rw [hl]; exact idx_lt side (2 * x) y (by omega) hy
  have i2 : (2 * x + 1) * side + y < s.length := by rw [hl]; exact idx_lt side (2 * x + 1) y (by omega) hy
  refine ⟨by simp [pixSet, hl], ?_⟩
  intro r c hr hc hdone
  simp only [pixSet, e1, e2, hdiv, hmod]
  by_cases h2 : (2 * x + 1) * side + y = r * side + c
  · obtain ⟨rfl, rfl⟩ := idx_inj side _ _ _ _ hy hc h2
    rw [List.getElem?_set_self (by simpa using i2)]
    simp [grey, Nat.mul_comm]
  · rw [List.getElem?_set_ne h2]
    by_cases h1 : 2 * x * side + y = r * side + c
    · obtain ⟨rfl, rfl⟩ := idx_inj side _ _ _ _ hy hc h1
      rw [List.getElem?_set_self i1]
      simp [grey, Nat.mul_comm]
    · rw [List.getElem?_set_ne h1]
      apply hd r c hr hc
      rcases hdone with hlt | ⟨rfl, hrr⟩
      · exact Or.inl hlt
      · right
        refine ⟨rfl, ?_⟩
        -- r < 2x+2 and r is neither 2x nor 2x+1
        have n1 : r ≠ 2 * x := fun hh => h1 (by rw [hh])
        have n2 : r ≠ 2 * x + 1 := fun hh => h2 (by rw [hh])
        omega

/-- one column: `k` bytes from row pair `x` on -/
theorem pixRow_good (img : Nat → Nat → Nat) (side h : Nat) (hside : side = 2 * h) (y : Nat) (hy : y < side)
    (himg : ∀ r c, img r c < 16) :
    ∀ (k x : Nat) (s rest : List Nat), x + k = h → Good img side s y x →
      ∃ s', pixRow side y k x s (colBytes img y x k ++ rest) = .ok (s', rest) ∧ Good img side s' y h
  | 0, x, s, rest, hk, hg => ⟨s, by simp [pixRow, colBytes, pure, Except.pure], by
      have : x = h := by omega
      subst this; exact hg⟩
  | k + 1, x, s, rest, hk, hg => by
      have hstep := pixSet_good img side h hside s y x hy (by omega) himg hg
      obtain ⟨s', hrun, hgood⟩ := pixRow_good img side h hside y hy himg k (x + 1) _ rest (by omega) hstep
      exact ⟨s', by simpa [pixRow, colBytes] using hrun, hgood⟩

theorem good_next_col (img : Nat → Nat → Nat) (side h : Nat) (hside : side = 2 * h) (s : List Nat) (y : Nat)
    (hg : Good img side s y h) : Good img side s (y + 1) 0 := by
  refine ⟨hg.1, ?_⟩
  intro r c hr hc hdone
  apply hg.2 r c hr hc
  rcases hdone with hlt | ⟨_, h0⟩
  · by_cases hcy : c = y
    · exact Or.inr ⟨hcy, by omega⟩
    · exact Or.inl (by omega)
  · omega

/-- all columns -/
theorem pixRows_good (img : Nat → Nat → Nat) (side h : Nat) (hside : side = 2 * h) (himg : ∀ r c, img r c < 16) :
    ∀ (k y : Nat) (s : List Nat), y + k = side → Good img side s y 0 →
      ∃ s', pixRows side k y s (encPix img h y k) = .ok s' ∧ Good img side s' side 0
  | 0, y, s, hk, hg => ⟨s, by simp [pixRows, pure, Except.pure], by
      have : y = side := by omega
      subst this; exact hg⟩
  | k + 1, y, s, hk, hg => by
      have hh : side / 2 = h := by omega
      obtain ⟨s1, hrow, hg1⟩ := pixRow_good img side h hside y (by omega) himg h 0 s (encPix img h (y + 1) k) (by omega) hg
      obtain ⟨s2, hrows, hg2⟩ := pixRows_good img side h hside himg k (y + 1) s1 (by omega) (good_next_col img side h hside s1 y hg1)
      refine ⟨s2, ?_, hg2⟩
      simp only [pixRows, encPix, hh, hrow, bind, Except.bind]
      exact hrows

theorem good_final (img : Nat → Nat → Nat) (side : Nat) (s : List Nat) (hg : Good img side s side 0) :
    s = greyImage img side := by
  obtain ⟨hl, hd⟩ := hg
  apply List.ext_getElem
  · simp [greyImage, hl]
  · intro i h1 h2
    have hi : i < side * side := by rw [← hl]; exact h1
    have hs : 0 < side := by
      rcases Nat.eq_zero_or_pos side with h0 | h0
      · subst h0; simp at hi
      · exact h0
    have hr : i / side < side := (Nat.div_lt_iff_lt_mul hs).mpr hi
    have hc : i % side < side := Nat.mod_lt _ hs
    have hidx : i / side * side + i % side = i := by rw [Nat.mul_comm]; exact Nat.div_add_mod i side
    have := hd (i / side) (i % side) hr hc (Or.inl hc)
    rw [hidx, List.getElem?_eq_getElem h1] at this
    simp only [Option.some.injEq] at this
    simp [greyImage, this]

theorem encPix_length (img : Nat → Nat → Nat) (h : Nat) : ∀ (k y : Nat), (encPix img h y k).length = k * h
  | 0, _ => by simp [encPix]
  | k + 1, y => by
      have hc : ∀ (n x : Nat), (colBytes img y x n).length = n := by
        intro n; induction n with
        | zero => intro x; rfl
        | succ n ih => intro x; simp [colBytes, ih]
      simp [encPix, hc, encPix_length img h k (y + 1), Nat.add_mul]; omega

/-- **PIX round trip**: for every even side and every image (a function row → column → 0..15),
the file that stores it column by column, two rows per byte, decodes to the grey image `255 − 17·v`
in row-major order.  `hsq` (the integer square root of a square) is a fact about `Nat.sqrt` that
core Lean does not prove; it is decidable for every concrete side. -/
theorem pix_roundtrip (img : Nat → Nat → Nat) (h : Nat) (himg : ∀ r c, img r c < 16)
    (hsq : Nat.sqrt ((2 * h) * h * 2) = 2 * h) :
    pix (encPix img h 0 (2 * h)) = .ok (ppmHeader "P5" (2 * h) (2 * h) ++ greyImage img (2 * h)) := by
  have hlen : (encPix img h 0 (2 * h)).length = 2 * h * h := encPix_length img h (2 * h) 0
  have hg0 : Good img (2 * h) (List.replicate ((2 * h) * h * 2) 97) 0 0 := by
    refine ⟨?_, ?_⟩
    · simp; rw [Nat.mul_assoc, Nat.mul_comm h 2]
    · intro r c _ _ hd
      rcases hd with h1 | ⟨_, h2⟩ <;> omega
  obtain ⟨s', hrows, hgood⟩ := pixRows_good img (2 * h) h rfl himg (2 * h) 0 _ (by omega) hg0
  simp only [pix, hlen, hsq, hrows, bind, Except.bind, pure, Except.pure]
  rw [good_final img (2 * h) s' hgood]

/-- the premise holds, e.g. for the 128 × 128 pictures of the repository's fixture size -/
example : Nat.sqrt ((2 * 64) * 64 * 2) = 2 * 64 := by decide +kernel

end CocoVerif.Props.C16
