import CocoVerif.Props.Lemmas.Img

/-!
# C16 — decoders reproduce every pixel and palette entry of an uncompressed image

Property theorems only; helper lemmas live in `Props/Lemmas/Img.lean`.
-/
namespace CocoVerif.Props.C16
open CocoVerif.Model.Img CocoVerif.Spec.Img CocoVerif.Props.Img

/-- The colour formula used by hrs/mge/cm3/rat is the CoCo 3 colour code, for every byte. -/
theorem rgb6_is_colour_code (c : Nat) : rgb6 c = colour c := rgb6_eq_colour c

/-- …and on the 64 codes it is the committed reference palette. -/
theorem colour_code_reference_table :
    ∀ c, c < 64 → colour c = (match refTable.getD c (0,0,0) with | (r, g, b) => [r, g, b]) := by
  decide

/-- HRS: palette + packed nibbles decode to exactly the image, every pixel, both nibbles. -/
theorem hrs_roundtrip (w h : Nat) (pal px : List Nat)
    (hpal : pal.length = 16) (hw : w % 2 = 0) (hpx : px.length = w * h) (hlt : ∀ p ∈ px, p < 16) :
    hrs w h 0 (pal ++ packNib px) = .ok (ppmHeader "P6" w h ++ render pal px) := by
  have hn : px.length = 2 * (h * (w / 2)) := by
    rw [hpx]
    have : w = 2 * (w / 2) := by omega
    calc w * h = (2 * (w / 2)) * h := by rw [← this]
      _ = 2 * (h * (w / 2)) := by rw [Nat.mul_assoc, Nat.mul_comm (w / 2) h]
  have h1 : List.take 16 (pal ++ packNib px) = pal := by
    rw [← hpal]; simp
  have h2 : List.drop 16 (pal ++ packNib px) = packNib px := by
    rw [← hpal]; simp
  have := readDump_pack pal hpal (h * (w / 2)) px [] hn hlt
  simp only [List.append_nil] at this
  simp [hrs, h1, h2, this, bind, Except.bind, pure, Except.pure]

example : hrs 2 1 0 ([0,1,2,3,4,5,6,7,8,9,10,11,12,13,14,63] ++ packNib [15, 1])
    = .ok (ppmHeader "P6" 2 1 ++ [255,255,255, 0,0,85]) := by rfl

/-- Uncompressed MGE (RGB and composite): header, palette, flags, title, then 32000 packed bytes. -/
theorem mge_raw_roundtrip (pal px title : List Nat) (flag pk c a : Nat)
    (hpal : pal.length = 16) (hpx : px.length = 64000) (hlt : ∀ p ∈ px, p < 16)
    (hpk : pk ≠ 0) (ht : title.length = 30) (hz : 0 ∈ title)
    (hcmp : flag ≠ 0 → ∀ p ∈ pal, p < 64) :
    mge ([0] ++ pal ++ [flag] ++ [pk] ++ title ++ [c, a] ++ packNib px)
      = .ok (ppmHeader "P6" 320 200 ++ render (mgePalette flag pal) px) := by
  have hrd := readDump_pack (mgePalette flag pal) (mgePalette_length flag pal hpal) 32000 px []
    (by omega) hlt
  simp only [List.append_nil] at hrd
  rw [mge_header pal title (packNib px) flag pk c a hpal ht hz hcmp]
  simp [hpk, hrd]

/-- CM3 files made of raw lines: one or two pages, with or without the 243-byte pattern block.
`pages` lists, per page, the rows as (control byte ≥ 128, 320 palette indices). -/
theorem cm3_raw_roundtrip (typ : Nat) (pal anim pat : List Nat)
    (pages : List (List (Nat × List Nat)))
    (hpal : pal.length = 16) (hanim : anim.length = 12)
    (hpat : pat.length = if getbit typ 0 ≠ 0 then 0 else 243)
    (hpages : pages.length = getbit typ 7 + 1)
    (_h192 : ∀ rows ∈ pages, rows.length = 192)
    (hrows : ∀ rows ∈ pages, ∀ r ∈ rows, 128 ≤ r.1 ∧ RowOK r.2) :
    cm3 (typ :: (pal ++ (anim ++ (pat ++ encRawPages pages))))
      = .ok (ppmHeader "P6" 320 (pages.length * 192) ++ render pal (pagesPixels pages)) := by
  have h16 := readN_append pal (anim ++ (pat ++ encRawPages pages))
  rw [hpal] at h16
  have h12 := readN_append anim (pat ++ encRawPages pages)
  rw [hanim] at h12
  have hpg := cm3Pages_raw pal hpal pages (List.replicate 160 0) hrows
  rw [hpages] at hpg
  have hdrop : (if getbit typ 0 ≠ 0 then pat ++ encRawPages pages
      else List.drop 243 (pat ++ encRawPages pages)) = encRawPages pages := by
    split
    · next h => simp [h] at hpat; simp [hpat]
    · next h => simp [h] at hpat; rw [← hpat]; simp
  simp only [cm3, read1, h16, h12, bind, Except.bind, pure, Except.pure, hdrop, hpg, hpages]

/-- VEF type 320x200x16, not squashed: every byte yields its two pixels through the palette. -/
theorem vef_raw_roundtrip_16 (flag : Nat) (pal px : List Nat) (hflag : flag ≠ 128)
    (hpal : pal.length = 16) (hpx : px.length = 64000) (hlt : ∀ p ∈ px, p < 16) :
    vef (flag :: 0 :: (pal ++ packNib px))
      = .ok { width := 320, height := 200, bitmap := px.map (fun p => pal.getD p 0) } := by
  have hb := vefBitmap8 pal hpal 32000 px (by omega) hlt
  have htk : List.take 16 (pal ++ packNib px) = pal := by rw [← hpal]; simp
  have hdr : List.drop 16 (pal ++ packNib px) = packNib px := by rw [← hpal]; simp
  simp [vef, hflag, htk, hdr, hb, bind, Except.bind, pure, Except.pure]

/-- VEF types 640x200x4 (t = 1) and 320x200x4 (t = 3), not squashed: four pixels per byte. -/
theorem vef_raw_roundtrip_4 (flag t : Nat) (pal px : List Nat) (hflag : flag ≠ 128)
    (ht : t = 1 ∨ t = 3) (hpal : pal.length = 16)
    (hpx : px.length = if t = 1 then 128000 else 64000) (hlt : ∀ p ∈ px, p < 4) :
    vef (flag :: t :: (pal ++ packQuad px))
      = .ok { width := if t = 1 then 640 else 320, height := 200,
              bitmap := px.map (fun p => pal.getD p 0) } := by
  have htk : List.take 16 (pal ++ packQuad px) = pal := by rw [← hpal]; simp
  have hdr : List.drop 16 (pal ++ packQuad px) = packQuad px := by rw [← hpal]; simp
  rcases ht with rfl | rfl
  · have hb := vefBitmap4 pal hpal 7 (Or.inl rfl) 32000 px (by simp at hpx; omega) hlt
    simp [vef, hflag, htk, hdr, hb, bind, Except.bind, pure, Except.pure]
  · have hb := vefBitmap4 pal hpal 6 (Or.inr rfl) 16000 px (by simp at hpx; omega) hlt
    simp [vef, hflag, htk, hdr, hb, bind, Except.bind, pure, Except.pure]

/-- MAX/ART in the seven table-driven pixel modes (no artifact, br2, rb2, br3, rb3, s10, s11):
a 5-byte header announcing the length, then `rows × cols/8` bytes; every bit / bit pair of every
byte is shown with the colour its mode assigns (`renderBits`, written from the mode descriptions). -/
theorem max_roundtrip (arte cols rows x y : Nat) (bits : List Nat)
    (harte : arte ∈ tableModes) (hcols : cols % 8 = 0) (hc0 : 0 < cols)
    (hbits : bits.length = cols * rows) (hlt : ∀ b ∈ bits, b < 2)
    (hsize : cols / 8 * rows < 65536) :
    max { arte := arte, cols := cols }
        ([0, cols / 8 * rows / 256, cols / 8 * rows % 256, x, y] ++ packBits bits)
      = .ok (ppmHeader "P6" cols rows ++ renderBits arte bits) := by
  obtain ⟨k, hk⟩ : ∃ k, cols = 8 * k := ⟨cols / 8, by omega⟩
  subst hk
  have hk0 : 0 < k := by omega
  have h8 : 8 * k / 8 = k := by omega
  rw [h8] at hsize ⊢
  have hsz : k * rows / 256 * 256 + k * rows % 256 = k * rows := by omega
  have hrows : 8 * (k * rows) / (8 * k) = rows := by
    rw [show 8 * (k * rows) = (8 * k) * rows by rw [Nat.mul_assoc]]
    exact Nat.mul_div_cancel_left rows (by omega)
  have hchk : 8 * k * rows / 8 = k * rows := by
    rw [Nat.mul_assoc]; exact Nat.mul_div_cancel_left _ (by omega)
  have hlen : bits.length = 8 * (rows * k) := by
    rw [hbits, Nat.mul_assoc, Nat.mul_comm k rows]
  have hpl := packBits_length (rows * k) bits hlen
  have hrt := maxRows_table arte (8 * k) harte rows (packBits bits)
  rw [h8, ← hpl, List.take_length] at hrt
  have hmb := maxBytes_pack arte harte (rows * k) bits hlen hlt
  simp [CocoVerif.Model.Img.max, hsz, hrows, hchk, hrt, hmb, pure, Except.pure]

/-- the same for the two-byte Newsroom/.ART header (`cols/8`, `rows`) -/
theorem max_newsroom_roundtrip (arte k rows : Nat) (bits : List Nat)
    (harte : arte ∈ tableModes)
    (hbits : bits.length = 8 * k * rows) (hlt : ∀ b ∈ bits, b < 2) :
    max { arte := arte, newsroom := true } ([k, rows] ++ packBits bits)
      = .ok (ppmHeader "P6" (k * 8) rows ++ renderBits arte bits) := by
  have h8 : k * 8 / 8 = k := by omega
  have hlen : bits.length = 8 * (rows * k) := by
    rw [hbits, Nat.mul_assoc, Nat.mul_comm k rows]
  have hpl := packBits_length (rows * k) bits hlen
  have hrt := maxRows_table arte (k * 8) harte rows (packBits bits)
  rw [h8, ← hpl, List.take_length] at hrt
  have hmb := maxBytes_pack arte harte (rows * k) bits hlen hlt
  simp [CocoVerif.Model.Img.max, hrt, hmb, pure, Except.pure]

end CocoVerif.Props.C16
