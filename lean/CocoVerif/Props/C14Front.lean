import CocoVerif.Gen.FrontTables
import CocoVerif.Gen.Ecb

/-!
# C14 (first clause, table part) — the procedure names in the grammar's tables exist

The front end takes the name of the runtime procedure for a function or statement keyword from the
dictionaries of `grammar.py` (`FUNCTIONS_TO_STATEMENTS`, `STATEMENTS2`, … regenerated into
`Gen.FrontTables` on every run).  `table_targets_defined`: every entry of the form `RUN name` in those
tables names a procedure that `ecb.b09` (as it is now, `Gen.Ecb.procNames`) defines, or the OS-9 module
`inkey`.  An edit of a table entry to a name the library does not define, or the removal of such a
procedure from the library, makes this theorem fail to compile.
-/
namespace CocoVerif.Props.C14Front
open CocoVerif.Gen

def allTables : List (String × String) :=
  FrontTables.functions ++ FrontTables.str2Functions ++ FrontTables.str3Functions ++ FrontTables.strNumFunctions
    ++ FrontTables.numStrFunctions ++ FrontTables.statements2 ++ FrontTables.statements3
    ++ FrontTables.functionsToStatements ++ FrontTables.functionsToStatements2
    ++ FrontTables.numStrFunctionsToStatements ++ FrontTables.strFunctionsToStatements
    ++ FrontTables.singleKeywordStatements

/-- the name after `RUN ` of a table value, if it has that form -/
def runTarget (v : String) : Option String :=
  match v.toList with
  | 'R' :: 'U' :: 'N' :: ' ' :: rest => some (String.ofList rest)
  | _ => none

def runTargets : List String := allTables.filterMap (fun p => runTarget p.2)

def systemModules : List String := ["inkey", "gfx", "gfx2", "syscall"]

theorem table_targets_defined :
    ∀ t ∈ runTargets, t ∈ Ecb.procNames ∨ t ∈ systemModules := by
  decide +kernel

/-- non-vacuity: the tables do name runtime procedures -/
theorem table_targets_nonempty : runTargets.length ≥ 8 := by decide +kernel

end CocoVerif.Props.C14Front
