import CocoVerif.Model.B09Lib
import CocoVerif.Spec.Strings
import CocoVerif.Tie.EcbHelpers

/-!
# C20 — the bundled string helpers compute the Color BASIC function they stand for

The procedures are the ASTs the translator reads from `ecb.b09` (`Tie.EcbHelpers` proves them
equal to the pinned copies used here); their meaning is `Model.B09Lib.Exec`.
-/
namespace CocoVerif.Props.C20
open CocoVerif.Model.B09Lib CocoVerif.Spec.Strings CocoVerif.Pinned.EcbHelpers

/-- `ecb_read_filter`: 0 for an empty item, `VAL` of the item otherwise — for every item, every
interpretation of `VAL`, whatever the output variable held before. -/
theorem read_filter_correct (valFn : List Char → Int) (item : List Char) (old : Int) :
    Exec valFn ecb_read_filter.body [.s item, .n old] (.ok [.s item, .n (readFilter valFn item)]) := by
  unfold ecb_read_filter readFilter
  by_cases h : item = []
  · subst h
    refine Exec.iteT (by simp [evalE, cmp]) ?_
    refine Exec.assign (v := .n 0) (by simp [evalE]) ?_
    simpa using Exec.nil _
  · refine Exec.iteF (by simp [evalE, cmp, h]) ?_
    refine Exec.assign (v := .n (valFn item)) (by simp [evalE]) ?_
    simpa [h] using Exec.nil _

/-! ### INSTR -/

def instrBody : List S :=
  [.ite (.eq (.var 2) (.mid (.var 1) (.var 4) (.len (.var 2)))) [.assign 3 (.var 4)] [],
   .assign 4 (.add (.var 4) (.num 1))]

def instrCond : E :=
  .and_ (.eq (.var 3) (.num 0)) (.le (.var 4) (.add (.sub (.len (.var 1)) (.len (.var 2))) (.num 1)))

theorem instr_shape : ecb_instr.body =
    [.assign 4 (.fix (.var 0)), .assign 3 (.num 0), .while_ instrCond instrBody] := by rfl

/-- loop invariant: nothing found yet and no match in `[start, ii)`, or the answer is in `out` -/
def InstrInv (start : Nat) (s p : List Char) (out ii : Int) : Prop :=
  (out = 0 ∧ (start : Int) ≤ ii ∧ ∀ i : Nat, start ≤ i → (i : Int) < ii → ¬ MatchAt s p i)
  ∨ (0 < out ∧ IsInstr start s p out.toNat)

theorem instr_loop (valFn : List Char → Int) (start : Nat) (s p : List Char) (_hs : 1 ≤ start)
    (rest : List S) :
    ∀ (k : Nat) (out ii : Int), 1 ≤ ii → InstrInv start s p out ii →
      (if out = 0 then ((s.length : Int) - p.length + 2 - ii).toNat else 0) ≤ k →
      ∃ (res ii' : Int), 0 ≤ res ∧ IsInstr start s p res.toNat ∧
        ∀ r, Exec valFn rest [.n start, .s s, .s p, .n res, .n ii'] r →
             Exec valFn (.while_ instrCond instrBody :: rest) [.n start, .s s, .s p, .n out, .n ii] r := by
  intro k
  induction k with
  | zero =>
      intro out ii hii hinv hk
      rcases hinv with ⟨h0, hsi, hno⟩ | ⟨hpos, hres⟩
      · -- nothing found and the window has run past the end: the answer is 0
        subst h0
        simp at hk
        have hgt : ¬ ii ≤ (s.length : Int) - p.length + 1 := by omega
        refine ⟨0, ii, by omega, Or.inl ⟨rfl, ?_⟩, ?_⟩
        · intro i hi hm
          by_cases hlt : (i : Int) < ii
          · exact hno i hi hlt hm
          · have := hm.2.1; omega
        · intro r hr
          exact Exec.whileF (by simp [instrCond, evalE, cmp, hgt]) hr
      · refine ⟨out, ii, by omega, hres, ?_⟩
        intro r hr
        have hne : ¬ out = 0 := by omega
        exact Exec.whileF (by simp [instrCond, evalE, cmp, hne]) hr
  | succ k ih =>
      intro out ii hii hinv hk
      rcases hinv with ⟨h0, hsi, hno⟩ | ⟨hpos, hres⟩
      · subst h0
        simp at hk
        by_cases hle : ii ≤ (s.length : Int) - p.length + 1
        · -- one more round
          have hcond : evalE valFn [.n start, .s s, .s p, .n 0, .n ii] instrCond = .val (.b true) := by
            simp [instrCond, evalE, cmp, hle]
          have hsub : evalE valFn [.n start, .s s, .s p, .n 0, .n ii]
              (.mid (.var 1) (.var 4) (.len (.var 2))) = .val (.s ((s.drop (ii.toNat - 1)).take p.length)) := by
            have h1 : ¬ ii < 1 := by omega
            simp [evalE, h1]
          by_cases hm : p = (s.drop (ii.toNat - 1)).take p.length
          · -- match at ii
            have hmatch : MatchAt s p ii.toNat := by
              exact ⟨by omega, by omega, hm.symm⟩
            have hinv' : InstrInv start s p ii (ii + 1) := by
              refine Or.inr ⟨by omega, Or.inr ⟨by omega, hmatch, ?_⟩⟩
              intro i hi hlt
              exact hno i hi (by omega)
            obtain ⟨res, ii', hr0, hspec, hex⟩ := ih ii (ii + 1) (by omega) hinv' (by
              have : ¬ ii = 0 := by omega
              simp [this])
            refine ⟨res, ii', hr0, hspec, ?_⟩
            intro r hr
            refine Exec.whileT hcond ?_
            show Exec valFn (.ite (.eq (.var 2) (.mid (.var 1) (.var 4) (.len (.var 2)))) [.assign 3 (.var 4)] [] ::
              .assign 4 (.add (.var 4) (.num 1)) :: .while_ instrCond instrBody :: rest) _ r
            refine Exec.iteT (by rw [evalE, hsub]; simp [evalE, cmp, ← hm]) ?_
            simp only [List.cons_append, List.nil_append]
            refine Exec.assign (v := .n ii) (by simp [evalE]) ?_
            refine Exec.assign (v := .n (ii + 1)) (by simp [evalE]) ?_
            exact hex r hr
          · -- no match at ii
            have hnomatch : ¬ MatchAt s p ii.toNat := by
              intro h
              exact hm h.2.2.symm
            have hinv' : InstrInv start s p 0 (ii + 1) := by
              refine Or.inl ⟨rfl, by omega, ?_⟩
              intro i hi hlt
              by_cases heq : (i : Int) = ii
              · have : i = ii.toNat := by omega
                rw [this]; exact hnomatch
              · exact hno i hi (by omega)
            obtain ⟨res, ii', hr0, hspec, hex⟩ := ih 0 (ii + 1) (by omega) hinv' (by simp; omega)
            refine ⟨res, ii', hr0, hspec, ?_⟩
            intro r hr
            refine Exec.whileT hcond ?_
            show Exec valFn (.ite (.eq (.var 2) (.mid (.var 1) (.var 4) (.len (.var 2)))) [.assign 3 (.var 4)] [] ::
              .assign 4 (.add (.var 4) (.num 1)) :: .while_ instrCond instrBody :: rest) _ r
            refine Exec.iteF (by rw [evalE, hsub]; simp [evalE, cmp, hm]) ?_
            simp only [List.nil_append]
            refine Exec.assign (v := .n (ii + 1)) (by simp [evalE]) ?_
            exact hex r hr
        · -- past the end
          exact ih 0 ii hii (Or.inl ⟨rfl, hsi, hno⟩) (by simp; omega)
      · exact ih out ii hii (Or.inr ⟨hpos, hres⟩) (by
          have : ¬ out = 0 := by omega
          simp [this])

/-- `ecb_instr` (as repaired by the `fix:` commit): for every start index ≥ 1, every subject and every
pattern, the procedure terminates and leaves in `outindex` the first position at or after the
start index where the pattern occurs, and 0 if there is none. -/
theorem instr_correct (valFn : List Char → Int) (start : Nat) (s p : List Char) (out0 ii0 : Int)
    (hs : 1 ≤ start) :
    ∃ (res ii' : Int), 0 ≤ res ∧ IsInstr start s p res.toNat ∧
      Exec valFn ecb_instr.body [.n start, .s s, .s p, .n out0, .n ii0]
        (.ok [.n start, .s s, .s p, .n res, .n ii']) := by
  rw [instr_shape]
  obtain ⟨res, ii', hr0, hspec, hex⟩ :=
    instr_loop valFn start s p hs [] ((if (0 : Int) = 0 then ((s.length : Int) - p.length + 2 - start).toNat else 0))
      0 start (by omega) (Or.inl ⟨rfl, by omega, by intro i hi hlt; omega⟩) (Nat.le_refl _)
  refine ⟨res, ii', hr0, hspec, ?_⟩
  refine Exec.assign (v := .n start) (by simp [evalE]) ?_
  refine Exec.assign (v := .n 0) (by simp [evalE]) ?_
  simpa using hex _ (Exec.nil _)

/-- the procedure as it was before the repair, on concrete arguments (interpreter runs on the old
AST, kernel-evaluated): the result variable is never assigned — `INSTR(1,"AB","B")` and
`INSTR(1,"ABAB","AB")` leave the old content (77) where 2 and 1 are due; the repaired procedure
answers 1 for the latter -/
theorem instr_old_witnesses :
    exec (fun _ => 0) 100 ecb_instr_old.body [.n 1, .s "AB".toList, .s "B".toList, .n 77, .n 0]
      = some (.ok [.n 1, .s "AB".toList, .s "B".toList, .n 77, .n 2])
    ∧ exec (fun _ => 0) 100 ecb_instr_old.body [.n 1, .s "ABAB".toList, .s "AB".toList, .n 77, .n 0]
      = some (.ok [.n 1, .s "ABAB".toList, .s "AB".toList, .n 77, .n 3])
    ∧ exec (fun _ => 0) 100 ecb_instr.body [.n 1, .s "ABAB".toList, .s "AB".toList, .n 77, .n 0]
      = some (.ok [.n 1, .s "ABAB".toList, .s "AB".toList, .n 1, .n 2]) := by decide

/-- the FOR loop of `ecb_string` (it starts at 2 and appends the first character of what it has built), from the loop
test onwards: with `x - 1` copies in the result and the counter at `x`, it ends with `count` copies -/
theorem string_loop (valFn : List Char → Int) (count : Int) (c : Char) (cs : List Char) (rest : List S) (r : Res) :
    ∀ (k : Nat) (x : Int), 2 ≤ x → x ≤ count + 1 → (count + 1 - x).toNat = k →
      Exec valFn rest [.n count, .s (c :: cs), .s (List.replicate count.toNat c), .n (count + 1)] r →
      Exec valFn (.forGo 3 count [.assign 2 (.add (.var 2) (.mid (.var 2) (.num 1) (.num 1)))] :: rest)
        [.n count, .s (c :: cs), .s (List.replicate (x - 1).toNat c), .n x] r := by
  intro k
  induction k with
  | zero =>
      intro x hx1 hx2 hk hrest
      have hx : x = count + 1 := by omega
      subst hx
      refine Exec.forGoF (x := count + 1) (by simp) (by omega) ?_
      simpa using hrest
  | succ k ih =>
      intro x hx1 hx2 hk hrest
      have hle : x ≤ count := by omega
      refine Exec.forGoT (x := x) (by simp) hle ?_
      have hpos : (x - 1).toNat = ((x - 1).toNat - 1) + 1 := by omega
      have hmid : evalE valFn [.n count, .s (c :: cs), .s (List.replicate (x - 1).toNat c), .n x]
          (.add (.var 2) (.mid (.var 2) (.num 1) (.num 1))) = .val (.s (List.replicate (x - 1).toNat c ++ [c])) := by
        rw [hpos, List.replicate_succ]
        simp [evalE]
      refine Exec.assign (v := .s (List.replicate (x - 1).toNat c ++ [c])) hmid ?_
      refine Exec.incr (x := x) (by simp) ?_
      have hrep : List.replicate (x - 1).toNat c ++ [c] = List.replicate (x + 1 - 1).toNat c := by
        have : (x + 1 - 1).toNat = (x - 1).toNat + 1 := by omega
        rw [this, List.replicate_succ']
      have := ih (x + 1) (by omega) (by omega) (by omega) hrest
      rw [← hrep] at this
      simpa using this

/-- `ecb_string`: for a non-negative count and a non-empty argument the result is the first
character of the argument, `count` times (whatever the output and loop variables held before). -/
theorem string_correct (valFn : List Char → Int) (count : Int) (c : Char) (cs out0 : List Char) (i0 : Int)
    (hc : 0 ≤ count) :
    ∃ i', Exec valFn ecb_string.body [.n count, .s (c :: cs), .s out0, .n i0]
      (.ok [.n count, .s (c :: cs), .s (stringRep count.toNat (c :: cs)), .n i']) := by
  unfold ecb_string stringRep
  have hlt : ¬ count < 0 := by omega
  by_cases h0 : count = 0
  · -- no copies: the first character is taken, the loop does not run, the result is cleared
    subst h0
    refine ⟨2, ?_⟩
    refine Exec.iteF (by simp [evalE, cmp]; omega) ?_
    refine Exec.assign (v := .s [c]) (by simp [evalE]) ?_
    refine Exec.for_ (x := 2) (y := 0) (by simp [evalE]) (by simp [evalE]) ?_
    refine Exec.forGoF (x := 2) (by simp) (by omega) ?_
    refine Exec.iteT (by simp [evalE, cmp]) ?_
    refine Exec.assign (v := .s []) (by simp [evalE]) ?_
    simpa using Exec.nil _
  · refine ⟨count + 1, ?_⟩
    have h1 : 1 ≤ count := by omega
    refine Exec.iteF (by simp [evalE, cmp, hlt]; omega) ?_
    refine Exec.assign (v := .s [c]) (by simp [evalE]) ?_
    refine Exec.for_ (x := 2) (y := count) (by simp [evalE]) (by simp [evalE]) ?_
    have hfin : Exec valFn [.ite (.eq (.var 0) (.num 0)) [.assign 2 (.str "".toList)] []]
        [.n count, .s (c :: cs), .s (List.replicate count.toNat c), .n (count + 1)]
        (.ok [.n count, .s (c :: cs), .s (List.replicate count.toNat c), .n (count + 1)]) := by
      refine Exec.iteF (by simp [evalE, cmp, h0]) ?_
      exact Exec.nil _
    have := string_loop valFn count c cs _ _ (count + 1 - 2).toNat 2 (by omega) (by omega) rfl hfin
    simpa using this

/-- …and it raises error 52 (Color BASIC's ?FC ERROR) for a negative count or an empty argument. -/
theorem string_error (valFn : List Char → Int) (count : Int) (str out0 : List Char) (i0 : Int)
    (h : count < 0 ∨ str = []) :
    Exec valFn ecb_string.body [.n count, .s str, .s out0, .n i0] (.err 52) := by
  unfold ecb_string
  refine Exec.iteT ?_ Exec.error
  rcases h with h | h
  · simp [evalE, cmp, h]
  · subst h; simp [evalE, cmp]

/-- the premises are satisfiable and the run really terminates: `STRING$(3, "AB")` = "AAA" -/
example : exec (fun _ => 0) 100 ecb_string.body [.n 3, .s "AB".toList, .s [], .n 0]
    = some (.ok [.n 3, .s "AB".toList, .s "AAA".toList, .n 4]) := by decide
example : exec (fun _ => 0) 100 ecb_string.body [.n 0, .s "AB".toList, .s "OLD".toList, .n 0]
    = some (.ok [.n 0, .s "AB".toList, .s [], .n 2]) := by decide

end CocoVerif.Props.C20
