import CocoVerif.Props.Lemmas.Img
import CocoVerif.Props.C16
import CocoVerif.Props.C17

/-!
# C18 — decoder output is a complete image file of the advertised size
-/
namespace CocoVerif.Props.C18
open CocoVerif.Model.Img CocoVerif.Spec.Img CocoVerif.Props.Img

/-- HRS, any input, any even width: a successful run wrote the header for `w × h` and exactly
`3·w·h` samples. -/
theorem hrs_size (w h skip : Nat) (bs out : List Nat) (hw : w % 2 = 0)
    (hok : hrs w h skip bs = .ok out) :
    ∃ payload, out = ppmHeader "P6" w h ++ payload ∧ payload.length = 3 * w * h := by
  simp only [hrs, bind, Except.bind] at hok
  split at hok
  · simp at hok
  · next v hv =>
    obtain ⟨body, rd, rest⟩ := v
    simp [pure, Except.pure] at hok
    refine ⟨body, hok.symm, ?_⟩
    have := (readDump_spec _ _ _ _ _ _ hv).1
    rw [this]
    have hw2 : w = 2 * (w / 2) := by omega
    calc 6 * (h * (w / 2)) = 3 * (2 * (w / 2)) * h := by
          rw [Nat.mul_comm h, ← Nat.mul_assoc, ← Nat.mul_assoc]
      _ = 3 * w * h := by rw [← hw2]

/-- full statement (false, see the witness): for odd widths the announced size is not what is written -/
theorem hrs_size_odd_width_witness :
    hrs 3 1 0 [0,1,2,3,4,5,6,7,8,9,10,11,12,13,14,15, 0x12, 0x34]
      = .ok (ppmHeader "P6" 3 1 ++ [0,0,85, 0,85,0]) := by rfl

/-- Skipping `n` bytes is decoding the input with its first `n` bytes removed. -/
theorem hrs_skip_is_drop (w h n : Nat) (bs : List Nat) : hrs w h n bs = hrs w h 0 (bs.drop n) := by
  simp [hrs]

theorem max_skip_is_drop (o : MaxOpts) (bs : List Nat) :
    CocoVerif.Model.Img.max o bs = CocoVerif.Model.Img.max { o with skip := 0 } (bs.drop o.skip) := by
  simp [CocoVerif.Model.Img.max]

/-! ### complete files for well-formed input: header of the advertised size, then width × height samples -/

theorem maxColour_length (arte a b : Nat) (harte : arte ∈ tableModes) (h0 : arte ≠ 0) (ha : a < 2) (hb : b < 2) :
    (maxColour arte a b).length = 3 := by
  have ha' : a = 0 ∨ a = 1 := by omega
  have hb' : b = 0 ∨ b = 1 := by omega
  simp [tableModes] at harte
  rcases harte with rfl | rfl | rfl | rfl | rfl | rfl | rfl <;>
    first | exact absurd rfl h0 | (rcases ha' with rfl | rfl <;> rcases hb' with rfl | rfl <;> rfl)

theorem pairs_length (arte : Nat) (harte : arte ∈ tableModes) (h0 : arte ≠ 0) :
    ∀ (n : Nat) (bits : List Nat), bits.length = 2 * n → (∀ b ∈ bits, b < 2) →
      (renderBits.pairs arte bits).length = 3 * bits.length
  | 0, bits, hl, _ => by
      have : bits = [] := List.length_eq_zero_iff.mp (by omega)
      subst this; rfl
  | n + 1, a :: b :: r, hl, hlt => by
      have ha := hlt a (by simp)
      have hb := hlt b (by simp)
      have ih := pairs_length arte harte h0 n r (by simp at hl; omega) (fun x hx => hlt x (by simp [hx]))
      simp [renderBits.pairs, maxColour_length arte a b harte h0 ha hb, ih]
      omega
  | n + 1, [], hl, _ => by simp at hl
  | n + 1, [_], hl, _ => by simp at hl; omega

theorem renderBits_length (arte : Nat) (harte : arte ∈ tableModes) (n : Nat) (bits : List Nat)
    (hl : bits.length = 2 * n) (hlt : ∀ b ∈ bits, b < 2) :
    (renderBits arte bits).length = 3 * bits.length := by
  by_cases h0 : arte = 0
  · subst h0
    simp only [renderBits, if_true]
    clear hl
    induction bits with
    | nil => rfl
    | cons b bs ih =>
        have hb := hlt b (by simp)
        have := ih (fun x hx => hlt x (by simp [hx]))
        have hb' : b = 0 ∨ b = 1 := by omega
        rcases hb' with rfl | rfl <;> simp [bw, this] <;> omega
  · simp only [renderBits, h0, if_false]
    exact pairs_length arte harte h0 n bits hl hlt

/-- MAX: the height is the one the length field dictates, and exactly `3·cols·rows` samples follow -/
theorem max_complete (arte cols rows x y : Nat) (bits : List Nat)
    (harte : arte ∈ tableModes) (hcols : cols % 8 = 0) (hc0 : 0 < cols)
    (hbits : bits.length = cols * rows) (hlt : ∀ b ∈ bits, b < 2) (hsize : cols / 8 * rows < 65536) :
    ∃ payload, max { arte := arte, cols := cols }
        ([0, cols / 8 * rows / 256, cols / 8 * rows % 256, x, y] ++ packBits bits)
      = .ok (ppmHeader "P6" cols rows ++ payload) ∧ payload.length = 3 * cols * rows := by
  refine ⟨_, C16.max_roundtrip arte cols rows x y bits harte hcols hc0 hbits hlt hsize, ?_⟩
  obtain ⟨q, hq⟩ : ∃ q, cols = 8 * q := ⟨cols / 8, by omega⟩
  have hm : cols * rows = 8 * (q * rows) := by rw [hq, Nat.mul_assoc]
  have he : bits.length = 2 * (4 * (q * rows)) := by rw [hbits, hm]; omega
  rw [renderBits_length arte harte _ bits he hlt, hbits, Nat.mul_assoc]

/-- Newsroom header: width and height are the two header bytes -/
theorem max_newsroom_complete (arte k rows : Nat) (bits : List Nat) (harte : arte ∈ tableModes)
    (hbits : bits.length = 8 * k * rows) (hlt : ∀ b ∈ bits, b < 2) :
    ∃ payload, max { arte := arte, newsroom := true } ([k, rows] ++ packBits bits)
      = .ok (ppmHeader "P6" (k * 8) rows ++ payload) ∧ payload.length = 3 * (k * 8) * rows := by
  refine ⟨_, C16.max_newsroom_roundtrip arte k rows bits harte hbits hlt, ?_⟩
  have hm : 8 * k * rows = 8 * (k * rows) := by rw [Nat.mul_assoc]
  have he : bits.length = 2 * (4 * (k * rows)) := by rw [hbits, hm]; omega
  rw [renderBits_length arte harte _ bits he hlt, hbits, hm]
  have : k * 8 * rows = 8 * (k * rows) := by rw [Nat.mul_comm k 8, Nat.mul_assoc]
  rw [Nat.mul_assoc 3, this]

/-- MGE (raw or run-length coded): 320 × 200 -/
theorem mge_complete (pal px title enc : List Nat) (flag c a : Nat)
    (hpal : pal.length = 16) (hpx : px.length = 64000) (hlt : ∀ p ∈ px, p < 16)
    (ht : title.length = 30) (hz : 0 ∈ title) (hcmp : flag ≠ 0 → ∀ p ∈ pal, p < 64)
    (henc : MgeRle (packNib px) enc) :
    ∃ payload, mge ([0] ++ pal ++ [flag] ++ [0] ++ title ++ [c, a] ++ enc)
      = .ok (ppmHeader "P6" 320 200 ++ payload) ∧ payload.length = 3 * 320 * 200 := by
  refine ⟨_, C17.mge_rle_transparent pal px title enc flag c a hpal hpx hlt ht hz hcmp henc, ?_⟩
  rw [render_length, hpx]

/-- RAT: 320 × 199 -/
theorem rat_complete_partial (esc packed border : Nat) (pal px enc : List Nat) (hpk : packed ≠ 0)
    (hpal : pal.length = 16) (hpx : px.length = 63680) (hlt : ∀ p ∈ px, p < 16)
    (hlow : ∀ b ∈ packNib px, C17.lowNibbleOK b) (henc : RatEsc esc (packNib px) enc) :
    ∃ payload, rat (esc :: packed :: border :: (pal ++ enc))
      = .ok (ppmHeader "P6" 320 199 ++ payload) ∧ payload.length = 3 * 320 * 199 := by
  refine ⟨_, C17.rat_transparent_partial esc packed border pal px enc hpk hpal hpx hlt hlow henc, ?_⟩
  rw [render_length, hpx]

/-- VEF 320x200x16 (raw or squashed): every one of the 64000 pixels is a palette entry -/
theorem vef_complete_16 (pal px : List Nat) (rows : List (List Nat × List Nat))
    (hpal : pal.length = 16) (hpx : px.length = 64000) (hlt : ∀ p ∈ px, p < 16)
    (hn : rows.length = 400) (hrows : C17.RowsOK 80 rows) (himg : (rows.map (·.1)).flatten = packNib px) :
    ∃ out, vef (128 :: 0 :: (pal ++ C17.encRecs rows)) = .ok out ∧ out.width = 320 ∧ out.height = 200
      ∧ out.bitmap.length = 320 * 200 ∧ ∀ v ∈ out.bitmap, v ∈ pal := by
  refine ⟨_, C17.vef_squashed_transparent_16 pal px rows hpal hpx hlt hn hrows himg, rfl, rfl, by simp [hpx], ?_⟩
  intro v hv
  simp only [List.mem_map] at hv
  obtain ⟨p, hp, rfl⟩ := hv
  have := hlt p hp
  rw [List.getD_eq_getElem?_getD, List.getElem?_eq_getElem (by omega)]
  simp

/-- PIX: every even side, 2h × 2h grey samples -/
theorem pix_complete (img : Nat → Nat → Nat) (h : Nat) (himg : ∀ r c, img r c < 16)
    (hsq : Nat.sqrt ((2 * h) * h * 2) = 2 * h) :
    ∃ payload, pix (C16.encPix img h 0 (2 * h)) = .ok (ppmHeader "P5" (2 * h) (2 * h) ++ payload)
      ∧ payload.length = (2 * h) * (2 * h) :=
  ⟨_, C16.pix_roundtrip img h himg hsq, by simp [C16.greyImage]⟩

/-- VEF 640x200x4 and 320x200x4 (squashed): every pixel a palette entry, width × 200 of them -/
theorem vef_complete_4 (t : Nat) (pal px : List Nat) (rows : List (List Nat × List Nat))
    (ht : t = 1 ∨ t = 3) (hpal : pal.length = 16)
    (hpx : px.length = if t = 1 then 128000 else 64000) (hlt : ∀ p ∈ px, p < 4)
    (hn : rows.length = 400) (hrows : C17.RowsOK (if t = 1 then 80 else 40) rows)
    (himg : (rows.map (·.1)).flatten = packQuad px) :
    ∃ out, vef (128 :: t :: (pal ++ C17.encRecs rows)) = .ok out ∧ out.height = 200
      ∧ out.bitmap.length = out.width * 200 ∧ ∀ v ∈ out.bitmap, v ∈ pal := by
  refine ⟨_, C17.vef_squashed_transparent_4 t pal px rows ht hpal hpx hlt hn hrows himg, rfl, ?_, ?_⟩
  · rcases ht with rfl | rfl <;> simp [hpx]
  · intro v hv
    simp only [List.mem_map] at hv
    obtain ⟨p, hp, rfl⟩ := hv
    have := hlt p hp
    rw [List.getD_eq_getElem?_getD, List.getElem?_eq_getElem (by omega)]
    simp

/-- CM3 with raw lines, one or two pages of 192 lines: 320 × 192·pages -/
theorem cm3_raw_complete (typ : Nat) (pal anim pat : List Nat) (pages : List (List (Nat × List Nat)))
    (hpal : pal.length = 16) (hanim : anim.length = 12)
    (hpat : pat.length = if getbit typ 0 ≠ 0 then 0 else 243)
    (hpages : pages.length = getbit typ 7 + 1)
    (h192 : ∀ rows ∈ pages, rows.length = 192)
    (hrows : ∀ rows ∈ pages, ∀ r ∈ rows, 128 ≤ r.1 ∧ RowOK r.2) :
    ∃ payload, cm3 (typ :: (pal ++ (anim ++ (pat ++ encRawPages pages))))
      = .ok (ppmHeader "P6" 320 (pages.length * 192) ++ payload)
      ∧ payload.length = 3 * 320 * (pages.length * 192) := by
  refine ⟨_, C16.cm3_raw_roundtrip typ pal anim pat pages hpal hanim hpat hpages h192 hrows, ?_⟩
  rw [render_length]
  have hrowsLen : ∀ rows : List (Nat × List Nat), (∀ r ∈ rows, 128 ≤ r.1 ∧ RowOK r.2) →
      (rowsPixels rows).length = 320 * rows.length := by
    intro rows
    induction rows with
    | nil => intro _; rfl
    | cons r rs ih =>
        intro h
        have h1 := (h r (by simp)).2.1
        have := ih (fun x hx => h x (by simp [hx]))
        simp only [rowsPixels, List.map_cons, List.flatten_cons, List.length_append, List.length_cons] at this ⊢
        rw [h1, this]; omega
  have hpagesLen : ∀ ps : List (List (Nat × List Nat)), (∀ rows ∈ ps, rows.length = 192) →
      (∀ rows ∈ ps, ∀ r ∈ rows, 128 ≤ r.1 ∧ RowOK r.2) → (pagesPixels ps).length = 320 * (ps.length * 192) := by
    intro ps
    induction ps with
    | nil => intro _ _; rfl
    | cons q qs ih =>
        intro ha hb
        have h1 := hrowsLen q (hb q (by simp))
        have h2 := ha q (by simp)
        have := ih (fun x hx => ha x (by simp [hx])) (fun x hx => hb x (by simp [hx]))
        simp only [pagesPixels, List.map_cons, List.flatten_cons, List.length_append, List.length_cons] at this ⊢
        rw [h1, h2, this]; omega
  rw [hpagesLen pages h192 hrows]
  omega

end CocoVerif.Props.C18
