import CocoVerif.Props.Lemmas.Img

/-!
# C18 — decoder output is a complete image file of the advertised size
-/
namespace CocoVerif.Props.C18
open CocoVerif.Model.Img CocoVerif.Spec.Img CocoVerif.Props.Img

/-- HRS, any input, any even width: a successful run wrote the header for `w × h` and exactly
`3·w·h` samples. -/
theorem hrs_size (w h skip : Nat) (bs out : List Nat) (hw : w % 2 = 0)
    (hok : hrs w h skip bs = .ok out) :
    ∃ payload, out = ppmHeader "P6" w h ++ payload ∧ payload.length = 3 * w * h := by
  simp only [hrs, bind, Except.bind] at hok
  split at hok
  · simp at hok
  · next v hv =>
    obtain ⟨body, rd, rest⟩ := v
    simp [pure, Except.pure] at hok
    refine ⟨body, hok.symm, ?_⟩
    have := (readDump_spec _ _ _ _ _ _ hv).1
    rw [this]
    have hw2 : w = 2 * (w / 2) := by omega
    calc 6 * (h * (w / 2)) = 3 * (2 * (w / 2)) * h := by
          rw [Nat.mul_comm h, ← Nat.mul_assoc, ← Nat.mul_assoc]
      _ = 3 * w * h := by rw [← hw2]

/-- full statement (false, see the witness): for odd widths the announced size is not what is written -/
theorem hrs_size_odd_width_witness :
    hrs 3 1 0 [0,1,2,3,4,5,6,7,8,9,10,11,12,13,14,15, 0x12, 0x34]
      = .ok (ppmHeader "P6" 3 1 ++ [0,0,85, 0,85,0]) := by rfl

/-- Skipping `n` bytes is decoding the input with its first `n` bytes removed. -/
theorem hrs_skip_is_drop (w h n : Nat) (bs : List Nat) : hrs w h n bs = hrs w h 0 (bs.drop n) := by
  simp [hrs]

theorem max_skip_is_drop (o : MaxOpts) (bs : List Nat) :
    CocoVerif.Model.Img.max o bs = CocoVerif.Model.Img.max { o with skip := 0 } (bs.drop o.skip) := by
  simp [CocoVerif.Model.Img.max]

end CocoVerif.Props.C18
