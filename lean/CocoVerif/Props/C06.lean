import CocoVerif.Model.Compile
import CocoVerif.Spec.Targets
set_option linter.unusedSimpArgs false

/-!
# C06 — every jump lands on the line it names; label filtering never breaks a target
-/
namespace CocoVerif.Props.C06
open CocoVerif.Model CocoVerif.Model.Compile

theorem goTargets_nil : goTargets [] = [] := rfl

theorem goTargets_append (a b : List Ev) : goTargets (a ++ b) = goTargets a ++ goTargets b := by
  simp [goTargets]

theorem goTargets_cons (ev : Ev) (r : List Ev) : goTargets (ev :: r) = goOf ev ++ goTargets r := by
  simp [goTargets]

/- The reference collector sees every position that can hold a line number: the list of targets
   gathered from the visit events is the structural `Spec.Targets` list, for every AST. -/
mutual
  theorem refs_expr : ∀ e : Expr, goTargets (Visit.expr e) = Spec.Targets.expr e
    | .lit .. => by simp [Visit.expr, Spec.Targets.expr, goTargets_cons, goTargets_nil, goOf]
    | .hex .. => by simp [Visit.expr, Spec.Targets.expr, goTargets_cons, goTargets_nil, goOf]
    | .var .. => by simp [Visit.expr, Spec.Targets.expr, goTargets_cons, goTargets_nil, goOf]
    | .arr v idx s => by simp [Visit.expr, Spec.Targets.expr, goTargets_cons, goTargets_nil, goOf, refs_elist idx]
    | .bin b l op r => by
        simp [Visit.expr, Spec.Targets.expr, goTargets_cons, goTargets_nil, goOf, goTargets_append, refs_expr l, refs_expr r]
    | .un b op e => by simp [Visit.expr, Spec.Targets.expr, goTargets_cons, goTargets_nil, goOf, refs_expr e]
    | .paren b e s => by simp [Visit.expr, Spec.Targets.expr, goTargets_cons, goTargets_nil, goOf, refs_expr e]
    | .call f args s => by simp [Visit.expr, Spec.Targets.expr, goTargets_cons, goTargets_nil, goOf, refs_elist args]
    | .fexp j f args s v => by
        cases v with
        | none =>
            cases j <;>
              simp [Visit.expr, Spec.Targets.expr, Spec.Targets.optExpr, goTargets_cons, goTargets_nil, goOf, goTargets_append,
                refs_elist args, goTargets_cons, goTargets_nil, goOf]
        | some v' =>
            cases j <;>
              simp [Visit.expr, Spec.Targets.expr, Spec.Targets.optExpr, Visit.optExpr, goTargets_cons,
                goTargets_append, refs_elist args, refs_expr v', goTargets_cons, goTargets_nil, goOf]
    | .varptr e => by simp [Visit.expr, Spec.Targets.expr, goTargets_cons, goTargets_nil, goOf]
    | .ctl _ => by simp [Visit.expr, Spec.Targets.expr, goTargets_cons, goTargets_nil, goOf]
    | .stmtExp s => by simp [Visit.expr, Spec.Targets.expr, refs_stmt s]
    | .op _ => by simp [Visit.expr, Spec.Targets.expr, goTargets_cons, goTargets_nil, goOf]
    | .raw _ => by simp [Visit.expr, Spec.Targets.expr, goTargets_cons, goTargets_nil, goOf]
  theorem refs_exprs : ∀ es : List Expr, goTargets (Visit.exprs es) = Spec.Targets.exprs es
    | [] => by simp [Visit.exprs, Spec.Targets.exprs, goTargets_cons, goTargets_nil, goOf]
    | e :: es => by simp [Visit.exprs, Spec.Targets.exprs, goTargets_append, refs_expr e, refs_exprs es]
  theorem refs_elist : ∀ el : EList, goTargets (Visit.elist el) = Spec.Targets.elist el
    | .mk _ es => by simp [Visit.elist, Spec.Targets.elist, refs_exprs es]
    | .raw _ => by simp [Visit.elist, Spec.Targets.elist, goTargets_cons, goTargets_nil, goOf]
  theorem refs_optExpr : ∀ o : Option Expr, goTargets (Visit.optExpr o) = Spec.Targets.optExpr o
    | some e => by simp [Visit.optExpr, Spec.Targets.optExpr, refs_expr e]
    | none => by simp [Visit.optExpr, Spec.Targets.optExpr, goTargets_cons, goTargets_nil, goOf]
  theorem refs_stmt : ∀ s : Stmt, goTargets (Visit.stmt s) = Spec.Targets.stmt s
    | .stmts _ ss _ => by simp [Visit.stmt, Spec.Targets.stmt, refs_stmts ss]
    | .assign _ v e _ => by
        simp [Visit.stmt, Spec.Targets.stmt, goTargets_cons, goTargets_nil, goOf, goTargets_append, refs_expr v, refs_expr e]
    | .run _ _ args _ => by simp [Visit.stmt, Spec.Targets.stmt, goTargets_cons, goTargets_nil, goOf, refs_elist args]
    | .goto .. => by simp [Visit.stmt, Spec.Targets.stmt, goTargets_cons, goTargets_nil, goOf]
    | .onErr .. => by simp [Visit.stmt, Spec.Targets.stmt, goTargets_cons, goTargets_nil, goOf]
    | .onBrk .. => by simp [Visit.stmt, Spec.Targets.stmt, goTargets_cons, goTargets_nil, goOf]
    | .onGo e ns _ _ => by simp [Visit.stmt, Spec.Targets.stmt, goTargets_cons, goTargets_nil, goOf, refs_expr e]
    | .if_ c b _ => by
        simp [Visit.stmt, Spec.Targets.stmt, goTargets_cons, goTargets_nil, goOf, goTargets_append, refs_expr c, refs_stmt b]
    | .ifElse c b elifs els _ => by
        simp [Visit.stmt, Spec.Targets.stmt, goTargets_cons, goTargets_nil, goOf, goTargets_append, refs_expr c, refs_stmt b,
          refs_stmts elifs, refs_optStmt els]
    | .comment _ => by simp [Visit.stmt, Spec.Targets.stmt, goTargets_cons, goTargets_nil, goOf]
    | .print args _ => by simp [Visit.stmt, Spec.Targets.stmt, goTargets_cons, goTargets_nil, goOf, refs_exprs args]
    | .sound a b _ => by
        simp [Visit.stmt, Spec.Targets.stmt, goTargets_cons, goTargets_nil, goOf, goTargets_append, refs_expr a, refs_expr b]
    | .poke a b _ => by
        simp [Visit.stmt, Spec.Targets.stmt, goTargets_cons, goTargets_nil, goOf, goTargets_append, refs_expr a, refs_expr b]
    | .cls e _ => by simp [Visit.stmt, Spec.Targets.stmt, goTargets_cons, goTargets_nil, goOf, refs_optExpr e]
    | .data .. => by simp [Visit.stmt, Spec.Targets.stmt, goTargets_cons, goTargets_nil, goOf]
    | .kw .. => by simp [Visit.stmt, Spec.Targets.stmt, goTargets_cons, goTargets_nil, goOf]
    | .for_ v a b st _ => by
        simp [Visit.stmt, Spec.Targets.stmt, goTargets_cons, goTargets_nil, goOf, goTargets_append, refs_expr v, refs_expr a,
          refs_expr b, refs_optExpr st]
    | .next vars _ => by simp [Visit.stmt, Spec.Targets.stmt, goTargets_cons, goTargets_nil, goOf, refs_elist vars]
    | .dim .. => by simp [Visit.stmt, Spec.Targets.stmt, goTargets_cons, goTargets_nil, goOf]
    | .read .. => by simp [Visit.stmt, Spec.Targets.stmt, goTargets_cons, goTargets_nil, goOf]
    | .input .. => by simp [Visit.stmt, Spec.Targets.stmt, goTargets_cons, goTargets_nil, goOf]
    | .width e _ => by simp [Visit.stmt, Spec.Targets.stmt, goTargets_cons, goTargets_nil, goOf, refs_expr e]
    | .code .. => by simp [Visit.stmt, Spec.Targets.stmt, goTargets_cons, goTargets_nil, goOf]
    | .expStmt e => by simp [Visit.stmt, Spec.Targets.stmt, refs_expr e]
    | .rawStmt _ => by simp [Visit.stmt, Spec.Targets.stmt, goTargets_cons, goTargets_nil, goOf]
  theorem refs_stmts : ∀ ss : List Stmt, goTargets (Visit.stmts ss) = Spec.Targets.stmts ss
    | [] => by simp [Visit.stmts, Spec.Targets.stmts, goTargets_cons, goTargets_nil, goOf]
    | s :: ss => by simp [Visit.stmts, Spec.Targets.stmts, goTargets_append, refs_stmt s, refs_stmts ss]
  theorem refs_optStmt : ∀ o : Option Stmt, goTargets (Visit.optStmt o) = Spec.Targets.optStmt o
    | some s => by simp [Visit.optStmt, Spec.Targets.optStmt, refs_stmt s]
    | none => by simp [Visit.optStmt, Spec.Targets.optStmt, goTargets_cons, goTargets_nil, goOf]
end

/-- `refs_complete`: over a whole program the collected references are the structural target list -/
theorem refs_complete (p : Prog) : goTargets (Visit.prog p) = Spec.Targets.prog p := by
  unfold Visit.prog Spec.Targets.prog
  induction p.lines with
  | nil => simp [goTargets]
  | cons l ls ih =>
      simp only [List.flatMap_cons, goTargets_append, ih]
      simp [Visit.line, goTargets_cons, goOf, refs_stmt l.body]

/-- the label a line prints -/
def printedLabel (l : Line) : Option Int := if l.referenced then l.num else none

theorem line_text (i : Int) (l : Line) :
    Emit.line i l = (match printedLabel l with | some n => toString n ++ " " | none => "")
      ++ Emit.stmt i true l.body := by
  unfold Emit.line printedLabel
  cases l.num <;> cases l.referenced <;> simp

/-- with unused-label filtering on, precisely the unreferenced labels disappear … -/
theorem labels_filter_on (refs : List Int) (l : Line) (n : Int) (hn : l.num = some n) :
    printedLabel (applyFilter true refs l) = (if n ∈ refs then some n else none) := by
  simp [applyFilter, printedLabel, hn, List.contains_iff_mem]

/-- … without it only an unreferenced line 0 loses its label (lines come out of the parser with
`referenced = true`) … -/
theorem labels_filter_off (refs : List Int) (l : Line) (n : Int) (hn : l.num = some n)
    (href : l.referenced = true) :
    printedLabel (applyFilter false refs l) = (if n = 0 ∧ (0 : Int) ∉ refs then none else some n) := by
  by_cases h0 : n = 0
  · subst h0
    by_cases hm : (0 : Int) ∈ refs <;> simp [applyFilter, printedLabel, hn, hm, List.contains_iff_mem]
  · simp [applyFilter, printedLabel, hn, h0, href]

/-- … and no statement does: filtering never touches a line's number or body. -/
theorem filter_keeps_statements (filter : Bool) (refs : List Int) (l : Line) :
    (applyFilter filter refs l).body = l.body ∧ (applyFilter filter refs l).num = l.num := by
  unfold applyFilter
  split
  · simp
  · split <;> simp

/-- Refusals: the line check passes exactly when no line number exceeds 32699, every referenced
line exists, and there is at most one ON ERR and at most one ON BRK. -/
theorem refusal_iff (nums : List (Option Int)) (refs errs brks : List Int) :
    lineCheck nums refs errs brks = none ↔
      ((∀ k, some k ∈ nums → k ≤ 32699) ∧ (∀ r ∈ refs, some r ∈ nums) ∧ errs.length ≤ 1 ∧ brks.length ≤ 1) := by
  unfold lineCheck
  constructor
  · intro h
    split at h
    · simp at h
    · next hfind =>
      have hbig : ∀ k, some k ∈ nums → k ≤ 32699 := by
        intro k hk
        have := List.find?_eq_none.mp hfind (some k) hk
        simpa [tooBig] using this
      split at h
      · simp at h
      · next hany =>
        split at h
        · simp at h
        · split at h
          · simp at h
          · refine ⟨hbig, ?_, by omega, by omega⟩
            intro r hr
            have := hany
            simp only [List.any_eq_true, not_exists, not_and, Bool.not_eq_true'] at this
            have h2 := this r hr
            simpa [List.contains_iff_mem] using h2
  · rintro ⟨hbig, hrefs, he, hb⟩
    have hfind : nums.find? tooBig = none := by
      apply List.find?_eq_none.mpr
      intro x hx
      cases x with
      | none => simp [tooBig]
      | some k => have := hbig k hx; simp [tooBig]; omega
    rw [hfind]
    have hany : (refs.any fun r => !nums.contains (some r)) = false := by
      simp only [List.any_eq_false, Bool.not_eq_true', Bool.not_eq_false]
      intro r hr
      simpa [List.contains_iff_mem] using hrefs r hr
    have he' : ¬ errs.length > 1 := by omega
    have hb' : ¬ brks.length > 1 := by omega
    simp [hany, he', hb']
    exact hrefs

/-- The dispatcher: exists exactly when a handler was requested; line 32700 saves the error
number, break (error 2) goes to the BRK target, everything else to the ERR target. -/
theorem dispatcher_text (brk err : Int) :
    (errorHandlerLines (some brk) (some err)).map (Emit.line 0)
      = ["32700 ERNO := errnum", "IF ERNO = 2 THEN " ++ toString brk, "GOTO " ++ toString err] := by
  simp [errorHandlerLines, Emit.line, Emit.stmt, Emit.stmtsIn, Emit.isStmts, Emit.isImplicitGoto, Emit.expr,
    Emit.exprs, Emit.pretextOf, Emit.ind, Emit.join, Emit.litText]
  decide

theorem dispatcher_iff_handler (brk err : Option Int) :
    errorHandlerLines brk err = [] ↔ (brk = none ∧ err = none) := by
  unfold errorHandlerLines
  cases brk <;> cases err <;> simp

end CocoVerif.Props.C06
