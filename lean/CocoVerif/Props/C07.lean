import CocoVerif.Model.Emit

/-!
# C07 — accepted programs yield structurally well-formed BASIC09 text

What is proved here is the block structure: for **every** AST the sequence of block keywords
that emission writes (`skel`, read off `Model.Emit.stmt` case by case) is balanced and properly
nested — each IF … [ELSE] … ENDIF, LOOP … (EXITIF … ENDEXIT)* … ENDLOOP closes in order.
`emit_parses` (every operator and call has its operands: the full grammar derivation of
DESIGN.md §4.4) is **not** proved; completeness of statements is judged on the real output by
the independent BASIC09 reader of the harness.
-/
namespace CocoVerif.Props.C07
open CocoVerif.Model

inductive Kw | if_ | else_ | endif | loop | exitif | endexit | endloop
  deriving DecidableEq, Repr

mutual
  /-- the block keywords `Emit.stmt` writes for a statement, in order -/
  def skel : Stmt → List Kw
    | .stmts _ ss _ => skels ss
    | .if_ _ body _ =>
        if Emit.isImplicitGoto body then [] else [.if_] ++ skel body ++ [.endif]
    | .ifElse _ body elifs els _ =>
        if !elifs.isEmpty then
          [.loop, .exitif] ++ skel body ++ [.endexit] ++ skelElifs elifs
            ++ (match els with | some e => [.exitif] ++ skel e ++ [.endexit] | none => []) ++ [.endloop]
        else
          [.if_] ++ skel body ++ (match els with | some e => [.else_] ++ skel e | none => []) ++ [.endif]
    | _ => []
  def skels : List Stmt → List Kw
    | [] => []
    | s :: ss => skel s ++ skels ss
  def skelElifs : List Stmt → List Kw
    | [] => []
    | s :: ss =>
        (match s with
         | .if_ _ body _ => [.exitif] ++ skel body ++ [.endexit]
         | .ifElse _ body _ _ _ => [.exitif] ++ skel body ++ [.endexit]
         | _ => []) ++ skelElifs ss
end

/-- the stack discipline of BASIC09 blocks: `run st ks` = the stack after reading `ks`, `none` on a
closer that does not match the innermost open block (`else_` needs an open IF) -/
def run : List Kw → List Kw → Option (List Kw)
  | st, [] => some st
  | st, .if_ :: ks => run (.if_ :: st) ks
  | st, .loop :: ks => run (.loop :: st) ks
  | st, .exitif :: ks => run (.exitif :: st) ks
  | .if_ :: st, .else_ :: ks => run (.if_ :: st) ks
  | .if_ :: st, .endif :: ks => run st ks
  | .exitif :: st, .endexit :: ks => run st ks
  | .loop :: st, .endloop :: ks => run st ks
  | _, _ => none

/-- a keyword sequence is *neutral* when, read on top of any stack, it leaves that stack -/
def Neutral (ks : List Kw) : Prop := ∀ st rest, run st (ks ++ rest) = run st rest

theorem neutral_nil : Neutral [] := fun _ _ => rfl

theorem neutral_append {a b : List Kw} (ha : Neutral a) (hb : Neutral b) : Neutral (a ++ b) := by
  intro st rest
  rw [List.append_assoc, ha, hb]

theorem neutral_if {a : List Kw} (ha : Neutral a) : Neutral ([.if_] ++ a ++ [.endif]) := by
  intro st rest
  simp only [List.append_assoc, List.cons_append, List.nil_append, run]
  rw [ha]; simp [run]

theorem neutral_if_else {a b : List Kw} (ha : Neutral a) (hb : Neutral b) :
    Neutral ([.if_] ++ a ++ ([.else_] ++ b) ++ [.endif]) := by
  intro st rest
  simp only [List.append_assoc, List.cons_append, List.nil_append, run]
  rw [ha]; simp only [run]; rw [hb]; simp [run]

theorem neutral_exit {a : List Kw} (ha : Neutral a) : Neutral ([.exitif] ++ a ++ [.endexit]) := by
  intro st rest
  simp only [List.append_assoc, List.cons_append, List.nil_append, run]
  rw [ha]; simp [run]

theorem neutral_loop {a : List Kw} (ha : Neutral a) : Neutral ([.loop] ++ a ++ [.endloop]) := by
  intro st rest
  simp only [List.append_assoc, List.cons_append, List.nil_append, run]
  rw [ha]; simp [run]

mutual
  theorem skel_neutral : ∀ s : Stmt, Neutral (skel s)
    | .stmts _ ss _ => by simpa [skel] using skels_neutral ss
    | .if_ _ body _ => by
        unfold skel
        split
        · exact neutral_nil
        · exact neutral_if (skel_neutral body)
    | .ifElse _ body elifs els _ => by
        unfold skel
        split
        · have hb := neutral_exit (skel_neutral body)
          have he := skelElifs_neutral elifs
          have hl : Neutral (match els with | some e => [Kw.exitif] ++ skel e ++ [Kw.endexit] | none => []) := by
            cases els with
            | none => exact neutral_nil
            | some e => exact neutral_exit (skel_neutral e)
          have := neutral_loop (neutral_append (neutral_append hb he) hl)
          simpa [List.append_assoc] using this
        · cases els with
          | none => simpa using neutral_if (skel_neutral body)
          | some e => simpa [List.append_assoc] using neutral_if_else (skel_neutral body) (skel_neutral e)
    | .assign .. | .run .. | .goto .. | .onErr .. | .onBrk .. | .onGo .. | .comment .. | .print ..
    | .sound .. | .poke .. | .cls .. | .data .. | .kw .. | .for_ .. | .next .. | .dim .. | .read ..
    | .input .. | .width .. | .code .. | .expStmt .. | .rawStmt .. => by
        simp [skel]; exact neutral_nil
  theorem skels_neutral : ∀ ss : List Stmt, Neutral (skels ss)
    | [] => by simpa [skels] using neutral_nil
    | s :: ss => by simpa [skels] using neutral_append (skel_neutral s) (skels_neutral ss)
  theorem skelElifs_neutral : ∀ ss : List Stmt, Neutral (skelElifs ss)
    | [] => by simpa [skelElifs] using neutral_nil
    | s :: ss => by
        unfold skelElifs
        refine neutral_append ?_ (skelElifs_neutral ss)
        cases s with
        | if_ c body p => exact neutral_exit (skel_neutral body)
        | ifElse c body el e p => exact neutral_exit (skel_neutral body)
        | _ => exact neutral_nil
end

/-- Every opener has its closer in the right order: the block keywords of any statement, of any
sequence of lines, read from an empty stack, end with an empty stack and never hit a mismatch. -/
theorem blocks_balanced (ss : List Stmt) : run [] (skels ss) = some [] := by
  have := skels_neutral ss [] []
  simpa [run] using this

/-- a string literal is always written between two double quotes -/
theorem strings_closed (s : String) : Emit.litText (.str s) = "\"" ++ s ++ "\"" := rfl

/-- non-vacuity: an ELSE-IF chain without ELSE inside an IF -/
example : skel (.if_ (.var "A" false) (.stmts true
    [.ifElse (.var "B" false) (.kw "END" []) [.if_ (.var "C" false) (.kw "STOP" []) []] none []] []) [])
    = [.if_, .loop, .exitif, .endexit, .exitif, .endexit, .endloop, .endif] := by decide

end CocoVerif.Props.C07
