import CocoVerif.Model.Names

/-!
# C09 — distinct source variables stay distinct; the same variable stays the same
-/
namespace CocoVerif.Props.C09
open CocoVerif.Model.Names

theorem take2_wf (n : List Char) (h : wfName n = true) :
    (n.take 2).length ≥ 1 ∧ (n.take 2).length ≤ 2 ∧ ∀ c ∈ n.take 2, c.isUpper = true ∨ c.isDigit = true := by
  cases n with
  | nil => simp [wfName] at h
  | cons c r =>
      simp only [wfName, Bool.and_eq_true, List.all_eq_true, Bool.or_eq_true] at h
      refine ⟨by cases r <;> simp, by cases r <;> simp, ?_⟩
      intro d hd
      cases r with
      | nil => simp at hd; subst hd; exact Or.inl h.1
      | cons e r' =>
          simp at hd
          rcases hd with rfl | rfl
          · exact Or.inl h.1
          · exact h.2 d (by simp)

theorem not_dollar_underscore (c : Char) (h : c.isUpper = true ∨ c.isDigit = true) : c ≠ '$' ∧ c ≠ '_' ∧ c ≠ 'a' ∧ c ≠ 'r' := by
  refine ⟨?_, ?_, ?_, ?_⟩ <;> (rintro rfl; rcases h with h | h <;> revert h <;> decide)

theorem fmt_injective (a b : List Char) (k₁ k₂ : Kind)
    (l1 : a.length ≤ 2) (l2 : b.length ≤ 2)
    (nd1 : ∀ c ∈ a, c ≠ '$') (nd2 : ∀ c ∈ b, c ≠ '$') (h : fmt a k₁ = fmt b k₂) : a = b ∧ k₁ = k₂ := by
  have hlast : ∀ (x y : List Char), x ++ ['$'] = y → (∀ c ∈ y, c ≠ '$') → False := by
    intro x y hxy hy
    exact (hy '$' (by rw [← hxy]; simp)) rfl
  have hlen := congrArg List.length h
  cases k₁ <;> cases k₂ <;> simp only [fmt] at h hlen
  · exact ⟨h, rfl⟩
  · exact (hlast b a h.symm nd1).elim
  · simp at hlen; omega
  · simp at hlen; omega
  · exact (hlast a b h nd2).elim
  · exact ⟨List.append_cancel_right h, rfl⟩
  · simp at hlen; omega
  · simp at hlen; omega
  · simp at hlen; omega
  · simp at hlen; omega
  · exact ⟨List.append_cancel_left h, rfl⟩
  · have h' : "arr_".toList ++ (b ++ ['$']) = "arr_".toList ++ a := by rw [← List.append_assoc]; exact h.symm
    exact (hlast b a (List.append_cancel_left h') nd1).elim
  · simp at hlen; omega
  · simp at hlen; omega
  · have h' : "arr_".toList ++ (a ++ ['$']) = "arr_".toList ++ b := by rw [← List.append_assoc]; exact h
    exact (hlast a b (List.append_cancel_left h') nd2).elim
  · have h' : "arr_".toList ++ (a ++ ['$']) = "arr_".toList ++ (b ++ ['$']) := by
      rw [← List.append_assoc, ← List.append_assoc]; exact h
    exact ⟨List.append_cancel_right (List.append_cancel_left h'), rfl⟩

/-- Two source names become the same identifier exactly when Color BASIC treats them as the same
variable: same first two characters, same kind (type suffix and scalar/array). -/
theorem name_injective (n₁ n₂ : List Char) (k₁ k₂ : Kind) (h₁ : wfName n₁ = true) (h₂ : wfName n₂ = true) :
    xl n₁ k₁ = xl n₂ k₂ ↔ (n₁.take 2 = n₂.take 2 ∧ k₁ = k₂) := by
  constructor
  · intro h
    obtain ⟨_, l1', hc1⟩ := take2_wf n₁ h₁
    obtain ⟨_, l2', hc2⟩ := take2_wf n₂ h₂
    exact fmt_injective _ _ k₁ k₂ l1' l2' (fun c hc => (not_dollar_underscore c (hc1 c hc)).1)
      (fun c hc => (not_dollar_underscore c (hc2 c hc)).1) h
  · rintro ⟨h, rfl⟩
    simp [xl, h]

/-- scalars, arrays, string scalars and string arrays of one name never alias each other -/
theorem kinds_disjoint (n : List Char) (k₁ k₂ : Kind) (h : wfName n = true) (hk : k₁ ≠ k₂) :
    xl n k₁ ≠ xl n k₂ := by
  intro heq
  exact hk ((name_injective n n k₁ k₂ h h).mp heq).2

/-- No user variable collides with an identifier the tool generates itself: a user identifier is one
or two upper-case/digit characters, optionally `$`, optionally after `arr_`; temporaries start with
`tmp_`, and every other generated identifier contains a lower-case letter, except `ERNO` which has
four characters. -/
theorem no_generated_collision (n : List Char) (k : Kind) (h : wfName n = true) :
    isTemp (xl n k) = false ∧ xl n k ∉ generated := by
  obtain ⟨l1, l2, hc⟩ := take2_wf n h
  have hup : ∀ c ∈ n.take 2, c ≠ 't' ∧ c.isLower = false := by
    intro c hcm
    rcases hc c hcm with hu | hd
    · constructor
      · rintro rfl; revert hu; decide
      · unfold Char.isUpper at hu; unfold Char.isLower
        simp only [Bool.and_eq_true, decide_eq_true_eq, Bool.and_eq_false_iff, decide_eq_false_iff_not] at hu ⊢
        simp only [Char.le_def, UInt32.le_iff_toNat_le] at hu ⊢
        have e1 : ('Z' : Char).val.toNat = 90 := rfl
        have e2 : ('a' : Char).val.toNat = 97 := rfl
        rw [e1] at hu; rw [e2]; left; omega
    · constructor
      · rintro rfl; revert hd; decide
      · unfold Char.isDigit at hd; unfold Char.isLower
        simp only [Bool.and_eq_true, decide_eq_true_eq, Bool.and_eq_false_iff, decide_eq_false_iff_not] at hd ⊢
        simp only [Char.le_def, UInt32.le_iff_toNat_le] at hd ⊢
        have e1 : ('9' : Char).val.toNat = 57 := rfl
        have e2 : ('a' : Char).val.toNat = 97 := rfl
        rw [e1] at hd; rw [e2]; left; omega
  generalize htk : n.take 2 = t at *
  -- the truncated name is one or two characters: enumerate the shapes
  match t, l1, l2 with
  | [a], _, _ =>
      have ha := hup a (by simp)
      cases k <;> simp [xl, htk, fmt, isTemp, generated] <;>
        (first | (intro h'; exact ha.1 h') | skip) <;>
        (refine ⟨?_, ?_, ?_, ?_, ?_, ?_, ?_, ?_, ?_, ?_, ?_, ?_⟩ <;> (intro h'; simp_all <;> revert ha <;> decide))
  | [a, b], _, _ =>
      have ha := hup a (by simp)
      have hb := hup b (by simp)
      cases k <;> simp [xl, htk, fmt, isTemp, generated] <;>
        (first | (intro h'; exact ha.1 h') | skip) <;>
        (refine ⟨?_, ?_, ?_, ?_, ?_, ?_, ?_, ?_, ?_, ?_, ?_, ?_⟩ <;> (intro h'; simp_all <;> revert ha hb <;> decide))

end CocoVerif.Props.C09
