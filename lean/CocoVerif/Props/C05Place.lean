import CocoVerif.Props.C07Stmt

/-!
# C05 (placement clause) — hoisted calls stand after the label and before the statement

`Passes.pStmt` appends the calls it hoists out of a statement's expressions to that statement's `pre`
list (`C05.hoist_count`, `pre_prefix`, `hoist_innermost_first`, `hoist_left_to_right`).  This file says
where emission writes that list: for every statement kind except the two IF…ELSE forms and READ / INPUT,
the tokens of the statement are

    indentation, call₁ `\` call₂ `\` … `\` callₙ `\`, then the statement's own text

(`hoisted_calls_first`), and a labelled line puts the label in front of all that (`label_then_calls`).
The calls are written in the order of the list, each through `exprT` (so, for in-scope calls, complete:
`C07Expr.expr_wellformed`).  The two IF…ELSE forms do not write their `pre` list at all
(`ifelse_drops_hoisted_calls`): the listed finding `if-else-condition-drops-hoisted-call`.
-/
namespace CocoVerif.Props.C05Place
open CocoVerif.Model CocoVerif.Props.C07Expr CocoVerif.Props.C07Stmt

/-- the hoisted-call list of the statement kinds that write it, with the indentation level it is written at -/
def preOf (i : Int) : Stmt → Option (Int × List Expr)
  | .assign _ _ _ pre => some (i, pre)
  | .run _ _ _ pre => some (i, pre)
  | .goto _ implicit gosub pre => if gosub || !implicit then some (i, pre) else none
  | .onGo _ _ _ pre => some (i, pre)
  | .if_ _ _ pre => some (i, pre)
  | .print _ pre => some (i, pre)
  | .sound _ _ pre => some (i, pre)
  | .poke _ _ pre => some (i, pre)
  | .cls _ pre => some (i, pre)
  | .data _ pre => some (i, pre)
  | .kw _ pre => some (i, pre)
  | .for_ _ _ _ _ pre => some (i - 1, pre)
  | .next _ pre => some (i, pre)
  | .width _ pre => some (i, pre)
  | .code _ pre => some (i, pre)
  | _ => none

/-- **placement**: the statement's tokens start with its hoisted calls, in list order, separated and
followed by ` \ `; everything else of the statement comes after them. -/
theorem hoisted_calls_first (i : Int) (p : Bool) (s : Stmt) (j : Int) (pre : List Expr)
    (h : preOf i s = some (j, pre)) :
    ∃ body, stmtT i p s = pretextT j (pre.map (exprT 0)) ++ body := by
  cases s <;> simp only [preOf, Option.some.injEq, Prod.mk.injEq, reduceCtorEq] at h
  case assign l v e pre' =>
    obtain ⟨rfl, rfl⟩ := h
    cases e <;> exact ⟨_, by simp only [stmtT, List.append_assoc]; rfl⟩
  case run k inv args pre' => obtain ⟨rfl, rfl⟩ := h; exact ⟨_, by simp only [stmtT, List.append_assoc]; rfl⟩
  case goto n implicit gosub pre' =>
    split at h
    · next hc =>
      simp only [Option.some.injEq, Prod.mk.injEq] at h
      obtain ⟨rfl, rfl⟩ := h
      unfold stmtT
      cases gosub
      · simp only [Bool.false_or, Bool.not_eq_true'] at hc
        subst hc
        exact ⟨_, by simp only [Bool.false_eq_true, ↓reduceIte, List.append_assoc]; rfl⟩
      · exact ⟨_, by simp only [↓reduceIte, List.append_assoc]; rfl⟩
    · simp at h
  case onGo e ns g pre' => obtain ⟨rfl, rfl⟩ := h; exact ⟨_, by simp only [stmtT, List.append_assoc]; rfl⟩
  case if_ c body pre' =>
    obtain ⟨rfl, rfl⟩ := h
    unfold stmtT
    split <;> exact ⟨_, by simp only [List.append_assoc]; rfl⟩
  case print args pre' => obtain ⟨rfl, rfl⟩ := h; exact ⟨_, by simp only [stmtT, List.append_assoc]; rfl⟩
  case sound a b pre' => obtain ⟨rfl, rfl⟩ := h; exact ⟨_, by simp only [stmtT, List.append_assoc]; rfl⟩
  case poke a b pre' =>
    obtain ⟨rfl, rfl⟩ := h
    unfold stmtT
    split
    · exact ⟨_, rfl⟩
    · split
      · exact ⟨_, rfl⟩
      · exact ⟨_, by simp only [List.append_assoc]; rfl⟩
  case cls e pre' => obtain ⟨rfl, rfl⟩ := h; exact ⟨_, by simp only [stmtT]; rfl⟩
  case data items pre' => obtain ⟨rfl, rfl⟩ := h; exact ⟨_, by simp only [stmtT, List.append_assoc]; rfl⟩
  case kw k pre' => obtain ⟨rfl, rfl⟩ := h; exact ⟨_, by simp only [stmtT]; rfl⟩
  case for_ v a b st pre' => obtain ⟨rfl, rfl⟩ := h; exact ⟨_, by simp only [stmtT, List.append_assoc]; rfl⟩
  case next vars pre' => obtain ⟨rfl, rfl⟩ := h; exact ⟨_, by simp only [stmtT]; rfl⟩
  case width e pre' => obtain ⟨rfl, rfl⟩ := h; exact ⟨_, by simp only [stmtT, List.append_assoc]; rfl⟩
  case code c pre' => obtain ⟨rfl, rfl⟩ := h; exact ⟨_, by simp only [stmtT]; rfl⟩

/-- … and the text of the statement is the text of that prefix followed by the rest -/
theorem hoisted_calls_first_text (i : Int) (p : Bool) (s : Stmt) (j : Int) (pre : List Expr)
    (h : preOf i s = some (j, pre)) :
    ∃ body, Emit.stmt i p s = Emit.pretextOf j (Emit.exprs 0 pre) ++ render body := by
  obtain ⟨body, hb⟩ := hoisted_calls_first i p s j pre h
  exact ⟨body, by rw [← render_stmtT, hb, render_append, render_pretextT]⟩

/-- a labelled line: label, blank, then the hoisted calls, then the statement -/
theorem label_then_calls (i : Int) (n : Int) (s : Stmt) (j : Int) (pre : List Expr)
    (h : preOf i s = some (j, pre)) :
    ∃ body, lineT i { num := some n, body := s, referenced := true } =
      kwT (toString n) ++ kwT " " ++ pretextT j (pre.map (exprT 0)) ++ body := by
  obtain ⟨body, hb⟩ := hoisted_calls_first i true s j pre h
  exact ⟨body, by simp [lineT, hb, List.append_assoc]⟩

/-- the finding, for every IF…ELSE statement: its hoisted calls are not written -/
theorem ifelse_drops_hoisted_calls (i : Int) (p : Bool) (c : Expr) (body : Stmt) (elifs : List Stmt)
    (els : Option Stmt) (pre : List Expr) :
    stmtT i p (.ifElse c body elifs els pre) = stmtT i p (.ifElse c body elifs els []) := by
  unfold stmtT
  rfl

/-- non-vacuity: `A = INT(B) + 1` after the patcher -/
example : preOf 0 (.assign false (.var "A" false)
    (.bin false (.fexp false "RUN ecb_int" (.mk true [.var "B" false]) false (some (.var "tmp_1" false))) "+" (.lit (.flt "1.0") false))
    [.call "RUN ecb_int" (.mk true [.var "B" false, .var "tmp_1" false]) false])
    = some (0, [.call "RUN ecb_int" (.mk true [.var "B" false, .var "tmp_1" false]) false]) := rfl

end CocoVerif.Props.C05Place
