import CocoVerif.Props.C01

/-!
# C01 — chains with prefix signs: where the two languages agree, and exactly where they do not

`C01.same_tree_binary` compares the two precedence tables on the *binary* operators.  The prefix minus
is where Color BASIC and BASIC09 differ: BASIC09 attaches it to the atom (`Spec.Ladder`), Color BASIC
gives it a precedence between `^` and `* /` (its expression evaluator pushes the unary minus with a
priority below exponentiation), so a signed operand owns the whole `^`-chain that follows it:

    -A^B      is  -(A^B)            A^-B^C   is  A^(-(B^C))          -A*B  is  (-A)*B

This file writes Color BASIC's reading down (`decbRegroup`: level-wise splitting for the five binary
levels below `^`, then `decbUnary` / `decbPow` for a signed `^`-chain) and proves

* `same_tree_signed_partial` — for **every** chain over the common binary operators, any length, any
  number of signs on any operand, the two readings give the same tree **provided no signed operand is
  directly followed by `^`** (`scope`, a decidable predicate on the chain);
* `same_value_signed_partial` — hence the same value under every interpretation of leaves and operators;
* `sign_before_power_out_of_scope`, `sign_before_power_differs` — the complement of the scope is exactly the
  shape of the listed finding `sign-before-power`, and there the trees do differ (kernel-checked).

So the exclusion of the finding is an explicit side condition, not a gap in the statement.
-/
namespace CocoVerif.Props.C01Signs
open CocoVerif.Spec.Ladder CocoVerif.Props.C01

/-! ### level-wise splitting with an arbitrary reading of the innermost chains -/

/-- `regroup` with the reading of the chains that remain after all listed levels as a parameter -/
def regroupG (base : Chain → Tree) : Levels → Chain → Tree
  | [], c => base c
  | ops :: hi, c =>
      let (s0, more) := segs ops c.rest.length c.first c.rest
      more.foldl (fun acc p => .bin p.1 acc (regroupG base hi p.2)) (regroupG base hi s0)

/-- splitting by `lo ++ hi` is splitting by `lo` and reading what remains by `hi` -/
theorem regroup_append (hi : Levels) : ∀ (lo : Levels) (c : Chain),
    regroup (lo ++ hi) c = regroupG (regroup hi) lo c
  | [], _ => rfl
  | ops :: lo, c => by
      simp only [List.cons_append, regroup, regroupG]
      generalize segs ops c.rest.length c.first c.rest = sm
      obtain ⟨s0, more⟩ := sm
      simp only
      rw [regroup_append hi lo s0]
      apply foldl_congr
      intro acc p _
      rw [regroup_append hi lo p.2]

/-! ### Color BASIC's reading of a signed `^`-chain -/

/-- `acc ^ x₁ ^ x₂ …` read from the left; a signed operand takes everything that follows it -/
def decbPow : Tree → List (String × Operand) → Tree
  | acc, [] => acc
  | acc, (o, x) :: r =>
      if x.negs = 0 then decbPow (.bin o acc x.tree) r
      else .bin o acc (negTree x.negs (decbPow x.tree r))

/-- a chain of the unary level: the signs of the first operand apply to the whole `^`-chain -/
def decbUnary (c : Chain) : Tree := negTree c.first.negs (decbPow c.first.tree c.rest)

/-- Color BASIC's binary levels below `^`, lowest first -/
def decbLow : Levels :=
  [["OR"], ["AND"], ["=", "<>", "<", ">", "<=", ">=", "=<", "=>"], ["+", "-"], ["*", "/"]]
def b09Low : Levels :=
  [["OR", "XOR"], ["AND"], ["=", "<>", "<", ">", "<=", ">=", "=<", "=>"], ["+", "-"], ["*", "/"]]

/-- **Color BASIC's reading of a flat chain with signs** -/
def decbRegroup (c : Chain) : Tree := regroupG decbUnary decbLow c

-- the readings of the header comment
example : decbRegroup ⟨⟨1, [.id "A"], .leaf "A"⟩, [("^", v "B")]⟩ = .neg (.bin "^" (.leaf "A") (.leaf "B")) := by decide
example : decbRegroup ⟨v "A", [("^", ⟨1, [.id "B"], .leaf "B"⟩), ("^", v "C")]⟩ =
    .bin "^" (.leaf "A") (.neg (.bin "^" (.leaf "B") (.leaf "C"))) := by decide
example : decbRegroup ⟨⟨1, [.id "A"], .leaf "A"⟩, [("*", v "B")]⟩ = .bin "*" (.neg (.leaf "A")) (.leaf "B") := by decide
example : decbRegroup ⟨v "A", [("-", ⟨1, [.id "B"], .leaf "B"⟩), ("+", v "C")]⟩ =
    .bin "+" (.bin "-" (.leaf "A") (.neg (.leaf "B"))) (.leaf "C") := by decide

/-! ### the scope: no signed operand directly in front of `^` -/

def scopeL : Operand → List (String × Operand) → Bool
  | _, [] => true
  | x, (o, y) :: r => (x.negs == 0 || o != "^") && scopeL y r

/-- the decidable scope of the partial theorem -/
def scope (c : Chain) : Bool := scopeL c.first c.rest

theorem scopeL_cut (ops : List String) : ∀ (x : Operand) (r : List (String × Operand)), scopeL x r = true →
    scopeL x (cut ops r).1 = true ∧ ∀ o y t, (cut ops r).2 = (o, y) :: t → scopeL y t = true
  | _, [], _ => by simp [cut, scopeL]
  | x, (o, y) :: r, h => by
      simp only [scopeL, Bool.and_eq_true] at h
      have ih := scopeL_cut ops y r h.2
      by_cases ho : o ∈ ops
      · simp only [cut, ho, if_true]
        refine ⟨by simp [scopeL], ?_⟩
        intro o' y' t heq
        simp only [List.cons.injEq, Prod.mk.injEq] at heq
        obtain ⟨⟨_, rfl⟩, rfl⟩ := heq
        exact h.2
      · simp only [cut, ho, if_false]
        refine ⟨?_, ih.2⟩
        simp only [scopeL, Bool.and_eq_true]
        exact ⟨h.1, ih.1⟩

theorem segs_scope (ops : List String) :
    ∀ (fuel : Nat) (first : Operand) (rest : List (String × Operand)), scopeL first rest = true →
      scope (segs ops fuel first rest).1 = true ∧ ∀ p ∈ (segs ops fuel first rest).2, scope p.2 = true
  | fuel, first, rest, hs => by
      have hc := scopeL_cut ops first rest hs
      unfold segs
      generalize hcut : cut ops rest = ab at hc
      obtain ⟨p, q⟩ := ab
      cases q with
      | nil => cases fuel <;> exact ⟨hc.1, by simp⟩
      | cons y r =>
          obtain ⟨o, x⟩ := y
          cases fuel with
          | zero => exact ⟨hc.1, by simp⟩
          | succ f =>
              have ih := segs_scope ops f x r (hc.2 o x r rfl)
              refine ⟨hc.1, ?_⟩
              intro z hz
              simp only [List.mem_cons] at hz
              rcases hz with rfl | hz
              · exact ih.1
              · exact ih.2 z hz

/-- the operators that remain inside the segments of one level are not of that level -/
theorem segs_notin (S ops : List String) :
    ∀ (fuel : Nat) (first : Operand) (rest : List (String × Operand)), OpsIn S rest →
      OpsIn (S.filter (fun o => !(ops.contains o))) (segs ops fuel first rest).1.rest
      ∧ ∀ p ∈ (segs ops fuel first rest).2, OpsIn (S.filter (fun o => !(ops.contains o))) p.2.rest
  | fuel, first, rest, hr => by
      have ho := cut_opsIn S ops rest hr
      have hsub := cut_fst_sub ops rest
      have h1 : OpsIn (S.filter (fun o => !(ops.contains o))) (cut ops rest).1 := by
        intro p hp
        have := hsub p hp
        simp only [List.mem_filter, Bool.not_eq_true', List.contains_eq_mem, decide_eq_false_iff_not]
        exact ⟨ho.1 p hp, this.2⟩
      unfold segs
      generalize hcut : cut ops rest = ab at ho h1
      obtain ⟨p, q⟩ := ab
      cases q with
      | nil => cases fuel <;> exact ⟨h1, by simp⟩
      | cons y r =>
          obtain ⟨o, x⟩ := y
          cases fuel with
          | zero => exact ⟨h1, by simp⟩
          | succ f =>
              have hr' : OpsIn S r := fun z hz => ho.2 z (by simp [hz])
              have ih := segs_notin S ops f x r hr'
              refine ⟨h1, ?_⟩
              intro z hz
              simp only [List.mem_cons] at hz
              rcases hz with rfl | hz
              · exact ih.1
              · exact ih.2 z hz

theorem agree_mono (S S' : List String) (hsub : ∀ o ∈ S', o ∈ S) : ∀ lv lv', Agree S lv lv' → Agree S' lv lv'
  | [], [], _ => trivial
  | _ :: as, _ :: bs, h => ⟨fun o ho => h.1 o (hsub o ho), agree_mono S S' hsub as bs h.2⟩
  | [], _ :: _, h => by simp [Agree] at h
  | _ :: _, [], h => by simp [Agree] at h

/-- the operators of `S` that belong to none of the levels -/
def remaining : List String → Levels → List String
  | S, [] => S
  | S, a :: as => remaining (S.filter (fun o => !(a.contains o))) as

/-- two level-wise readings agree on every in-scope chain when the tables agree on the operators that
occur and the innermost readings agree on in-scope chains over the remaining operators -/
theorem regroupG_congr (base base' : Chain → Tree) : ∀ (lv lv' : Levels) (S : List String), Agree S lv lv' →
    (∀ c, scope c = true → OpsIn (remaining S lv) c.rest → base c = base' c) →
    ∀ c : Chain, scope c = true → OpsIn S c.rest → regroupG base lv c = regroupG base' lv' c
  | [], [], _, _, hb, c, hs, hc => hb c hs hc
  | a :: as, b :: bs, S, h, hb, c, hs, hc => by
      have hseg := segs_congr S a b h.1 c.rest.length c.first c.rest hc
      have hin := segs_notin S a c.rest.length c.first c.rest hc
      have hsc := segs_scope a c.rest.length c.first c.rest hs
      have hag : Agree (S.filter (fun o => !(a.contains o))) as bs :=
        agree_mono S _ (fun o ho => (List.mem_filter.mp ho).1) as bs h.2
      simp only [regroupG]
      rw [← hseg]
      generalize segs a c.rest.length c.first c.rest = sm at hin hsc
      obtain ⟨s0, more⟩ := sm
      simp only
      rw [regroupG_congr base base' as bs _ hag hb s0 hsc.1 hin.1]
      apply foldl_congr
      intro acc p hp
      rw [regroupG_congr base base' as bs _ hag hb p.2 (hsc.2 p hp) (hin.2 p hp)]
  | [], _ :: _, _, h, _, _, _, _ => by simp [Agree] at h
  | _ :: _, [], _, h, _, _, _, _ => by simp [Agree] at h

/-! ### the innermost level: BASIC09's `^`-level against Color BASIC's signed `^`-chain -/

theorem cut_all_in (ops : List String) : ∀ r : List (String × Operand), (∀ p ∈ r, p.1 ∈ ops) →
    cut ops r = ([], r)
  | [], _ => rfl
  | (o, x) :: r, h => by
      have : o ∈ ops := h (o, x) (by simp)
      simp [cut, this]

theorem segs_all_in (ops : List String) : ∀ (rest : List (String × Operand)) (fuel : Nat) (first : Operand),
    rest.length ≤ fuel → (∀ p ∈ rest, p.1 ∈ ops) →
    segs ops fuel first rest = (⟨first, []⟩, rest.map (fun p => (p.1, (⟨p.2, []⟩ : Chain))))
  | [], fuel, first, _, _ => by cases fuel <;> simp [segs, cut]
  | (o, x) :: r, fuel, first, hf, h => by
      have hc := cut_all_in ops ((o, x) :: r) h
      cases fuel with
      | zero => simp at hf
      | succ f =>
          have ih := segs_all_in ops r f x (by simp at hf; omega) (fun p hp => h p (by simp [hp]))
          unfold segs
          rw [hc]
          simp only [ih, List.map_cons]

/-- BASIC09's reading of a chain whose operators are all `^`: fold to the left, signs on the atoms -/
theorem b09_pow_level (c : Chain) (h : ∀ p ∈ c.rest, p.1 ∈ ["^", "**"]) :
    regroup [["^", "**"]] c =
      c.rest.foldl (fun acc p => .bin p.1 acc (negTree p.2.negs p.2.tree)) (negTree c.first.negs c.first.tree) := by
  simp only [regroup]
  rw [segs_all_in ["^", "**"] c.rest c.rest.length c.first (Nat.le_refl _) h]
  simp only [List.foldl_map]

/-- inside the scope a signed operand of a `^`-chain is the last one, so Color BASIC folds to the left too -/
theorem decbPow_in_scope : ∀ (r : List (String × Operand)) (x : Operand) (acc : Tree),
    (∀ p ∈ r, p.1 = "^") → scopeL x r = true →
    decbPow acc r = r.foldl (fun acc p => .bin p.1 acc (negTree p.2.negs p.2.tree)) acc
  | [], _, _, _, _ => rfl
  | (o, y) :: r, x, acc, hop, hs => by
      simp only [scopeL, Bool.and_eq_true] at hs
      have hr : ∀ p ∈ r, p.1 = "^" := fun p hp => hop p (by simp [hp])
      by_cases hy : y.negs = 0
      · simp only [decbPow, hy, if_true, List.foldl_cons, negTree]
        exact decbPow_in_scope r y _ hr hs.2
      · -- a signed operand: nothing may follow it
        cases r with
        | nil => simp [decbPow, hy]
        | cons q t =>
            exfalso
            have hq : q.1 = "^" := hr q (by simp)
            have h2 := hs.2
            simp only [scopeL, Bool.and_eq_true, Bool.or_eq_true, beq_iff_eq, bne_iff_ne, ne_eq] at h2
            rcases h2.1 with h0 | h0
            · exact hy h0
            · exact h0 hq

theorem pow_level_agrees (c : Chain) (hs : scope c = true) (hop : OpsIn ["^"] c.rest) :
    regroup [["^", "**"]] c = decbUnary c := by
  have hop' : ∀ p ∈ c.rest, p.1 = "^" := fun p hp => by simpa using hop p hp
  rw [b09_pow_level c (fun p hp => by simp [hop' p hp])]
  unfold decbUnary
  cases hr : c.rest with
  | nil => simp [decbPow]
  | cons q t =>
      -- the first operand is followed by `^`: inside the scope it carries no sign
      have hs' : scopeL c.first (q :: t) = true := by simpa [scope, hr] using hs
      have hq : q.1 = "^" := hop' q (by simp [hr])
      have h0 : c.first.negs = 0 := by
        obtain ⟨o, y⟩ := q
        simp only [scopeL, Bool.and_eq_true, Bool.or_eq_true, beq_iff_eq, bne_iff_ne, ne_eq] at hs'
        rcases hs'.1 with h | h
        · exact h
        · exact absurd hq h
      rw [h0]
      simp only [negTree]
      exact (decbPow_in_scope (q :: t) c.first c.first.tree (by simpa [hr] using hop') hs').symm

theorem remaining_common : remaining commonOps b09Low = ["^"] := by decide

theorem low_tables_agree : Agree commonOps b09Low decbLow := by
  simp only [Agree, b09Low, decbLow, commonOps]
  decide

/-- **same tree for chains with signs**: for every chain over the common binary operators - any length,
any operands, any number of prefix signs on any operand - in which no signed operand is directly
followed by `^`, BASIC09's ladder (sign on the atom) and Color BASIC (sign between `^` and `* /`)
group the flat text into the same tree. -/
theorem same_tree_signed_partial (c : Chain) (h : OpsIn commonOps c.rest) (hs : scope c = true) :
    regroup b09Levels c = decbRegroup c := by
  have hsplit : b09Levels = b09Low ++ [["^", "**"]] := rfl
  rw [hsplit, regroup_append]
  unfold decbRegroup
  apply regroupG_congr _ _ b09Low decbLow commonOps low_tables_agree _ c hs h
  intro c' hs' hc'
  rw [remaining_common] at hc'
  exact pow_level_agrees c' hs' hc'

/-! ### values -/

/-- value of a tree under an arbitrary interpretation of leaves, binary operators, minus, parentheses -/
def Tree.eval {α : Type} (leaf : String → α) (bin : String → α → α → α) (neg : α → α) (grp : α → α) : Tree → α
  | .leaf s => leaf s
  | .bin o l r => bin o (Tree.eval leaf bin neg grp l) (Tree.eval leaf bin neg grp r)
  | .neg t => neg (Tree.eval leaf bin neg grp t)
  | .grp t => grp (Tree.eval leaf bin neg grp t)

/-- **same value**: whatever the operators and the free variables mean, an in-scope chain has one value -/
theorem same_value_signed_partial {α : Type} (leaf : String → α) (bin : String → α → α → α) (neg grp : α → α)
    (c : Chain) (h : OpsIn commonOps c.rest) (hs : scope c = true) :
    Tree.eval leaf bin neg grp (regroup b09Levels c) = Tree.eval leaf bin neg grp (decbRegroup c) := by
  rw [same_tree_signed_partial c h hs]

/-! ### the complement of the scope is the finding -/

/-- `-B^2` is out of scope … -/
theorem sign_before_power_out_of_scope : scope ⟨⟨1, [.id "B"], .leaf "B"⟩, [("^", v "2")]⟩ = false := by decide

/-- … and there the two readings differ: `(-B)^2` against `-(B^2)` -/
theorem sign_before_power_differs :
    regroup b09Levels ⟨⟨1, [.id "B"], .leaf "B"⟩, [("^", v "2")]⟩ = .bin "^" (.neg (.leaf "B")) (.leaf "2")
    ∧ decbRegroup ⟨⟨1, [.id "B"], .leaf "B"⟩, [("^", v "2")]⟩ = .neg (.bin "^" (.leaf "B") (.leaf "2")) := by
  decide

/-- over the integers the two trees of the witness have different values (B = 3: 9 against −9) -/
theorem sign_before_power_values :
    Tree.eval (fun s => if s = "B" then (3 : Int) else 2) (fun _ a b => a ^ b.toNat) (fun a => -a) id
        (.bin "^" (.neg (.leaf "B")) (.leaf "2")) = 9
    ∧ Tree.eval (fun s => if s = "B" then (3 : Int) else 2) (fun _ a b => a ^ b.toNat) (fun a => -a) id
        (.neg (.bin "^" (.leaf "B") (.leaf "2"))) = -9 := by
  decide

/-- the hypotheses are satisfiable by a chain with signs in every harmless position: `-A * -B + C ^ -D - -E` -/
example : scope ⟨⟨1, [.id "A"], .leaf "A"⟩,
    [("*", ⟨1, [.id "B"], .leaf "B"⟩), ("+", v "C"), ("^", ⟨1, [.id "D"], .leaf "D"⟩), ("-", ⟨2, [.id "E"], .leaf "E"⟩)]⟩ = true := by
  decide

end CocoVerif.Props.C01Signs
