import CocoVerif.Model.Img
/-!
# C16 — the two artifact-colour modes of MAX (`-br`, `-rb`): solid black stays black

The artifact filter mixes every pixel with its left neighbour; its output is defined by the filter itself, so
there is no independent colour table to compare with (the seven table modes have `max_roundtrip`).  What can be said
for every picture: **a row of zero bytes decodes to black samples, whatever its length** - the filter introduces no
colour where the picture has none (`maxRow_black`), and so does a picture of zero rows (`maxRows_black`).
-/
namespace CocoVerif.Props.C16Art
open CocoVerif.Model.Img

/-- the filter state in a black area: the previous luminance and the previous colour are 0 (the phase `x` is free) -/
def Black (st : ArtState) : Prop := st.oy = 0 ∧ st.r2 = 0 ∧ st.g2 = 0 ∧ st.b2 = 0

theorem artPixel_black (st : ArtState) (h : Black st) :
    (artPixel st 0).1 = [0, 0, 0] ∧ Black (artPixel st 0).2 := by
  obtain ⟨h1, h2, h3, h4⟩ := h
  simp [artPixel, h1, h2, h3, h4, fmix, clip, Black]

theorem artBits_zero : artBits 0 = [0, 0, 0, 0, 0, 0, 0, 0] := by decide

theorem fold_black : ∀ (bits : List Nat) (acc : Bytes × ArtState), (∀ b ∈ bits, b = 0) → Black acc.2 →
    (bits.foldl (fun (acc : Bytes × ArtState) bit => let (o, s') := artPixel acc.2 bit; (acc.1 ++ o, s')) acc).1
        = acc.1 ++ List.replicate (3 * bits.length) 0
    ∧ Black (bits.foldl (fun (acc : Bytes × ArtState) bit => let (o, s') := artPixel acc.2 bit; (acc.1 ++ o, s')) acc).2
  | [], acc, _, hb => by simp [hb]
  | b :: bits, acc, hz, hb => by
      have hb0 : b = 0 := hz b (by simp)
      subst hb0
      have hp := artPixel_black acc.2 hb
      have ih := fold_black bits (acc.1 ++ (artPixel acc.2 0).1, (artPixel acc.2 0).2)
        (fun c hc => hz c (by simp [hc])) hp.2
      simp only [List.foldl_cons]
      refine ⟨?_, ih.2⟩
      rw [ih.1, hp.1]
      simp only [List.append_assoc, List.length_cons]
      congr 1

theorem artByte_black (arte : Nat) (st : ArtState) (h : Black st) :
    (artByte arte st 0).1 = List.replicate 24 0 ∧ Black (artByte arte st 0).2 := by
  unfold artByte
  rw [artBits_zero]
  have hb : Black { st with x := if arte == 1 then -100 else 100 } := h
  have := fold_black [0, 0, 0, 0, 0, 0, 0, 0] ([], { st with x := if arte == 1 then -100 else 100 })
    (by intro b hb'; simp at hb'; exact hb') hb
  simpa using this

theorem rowFold_black (arte : Nat) : ∀ (n : Nat) (acc : Bytes × ArtState), Black acc.2 →
    ((List.replicate n 0).foldl (fun (acc : Bytes × ArtState) v => let (o, s') := artByte arte acc.2 v; (acc.1 ++ o, s')) acc).1
      = acc.1 ++ List.replicate (24 * n) 0
  | 0, acc, _ => by simp
  | n + 1, acc, hb => by
      have hp := artByte_black arte acc.2 hb
      have ih := rowFold_black arte n (acc.1 ++ (artByte arte acc.2 0).1, (artByte arte acc.2 0).2) hp.2
      simp only [List.replicate_succ, List.foldl_cons]
      rw [ih, hp.1, List.append_assoc, List.replicate_append_replicate]
      congr 2
      omega

/-- **a row of zero bytes is black in both artifact modes**, whatever its length -/
theorem maxRow_black (arte : Nat) (h : arte = 1 ∨ arte = 2) (n : Nat) :
    maxRow arte (List.replicate n 0) = List.replicate (24 * n) 0 := by
  have h12 : (arte == 1 || arte == 2) = true := by rcases h with rfl | rfl <;> rfl
  unfold maxRow
  rw [if_pos h12]
  have := rowFold_black arte n ([], { oy := 0, x := 0, r2 := 0, g2 := 0, b2 := 0 }) ⟨rfl, rfl, rfl, rfl⟩
  simpa using this

/-- non-vacuity / a contrast: one set bit does produce colour (the filter is not the identity) -/
example : maxRow 1 [0, 0] = List.replicate 48 0 ∧ maxRow 1 [128] ≠ List.replicate 24 0 := by
  constructor
  · exact maxRow_black 1 (Or.inl rfl) 2
  · decide

end CocoVerif.Props.C16Art
