import CocoVerif.Spec.Ladder
import CocoVerif.Model.Emit

/-!
# C01 — translated expressions evaluate to the same values as in Color BASIC

What is proved:
* `b09_reads_flat_chain` — the BASIC09 side of the property for every operator chain: the flat
  token sequence the tool emits for a chain of operands derives, in BASIC09's precedence ladder
  (`Spec.Ladder.ExprAt`, all levels left-associative, prefix minus on atoms), exactly the tree
  `regroup b09Levels chain`.  The theorem is generic in the table.
* `emit_bin_flat`, `emit_logical_calls` — binary operators are emitted flat (so the reader's
  precedence decides), numeric AND/OR/NOT become `LAND(·,·)`/`LOR(·,·)`/`LNOT(·)` calls whose
  parentheses fix the grouping the tool chose.
* `and_or_not_bits` — on the truth values −1/0 Color BASIC's 16-bit AND/OR/NOT coincide with
  boolean and/or/not, so conditions built from comparisons branch identically.
* kernel-checked witnesses of the two precedence mismatches (`-B^2`, sign scope).

* `same_tree_binary` — for every chain joined by the fragment's binary operators, BASIC09's ladder
  and Color BASIC's table give the same tree (`regroup_congr`: regrouping depends on a table only
  through how it classifies the operators that occur; `tables_agree` by `decide`).

Not proved: the same for chains with prefix operators - it is false there (the witnesses, the
findings).  Values are compared semantically on the real code by the
expression suite (all shapes up to 3 operators, random larger ones, six contexts, four
environments); five known-finding classes.
-/
namespace CocoVerif.Props.C01
open CocoVerif.Spec.Ladder CocoVerif.Model

/-- BASIC09's binary levels, lowest first -/
def b09Levels : Levels :=
  [["OR", "XOR"], ["AND"], ["=", "<>", "<", ">", "<=", ">=", "=<", "=>"], ["+", "-"], ["*", "/"], ["^", "**"]]

/-- BASIC09 reads a flat chain as `regroup b09Levels`: the derivation exists for every chain whose
operators are BASIC09 operators and whose operands are atoms. -/
theorem b09_reads_flat_chain (Atom : List Tok → Tree → Prop) (c : Chain)
    (hfirst : Atom c.first.toks c.first.tree) (hrest : RestOK Atom b09Levels c.rest) :
    ExprAt Atom b09Levels c.toks (regroup b09Levels c) :=
  regroup_parses Atom b09Levels c hfirst hrest

def v (s : String) : Operand := ⟨0, [.id s], .leaf s⟩

/-- left-associativity and the level order, on a concrete chain: A - B - C * D ^ E -/
example : regroup b09Levels ⟨v "A", [("-", v "B"), ("-", v "C"), ("*", v "D"), ("^", v "E")]⟩ =
    .bin "-" (.bin "-" (.leaf "A") (.leaf "B")) (.bin "*" (.leaf "C") (.bin "^" (.leaf "D") (.leaf "E"))) := by
  decide

/-- the precedence mismatch the tool does not compensate: BASIC09 attaches a prefix minus to the
atom, so the emitted `- B ^ 2` is `(-B)^2`, where Color BASIC's `-B^2` is `-(B^2)` -/
theorem sign_before_power_witness :
    regroup b09Levels ⟨⟨1, [.id "B"], .leaf "B"⟩, [("^", v "2")]⟩ = .bin "^" (.neg (.leaf "B")) (.leaf "2") := by
  decide

/-- binary operators other than numeric AND/OR are emitted flat: operand, operator, operand -/
theorem emit_bin_flat (i : Int) (boolean : Bool) (l r : Expr) (op : String)
    (h : boolean = true ∨ (op ≠ "AND" ∧ op ≠ "OR")) :
    Emit.expr i (.bin boolean l op r) = Emit.expr i l ++ " " ++ op ++ " " ++ Emit.expr i r := by
  rcases h with h | ⟨h1, h2⟩
  · subst h; simp [Emit.expr]
  · simp [Emit.expr, h1, h2]

/-- numeric AND / OR / NOT become function calls: the operands the tool grouped are inside the
parentheses, whatever surrounds the call -/
theorem emit_logical_calls (i : Int) (l r e : Expr) :
    Emit.expr i (.bin false l "AND" r) = "LAND(" ++ Emit.expr i l ++ ", " ++ Emit.expr i r ++ ")"
    ∧ Emit.expr i (.bin false l "OR" r) = "LOR(" ++ Emit.expr i l ++ ", " ++ Emit.expr i r ++ ")"
    ∧ Emit.expr i (.un false "NOT" e) = "LNOT(" ++ Emit.expr i e ++ ")"
    ∧ Emit.expr i (.un true "NOT" e) = "NOT(" ++ Emit.expr i e ++ ")" := by
  refine ⟨?_, ?_, ?_, ?_⟩ <;> simp [Emit.expr] <;> rfl

/-- 16-bit two's complement AND / OR / NOT as Color BASIC applies them to truth values -/
def and16 (a b : Int) : Int := ((a % 65536).toNat &&& (b % 65536).toNat : Nat)
def or16 (a b : Int) : Int := ((a % 65536).toNat ||| (b % 65536).toNat : Nat)
def signed16 (n : Int) : Int := if n % 65536 ≥ 32768 then n % 65536 - 65536 else n % 65536
def truth (b : Bool) : Int := if b then -1 else 0

/-- on the truth values −1 / 0 the integer operators agree with the boolean ones -/
theorem and_or_not_bits : ∀ p q : Bool,
    signed16 (and16 (truth p) (truth q)) = truth (p && q)
    ∧ signed16 (or16 (truth p) (truth q)) = truth (p || q)
    ∧ signed16 (-(truth p) - 1) = truth (!p) := by
  decide

/-! ### both languages group a chain of binary operators alike -/

/-- Color BASIC's binary levels, lowest first (its prefix operators `-` and `NOT` are not here: they are
where the two languages differ, see the witnesses) -/
def decbLevels : Levels :=
  [["OR"], ["AND"], ["=", "<>", "<", ">", "<=", ">=", "=<", "=>"], ["+", "-"], ["*", "/"], ["^"]]

/-- the operators both tables know -/
def commonOps : List String := ["OR", "AND", "=", "<>", "<", ">", "<=", ">=", "=<", "=>", "+", "-", "*", "/", "^"]

def OpsIn (S : List String) (r : List (String × Operand)) : Prop := ∀ p ∈ r, p.1 ∈ S

/-- two tables that classify every operator of `S` alike, level by level -/
def Agree (S : List String) : Levels → Levels → Prop
  | [], [] => True
  | a :: as, b :: bs => (∀ o ∈ S, o ∈ a ↔ o ∈ b) ∧ Agree S as bs
  | _, _ => False

theorem cut_congr (S a b : List String) (h : ∀ o ∈ S, o ∈ a ↔ o ∈ b) :
    ∀ r, OpsIn S r → cut a r = cut b r
  | [], _ => rfl
  | (o, x) :: r, hr => by
      have ho : o ∈ S := hr (o, x) (by simp)
      have hrest : OpsIn S r := fun p hp => hr p (by simp [hp])
      have ih := cut_congr S a b h r hrest
      by_cases ha : o ∈ a
      · have hb : o ∈ b := (h o ho).mp ha
        simp [cut, ha, hb]
      · have hb : o ∉ b := fun hb => ha ((h o ho).mpr hb)
        simp [cut, ha, hb, ih]

theorem cut_opsIn (S ops : List String) : ∀ r, OpsIn S r → OpsIn S (cut ops r).1 ∧ OpsIn S (cut ops r).2
  | [], _ => by simp [cut, OpsIn]
  | (o, x) :: r, hr => by
      have hrest : OpsIn S r := fun p hp => hr p (by simp [hp])
      have ih := cut_opsIn S ops r hrest
      by_cases ho : o ∈ ops
      · simp only [cut, ho, if_true]
        exact ⟨by simp [OpsIn], hr⟩
      · simp only [cut, ho, if_false]
        refine ⟨?_, ih.2⟩
        intro p hp
        simp only [List.mem_cons] at hp
        rcases hp with rfl | hp
        · exact hr (o, x) (by simp)
        · exact ih.1 p hp

theorem segs_congr (S a b : List String) (h : ∀ o ∈ S, o ∈ a ↔ o ∈ b) :
    ∀ (fuel : Nat) (first : Operand) (rest : List (String × Operand)), OpsIn S rest →
      segs a fuel first rest = segs b fuel first rest
  | fuel, first, rest, hr => by
      have hc := cut_congr S a b h rest hr
      have ho := cut_opsIn S a rest hr
      unfold segs
      rw [← hc]
      generalize hcut : cut a rest = ab at ho
      obtain ⟨p, q⟩ := ab
      cases q with
      | nil => cases fuel <;> rfl
      | cons y r =>
          obtain ⟨o, x⟩ := y
          cases fuel with
          | zero => rfl
          | succ f =>
              have hr' : OpsIn S r := fun z hz => ho.2 z (by simp [hz])
              have ih := segs_congr S a b h f x r hr'
              simp only [ih]

theorem segs_opsIn (S ops : List String) :
    ∀ (fuel : Nat) (first : Operand) (rest : List (String × Operand)), OpsIn S rest →
      OpsIn S (segs ops fuel first rest).1.rest ∧ ∀ p ∈ (segs ops fuel first rest).2, OpsIn S p.2.rest
  | fuel, first, rest, hr => by
      have ho := cut_opsIn S ops rest hr
      unfold segs
      generalize hcut : cut ops rest = ab at ho
      obtain ⟨p, q⟩ := ab
      cases q with
      | nil => cases fuel <;> exact ⟨ho.1, by simp⟩
      | cons y r =>
          obtain ⟨o, x⟩ := y
          cases fuel with
          | zero => exact ⟨ho.1, by simp⟩
          | succ f =>
              have hr' : OpsIn S r := fun z hz => ho.2 z (by simp [hz])
              have ih := segs_opsIn S ops f x r hr'
              refine ⟨ho.1, ?_⟩
              intro z hz
              simp only [List.mem_cons] at hz
              rcases hz with rfl | hz
              · exact ih.1
              · exact ih.2 z hz

theorem foldl_congr {α β : Type} (f g : β → α → β) (l : List α) (h : ∀ acc, ∀ x ∈ l, f acc x = g acc x) :
    ∀ init, l.foldl f init = l.foldl g init := by
  induction l with
  | nil => intro; rfl
  | cons x xs ih =>
      intro init
      simp only [List.foldl_cons]
      rw [h init x (by simp)]
      exact ih (fun acc y hy => h acc y (by simp [hy])) _

/-- regrouping depends on a table only through how it classifies the operators that occur -/
theorem regroup_congr (S : List String) : ∀ (lv lv' : Levels), Agree S lv lv' →
    ∀ c : Chain, OpsIn S c.rest → regroup lv c = regroup lv' c
  | [], [], _, c, _ => rfl
  | a :: as, b :: bs, h, c, hc => by
      have hseg := segs_congr S a b h.1 c.rest.length c.first c.rest hc
      have hin := segs_opsIn S a c.rest.length c.first c.rest hc
      simp only [regroup]
      rw [← hseg]
      generalize segs a c.rest.length c.first c.rest = sm at hin
      obtain ⟨s0, more⟩ := sm
      simp only
      rw [regroup_congr S as bs h.2 s0 hin.1]
      apply foldl_congr
      intro acc p hp
      rw [regroup_congr S as bs h.2 p.2 (hin.2 p hp)]
  | [], _ :: _, h, _, _ => by simp [Agree] at h
  | _ :: _, [], h, _, _ => by simp [Agree] at h

theorem tables_agree : Agree commonOps b09Levels decbLevels := by
  simp only [Agree, b09Levels, decbLevels, commonOps]
  decide

/-- **same tree for sign-free chains**: for every chain of operands joined by the binary operators
of the fragment - any length, any operands - BASIC09's ladder and Color BASIC's table group the
flat text into the same tree.  With `emit_chain_flat` (the tool writes the chain flat) and
`b09_reads_flat_chain` (BASIC09 derives `regroup b09Levels`) this is the "must re-group into exactly
the operator tree Color BASIC would have built" of the property, for chains without prefix
operators; the prefix operators (`-` before `^`, the scope of NOT) are where it fails: the findings. -/
theorem same_tree_binary (c : Chain) (h : OpsIn commonOps c.rest) :
    regroup b09Levels c = regroup decbLevels c :=
  regroup_congr commonOps b09Levels decbLevels tables_agree c h

end CocoVerif.Props.C01
