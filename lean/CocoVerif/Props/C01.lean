import CocoVerif.Spec.Ladder
import CocoVerif.Model.Emit

/-!
# C01 — translated expressions evaluate to the same values as in Color BASIC

What is proved:
* `b09_reads_flat_chain` — the BASIC09 side of the property for every operator chain: the flat
  token sequence the tool emits for a chain of operands derives, in BASIC09's precedence ladder
  (`Spec.Ladder.ExprAt`, all levels left-associative, prefix minus on atoms), exactly the tree
  `regroup b09Levels chain`.  The theorem is generic in the table.
* `emit_bin_flat`, `emit_logical_calls` — binary operators are emitted flat (so the reader's
  precedence decides), numeric AND/OR/NOT become `LAND(·,·)`/`LOR(·,·)`/`LNOT(·)` calls whose
  parentheses fix the grouping the tool chose.
* `and_or_not_bits` — on the truth values −1/0 Color BASIC's 16-bit AND/OR/NOT coincide with
  boolean and/or/not, so conditions built from comparisons branch identically.
* kernel-checked witnesses of the two precedence mismatches (`-B^2`, sign scope).

Not proved: that the tree BASIC09 derives equals the tree Color BASIC derives from the source
(`same_tree` of the design).  That comparison is made semantically on the real code by the
expression suite (all shapes up to 3 operators, random larger ones, six contexts, four
environments); five known-finding classes.
-/
namespace CocoVerif.Props.C01
open CocoVerif.Spec.Ladder CocoVerif.Model

/-- BASIC09's binary levels, lowest first -/
def b09Levels : Levels :=
  [["OR", "XOR"], ["AND"], ["=", "<>", "<", ">", "<=", ">=", "=<", "=>"], ["+", "-"], ["*", "/"], ["^", "**"]]

/-- BASIC09 reads a flat chain as `regroup b09Levels`: the derivation exists for every chain whose
operators are BASIC09 operators and whose operands are atoms. -/
theorem b09_reads_flat_chain (Atom : List Tok → Tree → Prop) (c : Chain)
    (hfirst : Atom c.first.toks c.first.tree) (hrest : RestOK Atom b09Levels c.rest) :
    ExprAt Atom b09Levels c.toks (regroup b09Levels c) :=
  regroup_parses Atom b09Levels c hfirst hrest

def v (s : String) : Operand := ⟨0, [.id s], .leaf s⟩

/-- left-associativity and the level order, on a concrete chain: A - B - C * D ^ E -/
example : regroup b09Levels ⟨v "A", [("-", v "B"), ("-", v "C"), ("*", v "D"), ("^", v "E")]⟩ =
    .bin "-" (.bin "-" (.leaf "A") (.leaf "B")) (.bin "*" (.leaf "C") (.bin "^" (.leaf "D") (.leaf "E"))) := by
  decide

/-- the precedence mismatch the tool does not compensate: BASIC09 attaches a prefix minus to the
atom, so the emitted `- B ^ 2` is `(-B)^2`, where Color BASIC's `-B^2` is `-(B^2)` -/
theorem sign_before_power_witness :
    regroup b09Levels ⟨⟨1, [.id "B"], .leaf "B"⟩, [("^", v "2")]⟩ = .bin "^" (.neg (.leaf "B")) (.leaf "2") := by
  decide

/-- binary operators other than numeric AND/OR are emitted flat: operand, operator, operand -/
theorem emit_bin_flat (i : Int) (boolean : Bool) (l r : Expr) (op : String)
    (h : boolean = true ∨ (op ≠ "AND" ∧ op ≠ "OR")) :
    Emit.expr i (.bin boolean l op r) = Emit.expr i l ++ " " ++ op ++ " " ++ Emit.expr i r := by
  rcases h with h | ⟨h1, h2⟩
  · subst h; simp [Emit.expr]
  · simp [Emit.expr, h1, h2]

/-- numeric AND / OR / NOT become function calls: the operands the tool grouped are inside the
parentheses, whatever surrounds the call -/
theorem emit_logical_calls (i : Int) (l r e : Expr) :
    Emit.expr i (.bin false l "AND" r) = "LAND(" ++ Emit.expr i l ++ ", " ++ Emit.expr i r ++ ")"
    ∧ Emit.expr i (.bin false l "OR" r) = "LOR(" ++ Emit.expr i l ++ ", " ++ Emit.expr i r ++ ")"
    ∧ Emit.expr i (.un false "NOT" e) = "LNOT(" ++ Emit.expr i e ++ ")"
    ∧ Emit.expr i (.un true "NOT" e) = "NOT(" ++ Emit.expr i e ++ ")" := by
  refine ⟨?_, ?_, ?_, ?_⟩ <;> simp [Emit.expr] <;> rfl

/-- 16-bit two's complement AND / OR / NOT as Color BASIC applies them to truth values -/
def and16 (a b : Int) : Int := ((a % 65536).toNat &&& (b % 65536).toNat : Nat)
def or16 (a b : Int) : Int := ((a % 65536).toNat ||| (b % 65536).toNat : Nat)
def signed16 (n : Int) : Int := if n % 65536 ≥ 32768 then n % 65536 - 65536 else n % 65536
def truth (b : Bool) : Int := if b then -1 else 0

/-- on the truth values −1 / 0 the integer operators agree with the boolean ones -/
theorem and_or_not_bits : ∀ p q : Bool,
    signed16 (and16 (truth p) (truth q)) = truth (p && q)
    ∧ signed16 (or16 (truth p) (truth q)) = truth (p || q)
    ∧ signed16 (-(truth p) - 1) = truth (!p) := by
  decide

end CocoVerif.Props.C01
