import CocoVerif.Gen.Ecb
/-!
# C07 — the bundled runtime procedures are block-balanced

With dependencies bundled the output of the tool is the user's procedure **and** the procedures of
`ecb.b09` it reaches.  `Props.C07.blocks_balanced` is about what the emitter writes; this file is about the
library as it is now: the translator reads, for every procedure of `ecb.b09`, the block keywords in order
(`Gen.Ecb.blockWords`: `IF` block form, `IF1` one-line form, `ELSE`, `ENDIF`, `WHILE`, `ENDWHILE`, `REPEAT`,
`UNTIL`, `LOOP`, `ENDLOOP`, `EXITIF`, `ENDEXIT`, `FOR`, `NEXT`), and the theorem says that BASIC09's stack
discipline accepts each of these sequences and ends with an empty stack.  It is a `decide` over regenerated
data: an edit of the library that drops an `ENDIF` / `ENDWHILE` / `NEXT` makes it fail to compile.
-/
namespace CocoVerif.Props.C07Lib

/-- the stack after reading the block words, `none` on a closer (or ELSE) that does not match the innermost
open block or on a word the reader does not know -/
def run : List String → List String → Option (List String)
  | st, [] => some st
  | st, "IF1" :: ws => run st ws
  | st, "IF" :: ws => run ("IF" :: st) ws
  | st, "WHILE" :: ws => run ("WHILE" :: st) ws
  | st, "REPEAT" :: ws => run ("REPEAT" :: st) ws
  | st, "LOOP" :: ws => run ("LOOP" :: st) ws
  | st, "EXITIF" :: ws => run ("EXITIF" :: st) ws
  | st, "FOR" :: ws => run ("FOR" :: st) ws
  | "IF" :: st, "ELSE" :: ws => run ("IF" :: st) ws
  | "IF" :: st, "ENDIF" :: ws => run st ws
  | "WHILE" :: st, "ENDWHILE" :: ws => run st ws
  | "REPEAT" :: st, "UNTIL" :: ws => run st ws
  | "LOOP" :: st, "ENDLOOP" :: ws => run st ws
  | "EXITIF" :: st, "ENDEXIT" :: ws => run st ws
  | "FOR" :: st, "NEXT" :: ws => run st ws
  | _, _ => none

def balanced (ws : List String) : Bool := run [] ws == some []

/-- **every procedure of the library, as it is now, closes every block it opens, in order** -/
theorem library_blocks_balanced :
    CocoVerif.Gen.Ecb.blockWords.all (fun p => balanced p.2) = true := by
  decide +kernel

/-- every procedure of the library has a row -/
theorem library_blocks_cover : CocoVerif.Gen.Ecb.blockWords.map (·.1) = CocoVerif.Gen.Ecb.procNames := by
  decide +kernel

/-- the reader rejects what it should: a missing ENDIF, a stray ELSE, crossed blocks -/
theorem unbalanced_witnesses :
    balanced ["IF", "ELSE"] = false ∧ balanced ["ELSE"] = false ∧ balanced ["IF", "WHILE", "ENDIF", "ENDWHILE"] = false
    ∧ balanced ["FOR", "IF", "ENDIF"] = false ∧ balanced ["IF", "IF1", "ELSE", "FOR", "NEXT", "ENDIF"] = true := by
  decide

end CocoVerif.Props.C07Lib
