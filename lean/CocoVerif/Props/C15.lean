import CocoVerif.Model.Compile
import CocoVerif.Model.ProcBank

/-!
# C15 — any input is either converted or refused with a documented error

What is proved here concerns the part of the pipeline that is modelled (after parsing):
every model function is total by construction (structural recursion, checked by the kernel), and
the procedure name the tool ends up with is always one the procedure bank finds again, so that
`add_from_str` can never meet a line before the first header (the UnboundLocalError that
`my-prog.bas` caused before the `fix:` commit 951d448).
-/
namespace CocoVerif.Props.C15
open CocoVerif.Model CocoVerif.Model.Compile CocoVerif.Model.ProcBank

theorem program_ok : procnameOk "program" = true := by decide

/-- the name is empty (no header is written at all) or a full match of the name pattern -/
theorem effProcname_ok (o : Options) : effProcname o = "" ∨ procnameOk (effProcname o) = true := by
  unfold effProcname
  split
  · exact Or.inl rfl
  · split
    · next h => exact Or.inr h
    · exact Or.inr program_ok

theorem word_of_ok (c : Char)
    (h : (('a' ≤ c && c ≤ 'z') || ('A' ≤ c && c ≤ 'Z') || ('0' ≤ c && c ≤ '9') || c == '_') = true) :
    isWord c = true := by
  unfold isWord Char.isAlphanum Char.isAlpha Char.isUpper Char.isLower Char.isDigit
  simp only [Bool.or_eq_true, Bool.and_eq_true, decide_eq_true_eq, beq_iff_eq] at h ⊢
  rcases h with ((h | h) | h) | h
  · exact Or.inl (Or.inl (Or.inr h))
  · exact Or.inl (Or.inl (Or.inl h))
  · exact Or.inl (Or.inr h)
  · exact Or.inr h

theorem not_space_of_word (c : Char) (h : isWord c = true) : isSpace c = false := by
  unfold isWord Char.isAlphanum Char.isAlpha Char.isUpper Char.isLower Char.isDigit at h
  unfold isSpace
  simp only [Bool.or_eq_true, Bool.and_eq_true, decide_eq_true_eq, beq_iff_eq] at h
  have hv : c.val.toNat = c.toNat := rfl
  simp only [Bool.or_eq_false_iff, Bool.and_eq_false_iff, beq_eq_false_iff_ne, ne_eq, decide_eq_false_iff_not]
  simp only [Char.le_def, UInt32.le_iff_toNat_le] at h ⊢
  have e1 : ('\t' : Char).val.toNat = 9 := rfl
  have e2 : ('\r' : Char).val.toNat = 13 := rfl
  have e3 : ('\x1c' : Char).val.toNat = 28 := rfl
  have e4 : ('\x1f' : Char).val.toNat = 31 := rfl
  have e5 : ('A' : Char).val.toNat = 65 := rfl
  have e6 : ('Z' : Char).val.toNat = 90 := rfl
  have e7 : ('a' : Char).val.toNat = 97 := rfl
  have e8 : ('z' : Char).val.toNat = 122 := rfl
  have e9 : ('0' : Char).val.toNat = 48 := rfl
  have e10 : ('9' : Char).val.toNat = 57 := rfl
  rw [e5, e6, e7, e8, e9, e10] at h
  rw [e1, e2, e3, e4]
  refine ⟨⟨?_, ?_⟩, ?_⟩
  · rintro rfl
    rcases h with ((h | h) | h) | h
    all_goals first | (have : (' ' : Char).val.toNat = 32 := rfl; omega) | (revert h; decide)
  · rcases h with ((h | h) | h) | h
    all_goals first | omega | (subst h; decide)
  · rcases h with ((h | h) | h) | h
    all_goals first | omega | (subst h; decide)

theorem takeWhile_all {α} (p : α → Bool) : ∀ (l : List α), (∀ x ∈ l, p x = true) → l.takeWhile p = l
  | [], _ => rfl
  | x :: xs, h => by
      simp [List.takeWhile, h x (by simp), takeWhile_all p xs (fun y hy => h y (by simp [hy]))]

/-- the header line `procedure <name>` is recognised, with exactly that name, for every name the
tool can end up with -/
theorem header_found_chars (n : List Char) (hne : n ≠ []) (hall : ∀ c ∈ n, isWord c = true) :
    headerName ("procedure ".toList ++ n) = some (String.ofList n) := by
  obtain ⟨c, cs, rfl⟩ := List.exists_cons_of_ne_nil hne
  have hc : isSpace c = false := not_space_of_word c (hall c (by simp))
  have hstrip : stripPrefixCI "procedure".toList ("procedure ".toList ++ c :: cs) = some (' ' :: c :: cs) := by
    simp [stripPrefixCI, lower]
  have hdw : List.dropWhile isSpace (' ' :: c :: cs) = c :: cs := by
    have hsp : isSpace ' ' = true := by decide
    simp [List.dropWhile, hsp, hc]
  have htw : List.takeWhile isWord (c :: cs) = c :: cs := takeWhile_all isWord (c :: cs) hall
  unfold headerName
  rw [hstrip]
  simp only [hdw, htw]
  simp

theorem header_found (name : String) (h : procnameOk name = true) :
    headerName ("procedure " ++ name).toList = some name := by
  unfold procnameOk at h
  simp only [Bool.and_eq_true, Bool.not_eq_true', List.all_eq_true] at h
  have hne : name.toList ≠ [] := by
    intro hnil
    have : name.isEmpty = true := by simp [String.isEmpty_iff, ← String.toList_eq_nil_iff, hnil]
    simp [this] at h
  have := header_found_chars name.toList hne (fun c hc => word_of_ok c (h.2 c hc))
  simpa [String.toList_append] using this

/-- Whatever the options and the file name, the bundled program starts with a header the procedure
bank recognises: the UnboundLocalError path of `add_from_str` is unreachable. -/
theorem procname_always_found (o : Options) (h : effProcname o ≠ "") :
    headerName ("procedure " ++ effProcname o).toList = some (effProcname o) := by
  rcases effProcname_ok o with h0 | h1
  · exact absurd h0 h
  · exact header_found _ h1

end CocoVerif.Props.C15
