import CocoVerif.Model.Cli
import CocoVerif.Model.ProcBank
import CocoVerif.Props.C06

/-!
# C11 — each option changes only the aspect of the output it documents

Stage-level theorems about the model (every option enters the pipeline through exactly one
function), the command-line mapping, and the line-end handling.  That the *whole* output differs
only as documented is checked on the real code by the option-flip oracle.
-/
namespace CocoVerif.Props.C11
open CocoVerif.Model CocoVerif.Model.Compile CocoVerif.Model.Cli

/-- The command line maps each flag to exactly its option (three of them negated), for all flag
combinations and every file name; prefix, suffix and headers are always on. -/
theorem cli_mapping (f : Flags) (path : String) :
    let o := options f path
    o.filterUnusedLinenum = f.l ∧ o.initializeVars = !f.z ∧ o.outputDependencies = !f.D
    ∧ o.defaultWidth32 = !f.w ∧ o.defaultStrStorage = f.s ∧ o.strSizes = f.sizes
    ∧ o.addStandardPrefix = true ∧ o.addSuffix = true ∧ o.skipProcedureHeaders = false
    ∧ o.procname = stem path := by
  simp [options]

/-- the procedure is named after the input file -/
example : stemChars "/tmp/x/my_prog.bas".toList = "my_prog".toList ∧ stemChars "a.b.bas".toList = "a.b".toList
    ∧ stemChars ".bas".toList = ".bas".toList ∧ stemChars "noext".toList = "noext".toList := by decide

/-- the text the converter sees never contains a CR: CR and CRLF line ends are LF line ends -/
theorem cli_newline_normalised (cs : List Char) : '\r' ∉ universalNewlines cs := by
  fun_induction universalNewlines cs with
  | case1 r ih => simpa using ih
  | case2 r hne ih => simpa using ih
  | case3 c r hne1 hne2 ih =>
      simp only [List.mem_cons, not_or]
      refine ⟨fun h => ?_, ih⟩
      exact hne2 h.symm
  | case4 => simp

/-- what is written has OS-9 line ends: no LF is left -/
theorem cli_writes_os9_line_ends (cs : List Char) : '\n' ∉ os9LineEnds cs := by
  unfold os9LineEnds
  intro h
  obtain ⟨c, _, hc⟩ := List.mem_map.mp h
  split at hc
  · simp at hc
  · next hne => exact hne (by simpa using hc)

/-- the width flag only selects the literal of the start-up call: the two prologues differ in
exactly that line -/
theorem opt_width_prologue :
    (standardPrefix true).length = (standardPrefix false).length
    ∧ ((List.range (standardPrefix true).length).filter (fun i =>
        (Emit.line 0 ((standardPrefix true)[i]!)) != (Emit.line 0 ((standardPrefix false)[i]!)))) = [5]
    ∧ Emit.line 0 ((standardPrefix true)[5]!) = "RUN _ecb_start(display, 1)"
    ∧ Emit.line 0 ((standardPrefix false)[5]!) = "RUN _ecb_start(display, 0)" := by
  decide

/-- label filtering only decides which labels are printed (`C06.filter_keeps_statements`) -/
theorem opt_filter (filter : Bool) (refs : List Int) (l : Line) :
    (applyFilter filter refs l).body = l.body ∧ (applyFilter filter refs l).num = l.num :=
  C06.filter_keeps_statements filter refs l

/-- disabling pre-initialisation: the flag reaches DIM statements only through their `init` field -/
theorem opt_init_dim (flag : Bool) (vs : List Expr) (i : Bool) (d : Int) (sz : List (String × Int)) (p : List Expr) :
    setDimInit flag (.dim vs i d sz p) = .dim vs flag d sz p := rfl

/-- suppressing dependencies: the program text is returned as it is -/
theorem opt_deps_off (lib program procname : String) (storage : Int) :
    ProcBank.finish lib program procname false storage = some (program ++ "\n") := by
  simp [ProcBank.finish]

end CocoVerif.Props.C11
