import CocoVerif.Gen.Ecb
import CocoVerif.Model.Compile

/-!
# C14 — every emitted runtime call matches the declared interface of its procedure

`emittedCalls` is the table of call shapes the tool can emit (one row per construct of
`parser.py` / `elements.py` / `visitors.py` / `compiler.py` that creates a RUN), with the kind of
every argument position as the grammar category guarantees it (exp → numeric, str_exp → string,
`display` / `play` → record).  The harness checks on every run that every RUN in real output has
a shape of this table (tie); the theorems compare the table with the `param` lines of the
library **as it is in /repo now** (`Gen.Ecb.sigs`).
-/
namespace CocoVerif.Props.C14
open CocoVerif

def n := "numeric"
def s := "string"
def dsp := "record:display_t"
def ply := "record:play_t"

/-- (construct, procedure, argument kinds, known mismatch?) -/
def emittedCalls : List (String × String × List String × Bool) := [
  ("PRINT@", "ecb_at", [n], false),
  ("CLS", "ecb_cls", [n, dsp], false),
  ("SOUND", "ecb_sound", [n, n, n, n], false),
  ("RESET", "ecb_reset", [n, n], false),
  ("SET", "ecb_set", [n, n, n], false),
  ("BUTTON", "ecb_button", [n, n], false),
  ("INT", "ecb_int", [n, n], false),
  ("POINT", "ecb_point", [n, n, n], false),
  ("HEX$", "ecb_hex", [n, s], false),
  ("STR$ / PRINT item", "ecb_str", [n, s], false),
  ("HPRINT numeric item", "ecb_str", [n, n], true),
  ("HPRINT numeric item / numeric binary expression", "ecb_hprint", [n, n, n, dsp], true),
  ("INKEY$", "inkey", [s], false),
  ("VAL", "ecb_val", [s, n], false),
  ("JOYSTK", "ecb_joystk", [n, n], true),
  ("INSTR", "ecb_instr", [n, s, s, n], false),
  ("STRING$", "ecb_string", [n, s, s], false),
  ("WIDTH", "_ecb_width", [n, dsp], false),
  ("LOCATE", "ecb_locate", [n, n], false),
  ("ATTR", "ecb_attr", [n, n, n, n, dsp], false),
  ("CMP", "ecb_set_palette_cmp", [dsp], false),
  ("RGB", "ecb_set_palette_rgb", [dsp], false),
  ("PALETTE", "ecb_set_palette", [n, n, dsp], false),
  ("HSCREEN", "ecb_hscreen", [n, dsp], false),
  ("HCLS", "ecb_hcls", [n, dsp], false),
  ("HCIRCLE", "ecb_hcircle", [n, n, n, n, n, dsp], false),
  ("HCIRCLE arc", "ecb_harc", [n, n, n, n, n, n, n, dsp], false),
  ("HPRINT", "ecb_hprint", [n, n, s, dsp], false),
  ("HCOLOR", "ecb_hcolor", [n, n, dsp], false),
  ("HLINE", "ecb_hline", [s, n, n, n, n, s, s, dsp], false),
  ("HRESET", "ecb_hreset", [n, n, dsp], false),
  ("HSET", "ecb_hset", [n, n, dsp], false),
  ("HSET 3", "ecb_hset3", [n, n, n, dsp], false),
  ("PLAY", "ecb_play", [s, ply], false),
  ("HDRAW", "ecb_hdraw", [s, dsp], false),
  ("HBUFF", "_ecb_hbuff", [n, n, n, dsp], false),
  ("HGET", "ecb_hget", [n, n, n, n, n, n, dsp], false),
  ("HPUT", "ecb_hput", [n, n, n, n, n, s, n, dsp], false),
  ("HPAINT", "ecb_hpaint", [n, n, n, n, dsp], false),
  ("prologue", "_ecb_start", [dsp, n], false),
  ("prologue (HBUFF)", "_ecb_init_hbuff", [n], false),
  ("INPUT", "_ecb_input_prefix", [], false),
  ("INPUT", "_ecb_input_suffix", [], false),
  ("READ with empty DATA", "ecb_read_filter", [s, n], false)
]

def systemModules : List String := ["gfx", "gfx2", "syscall", "inkey"]

def kindOK (declared actual : String) : Bool := actual == "unknown" || declared == actual

/-- the call names a bundled procedure with that many parameters of those kinds, or a system module -/
def callMatches (sigs : List (String × List (String × String))) (callee : String) (args : List String) : Bool :=
  match sigs.find? (fun p => p.1 == callee) with
  | none => systemModules.contains callee.toLower
  | some sig => sig.2.length == args.length && (List.zip sig.2 args).all (fun p => kindOK p.1.2 p.2)

/-- Every call shape the tool emits — except the two listed findings — names a procedure the
library defines now, with as many arguments as it declares parameters and kind for kind. -/
theorem emitted_calls_match_partial :
    (emittedCalls.filter (fun c => !c.2.2.2)).all (fun c => callMatches Gen.Ecb.sigs c.2.1 c.2.2.1) = true := by
  decide +kernel

/-- full statement is false on the tree as given: `JOYSTK(n)` passes 2 arguments to a procedure
with 6 parameters; a numeric HPRINT item receives the string result in a numeric temporary which is
then passed as the text; a numeric binary expression as HPRINT item is passed as it is -/
theorem emitted_calls_mismatch_witnesses :
    (emittedCalls.filter (fun c => c.2.2.2)).all (fun c => !callMatches Gen.Ecb.sigs c.2.1 c.2.2.1) = true := by
  decide +kernel

/-- The same holds for every call between library procedures (argument kinds as far as the
translator can infer them from the callers' `param`/`dim` lines; `unknown` matches anything). -/
theorem library_calls_match :
    Gen.Ecb.libCalls.all (fun c => callMatches Gen.Ecb.sigs c.2.1 c.2.2) = true := by
  decide +kernel

def normalize (t : String) : List Char :=
  (t.toList.filter (fun c => c != ' ' && c != '\t')).map Char.toLower

/-- the two record types as the program prologue declares them (`Model.Compile.standardPrefix`) -/
def prologueTypes : List (List Char × List Char) :=
  (Model.Compile.standardPrefix true).filterMap (fun l => match l.body with
    | .code c _ =>
        let t := normalize c
        if t.take 4 == "type".toList then
          let rest := t.drop 4
          some (rest.takeWhile (· != '='), (rest.dropWhile (· != '=')).drop 1)
        else none
    | _ => none)

/-- The record types of the prologue are field-for-field identical (case and blanks aside) to
every declaration of them in the library. -/
theorem record_types_identical :
    (Gen.Ecb.recordTypes.filter (fun d => d.2.1 == "display_t" || d.2.1 == "play_t")).all
        (fun d => prologueTypes.contains (d.2.1.toList, d.2.2.toList)) = true
    ∧ prologueTypes.length = 2
    ∧ (Gen.Ecb.recordTypes.filter (fun d => d.2.1 == "display_t")).length ≥ 1
    ∧ (Gen.Ecb.recordTypes.filter (fun d => d.2.1 == "play_t")).length ≥ 1 := by
  decide +kernel

end CocoVerif.Props.C14
