import CocoVerif.Model.Compile
import CocoVerif.Props.Lemmas.ProcBank

/-!
# C12 — conversion is a deterministic function of its input and options

The models are pure functions, so "same input, same output" holds by construction across
calls.  What can vary in the real code is the iteration order of Python `set`s (hash seed,
insertion history).  In the model every such set is first passed through an arbitrary
`perm` and the theorem says the result does not depend on it.
-/
namespace CocoVerif.Props.C12
open CocoVerif.Model CocoVerif.Model.Compile

/-- `Compile.sortStrings` and `ProcBank.sortStrings` are the same insertion sort -/
theorem sortStrings_eq (xs : List String) : Compile.sortStrings xs = ProcBank.sortStrings xs := by
  unfold Compile.sortStrings ProcBank.sortStrings
  have h : ∀ x l, Compile.insertSorted x l = ProcBank.insertSorted x l := by
    intro x l
    induction l with
    | nil => rfl
    | cons y ys ih => simp [Compile.insertSorted, ProcBank.insertSorted, ih]
  simp [h]

/-- `sorted(s)` depends only on the members of the set -/
theorem sorted_set_order_independent (xs ys : List String) (h : ∀ x, x ∈ xs ↔ x ∈ ys) :
    Compile.sortStrings xs = Compile.sortStrings ys := by
  rw [sortStrings_eq, sortStrings_eq]
  exact Props.ProcBank.sortStrings_order_independent xs ys h

/-- Hash-seed independence of the conversion: whatever order the three sets that reach the output
(implicit arrays, string variables to size, variables to initialise) hand out their members in,
the result is the same. -/
theorem convert_order_independent (perm : List String → List String)
    (hperm : ∀ xs x, x ∈ perm xs ↔ x ∈ xs) (o : Options) (p : Prog) :
    convertAstP perm o p = convertAst o p := by
  have key : ∀ xs, Compile.sortStrings (perm xs) = Compile.sortStrings (id xs) :=
    fun xs => sorted_set_order_independent _ _ (hperm xs)
  unfold convertAst convertAstP
  simp only [key]

/-- the defect that the `fix:` commit b543c5b repaired, on the model of the old code: without the
`sorted(...)` the implicit DIM lines follow the set's iteration order -/
def dimLineName (l : Line) : String :=
  match l.body with
  | .dim (.arr (.var nm _) _ _ :: _) _ _ _ _ => nm
  | _ => ""

theorem unsorted_implicit_dims_depend_on_order :
    (["arr_A", "arr_B"].map (fun n => dimLineName (implicitDim false 32 n)))
      ≠ (["arr_B", "arr_A"].map (fun n => dimLineName (implicitDim false 32 n))) := by
  decide

/-- the dependency closure as a *set* does not depend on the order in which a procedure's
dependency set is iterated (`C13.closure_is_reachability`): two runs whose `deps` functions
return permutations of each other collect the same names -/
theorem closure_order_independent (d₁ d₂ : String → List String) (root : String) (f₁ f₂ : Nat)
    (r₁ r₂ : List String) (hd : ∀ n x, x ∈ d₁ n ↔ x ∈ d₂ n)
    (h₁ : ProcBank.closure d₁ f₁ [root] [] = some r₁) (h₂ : ProcBank.closure d₂ f₂ [root] [] = some r₂) :
    ∀ n, n ∈ r₁ ↔ n ∈ r₂ := by
  intro n
  rw [Props.ProcBank.closure_eq_reach d₁ root f₁ r₁ h₁, Props.ProcBank.closure_eq_reach d₂ root f₂ r₂ h₂]
  have hr : ∀ (d d' : String → List String), (∀ n x, x ∈ d n ↔ x ∈ d' n) →
      ∀ m, Props.ProcBank.Reach d root m → Props.ProcBank.Reach d' root m := by
    intro d d' hdd m hm
    induction hm with
    | root => exact .root
    | step _ hx ih => exact .step ih ((hdd _ _).mp hx)
  exact ⟨hr d₁ d₂ hd n, hr d₂ d₁ (fun a b => (hd a b).symm) n⟩

end CocoVerif.Props.C12
