import CocoVerif.Props.C01Front
import CocoVerif.Props.C07Expr

/-!
# C01 — from the emitter's tokens to the reader's ladder

`C01Front.emit_chain_flat` says, at the level of strings, that a chain `e₀ op₁ e₁ … opₙ eₙ` is written
flat; `C01.b09_reads_flat_chain` says how BASIC09's precedence ladder regroups a flat chain of abstract
tokens.  This file puts the emitter's **tokens** (`C07Expr.exprT`, kernel-checked to be the emitter's
text cut into pieces) in between:

* `exprT_chain_flat` — for every first operand and every non-empty fragment list without numeric AND / OR,
  the tokens of the object `from_exp_op_and_fragments` builds are the tokens of the operands, in source
  order, separated by one `binop` token per fragment whose spelling is the fragment's operator between
  two blanks; nothing else.
* `ladder_view` / `b09_reads_emitted_chain` — replacing every operand's token block by one abstract
  identifier token and every `binop` token by its operator gives exactly the token list of the ladder chain
  `chainOf`, which BASIC09's ladder derives as `regroup b09Levels (chainOf …)` whenever the operators are
  BASIC09 binary operators.

What remains unproved between the two ends is the lexer: that BASIC09 reads the *characters* of an
operand's text as one operand (for operands that are themselves chains of a higher level this is the
same statement one level up; for parenthesised operands, calls and literals it is BASIC09's own
tokenisation).
-/
namespace CocoVerif.Props.C01Tokens
open CocoVerif.Model CocoVerif.Model.Front CocoVerif.Props.C01Front CocoVerif.Props.C07Expr
open CocoVerif.Spec.Ladder

/-- the tokens after the first operand: one operator token and the operand's tokens per fragment -/
def tailT (i : Int) : List Frag → List C07Expr.Tok
  | [] => []
  | f :: rest => ⟨.binop, " " ++ f.1 ++ " "⟩ :: (exprT i f.2 ++ tailT i rest)

theorem exprT_rnest (i : Int) (f : Frag) (rest : List Frag) (h : plainOps (f :: rest)) :
    ⟨.binop, " " ++ (rnest f rest).1 ++ " "⟩ :: exprT i (rnest f rest).2 = tailT i (f :: rest) := by
  induction rest generalizing f with
  | nil => simp [rnest, tailT]
  | cons g rest ih =>
      have hg : plainOps (g :: rest) := fun x hx => h x (by simp [List.mem_cons] at hx ⊢; right; exact hx)
      have hgop := h g (by simp)
      have hn : (rnest g rest).1 = g.1 := by cases rest <;> rfl
      have key := ih g hg
      have h1 : (rnest g rest).1 ≠ "AND" := by rw [hn]; exact hgop.1
      have h2 : (rnest g rest).1 ≠ "OR" := by rw [hn]; exact hgop.2
      have hb : exprT i (.bin false f.2 (rnest g rest).1 (rnest g rest).2) =
          exprT i f.2 ++ [⟨.binop, " " ++ (rnest g rest).1 ++ " "⟩] ++ exprT i (rnest g rest).2 := by
        simp [exprT, h1, h2]
      simp only [rnest, tailT]
      rw [hb]
      simp only [List.append_assoc, List.cons_append, List.nil_append]
      rw [key]
      rfl

/-- **the chain's tokens**: operands in source order, one operator token per fragment -/
theorem exprT_chain_flat (i : Int) (exp : Expr) (f : Frag) (rest : List Frag) (h : plainOps (f :: rest)) :
    ∃ e, fromFragments (.e exp) ((f :: rest).map fragVal) = .ok (.e e)
      ∧ exprT i e = exprT i exp ++ tailT i (f :: rest)
      ∧ Emit.expr i e = render (exprT i exp ++ tailT i (f :: rest)) := by
  refine ⟨_, from_fragments_value exp f rest, ?_, ?_⟩
  · have hn : (rnest f rest).1 = f.1 := by cases rest <;> rfl
    have hf := h f (by simp)
    have h1 : (rnest f rest).1 ≠ "AND" := by rw [hn]; exact hf.1
    have h2 : (rnest f rest).1 ≠ "OR" := by rw [hn]; exact hf.2
    have := exprT_rnest i f rest h
    simp [exprT, h1, h2, ← this]
  · have hn : (rnest f rest).1 = f.1 := by cases rest <;> rfl
    have hf := h f (by simp)
    have h1 : (rnest f rest).1 ≠ "AND" := by rw [hn]; exact hf.1
    have h2 : (rnest f rest).1 ≠ "OR" := by rw [hn]; exact hf.2
    rw [← render_exprT]
    congr 1
    have := exprT_rnest i f rest h
    simp [exprT, h1, h2, ← this]

/-! ### the ladder's view of these tokens -/

/-- an operand as the ladder sees it: one identifier token standing for the operand's whole text -/
def atomOf (i : Int) (e : Expr) : Operand := ⟨0, [.id (Emit.expr i e)], .leaf (Emit.expr i e)⟩

def chainOf (i : Int) (exp : Expr) (fs : List Frag) : Chain :=
  ⟨atomOf i exp, fs.map (fun f => (f.1, atomOf i f.2))⟩

/-- the abstraction of the emitter's tokens: an operand block becomes one identifier, an operator token its operator -/
def ladderTail (i : Int) : List Frag → List Spec.Ladder.Tok
  | [] => []
  | f :: rest => .op f.1 :: .id (Emit.expr i f.2) :: ladderTail i rest

theorem ladder_view (i : Int) (exp : Expr) (fs : List Frag) :
    (chainOf i exp fs).toks = .id (Emit.expr i exp) :: ladderTail i fs := by
  simp only [chainOf, Chain.toks, atomOf, Operand.allToks, negToks, List.cons_append, List.nil_append]
  congr 1
  induction fs with
  | nil => rfl
  | cons f rest ih => simp [restToks, ladderTail, Operand.allToks, negToks, ih]

/-- operands are atoms of the ladder: identifiers -/
def IdAtom : List Spec.Ladder.Tok → Tree → Prop := fun ts t => ∃ s, ts = [.id s] ∧ t = .leaf s

/-- **BASIC09 reads the emitted chain as `regroup b09Levels`**: for every chain whose operators are BASIC09
binary operators, the abstraction of the emitter's tokens derives, in BASIC09's left-associative ladder,
exactly the level-wise regrouping of the chain. -/
theorem b09_reads_emitted_chain (i : Int) (exp : Expr) (fs : List Frag)
    (hops : ∀ f ∈ fs, ∃ ops ∈ C01.b09Levels, f.1 ∈ ops) :
    ExprAt IdAtom C01.b09Levels (.id (Emit.expr i exp) :: ladderTail i fs)
      (regroup C01.b09Levels (chainOf i exp fs)) := by
  rw [← ladder_view]
  apply C01.b09_reads_flat_chain
  · exact ⟨_, rfl, rfl⟩
  · intro p hp
    simp only [chainOf, List.mem_map] at hp
    obtain ⟨f, hf, rfl⟩ := hp
    exact ⟨hops f hf, ⟨_, rfl, rfl⟩⟩

/-- non-vacuity and left associativity on the emitter's own tokens: `A - B - C` -/
example : regroup C01.b09Levels (chainOf 0 (.var "A" false) [("-", .var "B" false), ("-", .var "C" false)])
    = .bin "-" (.bin "-" (.leaf "A") (.leaf "B")) (.leaf "C") := by decide

end CocoVerif.Props.C01Tokens
