import CocoVerif.Props.Lemmas.ProcBank
import CocoVerif.Gen.Ecb

/-!
# C13 — the emitted bundle contains exactly the procedures the program needs
-/
namespace CocoVerif.Props.C13
open CocoVerif.Model.ProcBank CocoVerif.Props.ProcBank

/-- The set of procedures the bank collects for `root` is precisely what is reachable from it
through RUN calls: none missing, none unreachable (for every dependency graph, every root). -/
theorem closure_is_reachability (deps : String → List String) (root : String) (fuel : Nat)
    (res : List String) (h : closure deps fuel [root] [] = some res) :
    ∀ n, n ∈ res ↔ Reach deps root n :=
  closure_eq_reach deps root fuel res h

/-- names in the order the bundle prints them -/
def bundleOrder (all : List String) (name : String) : List String :=
  sortStrings (all.filter (· != name)) ++ [name]

/-- In the bundle the program's own procedure is last; before it come the other procedures in
strictly ascending (code-point) order, hence each exactly once; the membership is unchanged. -/
theorem bundle_sorted_once_root_last (all : List String) (name : String) :
    (bundleOrder all name).getLast? = some name
    ∧ (sortStrings (all.filter (· != name))).Pairwise (· < ·)
    ∧ (bundleOrder all name).Nodup
    ∧ ∀ n, n ∈ bundleOrder all name ↔ (n ∈ all ∨ n = name) := by
  refine ⟨by simp [bundleOrder], sorted_sortStrings _, ?_, ?_⟩
  · unfold bundleOrder
    refine List.nodup_append.mpr ⟨nodup_of_sorted _ (sorted_sortStrings _), by simp, ?_⟩
    intro a ha b hb
    have hb' : b = name := by simpa using hb
    have : a ∈ all.filter (· != name) := (mem_sortStrings a _).mp ha
    have hne : a ≠ name := by simpa using (List.mem_filter.mp this).2
    rw [hb']; exact hne
  · intro n
    unfold bundleOrder
    simp only [List.mem_append, mem_sortStrings, List.mem_filter, List.mem_singleton]
    constructor
    · rintro (⟨h, _⟩ | h)
      · exact Or.inl h
      · exact Or.inr h
    · rintro (h | h)
      · by_cases hn : n = name
        · exact Or.inr hn
        · exact Or.inl ⟨h, by simpa using hn⟩
      · exact Or.inr h

/-- OS-9 / BASIC09 system modules the library may RUN without bundling them -/
def systemModules : List String := ["gfx", "gfx2", "syscall", "inkey"]

/-- Re-proved against the library as it is in /repo now: every RUN target inside the bundled
library is itself a library procedure or a system module, so a closed bundle never dangles. -/
theorem library_closed :
    Gen.Ecb.deps.all (fun d => d.2.all (fun t =>
      Gen.Ecb.procNames.contains t || systemModules.contains t.toLower)) = true := by
  decide +kernel

/-- …and the graph extracted by the real regular expressions covers exactly the procedures defined -/
theorem library_graph_covers_procs : Gen.Ecb.deps.map (·.1) = Gen.Ecb.procNames := by
  decide +kernel

/-- non-vacuity: a three-node graph where `c` is unreachable -/
example : closure (fun n => if n = "a" then ["b"] else []) 10 ["a"] [] = some ["a", "b"] := by
  decide

end CocoVerif.Props.C13
