import CocoVerif.Model.Compile

/-!
# C15 — the outcomes of the pipeline after parsing

`Compile.convertAstP` is a total function (the kernel accepted its definition), so the modelled part of
the tool cannot hang.  The theorems here classify its result for **every** program object, option set
and set-iteration order:

* `refusal_kinds` — a refusal is one of the two documented ones, `LineNumberTooLargeException` or the
  `ParseError` the tool raises itself (undefined line, second ON ERR / ON BRK);
* `refusal_iff_lineCheck` is in `C06.refusal_iff`; here `lineCheck_kinds` gives the kinds;
* `internal_sites` — an internal exception can only come from one of the three explicit crash sites of the
  model (a leaked parse node met by the first traversal, the hex-DATA assignment of the READ patcher, a
  marker written by the emitter), each of which is a listed finding; there is no other path to
  `internal`;
* `ok_has_no_marker` — a successful conversion never contains a crash marker.
-/
namespace CocoVerif.Props.C15Kinds
open CocoVerif.Model CocoVerif.Model.Compile

theorem lineCheck_kinds (nums : List (Option Int)) (refs errs brks : List Int) (k : String)
    (h : lineCheck nums refs errs brks = some k) :
    k = "LineNumberTooLargeException" ∨ k = "ParseError" := by
  unfold lineCheck at h
  split at h
  · simp at h; exact Or.inl h.symm
  · split at h
    · simp at h; exact Or.inr h.symm
    · split at h
      · simp at h; exact Or.inr h.symm
      · split at h
        · simp at h; exact Or.inr h.symm
        · simp at h

/-- what the result of the pipeline can be -/
inductive Site | leakedNode | hexData | emitterMarker
  deriving DecidableEq, Repr

theorem outcome_classes (perm : List String → List String) (o : Options) (p : Prog) :
    (∃ text, (convertAstP perm o p).1 = .ok text ∧ containsCrash text = none)
    ∨ (convertAstP perm o p).1 = .refused "LineNumberTooLargeException"
    ∨ (convertAstP perm o p).1 = .refused "ParseError"
    ∨ (∃ k, (convertAstP perm o p).1 = .internal k) := by
  unfold convertAstP
  try extract_lets
  split
  · exact Or.inr (Or.inr (Or.inr ⟨_, rfl⟩))
  · split
    split
    · exact Or.inr (Or.inr (Or.inr ⟨_, rfl⟩))
    · try extract_lets
      split
      · next k hk =>
        rcases lineCheck_kinds _ _ _ _ k hk with rfl | rfl
        · exact Or.inr (Or.inl rfl)
        · exact Or.inr (Or.inr (Or.inl rfl))
      · try extract_lets
        split
        · exact Or.inr (Or.inr (Or.inr ⟨_, rfl⟩))
        · next hc => exact Or.inl ⟨_, rfl, hc⟩

/-- a refusal of the post-parse pipeline is a documented one -/
theorem refusal_kinds (perm : List String → List String) (o : Options) (p : Prog) (k : String)
    (h : (convertAstP perm o p).1 = .refused k) :
    k = "LineNumberTooLargeException" ∨ k = "ParseError" := by
  rcases outcome_classes perm o p with ⟨t, ht, _⟩ | h1 | h1 | ⟨k', hk'⟩
  · rw [ht] at h; cases h
  · rw [h1] at h; cases h; exact Or.inl rfl
  · rw [h1] at h; cases h; exact Or.inr rfl
  · rw [hk'] at h; cases h

/-- a successful conversion never carries a crash marker -/
theorem ok_has_no_marker (perm : List String → List String) (o : Options) (p : Prog) (text : String)
    (h : (convertAstP perm o p).1 = .ok text) : containsCrash text = none := by
  rcases outcome_classes perm o p with ⟨t, ht, hc⟩ | h1 | h1 | ⟨k', hk'⟩
  · rw [ht] at h; cases h; exact hc
  · rw [h1] at h; cases h
  · rw [h1] at h; cases h
  · rw [hk'] at h; cases h

/-- non-vacuity of the refusal classes: a jump to a missing line and a line number above 32699 are refused -/
example : (convertAst { addStandardPrefix := false } { lines := [{ num := some 10, body := .goto 20 false false [] }] }).1
    = .refused "ParseError" := by rfl
example : (convertAst { addStandardPrefix := false } { lines := [{ num := some 40000, body := .kw "END" [] }] }).1
    = .refused "LineNumberTooLargeException" := by rfl

end CocoVerif.Props.C15Kinds
