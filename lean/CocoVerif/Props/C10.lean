import CocoVerif.Model.Compile
import CocoVerif.Props.C12

/-!
# C10 — every array and string gets exactly one declaration with the requested size

Stage-level theorems about the declaration-producing steps of the model; that the whole output
declares every identifier once, before use and with the right size is judged on the real
output by the C10 oracle (five known-finding classes).
-/
namespace CocoVerif.Props.C10
open CocoVerif.Model CocoVerif.Model.Compile

theorem mem_sortStrings (y : String) (xs : List String) : y ∈ Compile.sortStrings xs ↔ y ∈ xs := by
  rw [C12.sortStrings_eq]; exact Props.ProcBank.mem_sortStrings y xs

theorem nodup_sortStrings (xs : List String) : (Compile.sortStrings xs).Nodup := by
  rw [C12.sortStrings_eq]
  exact Props.ProcBank.nodup_of_sorted _ (Props.ProcBank.sorted_sortStrings xs)

/-- Implicit arrays: each array that is referenced but not DIMensioned gets exactly one implicit
declaration (no name twice, none that the source already declares), in ascending order. -/
theorem implicit_arrays_once (refs dimmed : List String) :
    let names := Compile.sortStrings (refs.filter (fun n => !dimmed.contains n))
    names.Nodup ∧ (∀ n, n ∈ names ↔ (n ∈ refs ∧ n ∉ dimmed)) := by
  refine ⟨nodup_sortStrings _, ?_⟩
  intro n
  simp [mem_sortStrings, List.mem_filter, List.contains_iff_mem]

/-- an implicit declaration is one-dimensional with eleven elements (0..10), carries the
pre-initialisation flag and (since fix 2c284fb) the requested default string size; the per-name size
map stays empty: the name is not DIMensioned in the source, so the default is what it gets -/
theorem implicit_dim_shape (init : Bool) (dflt : Int) (name : String) :
    (implicitDim init dflt name).body =
      .dim [.arr (.var name (name.endsWith "$")) (.mk true [.lit (.int 11) false]) (name.endsWith "$")]
        init dflt [] [] ∧ (implicitDim init dflt name).num = none := by
  simp [implicitDim]

/-- they are placed before every line of the program -/
theorem implicit_before_use (names : List String) (init : Bool) (dflt : Int) (lines : List Line) :
    (names.map (implicitDim init dflt) ++ lines).take names.length = names.map (implicitDim init dflt) := by
  simp

/-- String scalars: with a non-default string size every string variable that a visitor meets and
that the source does not DIMension gets exactly one `DIM v:STRING[n]` line with the requested size. -/
theorem string_alloc_once (vars dimmed : List String) (n : Int) :
    let names := Compile.sortStrings (vars.filter (fun v => v.endsWith "$" && !dimmed.contains v))
    names.Nodup ∧ (∀ v, v ∈ names ↔ (v ∈ vars ∧ v.endsWith "$" = true ∧ v ∉ dimmed))
    ∧ ∀ v ∈ names, Emit.line 0 (codeLine ("DIM " ++ v ++ ":STRING[" ++ toString n ++ "]"))
        = "DIM " ++ v ++ ":STRING[" ++ toString n ++ "]" := by
  refine ⟨nodup_sortStrings _, ?_, ?_⟩
  · intro v
    simp [mem_sortStrings, List.mem_filter, List.contains_iff_mem, and_assoc]
  · intro v _
    simp [Emit.line, codeLine, Emit.stmt, Emit.pretextOf, Emit.exprs, Emit.ind, Emit.join]
    rfl

/-- a source DIM statement receives the requested default and the size map, nothing else changes -/
theorem dim_storage_set (dflt : Int) (sizes : List (String × Int)) (vs : List Expr) (i : Bool) (d : Int)
    (sz : List (String × Int)) (p : List Expr) :
    setDimStorage dflt sizes (.dim vs i d sz p) = .dim vs i dflt sizes p := rfl

end CocoVerif.Props.C10
